import Witverif.Proofs.RustProfile
import Witverif.Proofs.SpecRoundtrip
import Witverif.Props.C01
/-!
# C05 — Rust guest bindings carry every value across the boundary unchanged

What the Rust backend contributes on top of the shared generator (C01–C04) is (a) one decision fed
into `abi.rs` — `is_list_canonical` — and (b) the rendering of every instruction as Rust text.
(a) is modelled (`RustProfile.rustCanon`) and its soundness is proved here for all types, all
memories and both pointer widths; (b) is validated by native execution of the generated code under
every option combination against the Lean host (`./check C05`, harness/bind-native).

The value round trips themselves are corollaries of the generic C01/C02 theorems instantiated at the
Rust configuration.  Where the generic theorem exists (flat lowering of memory-free types) the
corollary is unconditional; where it does not exist yet the corollary is stated `_partial` with the
missing generic statement as a *named hypothesis* (no axiom is introduced).  For memory-free types both
directions are unconditional (`rust_export_roundtrip_memfree`, `rust_import_roundtrip_memfree`).
-/
namespace Witverif.Props.C05
open Witverif.Abi Witverif.Abi.RustProfile

/-- the configuration under which `abi.rs` is driven by the Rust backend -/
def rustCfg (realloc : Bool) : Cfg := ⟨rustCanon, realloc⟩

/-- **The rule.** `is_list_canonical` accepts exactly the types all of whose bit patterns are values,
that contain no handle and no tuple. -/
theorem rust_canon_rule (t : Ty) :
    rustCanon t = true ↔ (allBitsValid t = true ∧ hasHandle t = false ∧ hasTuple t = false) := by
  simp [rustCanon, Bool.and_eq_true, and_assoc]

/-- Tuples (`repr(Rust)`: layout unspecified) and handles (wrappers with `Drop`) are never copied
bytewise, at any nesting depth below records and fixed-length lists. -/
theorem rust_canon_excludes (t : Ty) (h : rustCanon t = true) :
    reprC 4 t ≠ none ∧ reprC 8 t ≠ none ∧ hasHandle t = false ∧ hasTuple t = false := by
  refine ⟨?_, ?_, ((rust_canon_rule t).mp h).2.1, ((rust_canon_rule t).mp h).2.2⟩
  · rw [reprC_canonical 4 t h]; simp
  · rw [reprC_canonical 8 t h]; simp

/-- **Layout.** Whenever the Rust backend reinterprets a list buffer as `[T]` (canonical path), the
language fixes the representation of `T` (`#[repr(C)]` records, arrays, numeric primitives) and that
representation has exactly the canonical ABI's element size and alignment — both pointer widths. -/
theorem rust_canon_layout (p : Nat) (t : Ty) (h : rustCanon t = true) :
    reprC p t = some (elemSize p t, alignment p t) :=
  reprC_canonical p t h

/-- **No validation is skipped.** Elements on the canonical path never need a check: loading them
per the spec succeeds from any memory at any address, so the reinterpreted buffer denotes exactly
the list the spec's element-wise `load` yields, and the spec's own lift of the list cannot trap on
an element. -/
theorem rust_canon_never_traps (p : Nat) (m : Spec.Mem) (t : Ty) (a n : Nat) (h : rustCanon t = true) :
    (Spec.load p m t a).isSome = true ∧
    (Spec.loadMany (Spec.load p m t) (elemSize p t) a n).isSome = true :=
  ⟨load_total p m t a ((rust_canon_rule t).mp h).1,
   loadMany_total p m t ((rust_canon_rule t).mp h).1 n a⟩

/-- **Guest → host, flat, memory-free types (unconditional).**  With the Rust configuration (either
realloc mode) the operands the generated lowering leaves are, slot by slot, the core values the
canonical ABI specifies — instance of `C01.lower_flat_correct`. -/
theorem rust_lower_flat_is_spec (p : Nat) (hp : p = 4 ∨ p = 8) (realloc : Bool) (t : Ty) (v : Val)
    (hm : memFree t = true) (hv : Spec.hasTy t v = true) (ss : List Stmt) (es : List Expr)
    (h : lower (rustCfg realloc) 0 t (.inp 0) = .ok (ss, es)) :
    ss = [] ∧ evalList { p, inputs := [.v v] } [] es = some ((Spec.lowerFlat p t v {}).1.map MV.c) :=
  C01.lower_flat_correct p hp (rustCfg realloc) t v hm hv 0 (.inp 0) { p, inputs := [.v v] } [] {} ss es
    rfl rfl (by simp [eval]) h

/-- **The 16-parameter limit is the spec's.**  The model of `Resolve::wasm_signature` passes the
parameters of `f` through memory exactly when the canonical ABI's flattening of the parameter tuple
exceeds `MAX_FLAT_PARAMS` (both pointer widths; exports and imports). -/
theorem indirect_params_iff_spec (p : Nat) (hp : p = 4 ∨ p = 8) (v : Variant) (hv : v = .guestExport ∨ v = .guestImport)
    (f : Func) :
    (wasmSignature v f).indirectParams = HostCall.paramsIndirect p f.params := by
  have hl : (flattenList f.params).length = (Spec.flatten p (HostCall.paramsTy f.params)).length := by
    have := congrArg List.length (flattenList_erase p hp f.params)
    simpa [HostCall.paramsTy, Spec.flatten] using this
  rcases hv with rfl | rfl <;>
    simp [wasmSignature, HostCall.paramsIndirect, HostCall.maxFlatParams, maxFlatParams, hl] <;>
    split <;> simp_all

/-! ## `FlagsLift` as rendered by the Rust backend -/

/-- **Current rendering (`op as u32 as REPR`, /repo 1288bae): the spec's, full statement.**  For every
flags type the Rust backend supports (up to 128 members) and all core words, the flags value the
generated code builds is the canonical ABI's `flagsOfWords`. -/
theorem rust_flags_lift (n : Nat) (hn : n ≤ 128) (ws : List Nat) :
    flagsLiftRust false n ws = Spec.flagsOfWords n ws := by
  simp only [flagsLiftRust, Spec.flagsOfWords]
  apply List.map_congr_left
  intro i hi
  have hi' : i < n := by simpa using hi
  have hb := flagsReprBits_ge n hn
  rw [rustFlagsBits_testBit _ ws 0 i (by omega), Nat.testBit_eq_decide_div_mod_eq]
  simp only [Nat.zero_le, decide_true, Bool.true_and, Nat.sub_zero]
  cases h : decide (ws.getD (i / 32) 0 / 2 ^ (i % 32) % 2 = 1) <;> simp_all

/-- The rendering before 1288bae (`op as REPR`, finding `flags-lift-sign-extends-word`, repaired) did
not satisfy that statement: 33 flags, host sends only flag 31 (`[0x8000_0000, 0]`): `w0 as u64`
sign-extends and flag 32 arrives set.  Kept so that a regression to that rendering is recognised. -/
theorem rust_flags_lift_signext_full_false :
    ¬ ∀ (n : Nat) (ws : List Nat), ws.length = (flagsRepr n).count → (∀ w ∈ ws, w < 2 ^ 32) →
        flagsLiftRust true n ws = Spec.flagsOfWords n ws := by
  intro h
  have := h 33 [2 ^ 31, 0] (by decide) (by decide)
  revert this
  decide

/-- … it was right only for at most 32 members (one core word). -/
theorem rust_flags_lift_signext_partial (n w : Nat) (hn : n ≤ 32) :
    flagsLiftRust true n [w] = Spec.flagsOfWords n [w] := by
  have hb : flagsReprBits n ≤ 32 := by
    simp only [flagsReprBits]; split <;> (try split) <;> (try split) <;> omega
  have hnb : n ≤ flagsReprBits n := by
    simp only [flagsReprBits]; split <;> (try split) <;> (try split) <;> omega
  simp only [flagsLiftRust, Spec.flagsOfWords, rustFlagsBits, castI32_small _ _ hb, Nat.mul_zero, Nat.pow_zero,
    Nat.mul_one, Nat.mod_mod, Nat.or_zero, ↓reduceIte]
  apply List.map_congr_left
  intro i hi
  have hi' : i < n := by simpa using hi
  have h32 : i % 32 = i := Nat.mod_eq_of_lt (by omega)
  have hd : i / 32 = 0 := Nat.div_eq_of_lt (by omega)
  simp only [hd, List.getD_cons_zero, h32, Nat.testBit_mod_two_pow]
  have : i < flagsReprBits n := by omega
  rw [Nat.testBit_eq_decide_div_mod_eq]
  simp only [this, decide_true, Bool.true_and]
  cases h : decide (w / 2 ^ i % 2 = 1) <;> simp_all

/-! ## Round trips as corollaries of the generic theorems (named hypotheses where not yet proved) -/

/-- C01, lifting direction, at type `t`, as a statement (a theorem for memory-free types:
`C01.lift_flat_correct`; proved below for `string`; open for the other types that use linear memory):
whatever the spec lifts from core values, the generated lifting code evaluates to. -/
def LiftFlatCorrectAt (p : Nat) (c : Cfg) (t : Ty) : Prop :=
  ∀ (cs : List CVal) (m : Spec.Mem) (v : Val) (lvl : Nat) (xs : List Expr) (e : Expr) (env : Env),
    env.p = p → Spec.liftFlat p m t cs = some v →
    evalList env m xs = some (cs.map MV.c) → lift c lvl t xs = .ok e → eval env m e = some (.v v)

/-- the spec's own flat round trip at type `t` (C01 `roundtrip`), as a statement (a theorem for
memory-free types: `liftFlat_lowerFlat`; for `string`: `liftFlat_lowerFlat_string`) -/
def SpecRoundtripFlatAt (p : Nat) (t : Ty) : Prop :=
  ∀ (v : Val) (st : Spec.St), Spec.hasTy t v = true →
    Spec.liftFlat p (Spec.lowerFlat p t v st).2.mem t (Spec.lowerFlat p t v st).1 = some v

/-- **Host → guest (export arguments).**  If the host lowers `v : t` per the spec and the guest's
generated lifting code (Rust configuration) is run on those core values in the resulting memory,
the user function receives `v`.  `_partial`: a plain composition, conditional on the two statements
above *at `t`*; they are theorems for memory-free `t` (→ `rust_export_roundtrip_memfree`, unconditional)
and for `string` (→ `rust_export_roundtrip_string`, unconditional), and are not yet available for
lists / maps (C01 has `load_correct` / `store_correct_all` for all types; the flat list forms are open). -/
theorem rust_export_roundtrip_partial (p : Nat) (t : Ty) (hL : LiftFlatCorrectAt p (rustCfg true) t)
    (hR : SpecRoundtripFlatAt p t) (v : Val) (st : Spec.St) (hv : Spec.hasTy t v = true)
    (xs : List Expr) (e : Expr) (env : Env) (hp : env.p = p)
    (hx : evalList env (Spec.lowerFlat p t v st).2.mem xs = some ((Spec.lowerFlat p t v st).1.map MV.c))
    (hl : lift (rustCfg true) 0 t xs = .ok e) :
    eval env (Spec.lowerFlat p t v st).2.mem e = some (.v v) :=
  hL _ _ v 0 xs e env hp (hR v st hv) hx hl

/-- **Guest → host (import arguments, export results), memory-free types.**  `_partial`: conditional
on the spec's own round trip at `t` only (a theorem: see `rust_import_roundtrip_memfree`). -/
theorem rust_import_roundtrip_partial (p : Nat) (hp : p = 4 ∨ p = 8) (realloc : Bool)
    (t : Ty) (hR : SpecRoundtripFlatAt p t) (v : Val) (hm : memFree t = true) (hv : Spec.hasTy t v = true)
    (ss : List Stmt) (es : List Expr) (h : lower (rustCfg realloc) 0 t (.inp 0) = .ok (ss, es)) :
    ∃ cs, evalList { p, inputs := [.v v] } [] es = some (cs.map MV.c) ∧
      Spec.liftFlat p (Spec.lowerFlat p t v {}).2.mem t cs = some v :=
  ⟨(Spec.lowerFlat p t v {}).1, (rust_lower_flat_is_spec p hp realloc t v hm hv ss es h).2, hR v {} hv⟩

/-- both named statements hold at a type that uses linear memory: `string` -/
theorem lift_flat_correct_string (p : Nat) (c : Cfg) : LiftFlatCorrectAt p c .string := by
  intro cs m v lvl xs e env _ hl hx h
  simp only [lift, pure, Except.pure, Except.ok.injEq] at h
  subst h
  match cs, hl with
  | [a, n], hl =>
    simp only [Spec.liftFlat, Option.some.injEq] at hl
    subst hl
    simp only [List.map_cons, List.map_nil] at hx
    simp [pure1, eval, hx, opSem, pureSem]

theorem spec_roundtrip_flat_string (p : Nat) : SpecRoundtripFlatAt p .string := by
  intro v st hv
  cases v <;> simp [Spec.hasTy] at hv
  rename_i bs
  exact liftFlat_lowerFlat_string p bs st (by simpa [Spec.hasTy] using hv)

/-- **Host → guest for `string` — unconditional** (so the hypotheses of `rust_export_roundtrip_partial`
are satisfiable at a type that uses linear memory, and the corollary is not vacuous). -/
theorem rust_export_roundtrip_string (p : Nat) (v : Val) (st : Spec.St) (hv : Spec.hasTy .string v = true)
    (xs : List Expr) (e : Expr) (env : Env) (hp : env.p = p)
    (hx : evalList env (Spec.lowerFlat p .string v st).2.mem xs = some ((Spec.lowerFlat p .string v st).1.map MV.c))
    (hl : lift (rustCfg true) 0 .string xs = .ok e) :
    eval env (Spec.lowerFlat p .string v st).2.mem e = some (.v v) :=
  rust_export_roundtrip_partial p .string (lift_flat_correct_string p _) (spec_roundtrip_flat_string p) v st hv xs e env hp hx hl

/-- **Guest → host, memory-free types — unconditional.**  Whatever Rust code passes (import argument or
export result of a type that does not use linear memory: any nesting of records, tuples, flags, enums,
variants/options/results with joined slots, fixed-length lists, scalars, handles), the generated
lowering (Rust configuration, either realloc mode, both pointer widths) leaves core values from which
the host's `lift_flat` recovers exactly that value, whatever the memory contains.
(`C01.lower_flat_correct` ∘ `liftFlat_lowerFlat`.) -/
theorem rust_import_roundtrip_memfree (p : Nat) (hp : p = 4 ∨ p = 8) (realloc : Bool) (m : Spec.Mem)
    (t : Ty) (v : Val) (hm : memFree t = true) (hv : Spec.hasTy t v = true) (ss : List Stmt) (es : List Expr)
    (h : lower (rustCfg realloc) 0 t (.inp 0) = .ok (ss, es)) :
    ∃ cs, evalList { p, inputs := [.v v] } [] es = some (cs.map MV.c) ∧ Spec.liftFlat p m t cs = some v :=
  ⟨(Spec.lowerFlat p t v {}).1, (rust_lower_flat_is_spec p hp realloc t v hm hv ss es h).2,
   liftFlat_lowerFlat p m v t {} hm hv⟩

/-- **Host → guest, memory-free types — unconditional.**  The host lowers `v` per the spec; whatever
operands carry those core values into the generated lifting code (flat parameters, loads), the
expression it builds (Rust configuration, both pointer widths, any nesting level and block frames)
evaluates to `v`: the user function receives the value the host sent.
(`C01.lift_flat_correct` ∘ `liftFlat_lowerFlat`; flags of more than 32 members are in scope of the
model `lift`, their *rendering* is `rust_flags_lift`.) -/
theorem rust_export_roundtrip_memfree (p : Nat) (hp : p = 4 ∨ p = 8) (realloc : Bool) (t : Ty) (v : Val)
    (hm : memFree t = true) (hv : Spec.hasTy t v = true) (st : Spec.St)
    (lvl : Nat) (xs : List Expr) (env : Env) (m : Spec.Mem) (e : Expr) (hp' : env.p = p)
    (hden : Denotes env m xs (Spec.lowerFlat p t v st).1) (h : lift (rustCfg realloc) lvl t xs = .ok e) :
    ∀ fr, eval (env.withFrames fr) m e = some (.v v) := by
  intro fr
  rw [C01.lift_flat_correct p hp (rustCfg realloc) t hm lvl xs env m _ e hp' (lowerFlat_wf p v t st hm hv).2 hden h fr,
    liftFlat_lowerFlat p m v t st hm hv]
  rfl

/-- the spec's own round trip, memory-free types (so `SpecRoundtripFlat` is only open for types that
use linear memory) -/
theorem spec_roundtrip_flat_memfree (p : Nat) (m : Spec.Mem) (t : Ty) (v : Val) (st : Spec.St)
    (hm : memFree t = true) (hv : Spec.hasTy t v = true) :
    Spec.liftFlat p m t (Spec.lowerFlat p t v st).1 = some v :=
  liftFlat_lowerFlat p m v t st hm hv

/-! ## Non-vacuity -/

/-- the string corollary at a concrete instance: host lowers "hi" on wasm32, the generated lift of the two
flat parameters yields "hi" -/
example :
    ∃ e, lift (rustCfg true) 0 .string [.inp 0, .inp 1] = .ok e ∧
      eval { p := 4, inputs := (Spec.lowerFlat 4 .string (.str [104, 105]) {}).1.map MV.c }
        (Spec.lowerFlat 4 .string (.str [104, 105]) {}).2.mem e = some (.v (.str [104, 105])) :=
  ⟨_, rfl, rust_export_roundtrip_string 4 (.str [104, 105]) {} (by decide) [.inp 0, .inp 1] _ _ rfl rfl rfl⟩


/-- `record { a: u8, b: list<u32, 2>, c: f64 }` is canonical, its `#[repr(C)]` layout is 24/8 on both
widths; a record containing a tuple or a handle is not canonical. -/
example :
    rustCanon (.record [.u8, .flist .u32 2, .f64]) = true ∧
    reprC 4 (.record [.u8, .flist .u32 2, .f64]) = some (24, 8) ∧
    elemSize 8 (.record [.u8, .flist .u32 2, .f64]) = 24 ∧
    rustCanon (.record [.u8, .tuple [.u8]]) = false ∧ allBitsValid (.record [.u8, .tuple [.u8]]) = true ∧
    rustCanon (.record [.own]) = false ∧ allBitsValid (.record [.own]) = true := by decide

example : (wasmSignature .guestExport ⟨false, List.replicate 17 .u32, none⟩).indirectParams = true ∧
    HostCall.paramsIndirect 8 (List.replicate 16 .u32) = false := by decide

end Witverif.Props.C05
