import Witverif.Proofs.AsyncFilter
/-!
# C17 — Async selection directives select exactly the documented functions

Property theorems only (helper lemmas live in `Proofs/AsyncFilter.lean`).
Model: `Witverif.Text.AsyncFilter` (tied to `crates/core/src/async_.rs` by the `asyncfilter`
correspondence run, and to the Rust / C / MoonBit generators by the `asyncsel` run).
Specification: `Witverif.Text.AsyncFilterSpec` (`matches`, `expected` = first matching directive
via `List.find?`, `decider` via `List.findIdx?`, `firstUnused`, monitor `check`).
-/
namespace Witverif.Props.C17
open Witverif.Text Witverif.Text.AsyncFilter Witverif.Text.AsyncFilterSpec

/-- `is_async` answers with the `enabled` flag of the **first** directive (in the order given)
that matches the function's qualified name and direction, and with the WIT declaration when no
directive matches — for every directive list, every state of the used-set, every function. -/
theorem is_async_first_match (s : Set) (f : Func) :
    (s.isAsync f).2 =
      match s.opts.find? (fun d => «matches» d f) with
      | some d => d.enabled
      | none => f.kind.declaredAsync :=
  isAsync_answer s f

/-- The answer does not depend on what was asked before (the used-set is write-only for `is_async`). -/
theorem is_async_state_independent (s s' : Set) (h : s.opts = s'.opts) (f : Func) :
    (s.isAsync f).2 = (s'.isAsync f).2 := by
  rw [isAsync_answer, isAsync_answer, h]

/-- A query leaves the directives alone and marks exactly the deciding directive as used. -/
theorem is_async_marks_decider (s : Set) (f : Func) :
    (s.isAsync f).1.opts = s.opts ∧
    ∀ j, j ∈ (s.isAsync f).1.used ↔ j ∈ s.used ∨ decider s.opts f = some j :=
  isAsync_state s f

/-- Every directive text is rendered back unchanged: `Display ∘ parse = id` (so `debug_opts`
echoes the command line, and the error of `ensure_all_used` names the directive as typed). -/
theorem display_parse_roundtrip (s : List Char) : (parse s).display = s := display_parse s

/-- `parse ∘ Display = id` on the directives the documented syntax can denote. -/
theorem parse_display_roundtrip (d : Async) (h : WF d = true) : parse d.display = d :=
  parse_display_of_wf d h

/-- … and `parse` only ever produces such directives; together: the documented syntax is
unambiguous — every text denotes exactly one well-formed directive, the one `parse` returns. -/
theorem parse_wellformed (s : List Char) : WF (parse s) = true := parse_wf s

theorem directive_syntax_unambiguous (s : List Char) (d : Async) :
    (WF d = true ∧ d.display = s) ↔ d = parse s := by
  constructor
  · rintro ⟨hw, rfl⟩; exact (parse_display_of_wf d hw).symm
  · rintro rfl; exact ⟨parse_wf s, display_parse s⟩

/-- The full statement `∀ d, parse d.display = d` is false for directive values that no text
denotes (they can only be built by deserialising the private struct, never by `push`/`parse`):
`Function("all")` prints as `all`, which is the `All` filter. -/
theorem parse_display_roundtrip_full_false : ¬ ∀ d : Async, parse d.display = d := by
  intro h
  have := h ⟨true, .function sAll⟩
  revert this
  decide

/-- `ensure_all_used` is exactly "the first non-`all` directive not in the used set, if any". -/
theorem ensure_all_used_first_unused (s : Set) :
    s.ensureOut = expectedEnsure s.opts s.used.contains :=
  ensureAllUsed_eq s

/-- Soundness and completeness of the used-set over any sequence of queries from any state:
index `j` is in the set afterwards iff it was before or directive `j` is the first match of one
of the queried functions.  The answers are the first-match answers. -/
theorem used_set_sound (qs : List Func) :
    ∀ s : Set,
      (s.run (qs.map .query)).1.opts = s.opts ∧
      (∀ j, j ∈ (s.run (qs.map .query)).1.used ↔ j ∈ s.used ∨ usedBy s.opts qs j = true) ∧
      (s.run (qs.map .query)).2 = qs.map (fun f => .bool (expected s.opts f)) := by
  induction qs with
  | nil => intro s; simp [Set.run, usedBy]
  | cons f qs ih =>
    intro s
    obtain ⟨h1, h2⟩ := isAsync_state s f
    obtain ⟨i1, i2, i3⟩ := ih (s.isAsync f).1
    simp only [List.map_cons, Set.run, Set.step]
    refine ⟨by rw [i1, h1], ?_, ?_⟩
    · intro j
      rw [i2 j, h2 j, h1]
      simp only [usedBy, List.any_cons, Bool.or_eq_true, beq_iff_eq]
      constructor
      · rintro ((h | h) | h)
        · exact Or.inl h
        · exact Or.inr (Or.inl h)
        · exact Or.inr (Or.inr h)
      · rintro (h | h | h)
        · exact Or.inl (Or.inl h)
        · exact Or.inl (Or.inr h)
        · exact Or.inr h
    · rw [i3, h1, isAsync_answer]

/-- What the Rust generator reports for a world: exactly `expectedReject` — an error naming the
first non-`all` directive that is not the first match of any function of the world, else `Ok`. -/
theorem generate_rejects_exactly (ds : List Async) (world : List Func) :
    (Set.afterGenerating ⟨ds, []⟩ world).ensureOut = expectedReject ds world := by
  obtain ⟨h1, h2, _⟩ := used_set_sound world ⟨ds, []⟩
  rw [ensureAllUsed_eq]
  unfold Set.afterGenerating expectedReject expectedEnsure
  rw [h1]
  rw [firstUnused_congr ds _ (usedBy ds world)]
  intro i
  have := h2 i
  simp only [List.not_mem_nil, false_or] at this
  cases hu : usedBy ds world i
  · simp; intro hm; rw [this.mp hm] at hu; cases hu
  · simp; exact this.mpr hu

/-- The verdict does not depend on the order in which a generator visits the functions of the
world, nor on visiting some of them more than once (Rust asks twice about every export). -/
theorem generate_visit_order_irrelevant (ds : List Async) (w1 w2 : List Func)
    (h : ∀ f, f ∈ w1 ↔ f ∈ w2) :
    (Set.afterGenerating ⟨ds, []⟩ w1).ensureOut = (Set.afterGenerating ⟨ds, []⟩ w2).ensureOut := by
  rw [generate_rejects_exactly, generate_rejects_exactly]
  unfold expectedReject
  have : usedBy ds w1 = usedBy ds w2 := by
    funext i
    rw [Bool.eq_iff_iff]
    simp only [usedBy, List.any_eq_true]
    constructor
    · rintro ⟨f, hf, hd⟩; exact ⟨f, (h f).mp hf, hd⟩
    · rintro ⟨f, hf, hd⟩; exact ⟨f, (h f).mpr hf, hd⟩
  rw [this]

/-- A non-`all` directive that matches no function of the world makes the run fail
(whatever else is in the list, whatever order the functions are visited in). -/
theorem ensure_all_used_rejects_unmatched (ds : List Async) (world : List Func) (d : Async)
    (hd : d ∈ ds) (hna : d.filter ≠ .all) (hno : ∀ f ∈ world, «matches» d f = false) :
    (Set.afterGenerating ⟨ds, []⟩ world).ensureAllUsed ≠ none := by
  intro hnone
  have h := generate_rejects_exactly ds world
  unfold Set.ensureOut at h
  rw [hnone] at h
  -- the spec side says: some directive is unused
  obtain ⟨i, hi, hget⟩ := List.mem_iff_getElem.mp hd
  have hunused : usedBy ds world i = false := by
    unfold usedBy
    rw [List.any_eq_false]
    intro f hf
    simp only [beq_iff_eq, decider]
    intro hdec
    have := List.findIdx?_eq_some_iff_getElem.mp hdec
    obtain ⟨hlt, hm, _⟩ := this
    have hdf := hno f hf
    rw [← hget] at hdf
    simp [hdf] at hm
  have hfind : (ds.zipIdx.find? (fun p => p.1.filter != .all && !usedBy ds world p.2)).isSome := by
    rw [List.find?_isSome]
    refine ⟨(d, i), ?_, ?_⟩
    · rw [List.mem_zipIdx_iff_getElem?]; simp [hget ▸ List.getElem?_eq_getElem hi]
    · simp [hunused, hna]
  unfold expectedReject expectedEnsure firstUnused at h
  cases hf : ds.zipIdx.find? (fun p => p.1.filter != .all && !usedBy ds world p.2) with
  | none => rw [hf] at hfind; simp at hfind
  | some p => rw [hf] at h; simp at h

/-- `all` / `-all` are never rejected: an error always names a non-`all` directive of the list,
and a list of only `all` directives is accepted in every state (even if nothing was queried). -/
theorem all_never_rejected (s : Set) :
    (∀ m, s.ensureAllUsed = some m → ∃ d ∈ s.opts, d.filter ≠ .all ∧ m = sUnused ++ d.display) ∧
    ((∀ d ∈ s.opts, d.filter = .all) → s.ensureAllUsed = none) := by
  unfold Set.ensureAllUsed
  rw [ensureLoop_eq]
  constructor
  · intro m hm
    cases hf : (s.opts.zipIdx 0).find? (fun p => p.1.filter != .all && !s.used.contains p.2) with
    | none => rw [hf] at hm; simp at hm
    | some p =>
      rw [hf] at hm
      have hp := List.find?_some hf
      have hmem := List.mem_of_find?_eq_some hf
      simp at hm hp
      refine ⟨p.1, ?_, hp.1, hm.symm⟩
      have := List.mem_zipIdx hmem
      rw [this.2.2]; exact List.getElem_mem _
  · intro hall
    rw [Option.map_eq_none_iff, List.find?_eq_none]
    intro p hp
    have := List.mem_zipIdx hp
    have hpm : p.1 ∈ s.opts := by rw [this.2.2]; exact List.getElem_mem _
    simp [hall p.1 hpm]

/-- Directives given structurally for a history: what each `push` adds. -/
def pushedOf : List Set.Op → List Async
  | [] => []
  | .push d :: ops => parse d :: pushedOf ops
  | _ :: ops => pushedOf ops

/-- Full statement over histories: every observable outcome of every finite sequence of
`is_async` / `ensure_all_used` / `any_enabled` / `debug_opts` / `push` operations, from any
state, satisfies the C17 monitor (first-match answers, used = deciders so far, rejection = first
unused non-`all` directive, echo of the directive texts). -/
theorem history_spec (ops : List Set.Op) :
    ∀ (s : Set) (u : List Nat), (∀ j, j ∈ s.used ↔ j ∈ u) →
      check s.opts u (pushedOf ops) ops (s.run ops).2 = true := by
  induction ops with
  | nil => intro s u _; simp [Set.run, check]
  | cons op ops ih =>
    intro s u hu
    cases op with
    | query f =>
      obtain ⟨h1, h2⟩ := isAsync_state s f
      simp only [Set.run, Set.step, check, pushedOf, isAsync_answer, beq_self_eq_true, Bool.true_and]
      have := ih (s.isAsync f).1 (match decider s.opts f with | some i => i :: u | none => u) (by
        intro j; rw [h2 j, hu j]
        cases hd : decider s.opts f with
        | none => simp
        | some i => simp [eq_comm, or_comm])
      rw [h1] at this
      exact this
    | ensure =>
      simp only [Set.run, Set.step, check, pushedOf]
      rw [ensureAllUsed_eq]
      have : expectedEnsure s.opts s.used.contains = expectedEnsure s.opts u.contains := by
        unfold expectedEnsure
        rw [firstUnused_congr s.opts s.used.contains u.contains]
        intro i; simp [hu i]
      simp [this]
      exact ih s u hu
    | anyEnabled =>
      simp only [Set.run, Set.step, check, pushedOf, Set.anyEnabled, beq_self_eq_true, Bool.true_and]
      exact ih s u hu
    | debugOpts =>
      simp only [Set.run, Set.step, check, pushedOf, Set.debugOpts, beq_self_eq_true, Bool.true_and]
      exact ih s u hu
    | push d =>
      simp only [Set.run, Set.step, check, pushedOf]
      exact ih (s.push d) u hu

/-- Corollary for the statement as given: a fresh set built by `push`ing directive texts. -/
theorem history_spec_fresh (ops : List Set.Op) :
    check [] [] (pushedOf ops) ops (Set.empty.run ops).2 = true :=
  history_spec ops Set.empty [] (by intro j; simp [Set.empty])

/-! ### Non-vacuity -/

/-- first match wins: `-import:k#f` before `k#f`; `export:` does not apply to an import. -/
example :
    let ds := ["-import:k#f", "k#f", "export:k#h", "all"].map (fun s => parse s.toList)
    let f : Func := ⟨some "k".toList, "f".toList, .freestanding, true⟩
    let fe : Func := { f with isImport := false }
    let h : Func := ⟨some "k".toList, "h".toList, .asyncFreestanding, true⟩
    (((⟨ds, []⟩ : Set).isAsync f).2, ((⟨ds, []⟩ : Set).isAsync fe).2,
      ((⟨ds, []⟩ : Set).isAsync h).2, decider ds h) = (false, true, true, some 3) := by decide

/-- no directive: the WIT declaration decides. -/
example : ((Set.empty.isAsync ⟨none, "wg".toList, .asyncFreestanding, false⟩).2,
           (Set.empty.isAsync ⟨none, "wf".toList, .constructor, false⟩).2) = (true, false) := by decide

/-- rejection: `import:wf` against a world that only exports `wf`; a shadowed duplicate; `all` is fine. -/
example :
    let w : List Func := [⟨none, "wf".toList, .freestanding, false⟩]
    (expectedReject [parse "import:wf".toList] w,
     expectedReject [parse "wf".toList, parse "-wf".toList] w,
     expectedReject [parse "export:wf".toList, parse "-all".toList] w,
     expectedReject [parse "all".toList] []) =
    (.err "unused async option: import:wf".toList, .err "unused async option: -wf".toList, .ok, .ok) := by
  decide

example : (parse "-export:a:b/i@1.0.0#[method]r.m".toList) =
    ⟨false, .export "a:b/i@1.0.0#[method]r.m".toList⟩ ∧
    (parse "--all".toList) = ⟨false, .function "-all".toList⟩ ∧
    (parse "import:all".toList) = ⟨true, .import "all".toList⟩ := by decide

/-- a history with a `push` after queries: the late directive is unused although it would match. -/
example :
    let f : Func := ⟨none, "f".toList, .freestanding, true⟩
    (Set.empty.run [.query f, .push "f".toList, .ensure, .query f, .ensure, .debugOpts]).2 =
      [.bool false, .unit, .err "unused async option: f".toList, .bool true, .ok, .strs ["f".toList]] := by
  decide

end Witverif.Props.C17
