import Witverif.Proofs.MacroDeps
/-!
# C32 — the `generate!` macro tracks every WIT file it reads

Property theorems only (helper lemmas: `Proofs/MacroDeps.lean`).
Model: `Witverif.Text.MacroDeps` — `Config::parse` (source options), `parse_source`, `Config::expand`
of `crates/guest-rust/macro/src/lib.rs` over a file-system oracle, together with a model of what
wit-parser 0.257's `Resolve::push_path` reads and reports.  Tied to the code by the `macrodeps`
correspondence run (real `cargo check` of crates using `wit_bindgen::generate!`; the `.d` dep-info
files, the files opened under `strace`, and rebuild-on-touch are compared with the model).

Full statement (quantifier of C32: all file systems, all crate roots, all invocation forms):

    theorem read_subset_tracked :
      ∀ fs root inv ok files, (run fs root inv ok).tracked = some files →
        ∀ p ∈ filesRead fs root inv ok, p ∈ filesTracked fs root inv ok

It is FALSE of the current code: a dependency stored in its binary encoding (`wit/deps/x.wasm`) is
read and decoded by `parse_deps_dir`, which then `continue`s without recording its path, so the macro
never emits an `include_bytes!` for it (`read_subset_tracked_full_false`; reproduced on the real
macro: editing such a file does not trigger a rebuild).  `untracked_reads_are_encoded_deps` proves this
is the only gap; `read_subset_tracked_partial` is the statement under the exact extra hypothesis.
-/
namespace Witverif.Props.C32
open Witverif.Text Witverif.Text.MacroDeps Witverif.Text.MacroDepsSpec

/-- The full-strength statement of C32 on the model. -/
def FullStatement : Prop :=
  ∀ (fs : FS) (root : RPath) (inv : Invocation) (ok : Bool) (files : List RPath),
    (run fs root inv ok).tracked = some files →
      readSubsetTracked (filesRead fs root inv ok) (filesTracked fs root inv ok) = true

/-- crate at `/c`, `wit/w.wit` (text) and `wit/deps/d.wasm` (binary-encoded package) -/
def witnessFS : FS := [
  ⟨[], "c".toList, .dir⟩,
  ⟨["c".toList], "wit".toList, .dir⟩,
  ⟨["wit".toList, "c".toList], "w.wit".toList, .file .wit⟩,
  ⟨["wit".toList, "c".toList], "deps".toList, .dir⟩,
  ⟨["deps".toList, "wit".toList, "c".toList], "d.wasm".toList, .file .wasmPkg⟩]

/-- `generate!()` in that crate succeeds, reads both files, tracks only `w.wit`. -/
theorem witness_run :
    run witnessFS ["c".toList] (.bare none) true =
      ⟨[["w.wit".toList, "wit".toList, "c".toList],
        ["d.wasm".toList, "deps".toList, "wit".toList, "c".toList]],
       [["wit".toList, "c".toList], ["deps".toList, "wit".toList, "c".toList]],
       some [["w.wit".toList, "wit".toList, "c".toList]]⟩ := by decide

/-- Negation of the full statement, with the concrete witness. -/
theorem read_subset_tracked_full_false : ¬ FullStatement := by
  intro h
  have := h witnessFS ["c".toList] (.bare none) true _ (by rw [witness_run])
  revert this
  decide

/-- The gap is exactly the binary-encoded `deps/` entries: on a successful expansion every file
read is tracked, or it is a wasm-encoded package directly inside a `deps` directory (named
`*.wit`, `*.wat` or `*.wasm`).  All file systems, roots, invocation forms; no size bound. -/
theorem untracked_reads_are_encoded_deps (fs : FS) (root : RPath) (inv : Invocation) (ok : Bool)
    (files : List RPath) (h : (run fs root inv ok).tracked = some files) :
    ∀ p ∈ filesRead fs root inv ok, p ∈ files ∨ EncodedDepRead fs p :=
  (run_good fs root inv ok files h).2

/-- No binary-encoded package sits directly in a directory named `deps` under a dependency file
name. -/
def NoEncodedDeps (fs : FS) : Prop :=
  ∀ e ∈ fs, e.kind = .file .wasmPkg → e.parent.head? = some depsName → isDepFileName e.name = false

/-- C32 under the exact extra hypothesis: whenever the macro expands successfully, every file whose
contents were read is among the files it emits an `include_bytes!` for. -/
theorem read_subset_tracked_partial (fs : FS) (root : RPath) (inv : Invocation) (ok : Bool)
    (hfs : NoEncodedDeps fs) (files : List RPath) (h : (run fs root inv ok).tracked = some files) :
    ∀ p ∈ filesRead fs root inv ok, p ∈ filesTracked fs root inv ok := by
  intro p hp
  have ht : filesTracked fs root inv ok = files := by simp [filesTracked, h]
  rw [ht]
  rcases untracked_reads_are_encoded_deps fs root inv ok files h p hp with hin | ⟨n, d, rfl, hn, hmem⟩
  · exact hin
  · obtain ⟨e, he, hpar, hname, hkind⟩ := mem_children.mp hmem
    have := hfs e he hkind (by simp [hpar])
    rw [hname, hn] at this
    exact absurd this (by simp)

/-- the same, phrased with the spec-side monitor that the check evaluates on the real macro's
observed reads (strace) and dep-info -/
theorem read_subset_tracked_partial_monitor (fs : FS) (root : RPath) (inv : Invocation) (ok : Bool)
    (hfs : NoEncodedDeps fs) (files : List RPath) (h : (run fs root inv ok).tracked = some files) :
    readSubsetTracked (filesRead fs root inv ok) (filesTracked fs root inv ok) = true := by
  simp only [readSubsetTracked, List.all_eq_true, List.contains_iff_mem]
  exact read_subset_tracked_partial fs root inv ok hfs files h

/-- Tightness: nothing is tracked that was not read (no spurious rebuild triggers). -/
theorem tracked_subset_read (fs : FS) (root : RPath) (inv : Invocation) (ok : Bool)
    (files : List RPath) (h : (run fs root inv ok).tracked = some files) :
    ∀ p ∈ files, p ∈ filesRead fs root inv ok :=
  (run_good fs root inv ok files h).1

/-- `inline:` without `path:` in a crate that has no `wit` directory touches no file
(the `default.exists()` probe). -/
theorem inline_without_wit_dir_reads_nothing (fs : FS) (root : RPath) (ok later : Bool)
    (h : lookup fs (witName :: root) = none) :
    (run fs root (.braces [.inline ok]) later).reads = [] := by
  simp only [run, sourceOf, foldOpts, stepOpt, parseSource, h, Option.isSome_none,
    Bool.false_eq_true, if_false]
  cases ok <;> cases later <;> rfl

/-- `path:` and `inline:` may be written in either order: same source, hence same reads and
same tracked files. -/
theorem source_opts_order_irrelevant (ps : List PathArg) (ok : Bool) :
    sourceOf (.braces [.path ps, .inline ok]) = sourceOf (.braces [.inline ok, .path ps]) := by
  rfl

/-- A second `path:` (or a second `inline:`) is rejected whatever came before; nothing is read. -/
theorem second_source_rejected (fs : FS) (root : RPath) (later : Bool) (ps qs : List PathArg)
    (rest pre : List SrcOpt) (hpre : ∀ o ∈ pre, ∃ ok, o = .inline ok) :
    run fs root (.braces (pre ++ .path ps :: .path qs :: rest)) later = ⟨[], [], none⟩ := by
  have key : ∀ (pre : List SrcOpt) (s : Option Source), (∀ o ∈ pre, ∃ ok, o = .inline ok) →
      foldOpts s (pre ++ .path ps :: .path qs :: rest) = none := by
    intro pre
    induction pre with
    | nil =>
      intro s _
      simp only [List.nil_append, foldOpts]
      rcases s with _ | (_ | ⟨i, _ | _⟩) <;> simp [stepOpt]
    | cons o os ih =>
      intro s ho
      obtain ⟨b, rfl⟩ := ho o (by simp)
      simp only [List.cons_append, foldOpts]
      cases hs : stepOpt s (.inline b) with
      | none => rfl
      | some s' => exact ih s' (fun x hx => ho x (by simp [hx]))
  simp [run, sourceOf, key pre none hpre]

/-- `Config::expand`: rustc sees exactly one `include_bytes!` per tracked file, with exactly that
path, provided no path contains the raw-string terminator `"#`. -/
theorem expand_emits_one_include_per_tracked (files : List (List Char))
    (hsafe : ∀ f ∈ files, rawSafe f = true) (fuel : Nat) (hfuel : files.length ≤ fuel) :
    includedPaths fuel (expandIncludes files) = some files := by
  induction files generalizing fuel with
  | nil => cases fuel <;> simp [expandIncludes, includedPaths]
  | cons f fs ih =>
    cases fuel with
    | zero => simp at hfuel
    | succ fuel =>
      have hrec := ih (fun g hg => hsafe g (by simp [hg])) fuel (by simp at hfuel; omega)
      have hf := hsafe f (by simp)
      have e1 : expandIncludes (f :: fs)
          = anchorOpen ++ (f ++ ('"' :: '#' :: (anchorClose ++ expandIncludes fs))) := by
        simp [expandIncludes, includePre_eq, includePost_eq]
      have hne : expandIncludes (f :: fs) ≠ [] := by
        rw [e1]; intro h
        exact anchorOpen_ne_nil (List.append_eq_nil_iff.mp h).1
      cases hx : expandIncludes (f :: fs) with
      | nil => exact absurd hx hne
      | cons c cs =>
        simp only [includedPaths]
        rw [← hx, e1, stripPrefix_append]
        simp only [rawBody_append f _ hf, stripPrefix_append, hrec]

/-- … and the side condition is necessary: with `"#` in a path rustc does not see that path. -/
theorem expand_needs_raw_safe :
    includedPaths 1 (expandIncludes ["/a\"#b/w.wit".toList]) ≠ some ["/a\"#b/w.wit".toList] := by
  decide

/-! ## Non-vacuity -/

/-- a layout with several packages: main directory, a directory dependency (with an ignored nested
`deps/`), a single-file dependency, an ignored non-WIT file -/
def sampleFS : FS := [
  ⟨[], "c".toList, .dir⟩,
  ⟨["c".toList], "wit".toList, .dir⟩,
  ⟨["wit".toList, "c".toList], "w.wit".toList, .file .wit⟩,
  ⟨["wit".toList, "c".toList], "notes.txt".toList, .file .bad⟩,
  ⟨["wit".toList, "c".toList], "deps".toList, .dir⟩,
  ⟨["deps".toList, "wit".toList, "c".toList], "b".toList, .dir⟩,
  ⟨["b".toList, "deps".toList, "wit".toList, "c".toList], "i.wit".toList, .file .wit⟩,
  ⟨["b".toList, "deps".toList, "wit".toList, "c".toList], "deps".toList, .dir⟩,
  ⟨["deps".toList, "b".toList, "deps".toList, "wit".toList, "c".toList], "n.wit".toList, .file .bad⟩,
  ⟨["deps".toList, "wit".toList, "c".toList], "a.wit".toList, .file .wit⟩]

/-- the hypotheses of the partial theorem hold for it and the run succeeds with three files,
dependencies in sorted order after the main package -/
example : NoEncodedDeps sampleFS := by
  intro e he hk
  simp only [sampleFS, List.mem_cons, List.not_mem_nil, or_false] at he
  rcases he with rfl | rfl | rfl | rfl | rfl | rfl | rfl | rfl | rfl | rfl <;> simp at hk

example : (run sampleFS ["c".toList] (.braces [.inline true, .path [⟨false, ["wit".toList]⟩]]) true).tracked
    = some [["w.wit".toList, "wit".toList, "c".toList],
            ["a.wit".toList, "deps".toList, "wit".toList, "c".toList],
            ["i.wit".toList, "b".toList, "deps".toList, "wit".toList, "c".toList]] := by decide

/-- `..`, `.` and absolute paths resolve as the OS does -/
example : (run sampleFS ["c".toList] (.bare (some ⟨false, ["wit".toList, "..".toList, ".".toList, "wit".toList, "deps".toList, "a.wit".toList]⟩)) true).tracked
    = some [["a.wit".toList, "deps".toList, "wit".toList, "c".toList]] := by decide

/-- … and stepping through something that is not a directory fails (nothing read, nothing tracked) -/
example : run sampleFS ["c".toList] (.bare (some ⟨false, ["wit".toList, "w.wit".toList, "..".toList]⟩)) true
    = ⟨[], [], none⟩ := by decide

/-- an error anywhere (here: the inline text does not parse) tracks nothing although files were read -/
example : (run sampleFS ["c".toList] (.braces [.inline false]) true).tracked = none ∧
    (run sampleFS ["c".toList] (.braces [.inline false]) true).reads.length = 3 := by decide

example : (run witnessFS ["c".toList] (.braces [.path [⟨false, ["wit".toList]⟩], .path []]) true)
    = ⟨[], [], none⟩ := second_source_rejected _ _ _ _ _ _ [] (by simp)

example : includedPaths 2 (expandIncludes ["/c/wit/w.wit".toList, "/c/wit/deps/a\".wit".toList])
    = some ["/c/wit/w.wit".toList, "/c/wit/deps/a\".wit".toList] :=
  expand_emits_one_include_per_tracked _ (by decide) 2 (by decide)

end Witverif.Props.C32
