import Witverif.Proofs.Realloc
/-!
# C24 — Guest allocation entry points honour size, alignment and contents

Property theorems only (helper lemmas: `Proofs/Realloc.lean`).  Model: `Witverif.Text.Realloc`
(tied to `crates/guest-rust/src/rt/mod.rs`, `rt/wit_bindgen_cabi_realloc.rs` and the
`cabi_dealloc` template of `crates/rust/src/lib.rs` by the `realloc` correspondence run).
The allocator is a parameter `A`; `Lawful A` is the `GlobalAlloc` contract (hypothesis).
-/
namespace Witverif.Props.C24
open Witverif.Text.Realloc Witverif.Text.ReallocSpec

/-- Every pointer `cabi_realloc` *returns* is non-null and aligned as requested, for every request
whose old block (if any) is a live block of that layout.  (Allocation failure is an abort, the
documented-precondition violation `old_len ≠ 0 ∧ new_len = 0` an assertion failure: neither
returns.) -/
theorem cabi_realloc_nonnull_aligned (A : Allocator) (hA : Lawful A) (h : Heap)
    (oldPtr oldLen align newLen p : Nat) (ha : ValidAlign align)
    (hold : oldLen ≠ 0 → ⟨oldPtr, oldLen, align⟩ ∈ h.live)
    (hr : (cabiRealloc A h oldPtr oldLen align newLen).1 = .ret p) :
    p ≠ 0 ∧ align ∣ p := by
  unfold cabiRealloc at hr
  by_cases h0 : oldLen = 0
  · by_cases hn : newLen = 0
    · simp [h0, hn] at hr
      subst hr
      exact ⟨validAlign_pos ha, Nat.dvd_refl _⟩
    · simp only [h0, hn, if_true, if_false] at hr
      by_cases hz : (A.exec h (.alloc newLen align)).1 = 0
      · simp [hz] at hr
      · simp only [hz, if_false, Out.ret.injEq] at hr
        subst hr
        exact ⟨hz, (hA.alloc_ok h newLen align hn ha hz).1⟩
  · by_cases hn : newLen = 0
    · simp [h0, hn] at hr
    · simp only [h0, hn, if_false] at hr
      by_cases hz : (A.exec h (.realloc oldPtr oldLen align newLen)).1 = 0
      · simp [hz] at hr
      · simp only [hz, if_false, Out.ret.injEq] at hr
        subst hr
        exact ⟨hz, (hA.realloc_ok h oldPtr oldLen align newLen (hold h0) hn ha hz).1⟩

/-- A zero-sized allocation returns the alignment value itself, touches neither the allocator
nor the heap (for any old pointer value, e.g. the `align` returned earlier). -/
theorem zero_size_returns_align (A : Allocator) (h : Heap) (oldPtr align : Nat) :
    cabiRealloc A h oldPtr 0 align 0 = (.ret align, h) ∧ cabiReallocCall oldPtr 0 align 0 = none := by
  simp [cabiRealloc, cabiReallocCall]

/-- Reallocation preserves the old contents up to the smaller of the two sizes, and the block
handed back is live with exactly the new layout while the old one is gone from the ledger. -/
theorem realloc_preserves_prefix (A : Allocator) (hA : Lawful A) (h : Heap)
    (oldPtr oldLen align newLen p : Nat) (ha : ValidAlign align) (h0 : oldLen ≠ 0) (hn : newLen ≠ 0)
    (hold : ⟨oldPtr, oldLen, align⟩ ∈ h.live)
    (hr : (cabiRealloc A h oldPtr oldLen align newLen).1 = .ret p) :
    (∀ i, i < min oldLen newLen → (cabiRealloc A h oldPtr oldLen align newLen).2.mem (p + i) = h.mem (oldPtr + i)) ∧
    (cabiRealloc A h oldPtr oldLen align newLen).2.live = ⟨p, newLen, align⟩ :: h.live.erase ⟨oldPtr, oldLen, align⟩ := by
  unfold cabiRealloc at hr ⊢
  simp only [h0, hn, if_false] at hr ⊢
  by_cases hz : (A.exec h (.realloc oldPtr oldLen align newLen)).1 = 0
  · simp [hz] at hr
  · simp only [hz, if_false, Out.ret.injEq] at hr ⊢
    subst hr
    have := hA.realloc_ok h oldPtr oldLen align newLen hold hn ha hz
    exact ⟨this.2.2.2, this.2.1⟩

/-- `Cleanup::new` returns a null pointer exactly for zero-sized layouts, a cleanup object exactly
for non-zero ones, and then the pointer is aligned and is the block the object will free. -/
theorem cleanup_null_iff_zero (A : Allocator) (hA : Lawful A) (h : Heap) (size align p : Nat)
    (c : Option Cleanup) (ha : ValidAlign align)
    (hr : (cleanupNew A h size align).1 = .ok p c) :
    (p = 0 ↔ size = 0) ∧ (c.isSome ↔ size ≠ 0) ∧ align ∣ p ∧
    (∀ cl, c = some cl → cl = ⟨p, size, align⟩ ∧ ⟨p, size, align⟩ ∈ (cleanupNew A h size align).2.live) := by
  unfold cleanupNew at hr ⊢
  by_cases hs : size = 0
  · simp only [hs, if_true, NewOut.ok.injEq] at hr ⊢
    obtain ⟨rfl, rfl⟩ := hr
    simp
  · simp only [hs, if_false] at hr ⊢
    by_cases hz : (A.exec h (.alloc size align)).1 = 0
    · simp [hz] at hr
    · simp only [hz, if_false, NewOut.ok.injEq] at hr ⊢
      obtain ⟨rfl, rfl⟩ := hr
      have := hA.alloc_ok h size align hs ha hz
      refine ⟨by simp [hz, hs], by simp [hs], this.1, ?_⟩
      intro cl hcl
      simp only [Option.some.injEq] at hcl
      subst hcl
      exact ⟨rfl, by rw [this.2.1]; exact List.mem_cons_self⟩

/-- **The poison loop of `Cleanup::drop` stays inside the block** (model): the bytes it writes are exactly
`[ptr, ptr + size)` — every address outside keeps its contents, every address inside becomes 0xff — and
the ledger is untouched; the only allocator call that follows is the `dealloc` of that layout.
This is a statement about the MODEL's loop bound (`0..layout.size()`); that the real loop has this bound
is what the guard-byte (canary) monitor of the harness checks on every drop, for sizes that are not a
multiple of the word size in particular (seeded mutant C24c: word-at-a-time poisoning rounded up). -/
theorem cleanup_drop_writes_within_block (h : Heap) (c : Cleanup) :
    (∀ a, ¬ (c.ptr ≤ a ∧ a < c.ptr + c.size) → (cleanupPoison h c).mem a = h.mem a) ∧
    (∀ a, c.ptr ≤ a ∧ a < c.ptr + c.size → (cleanupPoison h c).mem a = 255) ∧
    (cleanupPoison h c).live = h.live ∧
    (∀ A : Allocator, cleanupDrop A h c = (A.exec (cleanupPoison h c) (.dealloc c.ptr c.size c.align)).2) := by
  refine ⟨?_, ?_, rfl, fun _ => rfl⟩
  · intro a ha; simp [cleanupPoison, ha]
  · intro a ha; simp [cleanupPoison, ha]

/-- `cabi_dealloc` does nothing for size zero and otherwise frees exactly the given layout. -/
theorem cabi_dealloc_noop_on_zero (A : Allocator) (h : Heap) (ptr size align : Nat) :
    (size = 0 → cabiDealloc A h ptr size align = h ∧ cabiDeallocCall ptr size align = none) ∧
    (size ≠ 0 → cabiDeallocCall ptr size align = some (.dealloc ptr size align) ∧
      cabiDealloc A h ptr size align = (A.exec h (.dealloc ptr size align)).2) := by
  constructor
  · intro hs; simp [cabiDealloc, cabiDeallocCall, hs]
  · intro hs; simp [cabiDealloc, cabiDeallocCall, hs]


/-- `Cleanup`: freed exactly once.  Over every history and from every state, the `x i` / `f i`
operations on cleanup `i` (drop / `forget`; a second one cannot be written in Rust and is a no-op
in the model) together make exactly one allocator call — the `dealloc` of the cleanup's own
pointer and layout — if the cleanup is non-empty and the first of them is a drop, and none at all
otherwise (drop xor forget; nothing for empty layouts). -/
theorem cleanup_freed_once (A : Allocator) (i : Nat) (ops : List Op) :
    ∀ s : St, i < s.ncls → s.clSt i = .alive →
      xfCalls A s i ops =
        if (s.cl i).size ≠ 0 ∧ firstRetireIsDrop i ops = true then [cleanupDropCall (s.cl i)] else [] := by
  induction ops with
  | nil => intro s _ _; simp [xfCalls, firstRetireIsDrop]
  | cons op ops ih =>
    intro s hi ha
    simp only [xfCalls, firstRetireIsDrop]
    by_cases hx : op = .x i
    · subst hx
      by_cases hs : (s.cl i).size = 0
      · have e : step A s (.x i) = ⟨{ s with clSt := setSt s.clSt i .dropped }, .x, []⟩ := by
          simp [step, hi, ha, hs]
        have := xfCalls_retired A i ops { s with clSt := setSt s.clSt i .dropped } hi (by simp [setSt])
        simp [e, this, hs]
      · have e : step A s (.x i) = ⟨{ s with heap := cleanupDrop A s.heap (s.cl i), clSt := setSt s.clSt i .dropped },
            .x, [cleanupDropCall (s.cl i)]⟩ := by
          simp [step, hi, ha, hs]
        have := xfCalls_retired A i ops
          { s with heap := cleanupDrop A s.heap (s.cl i), clSt := setSt s.clSt i .dropped } hi (by simp [setSt])
        simp [e, this, hs]
    · by_cases hf : op = .f i
      · subst hf
        have e : step A s (.f i) = ⟨{ s with heap := cleanupForget s.heap (s.cl i), clSt := setSt s.clSt i .forgotten },
            .f, []⟩ := by
          simp [step, hi, ha]
        have := xfCalls_retired A i ops
          { s with heap := cleanupForget s.heap (s.cl i), clSt := setSt s.clSt i .forgotten } hi (by simp [setSt])
        simp [e, this]
      · obtain ⟨h1, h2, h3⟩ := step_keeps_cl A s i hi op hx hf
        have := ih (step A s op).st h1 (h3 ▸ ha)
        simp [hx, hf, this, h2]

/-- … and until then the block stays allocated: in every state reachable by a history that meets
the precondition, the block of every live non-empty `Cleanup` and every block the host holds is
live in the allocator's ledger (nobody else frees it), so the `dealloc` made by the drop, and every
`realloc`/`dealloc` made for the host, names a live block with its exact layout. -/
theorem owned_blocks_stay_live (A : Allocator) (hA : Lawful A) (hNF : NeverFails A) (ops : List Op) :
    ∀ (s : St) (m : Mon), Inv s m → histPre m ops = true →
      Inv (ops.foldl (fun st op => (step A st op).st) s) (ops.foldl Mon.next m) := by
  induction ops with
  | nil => intro s m hI _; exact hI
  | cons op ops ih =>
    intro s m hI hp
    simp only [histPre, Bool.and_eq_true] at hp
    have := step_spec A hA hNF s m hI op hp.1
    exact ih _ _ this.2.2 hp.2

/-- Full statement over histories, for every lawful allocator that does not run out of memory:
every observable outcome of every finite history of `cabi_realloc` / `cabi_dealloc` /
`Cleanup::{new, drop, forget}` operations that is *consistent with earlier results* and respects
the documented precondition (`histPre`: a non-empty block keeps its alignment and is not resized
to zero) satisfies the C24 monitor — returned pointers non-null, aligned, zero-size = `align`,
live with the new layout; exactly the lawful allocator call per request; `Cleanup` null iff
zero-sized, freed once.  No bound on history length, sizes or alignments `2^k`. -/
theorem history_spec (A : Allocator) (hA : Lawful A) (hNF : NeverFails A) (ops : List Op) :
    ∀ (s : St) (m : Mon), Inv s m → histPre m ops = true → check m ops (runObs A s ops) = true := by
  induction ops with
  | nil => intro s m _ _; simp [runObs, check]
  | cons op ops ih =>
    intro s m hI hp
    simp only [histPre, Bool.and_eq_true] at hp
    obtain ⟨hnp, hok, hI'⟩ := step_spec A hA hNF s m hI op hp.1
    simp only [runObs, check, hok, Bool.true_and]
    have e2 : stepMon m op (observe s op (step A s op)) = m.next op := by
      cases h : observe s op (step A s op) <;> simp_all [stepMon]
    rw [e2]
    exact ih _ _ hI' hp.2

/-- The statement as given, from the empty state. -/
theorem history_spec_init (A : Allocator) (hA : Lawful A) (hNF : NeverFails A) (h : Heap) (ops : List Op)
    (hp : histPre Mon.init ops = true) : check Mon.init ops (runObs A (St.init h) ops) = true :=
  history_spec A hA hNF ops _ _ (inv_init h) hp

/-- The hypotheses are satisfiable: the bump allocator is lawful and never fails. -/
theorem bump_is_lawful : Lawful bump ∧ NeverFails bump := ⟨bump_lawful, bump_never_fails⟩

/-! ## The domain of the statement

`histPre` restricts histories to the precondition `cabi_realloc` documents itself
(`debug_assert_ne!(new_len, 0, "non-zero old_len requires non-zero new_len!")`, rt/mod.rs): a
non-empty block is never resized to zero.  This is a restriction of the DOMAIN of the property — no
canonical-ABI host issues such a request (`realloc` is called with `(0, 0, align, size)` for fresh
blocks and with non-zero new sizes when transcoding strings) — not a defect of the code.  The two
lemmas below only document that the restriction is needed and what the model does outside it; the
check never generates such requests in the judged stream (a separate stream records the outcome). -/

/-- the hypothesis `histPre` of `history_spec` cannot be dropped: outside the documented precondition
the monitor's "returns a non-null pointer" clause is not met (the call does not return) -/
theorem history_spec_needs_precondition :
    ¬ ∀ ops : List Op, check Mon.init ops (runObs bump (St.init Heap.empty) ops) = true := by
  intro h
  have := h [.r 0 3 8, .r 0 3 0]
  revert this
  decide

/-- … what the model does outside the precondition: the debug assertion fires, nothing is returned. -/
theorem shrink_to_zero_asserts (A : Allocator) (h : Heap) (p oldLen align : Nat) (h0 : oldLen ≠ 0) :
    (cabiRealloc A h p oldLen align 0).1 = .assertFail := by
  simp [cabiRealloc, h0]

/-! Non-vacuity: concrete runs against the lawful bump allocator. -/

/-- alloc 16@8, grow to 64, shrink to 8, zero-size request at align 16, free; Cleanup new/drop/forget -/
example : runObs bump (St.init Heap.empty)
      [.r 0 3 16, .r 0 3 64, .r 0 3 8, .r 1 4 0, .d 0, .n 0 3, .n 24 4, .x 1, .x 0, .n 8 0, .f 2] =
    [.r .blk true none [.A 16 8] true 0, .r .blk true (some true) [.R true 16 8 64] true 0,
     .r .blk true (some true) [.R true 64 8 8] true 0, .r .align true none [] false 0,
     .d [.D true 8 8] 0, .n true false true [] 0, .n false true true [.A 24 16] 0,
     .x [.D true 24 16] 0, .x [] 0, .n false true true [.A 8 1] 0, .f [] 0] := by decide

example : histPre Mon.init [.r 0 3 16, .r 0 3 64, .r 0 3 8, .r 1 4 0, .d 0, .n 0 3, .n 24 4, .x 1, .x 0] = true := by
  decide

example : xfCalls bump ((step bump (St.init Heap.empty) (.n 24 4)).st) 0 [.r 0 0 5, .x 0, .x 0, .f 0] =
    [.dealloc 16 24 16] := by decide

example : (cabiRealloc bump Heap.empty 0 0 8 0).1 = .ret 8 := by decide

end Witverif.Props.C24
