import Witverif.Proofs.MdLinks
/-!
# C29 — Markdown docs have valid links and verbatim documentation text

Property theorems only (helper lemmas: `Proofs/MdLinks.lean`).  Model: `Witverif.Text.Md`
(`crates/markdown/src/lib.rs`), tied to the code by the `md` correspondence run (generated `.md`
byte for byte; the model's rewritten events rendered by the real `push_html` = generated `.html`
byte for byte).  Spec monitors: `Witverif.Text.MdSpec`.

(1) links do not nest
  * `no_nested_links`            markdown links (events): for every well-nested input event list
  * `code_in_link_untouched`     inside a link the pass copies events unchanged
  * `code_outside_link_wrapped`, `rewrite_keeps_content`   what the pass does otherwise: wrap, never drop
  * HTML level (`<a>` tags of the rendered document, raw HTML of doc comments included):
    the full statement is FALSE of the code — `no_nested_links_html_full_false` — because the
    `in_link` flag does not see a raw `<a href=…>` of a doc comment; `no_nested_links_html_partial`
    holds under the exact extra hypothesis `htmlSafe` (no code span strictly inside a raw-HTML anchor).
(2) intra-document links have anchors
  * `hrefs_targets_defined`      every `hrefs` entry the generator makes is `#x` with `<a id="x"></a>`
                                 pushed into the document by the generator (bookkeeping invariant)
  * `hrefs_defined_html_partial` if the anchors of the table are anchors of the parsed document, every
                                 fragment link of the output has its anchor;
    `hrefs_defined_html_full_false`: without that hypothesis it fails — markdown block structure opened by
    a doc comment (unclosed code fence) can swallow an emitted anchor (parsing is external; the witness is
    reproduced on the real code by the check, class `doc-block-swallows-anchor`).
(3) documentation text is verbatim
  * `docs_verbatim_partial`      every line of every doc comment that has a `docs(..)` call, trimmed, is in the `.md`
  * `docs_verbatim`              the full statement: every doc comment of the world (the doc comment of an exported-only
                                 interface was dropped until the `fix:` commit for `export_interface`; witness kept as example)
-/
namespace Witverif.Props.C29
open Witverif.Text Witverif.Text.Md Witverif.Text.MdSpec Witverif.Text.RustStr

/-! ## (1) nesting -/

/-- The link pass never nests a markdown link in a link: if the parser's events are well nested
(no `Start(Link)` inside a link — pulldown-cmark's guarantee), so are the rewritten events.
All event lists, all `hrefs` tables. -/
theorem no_nested_links (hrefs : List (Str × Str)) (evs : List Ev) (h : noNested 0 evs = true) :
    noNested 0 (rewrite hrefs evs) = true :=
  noNested_rewriteGo hrefs evs false h

/-- From a `Start(Link)` to the next `End(Link)` the pass copies every event unchanged — in
particular code spans naming a type, which `print_ty` has already linked — and it continues after
the link as from the start. -/
theorem code_in_link_untouched (hrefs : List (Str × Str)) (b : Bool) (pre mid post : List Ev) (lt d t i : Str)
    (hmid : ∀ e ∈ mid, e ≠ .endLink) :
    rewriteGo hrefs b (pre ++ .startLink lt d t i :: mid ++ .endLink :: post) =
      rewriteGo hrefs b pre ++ .startLink lt d t i :: mid ++ .endLink :: rewriteGo hrefs false post := by
  have e1 : ∀ b0, rewriteGo hrefs b0 (.startLink lt d t i :: mid) = .startLink lt d t i :: mid := by
    intro b0; cases b0 <;> simp [rewriteGo, rewriteGo_inLink _ _ hmid]
  have e3 : ∀ b0, rewriteGo hrefs b0 (.endLink :: post) = .endLink :: rewriteGo hrefs false post := by
    intro b0; cases b0 <;> simp [rewriteGo]
  rw [rewriteGo_append, rewriteGo_append, e1, e3]

/-- Outside a link, a code span with an entry in `hrefs` becomes a link to it; without an entry
it is left alone. -/
theorem code_outside_link_wrapped (hrefs : List (Str × Str)) (c : Str) (es : List Ev) :
    rewriteGo hrefs false (.code c :: es) =
      match lookup hrefs c with
      | some dst => .startLink (s "in") dst [] [] :: .code c :: .endLink :: rewriteGo hrefs false es
      | none => .code c :: rewriteGo hrefs false es := by
  simp only [rewriteGo, Bool.false_eq_true, if_false]
  cases lookup hrefs c <;> rfl

/-- The pass only inserts link delimiters: every other event is kept, in order. -/
theorem rewrite_keeps_content (hrefs : List (Str × Str)) (evs : List Ev) :
    (rewrite hrefs evs).filter notLink = evs.filter notLink :=
  rewriteGo_filter hrefs evs false

/- Full statement at HTML level (C29: "the generated HTML never nests a link inside another link"):
     ∀ hrefs evs, noNested 0 evs → tokNoNested 0 (anchorsOf evs) → tokNoNested 0 (anchorsOf (rewrite hrefs evs))
   It is false of the code: -/

/-- A doc comment `<a href="u">`t`</a>` (raw inline HTML) with `t` a documented name: the input is
well nested at both levels, the output nests `<a href="#t">` inside `<a href="u">`. -/
theorem no_nested_links_html_full_false :
    ¬ ∀ (hrefs : List (Str × Str)) (evs : List Ev), noNested 0 evs = true →
        tokNoNested 0 (anchorsOf evs) = true → tokNoNested 0 (anchorsOf (rewrite hrefs evs)) = true := by
  intro h
  have := h [(s "t", s "#t")] [.inlineHtml (s "<a href=\"u\">"), .code (s "t"), .inlineHtml (s "</a>")]
    (by decide) (by decide)
  revert this
  decide

/-- HTML level, with the exact extra hypothesis: if the input document's own anchors do not nest and
no code span lies inside a raw-HTML anchor outside a markdown link (`htmlSafe`), the rendered
output never has an `<a>` inside an `<a>`.  The generator's own `<a id=…></a>` anchors satisfy it. -/
theorem no_nested_links_html_partial (hrefs : List (Str × Str)) (evs : List Ev)
    (h : htmlSafe 0 false evs = true) : tokNoNested 0 (anchorsOf (rewrite hrefs evs)) = true :=
  htmlSafe_rewriteGo hrefs evs 0 false h

/-! ## (2) hrefs have anchors -/

/-- Bookkeeping invariant of the generator, for every abstract world: whenever generation
succeeds, every destination the link pass can insert (`hrefs.get(code)`) has the form `#x`, and
`<a id="x"></a>` is part of the text the generator pushed into the document. -/
theorem hrefs_targets_defined (w : World) (st : St) (hg : gen w = .ok st) (c dst : Str)
    (hl : lookup st.hrefs c = some dst) :
    ∃ x, dst = '#' :: x ∧ anchor x <:+: pushed (genOps w) := by
  have hh := run_hrefs (genOps w) St.init st hg
  have hm := lookup_mem _ _ _ hl
  rw [hh] at hm
  simp only [St.init, List.append_nil, List.mem_reverse] at hm
  exact paired_genOps w c dst hm

/-- HTML level: if every destination of the table is `#x` for an anchor `x` of the parsed document
(i.e. the emitted `<a id="x">` did arrive as raw HTML), and the document's own fragment links are
defined, then every fragment link of the rewritten document has its anchor.
Scope: the hypothesis `hanch` ASSUMES that every target of the table already has an anchor in the parsed
document — that is exactly the part markdown parsing can break (`hrefs_defined_html_full_false`);
`hrefs_targets_defined` only puts the anchor text into what the generator pushed.  The theorem says the
link pass adds no dangling fragment beyond that assumption; the assumption itself is checked on the real
`.html` of every world of a run (monitor `hrefsDefined`), not proved. -/
theorem hrefs_defined_html_partial (hrefs : List (Str × Str)) (evs : List Ev)
    (hanch : ∀ c dst, lookup hrefs c = some dst → ∃ x, dst = '#' :: x ∧ x ∈ ids (anchorsOf evs))
    (hin : hrefsDefined (anchorsOf evs) = true) :
    hrefsDefined (anchorsOf (rewrite hrefs evs)) = true := by
  simp only [hrefsDefined, List.all_eq_true, List.contains_iff_mem] at hin ⊢
  intro x hx
  rw [rewrite, ids_rewriteGo]
  rcases fragments_rewriteGo hrefs evs false x hx with h | ⟨c, hc⟩
  · exact hin x h
  · obtain ⟨y, hy, hm⟩ := hanch c _ hc
    simp only [List.cons.injEq, true_and] at hy
    subst hy; exact hm

/- Full statement at HTML level ("every intra-document link points to an anchor defined in the same
   document") needs the anchors of `hrefs_targets_defined` to survive markdown parsing.  They need not: -/

/-- The anchor text is in the document, but inside a fenced code block opened by a doc comment, so
it is text, not an anchor; the later code span `e1` is still linked to `#e1`.  (Event-level
abstract of the corpus world `doc-fence` of `corpus/C29.txt`, where the real parser and generator
produce exactly this.) -/
theorem hrefs_defined_html_full_false :
    ¬ ∀ (hrefs : List (Str × Str)) (evs : List Ev),
        (∀ c dst, lookup hrefs c = some dst → ∃ x, dst = '#' :: x ∧
          ∃ t, (Ev.text t ∈ evs ∨ Ev.html t ∈ evs ∨ Ev.inlineHtml t ∈ evs) ∧ anchor x <:+: t) →
        hrefsDefined (anchorsOf evs) = true → hrefsDefined (anchorsOf (rewrite hrefs evs)) = true := by
  intro h
  have := h [(s "e1", s "#e1")]
    [.start (s "CBF.-"), .text (s "#### <a id=\"e1\"></a>`enum e1`\n"), .stop (s "CB"), .code (s "e1")]
    (by
      intro c dst hl
      simp only [lookup] at hl
      split at hl
      · simp only [Option.some.injEq] at hl; subst hl
        exact ⟨s "e1", rfl, s "#### <a id=\"e1\"></a>`enum e1`\n", Or.inl (by simp), s "#### ", s "`enum e1`\n",
          by decide⟩
      · simp at hl)
    (by decide)
  revert this
  decide

/-! ## (3) documentation text -/

/-- Every line of every doc comment the generator has a `docs(..)` call for — the world's, imported
interfaces', all types', members' and functions' — appears in the `.md` without its surrounding
whitespace, character for character, whatever it contains (`push_str_literal`: braces, `//`,
markdown and HTML metacharacters are not interpreted by the buffer).  All abstract worlds.
Scope: the statement is per line — each trimmed line occurs SOMEWHERE in the `.md` as a contiguous piece of
text; it does not say that the lines of one comment occur in order, next to each other, or where they belong
(under their item).  Order and placement are covered by the byte-for-byte `.md` correspondence with the
model, not by this theorem. -/
theorem docs_verbatim_partial (w : World) (st : St) (hg : gen w = .ok st) :
    ∀ d ∈ printedDocs w, ∀ l ∈ lines d, trim l <:+: st.src.s := by
  intro d hd l hl
  have hnp := run_ok_noPanic _ _ _ hg
  rcases docLits_genOps w with hp | hdl
  · exact absurd hp hnp
  · have hmem := hdl d hd l hl
    have hn : '\n' ∉ trim l := fun h => lines_noNl d l hl (mem_trim h)
    exact run_lit_infix (trim l) hn (trim_survives l) _ _ _ hg hmem

/-- … in the executable form of the monitor. -/
theorem docs_verbatim_partial_monitor (w : World) (st : St) (hg : gen w = .ok st) :
    printedDocsVerbatim st.src.s w = true := by
  have isInfix_of : ∀ (n h : Str), n <:+: h → isInfix n h = true := by
    intro n h
    induction h with
    | nil =>
      intro hi
      have : n = [] := by simpa using hi
      simp [isInfix, this]
    | cons c cs ih =>
      intro hi
      rcases List.infix_cons_iff.mp hi with hp | hi'
      · simp only [isInfix, Bool.or_eq_true]; left
        exact List.isPrefixOf_iff_prefix.mpr hp
      · simp only [isInfix, Bool.or_eq_true]; right; exact ih hi'
  simp only [printedDocsVerbatim, List.all_eq_true, docIn]
  intro d hd l hl
  exact isInfix_of _ _ (docs_verbatim_partial w st hg d hd l hl)

/-- world with an exported interface whose doc comment is `Q` -/
def exportDocWorld : World :=
  ⟨s "w", none, [], [.iface (s "t:t/j") ⟨some (s "Q"), [], [⟨s "f", none, [], none⟩]⟩]⟩

/-- Full statement: whenever generation succeeds, EVERY doc comment of the world — including the doc
comment of an exported-only interface, printed since the `fix:` commit for `export_interface` — occurs in
the `.md`, each line trimmed, character for character.  (Exported type items cannot exist in a world
on which generation succeeds: `unreachable!()`.)  Per line, as `docs_verbatim_partial`. -/
theorem docs_verbatim (w : World) (st : St) (hg : gen w = .ok st) :
    ∀ d ∈ allDocs w, ∀ l ∈ lines d, trim l <:+: st.src.s := by
  intro d hd
  exact docs_verbatim_partial w st hg d (allDocs_sub_printedDocs w (run_ok_noPanic _ _ _ hg) d hd)

/-- the export-only witness of the former defect: its doc comment `Q` is in the `.md` -/
example : (match gen exportDocWorld with
    | .ok st => docsVerbatim st.src.s exportDocWorld
    | .panic _ => false) = true := by decide +kernel

/-! ## non-vacuity -/

/-- a document in which a linked type name and a free code span occur -/
def sampleEvs : List Ev :=
  [.start (s "P"), .startLink (s "in") (s "#r1") [] [], .code (s "r1"), .endLink, .text (s " and "),
   .code (s "r1"), .stop (s "P")]

example : noNested 0 sampleEvs = true := by decide
example : rewrite [(s "r1", s "#r1")] sampleEvs =
    [.start (s "P"), .startLink (s "in") (s "#r1") [] [], .code (s "r1"), .endLink, .text (s " and "),
     .startLink (s "in") (s "#r1") [] [], .code (s "r1"), .endLink, .stop (s "P")] := by decide
example : htmlSafe 0 false ([.inlineHtml (s "<a id=\"r1\">"), .inlineHtml (s "</a>")] ++ sampleEvs) = true := by
  decide
example : ¬ noNested 0 [.startLink [] [] [] [], .startLink [] [] [] []] = true := by decide

/-- a world on which generation succeeds, with docs full of metacharacters -/
def sampleWorld : World :=
  ⟨s "w", some (s " world { docs // `x` <b>\n  second }  "),
   [.iface (s "t:t/i") ⟨some (s "iface"), [⟨s "r1", some (s "rec `r1` }"), .record [⟨s "f", some (.prim (s "u8")), some (s "{ field")⟩]⟩],
      [⟨s "g", some (s "fn"), [(s "p", .ref (s "r1"))], some (.list (.ref (s "r1")))⟩]⟩],
   []⟩

example : ∃ st, gen sampleWorld = .ok st ∧ st.hrefs.length = 5 ∧
    lookup st.hrefs (s "r1::f") = some (s "#r1.f") ∧ printedDocs sampleWorld ≠ [] := by
  cases hg : gen sampleWorld with
  | ok st =>
    refine ⟨st, rfl, ?_⟩
    have key : (match gen sampleWorld with
      | .ok st => decide (st.hrefs.length = 5 ∧ lookup st.hrefs (s "r1::f") = some (s "#r1.f"))
      | .panic _ => false) = true := by decide +kernel
    rw [hg] at key
    simp only [decide_eq_true_eq] at key
    exact ⟨key.1, key.2, by decide⟩
  | panic m =>
    have key : (match gen sampleWorld with | .ok _ => true | .panic _ => false) = true := by decide +kernel
    rw [hg] at key
    simp at key

end Witverif.Props.C29
