import Witverif.Generated.ScalarExprs
import Witverif.Props.C14.Rust
import Witverif.Props.C14.C
import Witverif.Props.C14.Cpp
import Witverif.Props.C14.CSharp
import Witverif.Props.C14.Go
import Witverif.Props.C14.MoonBit
import Witverif.Props.C14.D
/-! # C14 — every backend's scalar conversion expressions implement the canonical ABI mapping

`Generated.ScalarExprs.table` (regenerated on every check run from the output of the seven real
generators) lists, for every backend and each of the 24 scalar ABI instructions, the conversion
expressions emitted in flat and in-memory position on the import and the export side.

* `table_shape`: the table has exactly the 7 × 24 expected lists (none silently missing);
* `positions_covered`: every list contains a flat-position and an in-memory expression;
* `all_correct`: every expression of every list computes the canonical ABI mapping
  (`Entry.Correct`: all 2^8 / 2^16 / 2^32 / 2^64 operand bit patterns, operand and result typed as
  the backend types them) — except the list in `knownDefects` (Rust `BoolFromI32`: non-canonical input only), for which
  `Props/C14/Rust.lean` proves the negation of the full statement with a concrete witness
  (`…_full_false`) and what does hold (`…_partial`). -/
namespace Witverif.Props.C14
open Witverif.Scalar Witverif.Scalar.Spec Witverif.Generated
set_option maxRecDepth 100000

/-- (backend, instruction) pairs whose full statement is false of the pinned tree -/
def knownDefects : List String := ["rust_BoolFromI32"]

/-- the generated table consists of exactly the expected lists, in order -/
theorem table_shape : ScalarExprs.table.map (·.1) = ["rust_I32FromBool", "rust_BoolFromI32", "rust_I32FromS8", "rust_S8FromI32", "rust_I32FromU8", "rust_U8FromI32", "rust_I32FromS16", "rust_S16FromI32", "rust_I32FromU16", "rust_U16FromI32", "rust_I32FromS32", "rust_S32FromI32", "rust_I32FromU32", "rust_U32FromI32", "rust_I64FromS64", "rust_S64FromI64", "rust_I64FromU64", "rust_U64FromI64", "rust_CoreF32FromF32", "rust_F32FromCoreF32", "rust_CoreF64FromF64", "rust_F64FromCoreF64", "rust_I32FromChar", "rust_CharFromI32", "c_I32FromBool", "c_BoolFromI32", "c_I32FromS8", "c_S8FromI32", "c_I32FromU8", "c_U8FromI32", "c_I32FromS16", "c_S16FromI32", "c_I32FromU16", "c_U16FromI32", "c_I32FromS32", "c_S32FromI32", "c_I32FromU32", "c_U32FromI32", "c_I64FromS64", "c_S64FromI64", "c_I64FromU64", "c_U64FromI64", "c_CoreF32FromF32", "c_F32FromCoreF32", "c_CoreF64FromF64", "c_F64FromCoreF64", "c_I32FromChar", "c_CharFromI32", "cpp_I32FromBool", "cpp_BoolFromI32", "cpp_I32FromS8", "cpp_S8FromI32", "cpp_I32FromU8", "cpp_U8FromI32", "cpp_I32FromS16", "cpp_S16FromI32", "cpp_I32FromU16", "cpp_U16FromI32", "cpp_I32FromS32", "cpp_S32FromI32", "cpp_I32FromU32", "cpp_U32FromI32", "cpp_I64FromS64", "cpp_S64FromI64", "cpp_I64FromU64", "cpp_U64FromI64", "cpp_CoreF32FromF32", "cpp_F32FromCoreF32", "cpp_CoreF64FromF64", "cpp_F64FromCoreF64", "cpp_I32FromChar", "cpp_CharFromI32", "csharp_I32FromBool", "csharp_BoolFromI32", "csharp_I32FromS8", "csharp_S8FromI32", "csharp_I32FromU8", "csharp_U8FromI32", "csharp_I32FromS16", "csharp_S16FromI32", "csharp_I32FromU16", "csharp_U16FromI32", "csharp_I32FromS32", "csharp_S32FromI32", "csharp_I32FromU32", "csharp_U32FromI32", "csharp_I64FromS64", "csharp_S64FromI64", "csharp_I64FromU64", "csharp_U64FromI64", "csharp_CoreF32FromF32", "csharp_F32FromCoreF32", "csharp_CoreF64FromF64", "csharp_F64FromCoreF64", "csharp_I32FromChar", "csharp_CharFromI32", "go_I32FromBool", "go_BoolFromI32", "go_I32FromS8", "go_S8FromI32", "go_I32FromU8", "go_U8FromI32", "go_I32FromS16", "go_S16FromI32", "go_I32FromU16", "go_U16FromI32", "go_I32FromS32", "go_S32FromI32", "go_I32FromU32", "go_U32FromI32", "go_I64FromS64", "go_S64FromI64", "go_I64FromU64", "go_U64FromI64", "go_CoreF32FromF32", "go_F32FromCoreF32", "go_CoreF64FromF64", "go_F64FromCoreF64", "go_I32FromChar", "go_CharFromI32", "moonbit_I32FromBool", "moonbit_BoolFromI32", "moonbit_I32FromS8", "moonbit_S8FromI32", "moonbit_I32FromU8", "moonbit_U8FromI32", "moonbit_I32FromS16", "moonbit_S16FromI32", "moonbit_I32FromU16", "moonbit_U16FromI32", "moonbit_I32FromS32", "moonbit_S32FromI32", "moonbit_I32FromU32", "moonbit_U32FromI32", "moonbit_I64FromS64", "moonbit_S64FromI64", "moonbit_I64FromU64", "moonbit_U64FromI64", "moonbit_CoreF32FromF32", "moonbit_F32FromCoreF32", "moonbit_CoreF64FromF64", "moonbit_F64FromCoreF64", "moonbit_I32FromChar", "moonbit_CharFromI32", "d_I32FromBool", "d_BoolFromI32", "d_I32FromS8", "d_S8FromI32", "d_I32FromU8", "d_U8FromI32", "d_I32FromS16", "d_S16FromI32", "d_I32FromU16", "d_U16FromI32", "d_I32FromS32", "d_S32FromI32", "d_I32FromU32", "d_U32FromI32", "d_I64FromS64", "d_S64FromI64", "d_I64FromU64", "d_U64FromI64", "d_CoreF32FromF32", "d_F32FromCoreF32", "d_CoreF64FromF64", "d_F64FromCoreF64", "d_I32FromChar", "d_CharFromI32"] := by
  rfl

/-- every list has at least one flat-position and one in-memory expression -/
theorem positions_covered : ∀ p ∈ ScalarExprs.table,
    (p.2.any fun e => e.pos == .flat) = true ∧ (p.2.any fun e => e.pos == .mem) = true := by
  decide +kernel

/-- every extracted conversion expression of every backend is the canonical ABI mapping, for all
operand values — except in the known-defect list -/
theorem all_correct : ∀ p ∈ ScalarExprs.table, p.1 ∉ knownDefects → ∀ e ∈ p.2, e.Correct := by
  simp only [ScalarExprs.table, List.forall_mem_cons, List.not_mem_nil, false_imp_iff, implies_true, and_true]
  exact ⟨fun _ => Rust.rust_I32FromBool,
    fun h => absurd (by decide) h,
    fun _ => Rust.rust_I32FromS8,
    fun _ => Rust.rust_S8FromI32,
    fun _ => Rust.rust_I32FromU8,
    fun _ => Rust.rust_U8FromI32,
    fun _ => Rust.rust_I32FromS16,
    fun _ => Rust.rust_S16FromI32,
    fun _ => Rust.rust_I32FromU16,
    fun _ => Rust.rust_U16FromI32,
    fun _ => Rust.rust_I32FromS32,
    fun _ => Rust.rust_S32FromI32,
    fun _ => Rust.rust_I32FromU32,
    fun _ => Rust.rust_U32FromI32,
    fun _ => Rust.rust_I64FromS64,
    fun _ => Rust.rust_S64FromI64,
    fun _ => Rust.rust_I64FromU64,
    fun _ => Rust.rust_U64FromI64,
    fun _ => Rust.rust_CoreF32FromF32,
    fun _ => Rust.rust_F32FromCoreF32,
    fun _ => Rust.rust_CoreF64FromF64,
    fun _ => Rust.rust_F64FromCoreF64,
    fun _ => Rust.rust_I32FromChar,
    fun _ => Rust.rust_CharFromI32,
    fun _ => C.c_I32FromBool,
    fun _ => C.c_BoolFromI32,
    fun _ => C.c_I32FromS8,
    fun _ => C.c_S8FromI32,
    fun _ => C.c_I32FromU8,
    fun _ => C.c_U8FromI32,
    fun _ => C.c_I32FromS16,
    fun _ => C.c_S16FromI32,
    fun _ => C.c_I32FromU16,
    fun _ => C.c_U16FromI32,
    fun _ => C.c_I32FromS32,
    fun _ => C.c_S32FromI32,
    fun _ => C.c_I32FromU32,
    fun _ => C.c_U32FromI32,
    fun _ => C.c_I64FromS64,
    fun _ => C.c_S64FromI64,
    fun _ => C.c_I64FromU64,
    fun _ => C.c_U64FromI64,
    fun _ => C.c_CoreF32FromF32,
    fun _ => C.c_F32FromCoreF32,
    fun _ => C.c_CoreF64FromF64,
    fun _ => C.c_F64FromCoreF64,
    fun _ => C.c_I32FromChar,
    fun _ => C.c_CharFromI32,
    fun _ => Cpp.cpp_I32FromBool,
    fun _ => Cpp.cpp_BoolFromI32,
    fun _ => Cpp.cpp_I32FromS8,
    fun _ => Cpp.cpp_S8FromI32,
    fun _ => Cpp.cpp_I32FromU8,
    fun _ => Cpp.cpp_U8FromI32,
    fun _ => Cpp.cpp_I32FromS16,
    fun _ => Cpp.cpp_S16FromI32,
    fun _ => Cpp.cpp_I32FromU16,
    fun _ => Cpp.cpp_U16FromI32,
    fun _ => Cpp.cpp_I32FromS32,
    fun _ => Cpp.cpp_S32FromI32,
    fun _ => Cpp.cpp_I32FromU32,
    fun _ => Cpp.cpp_U32FromI32,
    fun _ => Cpp.cpp_I64FromS64,
    fun _ => Cpp.cpp_S64FromI64,
    fun _ => Cpp.cpp_I64FromU64,
    fun _ => Cpp.cpp_U64FromI64,
    fun _ => Cpp.cpp_CoreF32FromF32,
    fun _ => Cpp.cpp_F32FromCoreF32,
    fun _ => Cpp.cpp_CoreF64FromF64,
    fun _ => Cpp.cpp_F64FromCoreF64,
    fun _ => Cpp.cpp_I32FromChar,
    fun _ => Cpp.cpp_CharFromI32,
    fun _ => CSharp.csharp_I32FromBool,
    fun _ => CSharp.csharp_BoolFromI32,
    fun _ => CSharp.csharp_I32FromS8,
    fun _ => CSharp.csharp_S8FromI32,
    fun _ => CSharp.csharp_I32FromU8,
    fun _ => CSharp.csharp_U8FromI32,
    fun _ => CSharp.csharp_I32FromS16,
    fun _ => CSharp.csharp_S16FromI32,
    fun _ => CSharp.csharp_I32FromU16,
    fun _ => CSharp.csharp_U16FromI32,
    fun _ => CSharp.csharp_I32FromS32,
    fun _ => CSharp.csharp_S32FromI32,
    fun _ => CSharp.csharp_I32FromU32,
    fun _ => CSharp.csharp_U32FromI32,
    fun _ => CSharp.csharp_I64FromS64,
    fun _ => CSharp.csharp_S64FromI64,
    fun _ => CSharp.csharp_I64FromU64,
    fun _ => CSharp.csharp_U64FromI64,
    fun _ => CSharp.csharp_CoreF32FromF32,
    fun _ => CSharp.csharp_F32FromCoreF32,
    fun _ => CSharp.csharp_CoreF64FromF64,
    fun _ => CSharp.csharp_F64FromCoreF64,
    fun _ => CSharp.csharp_I32FromChar,
    fun _ => CSharp.csharp_CharFromI32,
    fun _ => Go.go_I32FromBool,
    fun _ => Go.go_BoolFromI32,
    fun _ => Go.go_I32FromS8,
    fun _ => Go.go_S8FromI32,
    fun _ => Go.go_I32FromU8,
    fun _ => Go.go_U8FromI32,
    fun _ => Go.go_I32FromS16,
    fun _ => Go.go_S16FromI32,
    fun _ => Go.go_I32FromU16,
    fun _ => Go.go_U16FromI32,
    fun _ => Go.go_I32FromS32,
    fun _ => Go.go_S32FromI32,
    fun _ => Go.go_I32FromU32,
    fun _ => Go.go_U32FromI32,
    fun _ => Go.go_I64FromS64,
    fun _ => Go.go_S64FromI64,
    fun _ => Go.go_I64FromU64,
    fun _ => Go.go_U64FromI64,
    fun _ => Go.go_CoreF32FromF32,
    fun _ => Go.go_F32FromCoreF32,
    fun _ => Go.go_CoreF64FromF64,
    fun _ => Go.go_F64FromCoreF64,
    fun _ => Go.go_I32FromChar,
    fun _ => Go.go_CharFromI32,
    fun _ => MoonBit.moonbit_I32FromBool,
    fun _ => MoonBit.moonbit_BoolFromI32,
    fun _ => MoonBit.moonbit_I32FromS8,
    fun _ => MoonBit.moonbit_S8FromI32,
    fun _ => MoonBit.moonbit_I32FromU8,
    fun _ => MoonBit.moonbit_U8FromI32,
    fun _ => MoonBit.moonbit_I32FromS16,
    fun _ => MoonBit.moonbit_S16FromI32,
    fun _ => MoonBit.moonbit_I32FromU16,
    fun _ => MoonBit.moonbit_U16FromI32,
    fun _ => MoonBit.moonbit_I32FromS32,
    fun _ => MoonBit.moonbit_S32FromI32,
    fun _ => MoonBit.moonbit_I32FromU32,
    fun _ => MoonBit.moonbit_U32FromI32,
    fun _ => MoonBit.moonbit_I64FromS64,
    fun _ => MoonBit.moonbit_S64FromI64,
    fun _ => MoonBit.moonbit_I64FromU64,
    fun _ => MoonBit.moonbit_U64FromI64,
    fun _ => MoonBit.moonbit_CoreF32FromF32,
    fun _ => MoonBit.moonbit_F32FromCoreF32,
    fun _ => MoonBit.moonbit_CoreF64FromF64,
    fun _ => MoonBit.moonbit_F64FromCoreF64,
    fun _ => MoonBit.moonbit_I32FromChar,
    fun _ => MoonBit.moonbit_CharFromI32,
    fun _ => D.d_I32FromBool,
    fun _ => D.d_BoolFromI32,
    fun _ => D.d_I32FromS8,
    fun _ => D.d_S8FromI32,
    fun _ => D.d_I32FromU8,
    fun _ => D.d_U8FromI32,
    fun _ => D.d_I32FromS16,
    fun _ => D.d_S16FromI32,
    fun _ => D.d_I32FromU16,
    fun _ => D.d_U16FromI32,
    fun _ => D.d_I32FromS32,
    fun _ => D.d_S32FromI32,
    fun _ => D.d_I32FromU32,
    fun _ => D.d_U32FromI32,
    fun _ => D.d_I64FromS64,
    fun _ => D.d_S64FromI64,
    fun _ => D.d_I64FromU64,
    fun _ => D.d_U64FromI64,
    fun _ => D.d_CoreF32FromF32,
    fun _ => D.d_F32FromCoreF32,
    fun _ => D.d_CoreF64FromF64,
    fun _ => D.d_F64FromCoreF64,
    fun _ => D.d_I32FromChar,
    fun _ => D.d_CharFromI32⟩

example : ScalarExprs.table ≠ [] := by decide
end Witverif.Props.C14
