import Witverif.Abi.Resource
namespace Witverif.Props.C07
open Witverif.Abi.Resource
theorem placeholder_lend_unchanged (s s' : Sys) (h : Nat) (hs : s.step (.lend h) = .ok s') : s' = s := by
  simp only [Sys.step] at hs
  split at hs
  · split at hs <;> simp_all
  · simp at hs
end Witverif.Props.C07
