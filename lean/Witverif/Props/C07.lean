import Witverif.Proofs.Resource
/-!
# C07 — Rust guest bindings keep resource and handle ownership exact

Model: `Abi/Resource.lean` — `Sys`, the generated resource glue (`Resource<T>`:
`from_handle/take_handle/handle/Drop`; exported resources: `new/_resource_new/rep/dtor`,
`Borrow::lift`; `HandleLower/HandleLift`, `handle_decls`) together with *any* safe user code, against
the host's handle table and the heap of representations, as a transition system over the events of a
host history (lower/lift of own and borrow handles, the three resource built-ins, destructor runs,
export call scopes).  `trap` = the host or the heap rejects what the glue does.

**What is what** (read this before the theorem list):

* *Definitional.*  `Sys.step` answers `disabled` when the glue, as modelled, cannot produce an event: there
  is no wrapper value holding the index (so no `take_handle`/`Drop`/`handle()` can run on it), or — for
  `callEnd` — the glue's `handle_decls` temporaries are still alive.  That the generated function drops those
  temporaries before it returns is an **assumption about the control flow of the glue** built into the
  model (Rust scoping), not a theorem.  Consequently `own_transferred_once`, `no_use_after_take`,
  `own_received_dropped_once` (first part) and `borrow_never_dropped` are *one-step unfoldings of the model*:
  they state what the model says the glue does, they do not prove the real glue does it.
* *Invariant content.*  The theorems with real content are `step_inv` / `reach_inv` (an 11-clause invariant
  is preserved by every event of every history) and `never_traps` / `run_never_traps` (under it the host's
  table and the heap never reject what the glue does), from which `no_handle_leak`,
  `exported_rep_reachable_through_every_handle` and `exported_dtor_once` follow.
* *Validated, not proved.*  That the real generated glue behaves like the model is checked by trace
  acceptance in `./check C07`: every recorded native history must be accepted by the host rules
  (`HostSpec`) and be a trace of `Sys` (no `disabled`, no `trap`).  In those traces only `drop`, `new`,
  `rep`, `dtor` and `udrop` are emitted by the guest (through the H3 symbols, the `[dtor]` export and the
  stub's `Drop`); `own+`, `bor+`, `own-`, `lend`, `use`, `call±` are written by the check's host from the
  values it sends and lifts.

All statements quantify over **every** reachable state, i.e. every finite history of
create / borrow / transfer / drop events in any order and interleaving, any number of resources and
handles, any index allocation policy of the host.  Tie to the real code: `./check C07` — the generated
glue runs natively against a mock host; each recorded history must be accepted by the host rules
(`HostSpec`, spec side) and be a trace of this model (`runScript`).
-/
namespace Witverif.Props.C07
open Witverif.Abi.Resource

/-- states reachable from the empty instance by events the model can perform -/
inductive Reach : Sys → Prop
  | init : Reach {}
  | step {s s' : Sys} (ev : Ev) : Reach s → s.step ev = .ok s' → Reach s'

theorem reach_inv {s : Sys} (h : Reach s) : Inv s := by
  induction h with
  | init => exact inv_init
  | step ev _ hs ih => exact step_inv _ _ ev ih hs

/-- **No history makes the host or the heap reject the glue.**  From any reachable state, no event
traps: no built-in is ever called on an index the guest does not hold, no destructor runs twice, no
representation is used after it was destroyed, no export returns with a borrow outstanding, nothing
is left in the table when all Rust values are gone. -/
theorem never_traps {s : Sys} (h : Reach s) (ev : Ev) (w : String) : s.step ev ≠ .trap w :=
  step_no_trap s ev (reach_inv h) w

/-- … as a statement about whole histories (`Sys.run` = fold of `step`, as used on recorded traces). -/
theorem run_never_traps (evs : List Ev) : ∀ (s : Sys) (i j : Nat) (w : String), Inv s → Sys.run s evs i ≠ .trap j w := by
  induction evs with
  | nil => intro s i j w _ h; simp [Sys.run] at h
  | cons e es ih =>
      intro s i j w hi h
      simp only [Sys.run] at h
      cases hs : s.step e with
      | ok s' => rw [hs] at h; exact ih s' (i + 1) j w (step_inv s s' e hi hs) h
      | trap w' => exact step_no_trap s e hi w' hs
      | disabled w' => rw [hs] at h; cases h

/-- the glue cannot emit any built-in call or transfer on index `h` -/
def Silent (s : Sys) (h : Nat) : Prop :=
  (∃ w, s.step (.ownMinus h) = .disabled w) ∧ (∀ d, ∃ w, s.step (.drop h d) = .disabled w) ∧
  (∃ w, s.step (.lend h) = .disabled w) ∧ (∀ r, ∃ w, s.step (.rep h r) = .disabled w) ∧
  (∀ pid, ∃ w, s.step (.take h pid) = .disabled w)

theorem silent_of_no_cell (s : Sys) (h : Nat) (hc : s.cells.get h = none) : Silent s h := by
  refine ⟨?_, ?_, ?_, ?_, ?_⟩ <;> simp [Sys.step, hc]

/-- **Owned handles passed to imports or returned from exports are transferred exactly once, and never
used afterwards** (`own_transferred_once`, `no_use_after_take`) — *a one-step unfolding of the model*
(see the header: misuse is `disabled` by construction; the content is that real traces are model traces): after the transfer the wrapper value
is gone, the index is out of the table, and the glue cannot produce another transfer, drop, borrow or
`resource.rep` of that index. -/
theorem own_transferred_once {s s' : Sys} {h : Nat} (hs : s.step (.ownMinus h) = .ok s') :
    s'.table.get h = none ∧ s'.cells.get h = none ∧ Silent s' h := by
  simp only [Sys.step] at hs
  split at hs
  · split at hs
    · simp only [Outcome.ok.injEq] at hs; subst hs
      exact ⟨by simp [Map.get_del], by simp [Map.get_del], silent_of_no_cell _ h (by simp [Map.get_del])⟩
    · simp only [Outcome.ok.injEq] at hs; subst hs
      exact ⟨by simp [Map.get_del], by simp [Map.get_del], silent_of_no_cell _ h (by simp [Map.get_del])⟩
    · cases hs
  · cases hs

theorem no_use_after_take {s s' : Sys} {h : Nat} (hs : s.step (.ownMinus h) = .ok s') : Silent s' h :=
  (own_transferred_once hs).2.2

/-- **Owned handles received are dropped exactly once when their Rust value is dropped**
(`own_received_dropped_once`): dropping the value produces the `resource.drop` (the event), after
which the index is out of the table and no second drop (or any other use) can be produced … -/
theorem own_received_dropped_once {s s' : Sys} {h : Nat} {d : Option Nat} (hs : s.step (.drop h d) = .ok s') :
    s'.table.get h = none ∧ s'.cells.get h = none ∧ Silent s' h := by
  have key : ∀ t : Sys, t.table = s.table.del h → t.cells = s.cells.del h →
      t.table.get h = none ∧ t.cells.get h = none ∧ Silent t h := by
    intro t h1 h2
    exact ⟨by simp [h1, Map.get_del], by simp [h2, Map.get_del], silent_of_no_cell _ h (by simp [h2, Map.get_del])⟩
  simp only [Sys.step] at hs
  split at hs
  · split at hs
    · split at hs
      · cases hs
      split at hs
      · cases hs
      cases d <;> (simp only [Outcome.ok.injEq] at hs; subst hs; exact key _ rfl rfl)
    · simp only [Outcome.ok.injEq] at hs; subst hs
      exact key _ rfl rfl
    · cases hs
  · cases hs

/-- … and no handle leaks: in every reachable state each table entry is held by a live Rust value, so
once all values are dropped the table is empty. -/
theorem no_handle_leak {s : Sys} (hr : Reach s) :
    (∀ h e, s.table.get h = some e → (s.cells.get h).isSome = true) ∧
    (s.cells.isEmpty = true → s.table.isEmpty = true) := by
  have hi := reach_inv hr
  refine ⟨hi.entry_cell, fun hc => ?_⟩
  cases ht : s.table.isEmpty with
  | true => rfl
  | false =>
      obtain ⟨k, v, hk⟩ := Map.exists_get_of_not_isEmpty s.table ht
      have := hi.entry_cell k v hk
      rw [Map.isEmpty_get s.cells hc k] at this
      simp at this

/-- **Borrowed handles are never dropped by the guest** (`borrow_never_dropped`) — *unfoldings of the
model*; (c) relies on the modelling assumption that `callEnd` is only enabled once the glue's temporaries
are gone (the safety part — the host then never rejects the return — is `never_traps`).  Reading
fixed in DESIGN §7 C07: (a) lowering a `borrow` argument leaves every wrapper value, the table and
the heap untouched; (b) a borrow of an exported resource is a representation pointer: no built-in,
no state change; (c) when an export returns, no scoped borrow index of that call is left (and, by
`never_traps`, the return is never rejected). -/
theorem borrow_never_dropped :
    (∀ (s s' : Sys) (h : Nat), s.step (.lend h) = .ok s' → s' = s) ∧
    (∀ (s s' : Sys) (rep : Nat), s.step (.use rep) = .ok s' → s' = s) ∧
    (∀ (s s' : Sys) (k : Nat), s.step (.callEnd k) = .ok s' → hasBorrowOf s'.table k = false ∧ hasTempOf s'.cells k = false) := by
  refine ⟨?_, ?_, ?_⟩
  · intro s s' h hs
    simp only [Sys.step] at hs
    split at hs
    · split at hs <;> simp_all
    · cases hs
  · intro s s' rep hs
    simp only [Sys.step] at hs
    split at hs
    · cases hs
    · split at hs <;> simp_all
  · intro s s' k hs
    simp only [Sys.step] at hs
    split at hs
    · cases hs
    split at hs
    · cases hs
    split at hs
    · cases hs
    rename_i _ ht hb
    simp only [Outcome.ok.injEq] at hs; subst hs
    exact ⟨by simpa using hb, by simpa using ht⟩

/-- **An exported resource's Rust value is reached through every handle to it**
(`exported_rep_reachable_through_every_handle`): in every reachable state, for every own handle of
the exported resource in the table, the representation is alive and `resource.rep` on that handle
succeeds (the wrapper exists, the host answers with that very representation, the value is there). -/
theorem exported_rep_reachable_through_every_handle {s : Sys} (hr : Reach s) (h rep : Nat)
    (ht : s.table.get h = some (.own (.exp rep))) :
    s.heap.has rep = true ∧ s.step (.rep h rep) = .ok s := by
  have hi := reach_inv hr
  have hl := hi.exp_live h rep ht
  obtain ⟨c, hc⟩ := Option.isSome_iff_exists.mp (hi.entry_cell h _ ht)
  have ⟨h1, h2⟩ := hi.cell_own h c _ hc ht
  obtain ⟨ex, tmp⟩ := c
  simp only [Res.isExp] at h1 h2
  subst h1; subst h2
  exact ⟨hl, by simp [Sys.step, hc, ht, hl]⟩

/-- **… and destroyed exactly once, when the host drops it** (`exported_dtor_once`): a destructor run
(the host dropping a resource it owns, or the guest dropping an own handle of its own resource)
removes the value, after which nobody owns the resource any more, so no second run can happen; and
in every reachable state each live value has exactly one owner (one guest handle or the host), so
none is destroyed early and none is forgotten. -/
theorem exported_dtor_once {s : Sys} (hr : Reach s) :
    (∀ s' rep d, s.step (.hostDrop rep d) = .ok s' →
        s'.heap.has rep = false ∧ s'.hostOwned.has rep = false ∧ (∀ h, s'.table.get h ≠ some (.own (.exp rep))) ∧
        ∀ d', ∃ w, s'.step (.hostDrop rep d') = .disabled w) ∧
    (∀ s' h rep d, s.table.get h = some (.own (.exp rep)) → s.step (.drop h d) = .ok s' →
        s'.heap.has rep = false ∧ s'.hostOwned.has rep = false ∧ (∀ h', s'.table.get h' ≠ some (.own (.exp rep)))) ∧
    (∀ rep, s.heap.has rep = true →
        ((∃ h, s.table.get h = some (.own (.exp rep))) ∨ s.hostOwned.has rep = true) ∧
        ¬ ((∃ h, s.table.get h = some (.own (.exp rep))) ∧ s.hostOwned.has rep = true)) := by
  have hi := reach_inv hr
  refine ⟨?_, ?_, ?_⟩
  · intro s' rep d hs
    simp only [Sys.step] at hs
    split at hs
    · cases hs
    rename_i ho
    split at hs
    · cases hs
    split at hs
    · cases hs
    have hno := (hi.owned_live rep (by simpa using ho)).2
    have fin : ∀ t : Sys, t.hostOwned = s.hostOwned.del rep → t.heap = Map.del s.heap rep → t.table = s.table →
        t.heap.has rep = false ∧ t.hostOwned.has rep = false ∧ (∀ h, t.table.get h ≠ some (.own (.exp rep))) ∧
        ∀ d', ∃ w, t.step (.hostDrop rep d') = .disabled w := by
      intro t h1 h2 h3
      refine ⟨by simp [h2, NSet.has_del], by simp [h1, NSet.has_del], by rw [h3]; exact hno, ?_⟩
      intro d'
      simp [Sys.step, h1, NSet.has_del]
    cases d <;> (simp only [Outcome.ok.injEq] at hs; subst hs; exact fin _ rfl rfl rfl)
  · intro s' h rep d ht hs
    have fin : ∀ t : Sys, t.hostOwned = s.hostOwned → t.heap = Map.del s.heap rep → t.table = s.table.del h →
        t.heap.has rep = false ∧ t.hostOwned.has rep = false ∧ (∀ h', t.table.get h' ≠ some (.own (.exp rep))) := by
      intro t h1 h2 h3
      refine ⟨by simp [h2, NSet.has_del], ?_, ?_⟩
      · rw [h1]
        cases ho : s.hostOwned.has rep with
        | false => rfl
        | true => exact absurd ht ((hi.owned_live rep ho).2 h)
      · intro h' e
        rw [h3, Map.get_del] at e
        split at e
        · cases e
        · rename_i hne
          exact hne (hi.uniq h h' rep ht e)
    simp only [Sys.step] at hs
    split at hs
    · rw [ht] at hs
      simp only at hs
      split at hs
      · cases hs
      split at hs
      · cases hs
      cases d <;> (simp only [Outcome.ok.injEq] at hs; subst hs; exact fin _ rfl rfl rfl)
    · cases hs
  · intro rep hl
    refine ⟨hi.no_orphan rep hl, ?_⟩
    rintro ⟨⟨h, ht⟩, ho⟩
    exact (hi.owned_live rep ho).2 h ht

/-- **Every payload is dropped exactly once** (`payload_dropped_exactly_once`), over all event sequences
including `into_inner`.  In every reachable state: the drop log (one entry per `Drop` run of a payload,
whether inside a destructor call or by user code) has no duplicate; it lists exactly the payloads whose
location is `dead`; a payload sitting in a representation's slot is neither held by user code nor dead and
its representation is alive; and when the history ends (`done` accepted) every payload ever created is
in the log — so each was dropped once and only once.  The second group says where drops come from:
`into_inner` empties the slot and hands the payload to user code, and a destructor run drops a payload
exactly if the slot still holds one (after `into_inner` it drops nothing). -/
theorem payload_dropped_exactly_once {s : Sys} (hr : Reach s) :
    (s.dropLog.Nodup ∧ (∀ pid, pid ∈ s.dropLog ↔ s.loc.get pid = some .dead) ∧
     (∀ rep pid, s.slot.get rep = some pid → s.loc.get pid = some (.inSlot rep) ∧ s.heap.has rep = true) ∧
     (∀ s', s.step .done = .ok s' → ∀ pid l, s.loc.get pid = some l → pid ∈ s.dropLog)) ∧
    ((∀ s' h pid, s.step (.take h pid) = .ok s' → ∃ rep, s.slot.get rep = some pid ∧ s'.slot.get rep = none ∧
        s'.loc.get pid = some .held ∧ s'.dropLog = s.dropLog) ∧
     (∀ s' h rep d, s.table.get h = some (.own (.exp rep)) → s.step (.drop h d) = .ok s' → s.slot.get rep = d) ∧
     (∀ s' rep d, s.step (.hostDrop rep d) = .ok s' → s.slot.get rep = d)) := by
  have hi := reach_inv hr
  refine ⟨⟨hi.log_nodup, hi.log_dead, hi.slot_loc, ?_⟩, ?_, ?_, ?_⟩
  · intro s' hs pid l hl
    simp only [Sys.step] at hs
    split at hs
    · cases hs
    split at hs
    · cases hs
    split at hs
    · cases hs
    split at hs
    · cases hs
    split at hs
    · cases hs
    rename_i hheap
    split at hs
    · cases hs
    rename_i hheld
    rw [hi.log_dead]
    cases l with
    | dead => exact hl
    | held =>
        exfalso
        apply hheld
        simp only [List.any_eq_true]
        exact ⟨(pid, .held), Map.get_some_mem _ _ _ hl, by simp⟩
    | inSlot rep =>
        exfalso
        have h1 := hi.loc_slot pid rep hl
        have h2 := (hi.slot_loc rep pid h1).2
        simp [NSet.has, Map.isEmpty_get s.heap (by simpa using hheap) rep] at h2
  · intro s' h pid hs
    simp only [Sys.step] at hs
    split at hs
    · rename_i rep _ _
      split at hs
      · rename_i hslot
        simp only [Outcome.ok.injEq] at hs; subst hs
        exact ⟨rep, hslot, by simp [Map.get_del], by simp [Map.get_put], rfl⟩
      · cases hs
    · cases hs
  · intro s' h rep d ht hs
    simp only [Sys.step] at hs
    split at hs
    · rw [ht] at hs
      simp only at hs
      split at hs
      · cases hs
      split at hs
      · cases hs
      rename_i hslot
      simpa using hslot
    · cases hs
  · intro s' rep d hs
    simp only [Sys.step] at hs
    split at hs
    · cases hs
    split at hs
    · cases hs
    split at hs
    · cases hs
    rename_i hslot
    simpa using hslot

/-! ## non-vacuity: a history exercising every event is a run of the model that ends `ok` -/

example :
    (match Sys.run {} [.callBegin 1, .mk 100, .new 5 4096 100, .callEnd 1, .ownMinus 5,   -- constructor: guest creates, host receives
      .callBegin 2, .use 4096, .borPlus 6 (.imp 1) 2, .lend 6, .drop 6 none, .callEnd 2,    -- method call + scoped borrow of an imported resource
      .ownPlus 7 (.imp 2), .lend 7, .ownMinus 7,                                           -- imported own: lent, then transferred
      .callBegin 3, .ownPlus 8 (.exp 4096), .rep 8 4096, .take 8 100, .drop 8 none,         -- the exported resource comes back: into_inner, handle
      .callEnd 3, .udrop 100,                                                              --   dropped (destructor drops nothing), payload dropped later
      .done] 0 with | .ok s => s.dropLog == [100] | _ => false) = true ∧
    -- the destructor dropping the payload again after into_inner is not a trace of the model
    (match Sys.run {} [.mk 1, .new 5 64 1, .rep 5 64, .take 5 1, .drop 5 (some 1)] 0 with | .disabled 4 _ => true | _ => false) = true ∧
    (match Sys.run {} [.ownPlus 7 (.imp 2), .ownMinus 7, .drop 7 none] 0 with | .disabled 2 _ => true | _ => false) = true := by
  decide

end Witverif.Props.C07
