import Witverif.Proofs.Config
/-!
# C34 — Test configuration is read from exactly the leading comment block

Property theorems only (helper lemmas live in `Proofs/Config.lean`).
Model: `Witverif.Text.Config` (`configText` = the `config_text` of `parse_test_config`,
`StringList.toVec`), tied to `crates/test/src/config.rs` by the `config-run` correspondence run.
Specification: `Witverif.Text.ConfigSpec` (`leadingBodies`/`unlines`, checker `isWordsOf`).
`RustStr.lines` (Rust's `str::lines`) is the shared notion of "the lines of a file"; the TOML parser
is external.
-/
namespace Witverif.Props.C34
open Witverif.Text Witverif.Text.Config Witverif.Text.ConfigSpec
open Witverif.Text.RustStr (isWhite)

/-- The configuration text is spelled by the leading block of marker lines and by nothing else:
the file's lines split as `marker ++ body₁, …, marker ++ bodyₙ` followed by `rest`, where `rest` is
empty or begins with a line that does not start with the marker, and the configuration is
`body₁ \n … \n bodyₙ`.  For every file and every marker. -/
theorem config_text_is_leading_block (contents marker : List Char) :
    ∃ bodies rest,
      RustStr.lines contents = bodies.map (fun b => marker ++ b) ++ rest ∧
      (∀ l, rest.head? = some l → ∀ b, l ≠ marker ++ b) ∧
      configText contents marker = unlines bodies := by
  obtain ⟨rest, h1, h2⟩ := leading_decomp marker (RustStr.lines contents)
  refine ⟨leadingBodies marker (RustStr.lines contents), rest, h1, ?_, configText_eq contents marker⟩
  intro l hl b hb
  have := h2 l hl
  rw [hb, bodyOf_append] at this
  cases this

/-- … and that split is unique, so the statement above determines the configuration text. -/
theorem leading_block_unique (contents marker : List Char) (bodies rest : List (List Char))
    (h1 : RustStr.lines contents = bodies.map (fun b => marker ++ b) ++ rest)
    (h2 : ∀ l, rest.head? = some l → ∀ b, l ≠ marker ++ b) :
    configText contents marker = unlines bodies := by
  rw [configText_eq, h1, leading_unique marker bodies rest]
  intro l hl
  cases hb : bodyOf marker l with
  | none => rfl
  | some b => exact absurd ((bodyOf_eq_some_iff marker l b).mp hb) (h2 l hl b)

/-- The model's configuration text passes the spec-side judge. -/
theorem config_text_accepted (contents marker : List Char) :
    acceptsConfig contents marker (configText contents marker) = true := by
  simp [acceptsConfig, configText_eq]

/-- Anything after the first line that does not start with the marker is irrelevant:
if `head` is a prefix of the file made of complete lines (it ends with a newline) and one of its
lines is not a marker line, then whatever follows `head` — code, blank lines, later marker-prefixed
lines — does not change the configuration. -/
theorem suffix_irrelevant (head' tail₁ tail₂ marker : List Char)
    (hstop : (RustStr.lines (head' ++ ['\n'])).any (fun l => (bodyOf marker l).isNone) = true) :
    configText (head' ++ '\n' :: tail₁) marker = configText (head' ++ '\n' :: tail₂) marker := by
  rw [configText_eq, configText_eq, lines_append_nl head' tail₁, lines_append_nl head' tail₂,
    leadingBodies_append_of_stop marker _ _ hstop, leadingBodies_append_of_stop marker _ _ hstop]

/-- The same on the level of lines: two files whose lines agree up to and including a
non-marker line have the same configuration. -/
theorem suffix_irrelevant_lines (c₁ c₂ marker : List Char) (pre : List (List Char)) (l : List Char)
    (r₁ r₂ : List (List Char)) (hl : ∀ b, l ≠ marker ++ b)
    (h₁ : RustStr.lines c₁ = pre ++ l :: r₁) (h₂ : RustStr.lines c₂ = pre ++ l :: r₂) :
    configText c₁ marker = configText c₂ marker := by
  have hb : bodyOf marker l = none := by
    cases h : bodyOf marker l with
    | none => rfl
    | some b => exact absurd ((bodyOf_eq_some_iff marker l b).mp h) (hl b)
  have hstop : (pre ++ [l]).any (fun l => (bodyOf marker l).isNone) = true := by simp [hb]
  have e₁ : pre ++ l :: r₁ = (pre ++ [l]) ++ r₁ := by simp
  have e₂ : pre ++ l :: r₂ = (pre ++ [l]) ++ r₂ := by simp
  rw [configText_eq, configText_eq, h₁, h₂, e₁, e₂,
    leadingBodies_append_of_stop marker _ _ hstop, leadingBodies_append_of_stop marker _ _ hstop]

/-- A whitespace-separated argument string means the same as the list of its words:
`ws` is judged to be the words of `s` (white space, word, white space, …, every word non-empty and
white-free, words separated by at least one white character) iff it is what
`Vec::from(StringList::String(s))` returns; hence the string and the list of its words convert to
the same vector. -/
theorem string_list_eq_words (s : List Char) (ws : List (List Char)) :
    isWordsOf s ws = true ↔ (StringList.string s).toVec = (StringList.list ws).toVec := by
  simp only [StringList.toVec]
  rw [isWordsOf_iff]
  exact eq_comm

/-- The spec-side judge of argument vectors accepts exactly the model's answer. -/
theorem args_accepted_iff (sl : StringList) (observed : List (List Char)) :
    acceptsArgs sl observed = true ↔ observed = sl.toVec := by
  cases sl with
  | string s => simp [acceptsArgs, StringList.toVec, isWordsOf_iff]
  | list l => simp [acceptsArgs, StringList.toVec]

/-- Conversely, writing a list of (non-empty, white-free) words as one space-separated string
loses nothing. -/
theorem words_join_roundtrip (ws : List (List Char))
    (hw : ∀ w ∈ ws, w ≠ [] ∧ w.all (fun c => !isWhite c) = true) :
    (StringList.string (RustStr2.join [' '] ws)).toVec = (StringList.list ws).toVec := by
  simp only [StringList.toVec]
  exact ((isWordsOf_iff _ _).mp (isWordsOf_join ws hw)).symm

/-- Every word returned is non-empty and contains no white space. -/
theorem words_are_words (s : List Char) :
    ∀ w ∈ (StringList.string s).toVec, w ≠ [] ∧ w.all (fun c => !isWhite c) = true := by
  simp only [StringList.toVec]
  generalize hws : RustStr2.splitWhitespace s = ws
  have h := splitWhitespace_isWordsOf s
  rw [hws] at h
  clear hws
  induction ws generalizing s with
  | nil => simp
  | cons w t ih =>
    simp only [isWordsOf, Bool.and_eq_true] at h
    obtain ⟨⟨⟨⟨a1, a2⟩, _⟩, _⟩, a5⟩ := h
    intro x hx
    rcases List.mem_cons.mp hx with rfl | hx
    · exact ⟨by cases x <;> simp_all, a2⟩
    · exact ih _ a5 x hx

/-! ### Non-vacuity -/

/-- marker lines, a blank line ends the block, a later marker line is ignored; CRLF is a line end. -/
example : configText "//@ args = '--a'\r\n//@x=1\n\n//@ late = true\nfn main() {}\n".toList "//@".toList
    = " args = '--a'\nx=1".toList := by decide

example : configText ";;@ a\n;; not config\n;;@ b".toList ";;@".toList = " a".toList := by decide

/-- no marker line at all: empty configuration; unterminated last line keeps its `\r`. -/
example : configText "code\n//@ a = 1".toList "//@".toList = [] ∧
    configText "//@ a = 1\r".toList "//@".toList = " a = 1\r".toList := by decide

example : (StringList.string " --foo\t--bar=1 \n x ".toList).toVec =
    ["--foo".toList, "--bar=1".toList, "x".toList] := by decide

example : isWordsOf " a  b ".toList ["a".toList, "b".toList] = true ∧
    isWordsOf " a  b ".toList ["a".toList] = false ∧
    isWordsOf "ab".toList ["a".toList, "b".toList] = false := by decide

end Witverif.Props.C34
