import Witverif.Proofs.TypesEqTop
/-!
# C28 — type analysis identifies exactly the structurally equal types

Property theorems only (helper lemmas: `Proofs/TypesEq*.lean`).
Model: `Witverif.Text.TypesEq` (crates/core/src/types.rs: `analyze`, `type_id_info`,
`type_info_func`, `collect_equal_types`, `is_structurally_equal` + helpers, `UnionFind`,
`get_representative_type`), tied to the real code by the `typeseq` correspondence run.
Spec: `Witverif.Text.TypesEqSpec` (`StructEq` = equal shapes, `Contains` / `Refers` reachability).

All theorems hold for every topologically ordered type table `T` (`WF T`) of any size, every
`LiveTypes` order `live`, every filter `mayAlias`, every hash-map iteration order `order`.

Decisions read off the code and made explicit in the spec:
* an alias (`type a = b`, every `use`) **is** structurally equal to its target
  (`structEq_alias_target`); the name of a type is not part of its structure, field / case / flag
  names are (`structEq_record_iff` …); a resource equals only itself (`structEq_resource_iff`);
* `has_list` = contains a `string`, `list<T>` or `map<K,V>`; a fixed-length list is not a list;
  payloads of `future`/`stream` and the resource behind a handle are not contained values;
* `borrowed`/`owned` are set on *named* types only.

Repaired defect (was `error_fact_full_false`, class `error-via-result-alias`): `TypeInfo.error` was not set
when the function's result type is named through an alias; since the `fix:` commit `error_fact` holds in full.
-/
namespace Witverif.Props.C28
open Witverif.Text.TypesEq Witverif.Text.TypesEqSpec

/-! ## 1. `is_structurally_equal` -/

/-- The recursion of `is_structurally_equal` / `types_equal` / `type_id_equal_to_type` /
`optional_types_equal` terminates on every topologically ordered table: the fuel the model
passes (`8·|T| + 8` calls) is never exhausted, from any union-find state the code can be in. -/
theorem struct_eq_terminates {T : Table} (hwf : WF T) {u : UF} (hu : Good T u) {a b : Nat}
    (ha : a < T.length) (hb : b < T.length) : (isStructurallyEqual T u a b).isSome = true := by
  obtain ⟨u', h, _⟩ := isStructurallyEqual_spec hwf hu ha hb
  simp [h]

/-- **Soundness and completeness of `is_structurally_equal`**: in every state in which the
union-find only identifies structurally equal types (`Good`; in particular the fresh state and
every state `collect_equal_types` passes through) the code's answer is `true` exactly when the
two types are structurally equal; the call changes no representative (only compresses paths)
and keeps the state `Good`. -/
theorem struct_eq_sound_complete {T : Table} (hwf : WF T) {u : UF} (hu : Good T u) {a b : Nat}
    (ha : a < T.length) (hb : b < T.length) :
    ∃ u', isStructurallyEqual T u a b = some (decide (StructEq T (.id a) (.id b)), u') ∧
      Good T u' ∧ ∀ x, u'.root x = u.root x := by
  obtain ⟨u', h, hi⟩ := isStructurallyEqual_spec hwf hu ha hb
  exact ⟨u', h, hu.of_inv hi, hi.2⟩

/-- The statement in the form of DESIGN §7, on a fresh `Types`. -/
theorem struct_eq_sound_complete_fresh {T : Table} (hwf : WF T) {a b : Nat}
    (ha : a < T.length) (hb : b < T.length) {r : Bool} {u' : UF}
    (h : isStructurallyEqual T {} a b = some (r, u')) :
    r = true ↔ StructEq T (.id a) (.id b) := by
  obtain ⟨u'', h', _⟩ := struct_eq_sound_complete hwf (good_empty T) ha hb
  rw [h] at h'
  simp only [Option.some.injEq, Prod.mk.injEq] at h'
  rw [h'.1]; simp

/-- The three helpers decide the corresponding relations (`types_equal`: `StructEq` on
`Type`s; `type_id_equal_to_type`; `optional_types_equal`: both absent or both present and equal). -/
theorem helpers_sound_complete {T : Table} (hwf : WF T) {u : UF} (hu : Good T u) :
    (∀ a b : Ty, a.size ≤ T.length → b.size ≤ T.length →
      ∃ u', typesEqual T u a b = some (decide (StructEq T a b), u') ∧ Good T u') ∧
    (∀ (a : Nat) (b : Ty), a < T.length → b.size ≤ T.length →
      ∃ u', typeIdEqualToType T u a b = some (decide (StructEq T (.id a) b), u') ∧ Good T u') ∧
    (∀ a b : Option Ty, osize a ≤ T.length → osize b ≤ T.length →
      ∃ u', optionalTypesEqual T u a b = some (decide (OptEq T a b), u') ∧ Good T u') := by
  refine ⟨?_, ?_, ?_⟩
  · intro a b ha hb
    obtain ⟨u', h, hi⟩ := eqF_correct T hwf u hu.2 (eqFuel T) (.tt a b) ⟨ha, hb⟩
      (by simp only [Call.measure, eqFuel]; omega) u (Inv.refl hu.1)
    exact ⟨u', h, hu.of_inv hi⟩
  · intro a b ha hb
    obtain ⟨u', h, hi⟩ := eqF_correct T hwf u hu.2 (eqFuel T) (.it a b) ⟨ha, hb⟩
      (by simp only [Call.measure, eqFuel]; omega) u (Inv.refl hu.1)
    exact ⟨u', h, hu.of_inv hi⟩
  · intro a b ha hb
    obtain ⟨u', h, hi⟩ := eqF_correct T hwf u hu.2 (eqFuel T) (.ot a b) ⟨ha, hb⟩
      (by simp only [Call.measure, eqFuel]; omega) u (Inv.refl hu.1)
    exact ⟨u', h, hu.of_inv hi⟩

/-! ## 2. What `StructEq` says (the spec matches the property statement) -/

/-- `StructEq` is an equivalence relation. -/
theorem structEq_equivalence (T : Table) :
    (∀ a, StructEq T a a) ∧ (∀ a b, StructEq T a b → StructEq T b a) ∧
    (∀ a b c, StructEq T a b → StructEq T b c → StructEq T a c) :=
  ⟨StructEq.refl T, fun _ _ h => h.symm, fun _ _ _ h h' => h.trans h'⟩

/-- An alias is structurally equal to its target: `type a = t` makes `a` equal to `t`. -/
theorem structEq_alias_target {T : Table} (hwf : WF T) {a : Nat} {t : Ty}
    (ha : T[a]? = some (.alias t)) : StructEq T (.id a) t :=
  (structEq_alias hwf ha t).mpr (StructEq.refl T t)

/-- Records: same field names in the same order and pairwise equal field types
(the record's own name is irrelevant). -/
theorem structEq_record_iff {T : Table} (hwf : WF T) {a b : Nat} {fa fb : List (Name × Ty)}
    (ha : T[a]? = some (.record fa)) (hb : T[b]? = some (.record fb)) :
    StructEq T (.id a) (.id b) ↔
      fa.length = fb.length ∧ ∀ p ∈ fa.zip fb, p.1.1 = p.2.1 ∧ StructEq T p.1.2 p.2.2 := by
  simp only [StructEq, shape_id hwf ha, shape_id hwf hb, shapeDef, Shape.node.injEq,
    Label.record.injEq, Shapes.ofList_inj, shapeTy_shapes]
  rw [map2_eq_iff_zip (fun f : Name × Ty => f.1) (fun f => shape T f.2)]

/-- Variants: same case names in order, payloads both absent or both present and equal. -/
theorem structEq_variant_iff {T : Table} (hwf : WF T) {a b : Nat} {ca cb : List (Name × Option Ty)}
    (ha : T[a]? = some (.variant ca)) (hb : T[b]? = some (.variant cb)) :
    StructEq T (.id a) (.id b) ↔
      ca.length = cb.length ∧ ∀ p ∈ ca.zip cb, p.1.1 = p.2.1 ∧ OptEq T p.1.2 p.2.2 := by
  simp only [StructEq, shape_id hwf ha, shape_id hwf hb, shapeDef, Shape.node.injEq,
    Label.variant.injEq, Shapes.ofList_inj]
  rw [map2_eq_iff_zip (fun f : Name × Option Ty => f.1) (fun f => shapeOpt (shapes T) f.2)]
  simp only [shapeOpt_eq_iff hwf]

/-- Enums and flags: the same names in the same order. -/
theorem structEq_enum_flags_iff {T : Table} (hwf : WF T) {a b : Nat} {na nb : List Name} :
    (T[a]? = some (.enum na) → T[b]? = some (.enum nb) →
      (StructEq T (.id a) (.id b) ↔ na = nb)) ∧
    (T[a]? = some (.flags na) → T[b]? = some (.flags nb) →
      (StructEq T (.id a) (.id b) ↔ na = nb)) := by
  constructor
  · intro ha hb; simp [StructEq, shape_id hwf ha, shape_id hwf hb, shapeDef]
  · intro ha hb; simp [StructEq, shape_id hwf ha, shape_id hwf hb, shapeDef]

/-- Resources are equal only to themselves (two distinct resources of equal shape differ). -/
theorem structEq_resource_iff {T : Table} (hwf : WF T) {a b : Nat}
    (ha : T[a]? = some .resource) (hb : T[b]? = some .resource) :
    StructEq T (.id a) (.id b) ↔ a = b := by
  simp [StructEq, shape_id hwf ha, shape_id hwf hb, shapeDef]

/-- Different kinds are never equal, e.g. a record and a variant with the same members, an enum
and flags with the same names, `own<r>` and `borrow<r>`, `list<t>` and `option<t>`. -/
theorem structEq_kind_mismatch {T : Table} (hwf : WF T) {a b : Nat} :
    (∀ fa cb, T[a]? = some (.record fa) → T[b]? = some (.variant cb) → ¬ StructEq T (.id a) (.id b)) ∧
    (∀ na nb, T[a]? = some (.enum na) → T[b]? = some (.flags nb) → ¬ StructEq T (.id a) (.id b)) ∧
    (∀ r r', T[a]? = some (.own r) → T[b]? = some (.borrow r') → ¬ StructEq T (.id a) (.id b)) ∧
    (∀ t t', T[a]? = some (.list t) → T[b]? = some (.option t') → ¬ StructEq T (.id a) (.id b)) ∧
    (∀ t t' n, T[a]? = some (.list t) → T[b]? = some (.fixedList t' n) → ¬ StructEq T (.id a) (.id b)) := by
  refine ⟨?_, ?_, ?_, ?_, ?_⟩ <;> intros <;>
    simp_all [StructEq, shape_id hwf, shapeDef]

/-! ## 3. `collect_equal_types`: the classes -/

section collect
variable {T : Table} {mayAlias : Nat → Bool} {infos : List TypeInfo} {live order : List Nat}
  {s : Types}

/-- `collect_equal_types` never panics / diverges on a well-formed input. -/
theorem collect_total (hwf : WF T) (hlen : infos.length = T.length)
    (hlive : ∀ x ∈ live, x < T.length)
    (hord1 : ∀ i ∈ order, i < T.length) (hord2 : ∀ i, i < T.length → i ∈ order) :
    (collectEqualTypes T { typeInfo := infos, equalTypes := {} } live mayAlias order).isSome = true := by
  obtain ⟨s', h, _⟩ := collectEqualTypes_spec hwf mayAlias infos hlen live hlive order hord1 hord2
  simp [h]

/-- **Classes are sound, for every filter**: two types with the same representative are
structurally equal. -/
theorem classes_sound (hwf : WF T) (hlen : infos.length = T.length)
    (hlive : ∀ x ∈ live, x < T.length)
    (hord1 : ∀ i ∈ order, i < T.length) (hord2 : ∀ i, i < T.length → i ∈ order)
    (h : collectEqualTypes T { typeInfo := infos, equalTypes := {} } live mayAlias order = some s)
    {a b : Nat} (ha : a < T.length) (hb : b < T.length) (hr : rep s a = rep s b) :
    StructEq T (.id a) (.id b) := by
  have hc := collected_of_eq hwf hlen hlive hord1 hord2 h
  rw [rep_eq_root s a hc.inv.good.1, rep_eq_root s b hc.inv.good.1] at hr
  exact hc.inv.good.2 a b ha hb (Option.some.inj hr)

/-- **Classes are exact when the filter admits every live type** (the
`merge_structurally_equal_types` mode): two live types have the same representative *exactly*
when they are structurally equal. -/
theorem classes_exact (hwf : WF T) (hlen : infos.length = T.length)
    (hlive : ∀ x ∈ live, x < T.length)
    (hord1 : ∀ i ∈ order, i < T.length) (hord2 : ∀ i, i < T.length → i ∈ order)
    (hall : ∀ t ∈ live, mayAlias t = true)
    (h : collectEqualTypes T { typeInfo := infos, equalTypes := {} } live mayAlias order = some s)
    {a b : Nat} (ha : a ∈ live) (hb : b ∈ live) :
    rep s a = rep s b ↔ StructEq T (.id a) (.id b) := by
  have hc := collected_of_eq hwf hlen hlive hord1 hord2 h
  rw [rep_eq_root s a hc.inv.good.1, rep_eq_root s b hc.inv.good.1]
  constructor
  · intro hr
    exact hc.inv.good.2 a b (hlive a ha) (hlive b hb) (Option.some.inj hr)
  · intro hse
    rw [hc.inv.exact hlive hall a ha b hb hse]

/-- With a filter, an admitted type that has an earlier structurally equal live type is merged
with an earlier type (which is then structurally equal to it); non-admitted types never
initiate a merge, so filtered classes are sound but not maximal — by design of the parameter. -/
theorem filtered_merges_one (hwf : WF T) (hlen : infos.length = T.length)
    (hlive : ∀ x ∈ live, x < T.length)
    (hord1 : ∀ i ∈ order, i < T.length) (hord2 : ∀ i, i < T.length → i ∈ order)
    (h : collectEqualTypes T { typeInfo := infos, equalTypes := {} } live mayAlias order = some s)
    {pre post : List Nat} {t : Nat} (hsplit : live = pre ++ t :: post) (hm : mayAlias t = true)
    (hex : ∃ e ∈ pre, StructEq T (.id t) (.id e)) :
    ∃ e' ∈ pre, rep s t = rep s e' ∧ StructEq T (.id t) (.id e') := by
  have hc := collected_of_eq hwf hlen hlive hord1 hord2 h
  obtain ⟨e', he', hr⟩ := hc.inv.merged pre t post hsplit hm hex
  have ht : t < T.length := hlive t (by rw [hsplit]; simp)
  have he : e' < T.length := hlive e' (by rw [hsplit]; simp [he'])
  refine ⟨e', he', ?_, hc.inv.good.2 t e' ht he hr⟩
  rw [rep_eq_root s t hc.inv.good.1, rep_eq_root s e' hc.inv.good.1, hr]

/-- Only live types are ever merged: a type that is not live is its own representative and
nobody else's. -/
theorem nonlive_singleton (hwf : WF T) (hlen : infos.length = T.length)
    (hlive : ∀ x ∈ live, x < T.length)
    (hord1 : ∀ i ∈ order, i < T.length) (hord2 : ∀ i, i < T.length → i ∈ order)
    (h : collectEqualTypes T { typeInfo := infos, equalTypes := {} } live mayAlias order = some s)
    {a b : Nat} (hr : rep s a = rep s b) : a = b ∨ (a ∈ live ∧ b ∈ live) := by
  have hc := collected_of_eq hwf hlen hlive hord1 hord2 h
  rw [rep_eq_root s a hc.inv.good.1, rep_eq_root s b hc.inv.good.1] at hr
  exact hc.inv.local_ a b (Option.some.inj hr)

/-- `get_representative_type` is stable: it is idempotent, the representative is the smallest
id of its class, and asking (which compresses paths) never changes any later answer. -/
theorem rep_stable (hwf : WF T) (hlen : infos.length = T.length)
    (hlive : ∀ x ∈ live, x < T.length)
    (hord1 : ∀ i ∈ order, i < T.length) (hord2 : ∀ i, i < T.length → i ∈ order)
    (h : collectEqualTypes T { typeInfo := infos, equalTypes := {} } live mayAlias order = some s)
    (a : Nat) :
    ∃ r s', getRepresentativeType s a = some (r, s') ∧ rep s r = some r ∧
      (∀ b, rep s b = some r → r ≤ b) ∧ (∀ b, rep s' b = rep s b) ∧ s'.typeInfo = s.typeInfo := by
  have hc := collected_of_eq hwf hlen hlive hord1 hord2 h
  have hp := hc.inv.good.1
  obtain ⟨s', h1, h2, hi⟩ := getRepresentativeType_spec s a hp
  refine ⟨_, s', h1, ?_, ?_, ?_, h2⟩
  · rw [rep_eq_root s _ hp, UF.root_root _ hp]
  · intro b hb
    rw [rep_eq_root s b hp] at hb
    rw [← Option.some.inj hb]
    exact UF.root_le _ b
  · intro b
    rw [rep_eq_root s' b hi.1, rep_eq_root s b hp, hi.2]

/-! ## 4. `TypeInfo` after the merge -/

/-- **Equal types share the union of the facts**: after `collect_equal_types` a fact holds of a
type exactly when it held (after `analyze`) of some type with the same representative — for
every one of the eight facts, every filter, and every iteration order of the hash map. -/
theorem info_is_union (hwf : WF T) (hlen : infos.length = T.length)
    (hlive : ∀ x ∈ live, x < T.length)
    (hord1 : ∀ i ∈ order, i < T.length) (hord2 : ∀ i, i < T.length → i ∈ order)
    (h : collectEqualTypes T { typeInfo := infos, equalTypes := {} } live mayAlias order = some s)
    {a : Nat} (ha : a < T.length) (f : Flag) :
    (∃ i, s.get a = some i ∧ i.get f = true) ↔
      ∃ b, b < T.length ∧ rep s b = rep s a ∧ ∃ i0, infos[b]? = some i0 ∧ i0.get f = true := by
  have hc := collected_of_eq hwf hlen hlive hord1 hord2 h
  have hp := hc.inv.good.1
  have hsa : s.get a = some (s.typeInfo.getD a {}) := by
    have : a < s.typeInfo.length := by rw [hc.len]; exact ha
    simp [Types.get, List.getD_eq_getElem?_getD, this]
  constructor
  · rintro ⟨i, hi, hf⟩
    rw [hsa] at hi; cases hi
    obtain ⟨b, hb, hr, hfb⟩ := (hc.info a ha f).mp hf
    have hbi : infos[b]? = some infos[b] := by simp [hlen, hb]
    refine ⟨b, hb, by rw [rep_eq_root s b hp, rep_eq_root s a hp, hr], infos[b], hbi, ?_⟩
    simpa [List.getD_eq_getElem?_getD, hbi] using hfb
  · rintro ⟨b, hb, hr, i0, hi0, hf⟩
    rw [rep_eq_root s b hp, rep_eq_root s a hp] at hr
    refine ⟨_, hsa, (hc.info a ha f).mpr ⟨b, hb, Option.some.inj hr, ?_⟩⟩
    simpa [List.getD_eq_getElem?_getD, hi0] using hf

end collect

/-! ## 5. The facts computed by `analyze` -/

/-- **Content facts = reachability.** After `analyze`, for each of `has_list`, `has_tuple`,
`has_resource`, `has_borrow_handle`, `has_own_handle`, the flag of a type is set exactly when
the type contains (through fields, cases, elements, option/result/list/map payloads and
aliases) a node of the corresponding kind (`TypesEqSpec.contentNode`). -/
theorem content_facts {T : Table} (hwf : WF T) {named : List Bool} {funcs : List Func}
    {infos : List TypeInfo} (h : analyze T named funcs = some infos)
    {a : Nat} (ha : a < T.length) {f : Flag} {node : Ty → Bool} (hf : contentNode T f = some node) :
    (∃ i, infos[a]? = some i ∧ i.get f = true) ↔ HasNode T node (.id a) := by
  obtain ⟨hl, hs⟩ := analyze_spec hwf h
  have hai : infos[a]? = some (infos.getD a {}) := by
    have : a < infos.length := by rw [hl]; exact ha
    simp [List.getD_eq_getElem?_getD, this]
  have hnm : ¬ ∃ fn ∈ funcs, Marked T named fn a f := by
    rintro ⟨fn, _, hm⟩
    cases f <;> simp [contentNode] at hf <;> exact hm
  simp only [HasNode, nodeFlag_content T f node hf]
  constructor
  · rintro ⟨i, hi, hfi⟩
    rw [hai] at hi; cases hi
    rcases (hs a f ha).mp hfi with h | h
    · exact h
    · exact absurd h hnm
  · intro hx
    exact ⟨_, hai, (hs a f ha).mpr (Or.inl hx)⟩

/-- The decision procedure the check's monitor evaluates on the implementation's answers
(`hasNodeB`) decides the declarative predicate. -/
theorem content_monitor_decides {T : Table} (hwf : WF T) (node : Ty → Bool) {a : Nat}
    (ha : a < T.length) : hasNodeB T node (.id a) = true ↔ HasNode T node (.id a) :=
  hasNodeB_iff hwf node (.id a) (by simp [Ty.size]; omega)

/-- … and the monitor's reference lists are the declarative `Refers` closure that `LiveTypes`
is assumed (and checked per case) to enumerate. -/
theorem refers_monitor_decides {T : Table} (hwf : WF T) {a : Nat} (ha : a < T.length) (s : Ty) :
    s ∈ reachList Def.refs T (.id a) ↔ Refers T (.id a) s :=
  mem_reachList_iff (fun _ _ h => h) hwf (.id a) (by simp [Ty.size]; omega) s

/-- **Usage facts** as the code defines them: `borrowed` = named and live in a parameter of an
imported function; `owned` = named and live in a parameter of an exported function or in any
result; `error` = the definition reached through `type`/`use` layers from the error type of a
function whose result type is *directly* a `result`. (`paramLive`/`resultLive` are the lists
`LiveTypes` yields; the monitor checks they are the `Refers` closure.) -/
theorem usage_facts {T : Table} (hwf : WF T) {named : List Bool} {funcs : List Func}
    {infos : List TypeInfo} (h : analyze T named funcs = some infos) {a : Nat} (ha : a < T.length) :
    ((∃ i, infos[a]? = some i ∧ i.borrowed = true) ↔
      named.getD a false = true ∧ ∃ fn ∈ funcs, fn.isImport = true ∧ a ∈ fn.paramLive) ∧
    ((∃ i, infos[a]? = some i ∧ i.owned = true) ↔
      named.getD a false = true ∧
        ∃ fn ∈ funcs, (fn.isImport = false ∧ a ∈ fn.paramLive) ∨ a ∈ fn.resultLive) ∧
    ((∃ i, infos[a]? = some i ∧ i.error = true) ↔
      ∃ fn ∈ funcs, ∃ r rd ok e, fn.result = some (.id r) ∧ resolveTypeDefinitionId T (r + 1) r = some rd ∧
        T[rd]? = some (.result ok (some (.id e))) ∧ resolveTypeDefinitionId T (e + 1) e = some a) := by
  obtain ⟨hl, hs⟩ := analyze_spec hwf h
  have hai : infos[a]? = some (infos.getD a {}) := by
    have : a < infos.length := by rw [hl]; exact ha
    simp [List.getD_eq_getElem?_getD, this]
  have key : ∀ f, contentNode T f = none →
      ((∃ i, infos[a]? = some i ∧ i.get f = true) ↔ ∃ fn ∈ funcs, Marked T named fn a f) := by
    intro f hf
    constructor
    · rintro ⟨i, hi, hfi⟩
      rw [hai] at hi; cases hi
      rcases (hs a f ha).mp hfi with ⟨s, _, hn⟩ | h
      · rw [nodeFlag_usage T f hf s] at hn; exact absurd hn (by simp)
      · exact h
    · intro hx
      exact ⟨_, hai, (hs a f ha).mpr (Or.inr hx)⟩
  refine ⟨?_, ?_, ?_⟩
  · have := key .borrowed rfl
    simp only [TypeInfo.get, Marked] at this
    rw [this]
    constructor
    · rintro ⟨fn, hfn, h1, h2, h3⟩; exact ⟨h2, fn, hfn, h1, h3⟩
    · rintro ⟨h2, fn, hfn, h1, h3⟩; exact ⟨fn, hfn, h1, h2, h3⟩
  · have := key .owned rfl
    simp only [TypeInfo.get, Marked] at this
    rw [this]
    constructor
    · rintro ⟨fn, hfn, h1, h2⟩; exact ⟨h1, fn, hfn, h2⟩
    · rintro ⟨h1, fn, hfn, h2⟩; exact ⟨fn, hfn, h1, h2⟩
  · have := key .error rfl
    simp only [TypeInfo.get, Marked] at this
    exact this

/-- The assumption about wit-parser's `LiveTypes` (checked per function by the monitor, class
`live-assumption`): the lists are the `Refers` closure of the parameters / of the result. -/
def LiveOK (T : Table) (fn : Func) : Prop :=
  (∀ a, a ∈ fn.paramLive ↔ ∃ p ∈ fn.params, Refers T p (.id a)) ∧
  (∀ a, a ∈ fn.resultLive ↔ ∃ r, fn.result = some r ∧ Refers T r (.id a))

/-- `borrowed` / `owned` declaratively: a *named* type is `borrowed` iff it is referred to
(transitively) by a parameter of an imported function, `owned` iff by a parameter of an exported
function or by any result. -/
theorem usage_facts_declarative {T : Table} (hwf : WF T) {named : List Bool} {funcs : List Func}
    {infos : List TypeInfo} (h : analyze T named funcs = some infos)
    (hlive : ∀ fn ∈ funcs, LiveOK T fn) {a : Nat} (ha : a < T.length) :
    ((∃ i, infos[a]? = some i ∧ i.borrowed = true) ↔
      named.getD a false = true ∧
        ∃ fn ∈ funcs, fn.isImport = true ∧ ∃ p ∈ fn.params, Refers T p (.id a)) ∧
    ((∃ i, infos[a]? = some i ∧ i.owned = true) ↔
      named.getD a false = true ∧
        ∃ fn ∈ funcs, (fn.isImport = false ∧ ∃ p ∈ fn.params, Refers T p (.id a)) ∨
          ∃ r, fn.result = some r ∧ Refers T r (.id a)) := by
  obtain ⟨hb, ho, _⟩ := usage_facts hwf h ha
  constructor
  · rw [hb]
    constructor
    · rintro ⟨hn, fn, hfn, hi, hm⟩
      exact ⟨hn, fn, hfn, hi, ((hlive fn hfn).1 a).mp hm⟩
    · rintro ⟨hn, fn, hfn, hi, hm⟩
      exact ⟨hn, fn, hfn, hi, ((hlive fn hfn).1 a).mpr hm⟩
  · rw [ho]
    constructor
    · rintro ⟨hn, fn, hfn, hm⟩
      refine ⟨hn, fn, hfn, ?_⟩
      rcases hm with ⟨hi, hm⟩ | hm
      · exact Or.inl ⟨hi, ((hlive fn hfn).1 a).mp hm⟩
      · exact Or.inr (((hlive fn hfn).2 a).mp hm)
    · rintro ⟨hn, fn, hfn, hm⟩
      refine ⟨hn, fn, hfn, ?_⟩
      rcases hm with ⟨hi, hm⟩ | hm
      · exact Or.inl ⟨hi, ((hlive fn hfn).1 a).mpr hm⟩
      · exact Or.inr (((hlive fn hfn).2 a).mpr hm)


/-! ## 6. The `error` fact (full statement; holds since the repair of `type_info_func` in /repo) -/

/-- FULL statement of the `error` fact (alias-transparent, as the rest of C28 treats aliases):
`error` is set exactly on the definition of the error type of every function whose result type
is — directly or through `type`/`use` aliases — a `result`.
(Before the `fix:` commit in /repo this was false: only a result type that was *directly* a `result`
was looked at; the old witness `wT`/`wFuncs` below is kept as a must-pass case.) -/
def ErrorFactFull (T : Table) (named : List Bool) (funcs : List Func) : Prop :=
  ∀ infos, analyze T named funcs = some infos → ∀ a, a < T.length →
    ((∃ i, infos[a]? = some i ∧ i.error = true) ↔
      ∃ fn ∈ funcs, ∃ r, fn.result = some r ∧ errorTypeOf T r = some (.id a))

def wT : Table := [.enum [['a'], ['b']], .result (some (.prim .u32)) (some (.id 0)), .alias (.id 1)]
def wFuncs : List Func :=
  [{ isImport := true, params := [], result := some (.id 2), paramLive := [], resultLive := [0, 1, 2] }]

/-- The former counterexample: `enum e {a,b}; type r = result<u32,e>;` and, in another interface,
`use i.{r}; f: func() -> r;` — the table is `[enum, result<u32,#0>, alias #1]`, `f` returns `#2`.
The repaired code sets `e.error`. -/
theorem error_through_result_alias_is_marked :
    analyze wT [true, true, true] wFuncs =
      some [{ owned := true, error := true }, { owned := true }, { owned := true }] := by decide

theorem resolve_lt {T : Table} {fuel r rd : Nat} (h : resolveTypeDefinitionId T fuel r = some rd) : r < T.length := by
  cases fuel with
  | zero => simp [resolveTypeDefinitionId] at h
  | succ f =>
    by_cases hr : r < T.length
    · exact hr
    · have : T[r]? = none := by simp; omega
      simp [resolveTypeDefinitionId, this] at h

/-- **The `error` fact, full strength**: for every well-formed table and every set of functions. -/
theorem error_fact {T : Table} (hwf : WF T) {named : List Bool} {funcs : List Func} :
    ErrorFactFull T named funcs := by
  intro infos h a ha
  rw [(usage_facts hwf h ha).2.2]
  constructor
  · rintro ⟨fn, hfn, r, rd, ok, e, hres, hrd, hT, hre⟩
    refine ⟨fn, hfn, .id r, hres, ?_⟩
    have hrl : r < T.length := resolve_lt hrd
    obtain ⟨d0, g1, g2, g3⟩ := resolve_eq_aliasTarget hwf (r + 1) r (by omega) hrl
    rw [hrd] at g1; cases g1
    have her : e < rd := hwf.ref_lt hT (by simp [Def.refs, optTys])
    obtain ⟨d, h1, _, h3⟩ := resolve_eq_aliasTarget hwf (e + 1) e (by omega) (by omega)
    rw [hre] at h1; cases h1
    simp only [errorTypeOf, g3 (T.length + 1) (by omega), hT, h3 (T.length + 1) (by omega)]
  · rintro ⟨fn, hfn, r', hres, herr⟩
    cases r' with
    | prim p => simp [errorTypeOf, aliasTarget] at herr
    | id r =>
      by_cases hrl : r < T.length
      · obtain ⟨rd, g1, g2, g3⟩ := resolve_eq_aliasTarget hwf (r + 1) r (by omega) hrl
        simp only [errorTypeOf, g3 (T.length + 1) (by omega)] at herr
        split at herr
        · rename_i ok e' hT
          split at herr
          · rename_i d hd
            simp only [Option.some.injEq, Ty.id.injEq] at herr
            subst herr
            cases e' with
            | prim p => simp [aliasTarget] at hd
            | id e =>
              have her : e < rd := hwf.ref_lt hT (by simp [Def.refs, optTys])
              obtain ⟨d', h1, _, h3⟩ := resolve_eq_aliasTarget hwf (e + 1) e (by omega) (by omega)
              rw [h3 (T.length + 1) (by omega)] at hd
              cases hd
              exact ⟨fn, hfn, r, rd, ok, e, hres, g1, hT, h1⟩
          · simp at herr
        · simp at herr
      · have hn : T[r]? = none := by simp; omega
        simp [errorTypeOf, aliasTarget, hn] at herr


/-! ## Non-vacuity -/

/-- `record {x:u32}` ×2, `record {y:u32}`, two resources, `own` handles, an alias, a list, a tuple -/
def exT : Table :=
  [ .record [(['x'], .prim .u32)], .record [(['x'], .prim .u32)], .record [(['y'], .prim .u32)],
    .resource, .resource, .own 3, .own 4, .own 3, .alias (.id 0), .list (.prim .string),
    .tuple [.id 9, .id 5] ]

def onlyAlias (t : Nat) : Bool := decide (t = 8)
def exS : Types := { typeInfo := analyzeTypes exT }

example : WF exT := by decide
-- the spec: equal fields / renamed field / distinct resources / handles / alias
example : StructEq exT (.id 0) (.id 1) ∧ ¬ StructEq exT (.id 0) (.id 2) ∧ ¬ StructEq exT (.id 3) (.id 4) ∧
    StructEq exT (.id 5) (.id 7) ∧ ¬ StructEq exT (.id 5) (.id 6) ∧ StructEq exT (.id 8) (.id 1) := by decide
-- the code's function agrees (struct_eq_sound_complete is not vacuous)
example : (isStructurallyEqual exT {} 0 1).map (·.1) = some true ∧
    (isStructurallyEqual exT {} 0 2).map (·.1) = some false ∧
    (isStructurallyEqual exT {} 3 4).map (·.1) = some false ∧
    (isStructurallyEqual exT {} 7 5).map (·.1) = some true ∧
    (isStructurallyEqual exT {} 8 1).map (·.1) = some true := by decide
-- classes with every type admitted, and with only the alias admitted
example : ((collectEqualTypes exT exS (List.range 11) (fun _ => true)
      (List.range 11)).bind fun s => (repsOf s (List.range 11)).map (·.1))
    = some [0, 0, 2, 3, 4, 5, 6, 5, 0, 9, 10] := by decide
example : ((collectEqualTypes exT exS (List.range 11) onlyAlias
      (List.range 11)).bind fun s => (repsOf s (List.range 11)).map (·.1))
    = some [0, 1, 2, 3, 4, 5, 6, 7, 0, 9, 10] := by decide
-- content facts of `tuple<list<string>, own<r>>`
example : (analyzeTypes exT)[10]? =
    some { hasList := true, hasTuple := true, hasResource := true, hasOwnHandle := true } := by decide
example : HasNode exT (listNode exT) (.id 10) :=
  ⟨.id 9, .step 10 _ (.id 9) _ rfl (by decide) (.refl _), by decide⟩


-- usage facts: `import f: func(p: #10) -> #8` marks the named types it refers to
def exNamed : List Bool := [true, true, true, true, true, false, false, false, true, false, false]
def exFuncs : List Func :=
  [{ isImport := true, params := [.id 10], result := some (.id 8),
     paramLive := [9, 3, 5, 10], resultLive := [0, 8] }]
example : (analyze exT exNamed exFuncs).map (fun l => l.map fun i => (i.borrowed, i.owned)) =
    some [(false, true), (false, false), (false, false), (true, false), (false, false), (false, false),
      (false, false), (false, false), (false, true), (false, false), (false, false)] := by decide
-- info_is_union: #1 is never used by a function but is equal to #0 and #8, so it becomes `owned`
example : ((analyze exT exNamed exFuncs).bind fun infos =>
      (collectEqualTypes exT { typeInfo := infos } (List.range 11) (fun _ => true) (List.range 11)).bind
        fun s => (s.get 1).map fun i => (i.borrowed, i.owned)) = some (false, true) := by decide


end Witverif.Props.C28
