import Witverif.Proofs.PkgPath
/-!
# C27 — Distinct packages get distinct generated module names

Property theorems only (helper lemmas: `Proofs/Heck.lean`, `Proofs/PkgPath.lean`).
Model: `Witverif.Text.PkgPath.namePackageModule` over `Witverif.Text.Heck.snake`, tied to
`crates/core/src/path.rs` (and to `heck 0.5`) by the `pkgpath` / `heck` correspondence runs.

## Full statement (FALSE of the current code — kept visible, its negation is proved below)

    theorem module_names_injective :
      ∀ (pkgs : List Pkg) (p q : Pkg), p ∈ pkgs → q ∈ pkgs →
        validPkg p → validPkg q → p.ns = q.ns → p ≠ q →
        namePackageModule pkgs p ≠ namePackageModule pkgs q

i.e. `FullStatement` below.  `module_names_injective_full_false` refutes it, and the eight
`collision_*` theorems exhibit one concrete witness per independent cause (all witnesses are valid
WIT package names with valid semantic versions and were reproduced on the real code).
What does hold is `module_names_injective_partial` (+ the sharper building blocks
`same_name_distinct_of_core_differs`, `same_name_injective_plain`, `distinct_names_partial`).
-/
namespace Witverif.Props.C27
open Witverif.Text Witverif.Text.PkgPath Witverif.Text.PkgSpec Witverif.Text.Heck

/-- The property as stated: different valid packages of one namespace never share a module name. -/
def FullStatement : Prop :=
  ∀ (pkgs : List Pkg) (p q : Pkg), p ∈ pkgs → q ∈ pkgs →
    validPkg p = true → validPkg q = true → p.ns = q.ns → p ≠ q →
    namePackageModule pkgs p ≠ namePackageModule pkgs q

/-- A concrete counterexample to the full statement inside `pkgs`: two different, valid packages of
one namespace, both in `pkgs`, with the same module name. -/
def Collides (pkgs : List Pkg) (p q : Pkg) : Prop :=
  p ∈ pkgs ∧ q ∈ pkgs ∧ validPkg p = true ∧ validPkg q = true ∧ p.ns = q.ns ∧ p ≠ q ∧
    namePackageModule pkgs p = namePackageModule pkgs q

instance (pkgs : List Pkg) (p q : Pkg) : Decidable (Collides pkgs p q) := by
  unfold Collides; infer_instance

private def v (M m p : Nat) (pre build : String) : Option Version :=
  some ⟨M, m, p, pre.toList, build.toList⟩
private def pk (name : String) (ver : Option Version) : Pkg := ⟨"t".toList, name.toList, ver⟩

/-! ## Negation of the full statement: one witness per cause -/

/-- class `pkgpath-name-digit-version-concat`: no separator between base and version —
`foo`+`10_0_0` = `foo1`+`0_0_0` (both names carry several versions). -/
theorem collision_name_digit_version_concat :
    Collides [pk "foo" (v 10 0 0 "" ""), pk "foo" (v 1 0 0 "" ""), pk "foo1" (v 0 0 0 "" ""), pk "foo1" (v 2 0 0 "" "")]
      (pk "foo" (v 10 0 0 "" "")) (pk "foo1" (v 0 0 0 "" "")) := by decide

/-- class `pkgpath-name-equals-mangled`: a package that is the only one of its name is called
`foo1-0-0` and keeps `foo1_0_0`, which is also `foo`@1.0.0 once `foo` has two versions. -/
theorem collision_name_equals_mangled :
    Collides [pk "foo" (v 1 0 0 "" ""), pk "foo" (v 2 0 0 "" ""), pk "foo1-0-0" none]
      (pk "foo" (v 1 0 0 "" "")) (pk "foo1-0-0" none) := by decide

/-- class `pkgpath-name-case`: WIT names may be upper-case words; `to_snake_case` folds the case. -/
theorem collision_name_case :
    Collides [pk "bar" none, pk "BAR" none] (pk "bar" none) (pk "BAR" none) := by decide

/-- class `pkgpath-prerelease-vs-build`: `-` and `+` both become `_`. -/
theorem collision_prerelease_vs_build :
    Collides [pk "foo" (v 1 0 0 "a" ""), pk "foo" (v 1 0 0 "" "a")]
      (pk "foo" (v 1 0 0 "a" "")) (pk "foo" (v 1 0 0 "" "a")) := by decide

/-- class `pkgpath-version-dot-vs-hyphen`: `.` and `-` inside the pre-release both become `_`. -/
theorem collision_version_dot_vs_hyphen :
    Collides [pk "foo" (v 1 0 0 "a.b" ""), pk "foo" (v 1 0 0 "a-b" "")]
      (pk "foo" (v 1 0 0 "a.b" "")) (pk "foo" (v 1 0 0 "a-b" "")) := by decide

/-- class `pkgpath-version-empty-segment`: `to_snake_case` drops empty words (`1.0.0--` ~ `1.0.0`). -/
theorem collision_version_empty_segment :
    Collides [pk "foo" (v 1 0 0 "-" ""), pk "foo" (v 1 0 0 "" "")]
      (pk "foo" (v 1 0 0 "-" "")) (pk "foo" (v 1 0 0 "" "")) := by decide

/-- class `pkgpath-version-case`: `to_snake_case` lower-cases (`1.0.0-A` ~ `1.0.0-a`). -/
theorem collision_version_case :
    Collides [pk "foo" (v 1 0 0 "A" ""), pk "foo" (v 1 0 0 "a" "")]
      (pk "foo" (v 1 0 0 "A" "")) (pk "foo" (v 1 0 0 "a" "")) := by decide

/-- class `pkgpath-version-camel-boundary`: `to_snake_case` inserts `_` at a case change
(`1.0.0-aB` ~ `1.0.0-a.b`). -/
theorem collision_version_camel_boundary :
    Collides [pk "foo" (v 1 0 0 "aB" ""), pk "foo" (v 1 0 0 "a.b" "")]
      (pk "foo" (v 1 0 0 "aB" "")) (pk "foo" (v 1 0 0 "a.b" "")) := by decide

/-- The full statement is false. -/
theorem module_names_injective_full_false : ¬ FullStatement := by
  intro h
  obtain ⟨h1, h2, h3, h4, h5, h6, h7⟩ := collision_name_digit_version_concat
  exact h _ _ _ h1 h2 h3 h4 h5 h6 h7

/-! ## What holds -/

/-- Packages with the same name never collide when their versions differ in
major/minor/patch — for arbitrary (even malformed) pre-release and build strings. -/
theorem same_name_distinct_of_core_differs (pkgs : List Pkg) (p q : Pkg) (v w : Version)
    (hp : p ∈ pkgs) (hq : q ∈ pkgs) (hns : p.ns = q.ns) (hname : p.name = q.name)
    (hv : p.version = some v) (hw : q.version = some w)
    (hcore : (v.major, v.minor, v.patch) ≠ (w.major, w.minor, w.patch)) :
    namePackageModule pkgs p ≠ namePackageModule pkgs q := by
  have hne : p ≠ q := by
    intro e; subst e; rw [hv] at hw; injection hw with hw; subst hw; exact hcore rfl
  intro h
  rw [name_eq_base_suffix, name_eq_base_suffix, suffix_of_two pkgs p q hp hq hne hns hname,
    suffix_of_two pkgs q p hq hp (Ne.symm hne) hns.symm hname.symm, hname, hv, hw] at h
  have hm : mangleVersion v = mangleVersion w := List.append_cancel_left h
  obtain ⟨Z, hZ, e1⟩ := mangle_struct v
  obtain ⟨Z', hZ', e2⟩ := mangle_struct w
  rw [e1, e2] at hm
  obtain ⟨h1, h2, h3, _⟩ := core_unique _ _ _ _ _ _ _ _ hZ hZ' hm
  exact hcore (by rw [h1, h2, h3])

/-- Different packages with the same name get different module names when their versions are
plain (no build metadata, no `-` and no upper case inside the pre-release). -/
theorem same_name_injective_plain (pkgs : List Pkg) (p q : Pkg)
    (hp : p ∈ pkgs) (hq : q ∈ pkgs) (hns : p.ns = q.ns) (hname : p.name = q.name) (hne : p ≠ q)
    (hpv : plainVersionOpt p.version = true) (hqv : plainVersionOpt q.version = true) :
    namePackageModule pkgs p ≠ namePackageModule pkgs q := by
  intro h
  rw [name_eq_base_suffix, name_eq_base_suffix, suffix_of_two pkgs p q hp hq hne hns hname,
    suffix_of_two pkgs q p hq hp (Ne.symm hne) hns.symm hname.symm, hname] at h
  have h2 := List.append_cancel_left h
  clear h
  obtain ⟨pns, pname, pver⟩ := p
  obtain ⟨qns, qname, qver⟩ := q
  simp only at hns hname h2 hpv hqv
  subst hns hname
  cases pver with
  | none =>
    cases qver with
    | none => exact hne rfl
    | some w =>
      obtain ⟨c, t, e, _⟩ := mangle_head_digit w
      simp only [e] at h2
      exact absurd h2 (by simp)
  | some v =>
    cases qver with
    | none =>
      obtain ⟨c, t, e, _⟩ := mangle_head_digit v
      simp only [e] at h2
      exact absurd h2 (by simp)
    | some w =>
      simp only [plainVersionOpt] at hpv hqv
      have := mangle_plain_inj v w hpv hqv h2
      subst this
      exact hne rfl

/-- Packages with different plain names (lower-case kebab, every digit directly after a `-`) get
different module names — whatever their versions are and however many versions exist. -/
theorem distinct_names_partial (pkgs : List Pkg) (p q : Pkg)
    (hpn : plainName p.name = true) (hqn : plainName q.name = true) (hname : p.name ≠ q.name) :
    namePackageModule pkgs p ≠ namePackageModule pkgs q := by
  intro h
  rw [name_eq_base_suffix, name_eq_base_suffix, snake_plainName _ hpn, snake_plainName _ hqn] at h
  have hbase : p.name.map sepU ≠ q.name.map sepU := fun e =>
    hname (sepU_inj_plain _ _ (plainName_facts _ hpn).2 (plainName_facts _ hqn).2 e)
  -- one base is a proper prefix of the other; the difference starts the other side's suffix
  have key : ∀ (np nq : List Char) (sp sq : List Char), plainName np = true → plainName nq = true →
      (sp = [] ∨ ∃ v, sp = mangleVersion v) →
      ∀ d, nq.map sepU = np.map sepU ++ d → sp = d ++ sq → d = [] := by
    intro np nq sp sq hnp hnq hsp d hd hs
    cases d with
    | nil => rfl
    | cons c d' =>
      exfalso
      have hc := no_digit_extension np nq d' c hnp hnq hd
      rcases hsp with e | ⟨v, e⟩
      · rw [e] at hs; simp at hs
      · obtain ⟨c', t, e', hdig⟩ := mangle_head_digit v
        rw [e, e'] at hs
        simp only [List.cons_append, List.cons.injEq] at hs
        rw [← hs.1, hdig] at hc
        exact absurd hc (by simp)
  rcases List.append_eq_append_iff.mp h with ⟨d, hd, hs⟩ | ⟨d, hd, hs⟩
  · have := key p.name q.name _ _ hpn hqn (suffix_cases pkgs p) d hd hs
    subst this
    exact hbase (by simpa using hd.symm)
  · have := key q.name p.name _ _ hqn hpn (suffix_cases pkgs q) d hd hs
    subst this
    exact hbase (by simpa using hd)

/-- **Partial form of the property.** Different packages of one namespace get different module
names provided all names are plain (lower-case kebab, digits only directly after `-`) and all
versions are plain (no build metadata; pre-release of `.`-separated `[a-z0-9]+` identifiers).
Each hypothesis excludes exactly one family of the collisions above. -/
theorem module_names_injective_partial (pkgs : List Pkg) (p q : Pkg)
    (hp : p ∈ pkgs) (hq : q ∈ pkgs) (hns : p.ns = q.ns) (hne : p ≠ q)
    (hpp : plainPkg p = true) (hqp : plainPkg q = true) :
    namePackageModule pkgs p ≠ namePackageModule pkgs q := by
  simp only [plainPkg, Bool.and_eq_true] at hpp hqp
  by_cases hname : p.name = q.name
  · exact same_name_injective_plain pkgs p q hp hq hns hname hne hpp.2 hqp.2
  · exact distinct_names_partial pkgs p q hpp.1 hqp.1 hname

/-- The partial property in monitor form: for every list of plain packages the C27 monitor accepts
the module names the model produces (any number of packages, namespaces, versions). -/
theorem monitor_accepts_plain (pkgs : List Pkg) (hplain : ∀ p ∈ pkgs, plainPkg p = true) :
    PkgSpec.check pkgs (allNames pkgs) = true := by
  have hzip : ∀ (l : List Pkg), l.zip (l.map (namePackageModule pkgs)) =
      l.map (fun p => (p, namePackageModule pkgs p)) := by
    intro l; induction l with
    | nil => rfl
    | cons x xs ih => simp [ih]
  have main : ∀ (l : List Pkg), (∀ p ∈ l, p ∈ pkgs) →
      pairwiseOk (l.map (fun p => (p, namePackageModule pkgs p))) = true := by
    intro l
    induction l with
    | nil => intro _; rfl
    | cons x xs ih =>
      intro hl
      simp only [List.map_cons, pairwiseOk, Bool.and_eq_true, List.all_eq_true]
      refine ⟨?_, ih (fun p hp => hl p (by simp [hp]))⟩
      intro qm hqm
      obtain ⟨y, hy, rfl⟩ := List.mem_map.mp hqm
      by_cases hc : (x.ns == y.ns && x != y) = true
      · simp only [Bool.and_eq_true, beq_iff_eq, bne_iff_ne, ne_eq] at hc
        have hx := hl x (by simp)
        have hy' := hl y (by simp [hy])
        have := module_names_injective_partial pkgs x y hx hy' hc.1 hc.2 (hplain x hx) (hplain y hy')
        simp [this]
      · simp [hc]
  simp only [PkgSpec.check, allNames, List.length_map, beq_self_eq_true, Bool.true_and, hzip]
  exact main pkgs (fun _ h => h)

/-! ## Non-vacuity -/

/-- the hypotheses of the partial theorem are satisfiable by a set with several versions, a
pre-release, digits in names, and the conclusion is about really mangled names -/
example :
    let pkgs := [pk "http-2" (v 0 2 0 "" ""), pk "http-2" (v 0 2 1 "rc.1" ""), pk "http" none, pk "http" (v 1 0 0 "" "")]
    (∀ p ∈ pkgs, plainPkg p = true) ∧
    allNames pkgs = ["http_20_2_0".toList, "http_20_2_1_rc_1".toList, "http".toList, "http1_0_0".toList] := by
  decide

/-- `same_name_distinct_of_core_differs` applies to versions outside the plain fragment -/
example : namePackageModule [pk "a" (v 1 0 0 "X-y" "B.7"), pk "a" (v 1 0 1 "X-y" "B.7")] (pk "a" (v 1 0 0 "X-y" "B.7"))
    = "a1_0_0_x_y_b_7".toList := by decide

/-- the monitor rejects a colliding observation (it is not constantly true) -/
example : PkgSpec.check [pk "foo" (v 1 0 0 "a" ""), pk "foo" (v 1 0 0 "" "a")]
    ["foo1_0_0_a".toList, "foo1_0_0_a".toList] = false := by decide

end Witverif.Props.C27
