import Witverif.Proofs.WaitableReg
import Witverif.Async.Subtask
/-!
# C18 — Async runtime registers, delivers and unregisters waitables exactly

Property theorems only (definitions and case analysis: `Proofs/WaitableReg.lean`).

System `GSys`: ONE `WaitableOperation<S>` of waitable.rs — for an **arbitrary** operation kind `ops`
(the `WaitableOp` trait as a record: stream/future read/write, subtask; the only assumption is the
trait's documented obligation `Ops.Stable`: `in_progress_waitable` does not change) — together with
the part of the executors' waitable maps that concerns it (`regs : List (task × waitable)`), driven by
labels `poll task ans` (polled while `task` is the current `wasip3_task`), `deliver code` (the
executor that holds the registration takes it out of its map and calls `cabi_wake`) and
`drop task ans`.  `v` is the C-ABI version of the tasks (1 or 2).  `GReach … t0 … g`: `g` is reachable
by legal labels; for the v1 ABI (tasks cannot be cloned) legality keeps the operation in task `t0`,
for v2 the task may change at every poll/drop.  All theorems: every label sequence, no depth bound.

Scope notes.  `delivered_once` is an invariant of the registration bookkeeping under the label
structure (see its docstring), not a statement about the host's event queue.  The real executor's side of the registration (`SharedTaskState::waitable_register/
unregister`, `deliver_waitable_event`: map + `waitable.join`) is not modelled here (C22's
`Async/Task.lean`); the check evaluates the specification monitor `WaitableSpec` on real traces of the
real executor as well.  Stream/future operation kinds are covered by the theorems (generic `ops`) but
driven on the real code only once C19/C20 add them to the harness; today's runs drive subtasks.
-/
namespace Witverif.Props.C18
open Witverif.Async

variable {S P R C : Type} (ops : Ops S P R C) (dropC : C → List Ev) (v t0 : Nat) (s0 : S)

/-- **Inv1 (registered iff waiting).**  In every reachable state the operation is present in an
executor's map exactly when it is in progress with no undelivered… no *unconsumed* completion code;
then it is present exactly once, under one task, for its own waitable, and (v2) that task is the one
whose reference the operation holds. -/
theorem registered_iff_waiting (hS : ops.Stable) (hv : v = 1 ∨ v = 2) {g : GSys S P} (h : GReach ops dropC v t0 s0 g) :
    (g.regs ≠ [] ↔ g.gone = false ∧ ∃ p, g.w.state = .inProgress p ∧ g.w.code = none) ∧
    (∀ tp x, (tp, x) ∈ g.regs →
      g.regs = [(tp, x)] ∧ g.waitable ops = some x ∧ (v = 2 → g.w.task = some ⟨tp, some x⟩) ∧ (v = 1 → tp = t0)) := by
  have hI := reach_regInv ops hS dropC v t0 hv s0 h
  unfold RegInv at hI
  cases hg : g.gone with
  | true => simp only [hg, if_true] at hI; simp [hI]
  | false =>
    simp only [hg, Bool.false_eq_true, if_false] at hI
    cases hst : g.w.state with
    | start s => rw [hst] at hI; simp [hI.1]
    | done => rw [hst] at hI; simp [hI.1]
    | inProgress p =>
      rw [hst] at hI
      obtain ⟨h1, h2, _⟩ := hI
      cases hc : g.w.code with
      | some c => obtain ⟨hr, _⟩ := h2 c hc; simp [hr]
      | none =>
        obtain ⟨x, tp, hw, hr, _, ht2, ht1⟩ := h1 hc
        refine ⟨by simp [hr], ?_⟩
        intro tp' x' hm
        rw [hr] at hm
        simp only [List.mem_singleton, Prod.mk.injEq] at hm
        obtain ⟨rfl, rfl⟩ := hm
        exact ⟨hr, by simp [GSys.waitable, hst, hw], ht2, ht1⟩

/-- **The `registered` flag mirrors the executor's map (v2 ABI).**  In every reachable state of a live
operation: the map of task `tp` holds an entry for waitable `x` of this operation **iff** the
operation's stored task reference is `tp` with `registered = Some(x)` and no delivered code is waiting
to be consumed.  (While a delivered code is unconsumed the executor has already taken the entry out
and the flag is stale until `poll_complete_with_code` clears it — the "event already popped for
delivery" case.)  The flag is what `CabiTask::drop` consults when the operation moves to another task
or is freed, so this is exactly what makes the move/free unregister from the right task: a model in
which re-registration with the same task does not set the flag again (seeded mutant C18c) violates it
after `deliver; poll`. -/
theorem registered_flag_iff_in_map (hS : ops.Stable) (hv2 : v = 2) {g : GSys S P}
    (h : GReach ops dropC v t0 s0 g) (hg : g.gone = false) (tp x : Nat) :
    (tp, x) ∈ g.regs ↔ (g.w.task = some ⟨tp, some x⟩ ∧ g.w.code = none ∧ ∃ p, g.w.state = .inProgress p) := by
  have hI := reach_regInv ops hS dropC v t0 (.inr hv2) s0 h
  unfold RegInv at hI
  simp only [hg, Bool.false_eq_true, if_false] at hI
  cases hst : g.w.state with
  | start s => rw [hst] at hI; simp [hI.1]
  | done => rw [hst] at hI; simp [hI.1]
  | inProgress p =>
    rw [hst] at hI
    obtain ⟨h1, h2, _⟩ := hI
    cases hc : g.w.code with
    | some c => obtain ⟨hr, _⟩ := h2 c hc; simp [hr]
    | none =>
      obtain ⟨y, tq, _, hr, _, ht2, _⟩ := h1 hc
      have htask := ht2 hv2
      rw [hr, htask]
      constructor
      · intro hm
        simp only [List.mem_singleton, Prod.mk.injEq] at hm
        obtain ⟨rfl, rfl⟩ := hm
        exact ⟨rfl, rfl, p, rfl⟩
      · intro ⟨he, _, _⟩
        simp only [Option.some.injEq, CabiTask.mk.injEq] at he
        obtain ⟨rfl, rfl⟩ := he
        simp

/-- Re-registration sets the flag every time, also with the task the operation already holds (after
`poll_complete_with_code` cleared it for a delivered code): `register_waker` ends with
`registered = Some(waitable)` on every path. -/
theorem reregister_sets_flag (hv2 : v = 2) (w : WOp S P) (t x : Nat)
    (htask : ∀ ct, w.task = some ct → ct.registered = none) :
    ∃ w' evs, registerWaker w ⟨some ⟨t, v⟩, []⟩ x = .ok (w', ⟨some ⟨t, v⟩, [(t, x)]⟩) evs ∧
      w'.task = some ⟨t, some x⟩ := by
  obtain ⟨w', evs, hr, _, _, _, h2, _⟩ := register_fresh w v t x (.inr hv2)
    ⟨fun h1 => absurd (h1.symm.trans hv2) (by decide), htask⟩
  exact ⟨w', evs, hr, h2 hv2⟩

/-- **Inv2 (removed before cancel or drop).**  When `cancel()` of a reachable in-progress operation
reaches the point where the cancel intrinsic is called, and when its destructor has run, the
operation is registered with no task.  (For subtasks the trace-level form — at every `subtask.cancel`
/ `subtask.drop` the handle is in no map and no set — is `Props.C21.cancel_only_in_progress` and the
`WaitableSpec` monitor.) -/
theorem removed_before_cancel_or_drop (hS : ops.Stable) (hv : v = 1 ∨ v = 2) {g : GSys S P} (h : GReach ops dropC v t0 s0 g) (hg : g.gone = false)
    (t : Nat) (ht : v = 1 → t = t0) :
    (∀ p d w1 e1 evs, g.w.state = .inProgress p →
      cancelPrepare ops g.w ⟨some ⟨t, v⟩, g.regs⟩ p = .ok (d, w1, e1) evs → e1.regs = []) ∧
    (∀ ans e' evs, dropOp ops dropC g.w ⟨some ⟨t, v⟩, g.regs⟩ ans = .ok e' evs → e'.regs = []) := by
  have hI := reach_regInv ops hS dropC v t0 hv s0 h
  obtain ⟨w, regs, gone⟩ := g
  simp only at hg
  subst hg
  exact ⟨fun p d w1 e1 evs hst hc => cancelPrepare_unregisters ops v t0 hv w regs p hst hI t ht d w1 e1 evs hc,
         fun ans e' evs hd => dropOp_regs_empty ops dropC v t0 hv w regs hI t ans ht e' evs hd⟩

/-- **Inv3 (delivered once) — the part that is an invariant of the registration bookkeeping.**
What is PROVED: in every reachable state a registration exists exactly when no completion code is
stored (Inv1), so the executor finds an entry to deliver through only while nothing is pending;
a delivery stores the code and removes the entry; and the next poll hands that code to
`in_progress_update` and leaves none behind (registered again, or done).
What is ASSUMED by the shape of the `deliver` label (not proved about a host): the executor delivers
only through an entry of its map and removes it when it does (that is what `deliver_waitable_event`
and the harness executor do); a second delivery without a registration is simply *not enabled*
in this system — `GSys.step` answers it with `panic "delivery without a registration"` — so
"never delivered twice" holds by construction of the label, and events the host queues or loses
before they reach an executor cannot be expressed here at all (they are the subject of the host
rules `Host.Sub.takeEvent` / `Host.follow`, checked on real traces, and of C22's executor model). -/
theorem delivered_once (hS : ops.Stable) (hv : v = 1 ∨ v = 2) {g g' : GSys S P} (h : GReach ops dropC v t0 s0 g) (hg : g.gone = false) (code : Nat)
    {evs : List Ev} (hs : g.step ops dropC v (.deliver code) = .ok g' evs) :
    g.w.code = none ∧ g'.w.code = some code ∧ g'.regs = [] ∧
    (∀ c2, ∃ msg e, g'.step ops dropC v (.deliver c2) = .panic msg e) ∧
    (∀ t ans g'' evs', (v = 1 → t = t0) → g'.step ops dropC v (.poll t ans) = .ok g'' evs' →
      (∃ p, g''.w.state = .inProgress p ∧ g''.w.code = none ∧ g''.regs ≠ []) ∨ (g''.w.state = .done ∧ g''.regs = [])) := by
  have hI := reach_regInv ops hS dropC v t0 hv s0 h
  have hI' := regInv_deliver ops dropC v t0 g hI code hg g' evs hs
  obtain ⟨⟨state, wcode, waker, task⟩, regs, gone⟩ := g
  simp only at hg
  subst hg
  cases state with
  | start s => simp [GSys.step, GSys.waitable] at hs
  | done => simp [GSys.step, GSys.waitable] at hs
  | inProgress p =>
    simp only [RegInv, Bool.false_eq_true, if_false] at hI
    obtain ⟨h1, h2, h3⟩ := hI
    cases wcode with
    | some c =>
      obtain ⟨rfl, _, ⟨x, hw⟩, _⟩ := h2 c rfl
      simp [GSys.step, GSys.waitable, hw] at hs
    | none =>
      obtain ⟨x, tp, hw, rfl, rfl, _, _⟩ := h1 rfl
      simp [GSys.step, GSys.waitable, hw, cabiWake, Step.bind, Step.emit] at hs
      obtain ⟨rfl, _⟩ := hs
      refine ⟨rfl, rfl, by simp, ?_, ?_⟩
      · intro c2
        simp [GSys.step, GSys.waitable, hw]
      · intro t ans g'' evs' ht hp
        exact (regInv_poll ops hS dropC v t0 hv _ hI' t ans rfl ht g'' evs' hp).2.2

/-- **Inv4 (no dangling pointer).**  Once the operation has been dropped — from any reachable state:
never polled, waiting, with a completion code queued, done — no executor map holds a registration
(i.e. a pointer to its `CompletionStatus`) any more. -/
theorem no_dangling (hS : ops.Stable) (hv : v = 1 ∨ v = 2) {g : GSys S P} (h : GReach ops dropC v t0 s0 g) :
    (g.gone = true → g.regs = []) ∧
    (g.gone = false → ∀ t ans g' evs, (v = 1 → t = t0) → g.step ops dropC v (.drop t ans) = .ok g' evs →
      g'.gone = true ∧ g'.regs = []) := by
  have hI := reach_regInv ops hS dropC v t0 hv s0 h
  refine ⟨?_, ?_⟩
  · intro hg; simpa [RegInv, hg] using hI
  · intro hg t ans g' evs ht hs
    have hI' := regInv_drop ops dropC v t0 hv g hI t ans hg ht g' evs hs
    have hgone : g'.gone = true := by
      simp only [GSys.step, Step.bind] at hs
      cases hd : dropOp ops dropC g.w ⟨some ⟨t, v⟩, g.regs⟩ ans with
      | panic m e => simp [hd] at hs
      | ok x e => simp [hd] at hs; rw [← hs.1]
    exact ⟨hgone, by simpa [RegInv, hgone] using hI'⟩

/-- **Inv5 (cross-task move, v2 ABI).**  Polling a waiting operation under another task `t'` first
clones `t'`, unregisters from the previous task, drops the previous task reference and only then
registers with `t'`: afterwards it is registered with `t'` only and holds `t'`'s reference. -/
theorem cross_task_move (hv2 : v = 2) (w : WOp S P) (tp t' x : Nat) (hne : tp ≠ t')
    (htask : w.task = some ⟨tp, some x⟩) :
    ∃ w' evs, registerWaker w ⟨some ⟨t', v⟩, [(tp, x)]⟩ x = .ok (w', ⟨some ⟨t', v⟩, [(t', x)]⟩) evs ∧
      w'.task = some ⟨t', some x⟩ ∧
      evs = [.clone t', .unreg tp x true, .tdrop tp, .reg t' x false] := by
  obtain ⟨w', evs, hr, _, _, _, h2, _, hev⟩ := register_again w v t' tp x (.inr hv2) (fun _ => htask)
    (fun h1 => absurd (h1.symm.trans hv2) (by decide))
  exact ⟨w', evs, hr, h2 hv2, hev hv2 hne⟩

/-! ## The v1 ABI and two tasks: the full statement is false of the current code

Full-strength statement as quantified in properties.jsonl ("across one or two component tasks and
both the v1 and v2 task C ABI"), i.e. `no_dangling` WITHOUT the restriction that a v1 operation stays
in one task:

    ∀ g, GReachFree ops dropC 1 s0 g → g.gone = true → g.regs = []

is FALSE: with a v1 task the runtime cannot keep a task reference, `unregister_waker` "assumes blindly
that we're still under the same task" (comment in waitable.rs), so an operation polled under task 1
and dropped under task 2 unregisters from task 2 and leaves its `CompletionStatus` pointer in task 1's
map after it is freed.  Witness below (a subtask: STARTING with handle 1, dropped, cancelled before
start).  `no_dangling` above is the `_partial` form with the exact extra hypothesis (`v = 1 → t = t0`
in `GLegal`).  Known finding class `waitable-v1-cross-task`. -/

/-- the witness run, on the subtask operation kind -/
def v1Witness : Step (GSys CallSpec InProgress) :=
  ((⟨WOp.new ⟨0, true⟩, [], false⟩ : GSys CallSpec InProgress).step subtaskOps CallResult.dropEvs 1 (.poll 1 16)).bind
    fun g => g.step subtaskOps CallResult.dropEvs 1 (.drop 2 3)

theorem v1_cross_task_dangling :
    ∃ g evs, v1Witness = .ok g evs ∧ g.gone = true ∧ g.regs = [(1, 1)] ∧
      evs = [.lower 0, .callImport 0 0 1, .reg 1 1 false, .unreg 2 1 false, .cancel 1 3, .deallocListsOwn 0,
             .free 0, .subDrop 1] := by
  refine ⟨_, _, rfl, rfl, rfl, rfl⟩

theorem no_dangling_full_false :
    ¬ ∀ g : GSys CallSpec InProgress,
        GReachFree subtaskOps CallResult.dropEvs 1 ⟨0, true⟩ g → g.gone = true → g.regs = [] := by
  intro hall
  have r0 : GReachFree subtaskOps CallResult.dropEvs 1 (⟨0, true⟩ : CallSpec) ⟨WOp.new ⟨0, true⟩, [], false⟩ := .init
  have s1 : (⟨WOp.new ⟨0, true⟩, [], false⟩ : GSys CallSpec InProgress).step subtaskOps CallResult.dropEvs 1 (.poll 1 16) =
      .ok ⟨⟨.inProgress ⟨⟨0, true⟩, false, 1⟩, none, true, none⟩, [(1, 1)], false⟩
        [.lower 0, .callImport 0 0 1, .reg 1 1 false] := by rfl
  have r1 := GReachFree.step r0 (show GLegalFree _ (.poll 1 16) from rfl) s1
  have s2 : (⟨⟨.inProgress ⟨⟨0, true⟩, false, 1⟩, none, true, none⟩, [(1, 1)], false⟩ : GSys CallSpec InProgress).step
      subtaskOps CallResult.dropEvs 1 (.drop 2 3) =
      .ok ⟨⟨.inProgress ⟨⟨0, true⟩, false, 1⟩, none, true, none⟩, [(1, 1)], true⟩
        [.unreg 2 1 false, .cancel 1 3, .deallocListsOwn 0, .free 0, .subDrop 1] := by rfl
  have r2 := GReachFree.step r1 (show GLegalFree _ (.drop 2 3) from rfl) s2
  have := hall _ r2 rfl
  simp at this

/-! ## Non-vacuity -/

/-- the subtask operation kind satisfies the only assumption of the generic theorems -/
theorem subtaskOps_stable : subtaskOps.Stable := by
  intro p c p' evs h
  simp only [subtaskOps, subtaskUpdate] at h ⊢
  unfold InProgress.flagStarted at h
  repeat' split at h
  all_goals simp_all [Step.bind, Step.pure]
  all_goals (first | (obtain ⟨rfl, _⟩ := h; rfl) | skip)

/-- a v2 operation polled under task 1, then under task 2, then dropped under task 1: the move
unregisters from task 1 first, the drop unregisters from task 2, nothing is left -/
example :
    (match (⟨WOp.new ⟨0, true⟩, [], false⟩ : GSys CallSpec InProgress).step subtaskOps CallResult.dropEvs 2 (.poll 1 16) with
      | .ok g1 e1 => match g1.step subtaskOps CallResult.dropEvs 2 (.poll 2 0) with
        | .ok g2 e2 => match g2.step subtaskOps CallResult.dropEvs 2 (.drop 1 4) with
          | .ok g3 e3 => some (g1.regs, g2.regs, g3.regs, e2, e3)
          | _ => none
        | _ => none
      | _ => none) =
    some ([(1, 1)], [(2, 1)], [],
      [.clone 2, .unreg 1 1 true, .tdrop 1, .reg 2 1 false],
      [.unreg 2 1 true, .cancel 1 4, .deallocLists 0, .free 0, .subDrop 1, .tdrop 2]) := by rfl

end Witverif.Props.C18
