import Witverif.Proofs.Ident
import Witverif.Props.C27
/-!
# C31 — generated C++ bindings are well-formed C++ (identifier hygiene part)

The headline claim of C31 is acceptance by a C++ compiler; no Lean model expresses that (DESIGN §11).
What is proved here: keyword escaping and injectivity of the C++ identifier / namespace mangling, of
the model `Witverif.Text.Ident` over the escape table **extracted on every run** from
`to_c_ident` in crates/c/src/lib.rs (the function crates/cpp/src/lib.rs imports; the translator
checks that import), the heck model, and the spec table `CppKeywords.keywords23`.
g++ is used by the check only to validate the model's predictions and to search for failing inputs.

`to_cpp_ident_not_keyword` now holds in full (repaired in /repo by `fix:` commit 89692d8: the table is
looked up on the snake-cased name; before the repair it was false for keywords containing `_`, e.g.
`not-eq` ↦ `not_eq`, and for keywords written in upper case in WIT, `IF` ↦ `if`).

Still FALSE of the current code (negation proved with a concrete witness, reproduced with g++):
the Pascal-case path (types, functions, cases) is not injective modulo case: `a1` / `a-1`.
-/
namespace Witverif.Props.C31
open Witverif.Text Witverif.Text.Ident Witverif.Text.Heck Witverif.Text.PkgSpec Witverif.Text.PkgPath
open Witverif.Text.CppKeywords Witverif.Generated.CppIdent

abbrev WitName (n : List Char) : Prop := validName n = true

/-! ## Facts about the extracted source (re-decided whenever the source changes) -/

/-- the table is looked up on the snake-cased name (`match name.to_snake_case().as_str()`) -/
theorem lookup_on_snake : matchOnSnake = true := by decide

theorem toCIdent_eq (n : List Char) : toCIdent n = escapeIdentS escapeTable n := by
  simp [toCIdent, escapeBy, lookup_on_snake]

theorem table_values_not_keywords : ∀ e ∈ escapeTable, e.2 ∉ keywords23 := by decide +kernel

theorem table_values_injective :
    ∀ e1 ∈ escapeTable, ∀ e2 ∈ escapeTable, e1.2 = e2.2 → e1.1 = e2.1 := by decide +kernel

theorem table_values_end_us : ∀ e ∈ escapeTable, e.2.getLast? = some '_' := by decide +kernel

/-- every C++23 keyword and alternative token (with or without `_`) is an arm of the table -/
theorem table_covers_keywords : ∀ k ∈ keywords23,
    (lookupT escapeTable k).isSome = true ∨ ∃ c ∈ k, isAsciiUpper c = true := by decide +kernel

/-! ## Keywords -/

/-- **`to_cpp_ident_not_keyword` (full statement)**: for every WIT identifier the emitted C++
identifier is not a C++23 keyword or alternative token. -/
theorem to_cpp_ident_not_keyword (n : List Char) (h : WitName n) : toCIdent n ∉ keywords23 := by
  rw [toCIdent_eq]
  exact escapeS_not_keyword escapeTable keywords23 table_values_not_keywords table_covers_keywords n
    (snake_valid_not_upper n h)

/-- the same for snake-case package module names (namespace component) -/
theorem to_cpp_ident_module_name_not_keyword (m : List Char) (h : usSimple m = true) :
    toCIdent m ∉ keywords23 := by
  rw [toCIdent_eq]
  exact escapeS_not_keyword escapeTable keywords23 table_values_not_keywords table_covers_keywords m
    (snake_usSimple_not_upper m h)

/-- the former witnesses are escaped now -/
theorem former_keyword_witnesses_escaped :
    toCIdent "not-eq".toList = "not_eq_".toList ∧ toCIdent "static-cast".toList = "static_cast_".toList ∧
    toCIdent "IF".toList = "if_".toList := by decide +kernel

/-! ## Collisions -/

/-- **`cpp_names_injective`**: WIT identifiers that differ modulo letter case (which the component
model guarantees inside one scope) get different C++ identifiers. -/
theorem cpp_names_injective_mod_case (a b : List Char) (ha : WitName a) (hb : WitName b)
    (h : toCIdent a = toCIdent b) : a.map lowA = b.map lowA := by
  rw [toCIdent_eq, toCIdent_eq] at h
  exact escapeS_injective_mod_case escapeTable table_values_injective table_values_end_us a b ha hb h

theorem cpp_names_injective_of_ne_mod_case (a b : List Char) (ha : WitName a) (hb : WitName b)
    (hne : a.map lowA ≠ b.map lowA) : toCIdent a ≠ toCIdent b :=
  fun h => hne (cpp_names_injective_mod_case a b ha hb h)

/-- type, function and case names go through `to_pascal_case`: not injective even modulo case
(class `cpp-pascal-digit-merge`) -/
theorem pascal_collision :
    WitName "a1".toList ∧ WitName "a-1".toList ∧ "a1".toList.map lowA ≠ "a-1".toList.map lowA ∧
    upperCamel "a1".toList = upperCamel "a-1".toList := by decide +kernel

/-! ## Namespace mangling -/

/-- `to_c_ident` applied to package module names (already snake case) is injective -/
theorem module_name_mangling_injective (x y : List Char) (hx : usSimple x = true) (hy : usSimple y = true)
    (h : toCIdent x = toCIdent y) : x = y := by
  rw [toCIdent_eq, toCIdent_eq] at h
  exact escapeS_injective_usSimple escapeTable table_values_injective table_values_end_us x y hx hy h

/-- a package called `not-eq` gets namespace `not_eq_` -/
theorem module_name_escaped : toCIdent "not_eq".toList = "not_eq_".toList := by decide +kernel

/-- **Namespace mangling is injective** — PARTIAL: distinct (package, interface) pairs get distinct
namespace paths, for lower-case names, plain packages (C27's hypotheses) and under the explicit
hypothesis — not proved here for all valid packages — that both module names are snake case (`usSimple`). -/
theorem cpp_namespace_paths_distinct_partial (pkgs : List Pkg) (p q : Pkg) (i j : List Char)
    (hp : p ∈ pkgs) (hq : q ∈ pkgs) (hpp : plainPkg p = true) (hqp : plainPkg q = true)
    (hpm : usSimple (namePackageModule pkgs p) = true) (hqm : usSimple (namePackageModule pkgs q) = true)
    (hpn : WitName p.ns) (hqn : WitName q.ns) (hi : WitName i) (hj : WitName j)
    (hlow : ∀ n ∈ [p.ns, q.ns, i, j], ∀ c ∈ n, isAsciiUpper c = false)
    (hne : (p, i) ≠ (q, j)) :
    cppNamespacePath pkgs p i ≠ cppNamespacePath pkgs q j := by
  intro h
  simp only [cppNamespacePath, List.cons.injEq, and_true] at h
  obtain ⟨h1, h2, h3⟩ := h
  have lowEq : ∀ a b : List Char, WitName a → WitName b → (∀ c ∈ a, isAsciiUpper c = false) →
      (∀ c ∈ b, isAsciiUpper c = false) → toCIdent a = toCIdent b → a = b := by
    intro a b ha hb hla hlb e
    have := cpp_names_injective_mod_case a b ha hb e
    rwa [map_lowA_id hla, map_lowA_id hlb] at this
  have hns : p.ns = q.ns := lowEq _ _ hpn hqn (hlow _ (by simp)) (hlow _ (by simp)) h1
  have hij : i = j := lowEq _ _ hi hj (hlow _ (by simp)) (hlow _ (by simp)) h3
  have hmod := module_name_mangling_injective _ _ hpm hqm h2
  by_cases hpq : p = q
  · exact hne (by rw [hpq, hij])
  · exact Witverif.Props.C27.module_names_injective_partial pkgs p q hp hq hns hpq hpp hqp hmod

/-! ## Non-vacuity -/

example : toCIdent "class".toList = "class_".toList ∧ toCIdent "foo-bar".toList = "foo_bar".toList ∧
    toCIdent "ret".toList = "ret_".toList := by decide +kernel

example : toCIdent "namespace".toList ∉ keywords23 := to_cpp_ident_not_keyword _ (by decide)
example : toCIdent "CO-await".toList ∉ keywords23 := to_cpp_ident_not_keyword _ (by decide)

example : toCIdent "get-value".toList ≠ toCIdent "get-values".toList :=
  cpp_names_injective_of_ne_mod_case _ _ (by decide) (by decide) (by decide)

/-- the module-name hypothesis holds for versioned plain packages, and the theorem applies -/
example :
    let p : Pkg := ⟨"wasi".toList, "http".toList, some ⟨0, 2, 0, [], []⟩⟩
    let q : Pkg := ⟨"wasi".toList, "http".toList, some ⟨0, 3, 0, [], []⟩⟩
    usSimple (namePackageModule [p, q] p) = true ∧ usSimple (namePackageModule [p, q] q) = true ∧
    cppNamespacePath [p, q] p "types".toList ≠ cppNamespacePath [p, q] q "types".toList := by decide +kernel

end Witverif.Props.C31
