import Witverif.Proofs.Ident
import Witverif.Props.C27
/-!
# C31 — generated C++ bindings are well-formed C++ (identifier hygiene part)

The headline claim of C31 is acceptance by a C++ compiler; no Lean model expresses that (DESIGN §11).
What is proved here: keyword escaping and injectivity of the C++ identifier / namespace mangling, of
the model `Witverif.Text.Ident` over the escape table **extracted on every run** from
`to_c_ident` in crates/c/src/lib.rs (the function crates/cpp/src/lib.rs imports; the translator
checks that import), the heck model, and the spec table `CppKeywords.keywords23`.
g++ is used by the check only to validate the model's predictions and to search for failing inputs.

Full statement that is FALSE of the current code (negation proved with concrete witnesses,
reproduced with g++ -std=c++23 on the real generator's output):

    to_cpp_ident_not_keyword : ∀ n, WitName n → toCIdent n ∉ keywords23
        false: the table is matched against the WIT (kebab-case) spelling, so
        * keywords that contain `_` can never match: `not-eq` ↦ `not_eq`, `static-cast`, `co-await`, … (the
          arms `"not_eq"`, `"static_cast"`, … are dead: no WIT identifier contains `_`)
        * keywords written in upper case in WIT are lower-cased after the match: `IF` ↦ `if`
-/
namespace Witverif.Props.C31
open Witverif.Text Witverif.Text.Ident Witverif.Text.Heck Witverif.Text.PkgSpec Witverif.Text.PkgPath
open Witverif.Text.CppKeywords Witverif.Generated.CppIdent

abbrev WitName (n : List Char) : Prop := validName n = true

/-! ## Facts about the extracted table (re-decided whenever the source changes) -/

theorem table_values_not_keywords : ∀ e ∈ escapeTable, e.2 ∉ keywords23 := by decide +kernel

theorem table_values_injective :
    ∀ e1 ∈ escapeTable, ∀ e2 ∈ escapeTable, e1.2 = e2.2 → e1.1 = e2.1 := by decide +kernel

theorem table_values_end_us : ∀ e ∈ escapeTable, e.2.getLast? = some '_' := by decide +kernel

/-- every C++23 keyword (and alternative token) without `_` and without upper-case letters is an arm
of the table — no exception list is needed -/
theorem table_covers_keywords : ∀ k ∈ keywords23,
    (lookupT escapeTable k).isSome = true ∨ k ∈ ([] : List (List Char)) ∨
      (∃ c ∈ k, isAsciiUpper c = true ∨ c = '_') := by decide +kernel

/-- the arms whose key contains `_` can never be selected by a WIT identifier -/
theorem dead_arms : ∀ e ∈ escapeTable, '_' ∈ e.1 → validName e.1 = false := by decide +kernel

/-! ## Keywords -/

/-- Exact characterisation for every WIT identifier. -/
theorem to_cpp_ident_keyword_iff (n : List Char) (h : WitName n) :
    toCIdent n ∈ keywords23 ↔ lookupT escapeTable n = none ∧ n.map lowSep ∈ keywords23 :=
  escape_keyword_iff escapeTable keywords23 table_values_not_keywords n h

def NotKeywordFull : Prop := ∀ n, WitName n → toCIdent n ∉ keywords23

/-- witness 1 (class `cpp-ident-keyword-kebab`): `not-eq` becomes the alternative token `not_eq` -/
theorem kebab_keyword_is_emitted :
    WitName "not-eq".toList ∧ toCIdent "not-eq".toList = "not_eq".toList ∧ "not_eq".toList ∈ keywords23 ∧
    WitName "static-cast".toList ∧ toCIdent "static-cast".toList = "static_cast".toList := by decide +kernel

/-- witness 2 (class `cpp-ident-keyword-uppercase`): `IF` becomes `if` -/
theorem uppercase_keyword_is_emitted :
    WitName "IF".toList ∧ toCIdent "IF".toList = "if".toList ∧ "if".toList ∈ keywords23 := by decide +kernel

theorem to_cpp_ident_not_keyword_full_false : ¬ NotKeywordFull := by
  intro h
  exact h _ kebab_keyword_is_emitted.1 (kebab_keyword_is_emitted.2.1 ▸ kebab_keyword_is_emitted.2.2.1)

/-- **Partial form**: a WIT identifier without upper-case letters and without `-` never becomes a
C++23 keyword or alternative token. -/
theorem to_cpp_ident_not_keyword_partial (n : List Char) (h : WitName n)
    (hl : ∀ c ∈ n, isAsciiUpper c = false) (hd : '-' ∉ n) : toCIdent n ∉ keywords23 :=
  escape_not_keyword_lower escapeTable keywords23 [] table_values_not_keywords
    table_covers_keywords n h hl hd (by simp)

/-- the only causes of a keyword hit: an upper-case letter or a `-` in the WIT identifier -/
theorem keyword_hit_causes (n : List Char) (h : WitName n) (hk : toCIdent n ∈ keywords23) :
    (∃ c ∈ n, isAsciiUpper c = true) ∨ '-' ∈ n := by
  by_cases hu : ∃ c ∈ n, isAsciiUpper c = true
  · exact Or.inl hu
  · right
    have hl : ∀ c ∈ n, isAsciiUpper c = false := by
      intro c hc
      cases hx : isAsciiUpper c
      · rfl
      · exact absurd ⟨c, hc, hx⟩ hu
    by_cases hd : '-' ∈ n
    · exact hd
    · exact absurd hk (to_cpp_ident_not_keyword_partial n h hl hd)

/-! ## Collisions -/

/-- **`cpp_names_injective`**: WIT identifiers that differ modulo letter case (which the component
model guarantees inside one scope) get different C++ identifiers. -/
theorem cpp_names_injective_mod_case (a b : List Char) (ha : WitName a) (hb : WitName b)
    (h : toCIdent a = toCIdent b) : a.map lowA = b.map lowA :=
  escape_injective_mod_case escapeTable table_values_injective table_values_end_us a b ha hb h

theorem cpp_names_injective (a b : List Char) (ha : WitName a) (hb : WitName b)
    (hne : a.map lowA ≠ b.map lowA) : toCIdent a ≠ toCIdent b :=
  fun h => hne (cpp_names_injective_mod_case a b ha hb h)

/-- type, function and case names go through `to_pascal_case`: not injective even modulo case
(class `cpp-pascal-digit-merge`) -/
theorem pascal_collision :
    WitName "a1".toList ∧ WitName "a-1".toList ∧ "a1".toList.map lowA ≠ "a-1".toList.map lowA ∧
    upperCamel "a1".toList = upperCamel "a-1".toList := by decide +kernel

/-! ## Namespace mangling -/

/-- `to_c_ident` applied to package module names (already snake case) is injective -/
theorem module_name_mangling_injective (x y : List Char) (hx : usSimple x = true) (hy : usSimple y = true)
    (h : toCIdent x = toCIdent y) : x = y :=
  escape_injective_usSimple escapeTable table_values_injective table_values_end_us x y hx hy h

/-- … and here the table *does* apply to names with `_`: a package called `not-eq` gets namespace `not_eq_` -/
theorem module_name_escaped : toCIdent "not_eq".toList = "not_eq_".toList := by decide +kernel

/-- **Namespace mangling is injective**: distinct (package, interface) pairs get distinct
namespace paths, for lower-case names and plain packages whose module names are snake case. -/
theorem cpp_namespace_paths_distinct_partial (pkgs : List Pkg) (p q : Pkg) (i j : List Char)
    (hp : p ∈ pkgs) (hq : q ∈ pkgs) (hpp : plainPkg p = true) (hqp : plainPkg q = true)
    (hpm : usSimple (namePackageModule pkgs p) = true) (hqm : usSimple (namePackageModule pkgs q) = true)
    (hpn : WitName p.ns) (hqn : WitName q.ns) (hi : WitName i) (hj : WitName j)
    (hlow : ∀ n ∈ [p.ns, q.ns, i, j], ∀ c ∈ n, isAsciiUpper c = false)
    (hne : (p, i) ≠ (q, j)) :
    cppNamespacePath pkgs p i ≠ cppNamespacePath pkgs q j := by
  intro h
  simp only [cppNamespacePath, List.cons.injEq, and_true] at h
  obtain ⟨h1, h2, h3⟩ := h
  have lowEq : ∀ a b : List Char, WitName a → WitName b → (∀ c ∈ a, isAsciiUpper c = false) →
      (∀ c ∈ b, isAsciiUpper c = false) → toCIdent a = toCIdent b → a = b := by
    intro a b ha hb hla hlb e
    have := cpp_names_injective_mod_case a b ha hb e
    rwa [map_lowA_id hla, map_lowA_id hlb] at this
  have hns : p.ns = q.ns := lowEq _ _ hpn hqn (hlow _ (by simp)) (hlow _ (by simp)) h1
  have hij : i = j := lowEq _ _ hi hj (hlow _ (by simp)) (hlow _ (by simp)) h3
  have hmod := module_name_mangling_injective _ _ hpm hqm h2
  by_cases hpq : p = q
  · exact hne (by rw [hpq, hij])
  · exact Witverif.Props.C27.module_names_injective_partial pkgs p q hp hq hns hpq hpp hqp hmod

/-! ## Non-vacuity -/

example : toCIdent "class".toList = "class_".toList ∧ toCIdent "foo-bar".toList = "foo_bar".toList ∧
    toCIdent "ret".toList = "ret_".toList := by decide +kernel

example : toCIdent "namespace".toList ∉ keywords23 :=
  to_cpp_ident_not_keyword_partial _ (by decide) (by decide) (by decide)

example : toCIdent "get-value".toList ≠ toCIdent "get-values".toList :=
  cpp_names_injective _ _ (by decide) (by decide) (by decide)

/-- the module-name hypothesis holds for versioned plain packages, and the theorem applies -/
example :
    let p : Pkg := ⟨"wasi".toList, "http".toList, some ⟨0, 2, 0, [], []⟩⟩
    let q : Pkg := ⟨"wasi".toList, "http".toList, some ⟨0, 3, 0, [], []⟩⟩
    usSimple (namePackageModule [p, q] p) = true ∧ usSimple (namePackageModule [p, q] q) = true ∧
    cppNamespacePath [p, q] p "types".toList ≠ cppNamespacePath [p, q] q "types".toList := by decide +kernel

end Witverif.Props.C31
