import Witverif.Proofs.Task
/-!
# C23 — cross-task wakeups are never lost or duplicated

Property theorems only (invariant: `Proofs/Task.lean`).  Same system as C22: the executor LTS
`Task.step` with the wake-up machinery of `Async/Wakeup.lean` (`SLEEP_STATE_*`, `wake_by_ref`,
`read_inter_task_stream`, `cancel_inter_task_stream_read`, `consume_waitable_event`).  The label
`wake ans` is `SharedTaskState::wake_by_ref` called by ANY code that can run (`userPc`): a future of the
same task while it is polled, its C-ABI completion callback, a destructor, or — while the task is idle
or gone — another task / the host; `ans` is what `stream.write` answers if the wake writes.  Ghost
counters: `sleeps` (stores of SLEEP_STATE_SLEEPING), `reads` / `writes` (`stream.read` / `stream.write`
calls on the wake-up stream).  All theorems: every label sequence, no depth bound.
-/
namespace Witverif.Props.C23
open Witverif.Async Witverif.Async.Task Witverif.Async.Wakeup Witverif.Generated

variable {d : Driver} {itw : Bool} {s s' : St} {l : Label} {evs : List Ev}

/-- **sleeping_wake_polls_again (the wake reaches the host).**  Waking a task that sleeps (between
callbacks, sleep state SLEEPING, feature on) writes exactly one item to its wake-up stream — whose read
is pending and joined to the set the task waits on — and marks the task woken; it cannot fail as long
as the host completes the write (`COMPLETED|1<<4`, which is what a host must answer to a write that
meets a pending read). -/
theorem sleeping_wake_writes_one (hr : Reach d itw s) (hi : s.wk.itw = true) (hp : s.pc = .idle)
    (hsl : s.wk.sleep = Limits.sleepStateSleeping) :
    s.wk.reading = true ∧ ∃ r w, s.wk.stream = some (r, w) ∧
      step s (.wake wroteOne) = .ok { s with wk := { s.wk with sleep := Limits.sleepStateWoken }, woken := true,
                                             writes := s.writes + 1 } [.x .usWrite [w, wroteOne]] := by
  have inv := reach_inv hr
  have hrd : s.wk.reading = true := by
    rcases inv.sl2 hsl with h | ⟨_, h⟩ | ⟨h, _⟩
    · simp [hp] at h
    · exact h hi
    · simp [hp, dropped] at h
  have hst := (inv.readItw hrd).2.1
  have hsg : s.sharedGone = false := by
    cases hg : s.sharedGone with
    | false => rfl
    | true => have := (inv.refs.1 hg).2; simp [hp] at this
  refine ⟨hrd, ?_⟩
  cases hstream : s.wk.stream with
  | none => simp [hstream] at hst
  | some p =>
    obtain ⟨r, w⟩ := p
    refine ⟨r, w, rfl, ?_⟩
    simp [step, hp, userPc, hsg, wakeByRef, hsl, hi, hstream, Step.bind]

/-- **sleeping_wake_polls_again (the task is polled) — guest half only.**  Every callback that is not a
cancellation polls the tasks before it answers.  That the woken task IS polled again additionally needs the
HOST to call the task back: after a WAIT on a set one of whose members (here: the wake-up stream's reader,
whose read the write completed) has an event, the component-model host must deliver that event (or
EVENT_CANCEL).  This liveness obligation of the host is an assumption (Appendix B), not a theorem; what is
proved is that the item is written to a read that is pending and joined to the set the task waits on
(`sleeping_wake_writes_one`, `Props.C22.set_in_sync`) and that the callback the host then makes polls. -/
theorem every_callback_polls (hr : Reach d itw s) (hs : step s l = .ok s' evs) :
    (∀ code, Answers s s' code → s.polled = true) ∧
    (Exits s s' → s'.ev0 ≠ Limits.eventCancel → s.polled = true) := by
  have inv := reach_inv hr
  have hq := inv.polledA
  constructor
  · intro code ⟨h1, h2, h3⟩
    cases l <;> step_split hs
    all_goals (obtain ⟨hq', _⟩ := hs; subst hq')
    all_goals try (cases ‹Next›)
    all_goals simp_all [Next.pc, running]
  · intro ⟨h1, h2⟩ hc
    cases l <;> step_split hs
    all_goals (obtain ⟨hq', _⟩ := hs; subst hq')
    all_goals try (cases ‹Next›)
    all_goals simp_all [Next.pc]

/-- **one_item_per_sleep.**  Per sleep exactly one read of the wake-up stream is started and at most one
item is written: `writes ≤ sleeps` always, with strict inequality while the task is asleep (so the next
wake may write), and `reads = sleeps` once the sleep's read has been issued.  A write happens only in
state SLEEPING and leaves it (`wakes_coalesced` below), and while the task sleeps between callbacks its
read is pending (`sleeping_wake_writes_one`): the item written is the one that read receives. -/
theorem one_item_per_sleep (hr : Reach d itw s) :
    s.writes ≤ s.sleeps ∧ (s.wk.sleep = Limits.sleepStateSleeping → s.writes < s.sleeps) ∧
    (s.wk.itw = true → s.reads ≤ s.sleeps ∧ (s.pc ≠ .sleep → s.reads = s.sleeps)) := by
  have inv := reach_inv hr
  have h1 := inv.cntW
  have h2 := inv.cntR
  unfold b2n at h1 h2
  refine ⟨by split at h1 <;> omega, ?_, ?_⟩
  · intro h; simp [h] at h1; omega
  · intro h
    have := h2 h
    constructor
    · split at this <;> omega
    · intro hp; simp [hp] at this; exact this

/-- **wakes_coalesced.**  A wake of a task that is being polled or already woken only sets the sleep
state to WOKEN: no built-in is called, nothing is written, whoever and wherever the caller is. -/
theorem wakes_coalesced (hu : userPc s.pc = true) (hg : s.sharedGone = false)
    (hsl : s.wk.sleep = Limits.sleepStatePolling ∨ s.wk.sleep = Limits.sleepStateWoken) (ans : Nat) :
    step s (.wake ans) = .ok { s with wk := { s.wk with sleep := Limits.sleepStateWoken }, woken := true } [] := by
  rcases hsl with h | h <;> simp [step, hu, hg, wakeByRef, h, Step.bind]

/-- **yield_leaves_woken.**  A callback that answers YIELD leaves the sleep state WOKEN (never SLEEPING:
no read of the wake-up stream was started for this answer), and it stays WOKEN until the host resumes the
task — whatever other tasks, the host or wakers do in between. -/
theorem yield_leaves_woken (hr : Reach d itw s) (hp : s.pc = .idle) (hl : s.last = some .yield) :
    s.wk.sleep = Limits.sleepStateWoken :=
  (reach_inv hr).lastYield.2 hp hl

/-- **wake_after_yield_is_coalesced.**  A wake in the window between a YIELD answer and the callback that
resumes the task — typically from ANOTHER component task, through a Rust-only event — writes nothing to
the wake-up stream and calls no built-in; the callback that resumes the task then polls
(`every_callback_polls`), so the wake is not lost either. -/
theorem wake_after_yield_is_coalesced (hr : Reach d itw s) (hp : s.pc = .idle) (hl : s.last = some .yield) (ans : Nat) :
    step s (.wake ans) = .ok { s with wk := { s.wk with sleep := Limits.sleepStateWoken }, woken := true } [] := by
  have inv := reach_inv hr
  have hg : s.sharedGone = false := by
    cases hg : s.sharedGone with
    | false => rfl
    | true => have := (inv.refs.1 hg).2; simp [hp] at this
  exact wakes_coalesced (by simp [hp, userPc]) hg (Or.inr (yield_leaves_woken hr hp hl)) ans

/-- **read_cancelled_after_leaving_set_before_poll_or_drop (state).**  Whenever the tasks are polled,
whenever user destructors run, and ever after the task state is destroyed, no wake-up read is pending. -/
theorem no_read_pending_at_poll_or_drop (hr : Reach d itw s) (hp : noReadPc s.pc = true) : s.wk.reading = false :=
  (reach_inv hr).noRead hp

/-- **read_cancelled_after_leaving_set_before_poll_or_drop (order).**  The step that runs
`cancel_inter_task_stream_read` — before the poll loop and first thing in the destructor — cancels a
pending read by first taking the stream out of every waitable set and only then calling
`stream.cancel-read`; without a pending read it calls nothing. -/
theorem cancel_read_order {ans : Nat} (hr : Reach d itw s) (hs : step s (.cancelRead ans) = .ok s' evs) :
    s'.wk.reading = false ∧
    (s.wk.itw = true ∧ s.wk.reading = true → ∃ r w, s.wk.stream = some (r, w) ∧ evs = [.join r 0, .x .usCancelRead [r, ans]]) ∧
    (¬(s.wk.itw = true ∧ s.wk.reading = true) → evs = []) := by
  have hri := (reach_inv hr).readItw
  step_split hs
  all_goals (obtain ⟨hq, he⟩ := hs; subst hq; subst he)
  all_goals simp_all
  all_goals try (cases hrd : s.wk.reading <;> simp_all)

/-- **wake_after_exit_is_noop.**  After a task has exited — through the normal path or by cancellation,
asleep or not — a wake through a waker that outlived it touches nothing: no built-in call, no panic.
(`Drop for TaskState` marks the task woken before anything else; until the `fix:` commit in /repo that
introduced this, a task cancelled while asleep stayed in state SLEEPING and the statement was false.) -/
theorem wake_after_exit_is_noop (hr : Reach d itw s) (hp : s.pc = .gone) (hg : s.sharedGone = false) (ans : Nat) :
    step s (.wake ans) = .ok { s with wk := { s.wk with sleep := Limits.sleepStateWoken }, woken := true } [] := by
  have inv := reach_inv hr
  have hle := inv.sleepLe
  have h2 : s.wk.sleep ≠ 2 := by
    intro h
    rcases inv.sl2 h with h' | ⟨h', _⟩ | ⟨h', _⟩ <;> simp [hp] at h'
  apply wakes_coalesced (by simp [hp, userPc]) hg
  simp only [Limits.sleepStatePolling, Limits.sleepStateWoken]
  omega

/-- … and the same while the destructors of the task's own futures run (`Drop for TaskState`): a destructor
that wakes the task (e.g. a channel sender dropped together with the future) is a no-op as well. -/
theorem wake_in_destructor_is_noop (hr : Reach d itw s) (hp : s.pc = .dropTasks) (hg : s.sharedGone = false) (ans : Nat) :
    step s (.wake ans) = .ok { s with wk := { s.wk with sleep := Limits.sleepStateWoken }, woken := true } [] := by
  have inv := reach_inv hr
  have hle := inv.sleepLe
  have h2 : s.wk.sleep ≠ 2 := by
    intro h
    rcases inv.sl2 h with h' | ⟨h', _⟩ | ⟨h', _⟩ <;> simp [hp] at h'
  apply wakes_coalesced (by simp [hp, userPc]) hg
  simp only [Limits.sleepStatePolling, Limits.sleepStateWoken]
  omega

/-- the former counterexample (repaired): sleep on the wake-up stream (reader 1, writer 2, set 3), a waker
is cloned, the host cancels the task, the state is destroyed — and then the waker is used -/
def cancelledAsleep : List Label :=
  [.start, .call 0 0 0, .cancelRead 0, .tau, .cloneRef, .pollDone false false, .decide 0 0 0,
   .sleepRead 1 2 3 Limits.blocked, .call Limits.eventCancel 0 0, .cancelRead Limits.cancelled, .dropTasksDone, .tau]

theorem wake_after_cancelled_sleep_is_noop :
    ∃ sW, run (St.init .start true) cancelledAsleep = some sW ∧ sW.pc = .gone ∧ sW.sharedGone = false ∧
      ∀ ans, ∃ s', step sW (.wake ans) = .ok s' [] := by
  refine ⟨_, rfl, rfl, rfl, ?_⟩
  intro ans
  have hr := run_reach cancelledAsleep (Reach.init (driver := .start) (itw := true)) rfl
  exact ⟨_, wake_after_exit_is_noop hr rfl rfl ans⟩

/-! ## Non-vacuity -/

/-- a task that never slept answers YIELD (it woke itself while polled); a wake before it is resumed changes
nothing and writes nothing; the resuming callback polls -/
example :
    (match run (St.init .start true) [.start, .call 0 0 0, .cancelRead 0, .tau, .cloneRef, .wake 0, .pollDone false false,
        .decide 0 0 0] with
      | some s => match step s (.wake 0) with
        | .ok s1 e1 => some (s.pc, s.last, s.wk.sleep, s.wk.stream, e1, s1.wk.sleep, s1.writes)
        | _ => none
      | none => none) = some (.idle, some .yield, 1, none, [], 1, 0) := by rfl


/-- two wakes of a sleeping task: the first writes the one item, the second is coalesced -/
example :
    (match run (St.init .start true) [.start, .call 0 0 0, .cancelRead 0, .tau, .cloneRef, .pollDone false false,
        .decide 0 0 0, .sleepRead 1 2 3 Limits.blocked] with
      | some s => match step s (.wake wroteOne) with
        | .ok s1 e1 => match step s1 (.wake 0) with
          | .ok s2 e2 => some (s.wk.sleep, e1, s1.wk.sleep, e2, s2.writes, s2.sleeps, s2.reads)
          | _ => none
        | _ => none
      | none => none) = some (2, [.x .usWrite [2, 16]], 1, [], 1, 1, 1) := by rfl

/-- the woken task is called back with the completed read, consumes it without calling the registered
callbacks, polls, and finishes -/
example :
    (run (St.init .start true) [.start, .call 0 0 0, .cancelRead 0, .tau, .pollDone false false, .decide 0 0 0,
        .sleepRead 1 2 3 Limits.blocked, .wake wroteOne, .call 2 1 16, .tau, .cancelRead 0, .tau, .pollDone true true,
        .decide 0 0 0, .cancelRead 0, .tau]).map (fun s => (s.pc, s.wk.reading, s.polled, s.sharedGone)) =
      some (.gone, false, true, true) := by rfl

end Witverif.Props.C23
