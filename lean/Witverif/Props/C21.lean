import Witverif.Proofs.Subtask
/-!
# C21 — Async import calls release parameters and results exactly once

Property theorems only (definitions and the step-by-step case analysis: `Proofs/Subtask.lean`).

System: one async import call (`CallSys`: the future returned by `Subtask::call`, i.e. the `async`
block + `WaitableOperation<SubtaskOps>` of `subtask.rs`/`waitable.rs`, and its registration with the
current task) driven by three kinds of labels — the body polls it, the executor delivers a status
event, it is dropped — with the host's answers carried by the labels.  `LegalLabel` admits exactly
what a conforming host/executor may do (DESIGN Appendix B, as seen by the guest): the call returns
STARTING/STARTED with a handle or RETURNED without; events are STARTED/RETURNED, monotone, only
while the operation is registered, never after resolution or a cancel; `subtask.cancel` returns
STARTED_CANCELLED only if no start was reported, else RETURNED_CANCELLED or RETURNED.
`Reach spec t c m tr`: state `c` is reachable from a fresh call by legal labels, `tr` is the trace of
everything observable so far and `m` the state of the specification monitor `SubtaskSpec` after `tr`.

All theorems hold for **every** label sequence (every status sequence, every drop point, polls in
any order), both `wasip3_task` ABI versions, empty and non-empty parameter/result areas — by
induction over the step relation, no depth bound.  Theorems are stated over the trace: "at every
occurrence of event X the monitor state says Y" (`tr = pre ++ X :: post → …`) and, for a call whose
future is gone (`c.fut = .finished`: completed or dropped), exact counts.
-/
namespace Witverif.Props.C21
open Witverif.Async Witverif.Async.SubtaskSpec

variable {spec : CallSpec} {t : CurTask} {c : CallSys} {m : CallMon} {tr : List Ev}

/-- Trap-freedom and monitor acceptance: from every reachable state every legal label can be taken
without a Rust panic (`unwrap`/`assert!`/`unreachable!`), the specification monitor accepts the
events it produces, and the invariant holds again; the monitor state is the fold of the trace. -/
theorem legal_steps_never_panic (hv : t.version = 1 ∨ t.version = 2) (h : Reach spec t c m tr) (l : Label)
    (hl : LegalLabel m c l) :
    ∃ c' evs m', c.step l = .ok c' evs ∧ run spec.k m evs = .ok m' ∧ Reach spec t c' m' (tr ++ evs) := by
  have hg := step_safe spec t c m l (reach_inv hv h).1 hl
  cases hs : c.step l with
  | panic msg evs => rw [hs] at hg; exact absurd hg (by simp [Good])
  | ok c' evs =>
    rw [hs] at hg
    simp only [Good] at hg
    cases hm : run spec.k m evs with
    | error e => rw [hm] at hg; exact absurd hg (by simp)
    | ok m' => exact ⟨c', evs, m', rfl, hm, Reach.step h hl hs hm⟩

theorem monitor_accepts (hv : t.version = 1 ∨ t.version = 2) (h : Reach spec t c m tr) :
    run spec.k { created := true } tr = .ok m := (reach_inv hv h).2

/-- Once the future is gone, the end-of-life clause of the specification holds. -/
theorem finished_complete (hv : t.version = 1 ∨ t.version = 2) (h : Reach spec t c m tr) (hf : c.fut = .finished) :
    complete spec.area m = .ok () := (reach_finished hv h hf).1

/-- at an occurrence of event `e` in an accepted trace: the monitor state before it and the fact
that the monitor accepted `e` there -/
theorem at_event (hv : t.version = 1 ∨ t.version = 2) (h : Reach spec t c m tr) {pre post : List Ev} {e : Ev}
    (htr : tr = pre ++ e :: post) :
    ∃ mp me, run spec.k { created := true } pre = .ok mp ∧ step spec.k mp e = .ok me := by
  have hm := monitor_accepts hv h
  rw [htr] at hm
  obtain ⟨mp, me, hp, he, _⟩ := run_split hm
  exact ⟨mp, me, hp, he⟩

/-- **The heap data of the lowered parameters is freed exactly once, after the callee starts.**
(1) `params_dealloc_lists` and `params_dealloc_lists_and_own` together run at most once;
(2) at every `params_dealloc_lists` the host had already reported a started status
    (STARTED / RETURNED / RETURNED_CANCELLED), nothing had been freed before, and the area holding an
    indirect parameter record was still allocated;
(3) when the future is gone and the call was made, exactly once. -/
theorem params_lists_freed_once_after_start (hv : t.version = 1 ∨ t.version = 2) (h : Reach spec t c m tr) :
    cnt (fun e => e == .deallocLists spec.k || e == .deallocListsOwn spec.k) tr ≤ 1 ∧
    (∀ pre post, tr = pre ++ .deallocLists spec.k :: post →
      ∃ mp, run spec.k { created := true } pre = .ok mp ∧ startedKnown mp = true ∧ mp.areaFreed = 0 ∧ mp.listsFreed = 0) ∧
    (c.fut = .finished → m.lowered = true →
      cnt (fun e => e == .deallocLists spec.k || e == .deallocListsOwn spec.k) tr = 1) := by
  have hc := reach_counts hv h
  refine ⟨by have := hc.1; omega, ?_, ?_⟩
  · intro pre post htr
    obtain ⟨mp, me, hp, he⟩ := at_event hv h htr
    refine ⟨mp, hp, ?_⟩
    simp only [step, ne_eq, not_true_eq_false, if_false] at he
    by_cases h1 : mp.listsFreed = 0
    · by_cases h2 : startedKnown mp = true
      · by_cases h3 : mp.areaFreed = 0
        · exact ⟨h2, h3, h1⟩
        · simp [h1, h2, h3] at he
      · simp [h1, h2] at he
    · simp [h1] at he
  · intro hf hl
    obtain ⟨hcomp, hcr, _, _⟩ := reach_finished hv h hf
    have := (complete_lowered hcomp hcr hl).2.2.1
    rw [hc.1.1]; exact this

/-- **Owned parameters are released by the guest only if the call was cancelled before starting.**
At every `params_dealloc_lists_and_own` the last status reported is STARTED_CANCELLED; it runs at
most once; and for a call whose future is gone it ran (once) *iff* the call ended STARTED_CANCELLED. -/
theorem owned_params_released_iff_cancelled_before_start (hv : t.version = 1 ∨ t.version = 2) (h : Reach spec t c m tr) :
    cnt (fun e => e == .deallocListsOwn spec.k) tr ≤ 1 ∧
    (∀ pre post, tr = pre ++ .deallocListsOwn spec.k :: post →
      ∃ mp, run spec.k { created := true } pre = .ok mp ∧ mp.called = true ∧ mp.reported = Host.STARTED_CANCELLED) ∧
    (c.fut = .finished → m.lowered = true →
      (cnt (fun e => e == .deallocListsOwn spec.k) tr = 1 ↔ m.reported = Host.STARTED_CANCELLED)) := by
  have hc := reach_counts hv h
  refine ⟨by have := hc.2.1; omega, ?_, ?_⟩
  · intro pre post htr
    obtain ⟨mp, me, hp, he⟩ := at_event hv h htr
    refine ⟨mp, hp, ?_⟩
    simp only [step, ne_eq, not_true_eq_false, if_false] at he
    by_cases h1 : mp.listsFreed = 0
    · by_cases h2 : (mp.called && mp.reported == Host.STARTED_CANCELLED) = true
      · simpa using h2
      · simp [h1, h2] at he
    · simp [h1] at he
  · intro hf hl
    obtain ⟨hcomp, hcr, _, _⟩ := reach_finished hv h hf
    have := (complete_lowered hcomp hcr hl).2.2.2.1
    rw [hc.2.1.1]; exact this

/-- **Results are lifted exactly once when the call returns.**  `results_lift` runs at most once, only
after RETURNED was reported and while the result area is still allocated; for a call whose future is
gone it ran *iff* the call ended RETURNED (never for a cancelled call), and the lifted value was
dropped exactly once. -/
theorem results_lifted_once_iff_returned (hv : t.version = 1 ∨ t.version = 2) (h : Reach spec t c m tr) :
    cnt (fun e => e == .lift spec.k) tr ≤ 1 ∧
    (∀ pre post, tr = pre ++ .lift spec.k :: post →
      ∃ mp, run spec.k { created := true } pre = .ok mp ∧ mp.called = true ∧ mp.reported = Host.RETURNED ∧ mp.areaFreed = 0) ∧
    (c.fut = .finished → m.lowered = true →
      (cnt (fun e => e == .lift spec.k) tr = 1 ↔ m.reported = Host.RETURNED) ∧ m.rdrops = m.lifted) := by
  have hc := reach_counts hv h
  refine ⟨by have := hc.2.2.1; omega, ?_, ?_⟩
  · intro pre post htr
    obtain ⟨mp, me, hp, he⟩ := at_event hv h htr
    refine ⟨mp, hp, ?_⟩
    simp only [step, ne_eq, not_true_eq_false, if_false] at he
    by_cases h1 : mp.lifted = 0
    · by_cases h2 : (mp.called && mp.reported == Host.RETURNED) = true
      · by_cases h3 : mp.areaFreed = 0
        · simp only [Bool.and_eq_true, beq_iff_eq] at h2; exact ⟨h2.1, h2.2, h3⟩
        · simp [h1, h2, h3] at he
      · simp [h1, h2] at he
    · simp [h1] at he
  · intro hf hl
    obtain ⟨hcomp, hcr, _, _⟩ := reach_finished hv h hf
    have hcl := complete_lowered hcomp hcr hl
    rw [hc.2.2.1.1]; exact ⟨hcl.2.2.2.2.1, hcl.2.2.2.2.2.1.symm⟩

/-- **The subtask handle is dropped exactly once.**  At every `subtask.drop` of the call's handle the
resolution had been reported and no earlier drop had happened (so the host never traps on it); a call
that returned at once has no handle; when the future is gone the handle of a call that had one has
been dropped exactly once. -/
theorem subtask_handle_dropped_once (hv : t.version = 1 ∨ t.version = 2) (h : Reach spec t c m tr) :
    (∀ pre post hd, tr = pre ++ .subDrop hd :: post →
      ∃ mp, run spec.k { created := true } pre = .ok mp ∧
        (mp.called = true → hd = mp.handle → hd ≠ 0 → resolvedKnown mp = true ∧ mp.handleDrops = 0)) ∧
    (c.fut = .finished → m.lowered = true →
      m.handleDrops ≤ 1 ∧ (m.handle ≠ 0 → m.handleDrops = 1) ∧ resolvedKnown m = true) := by
  refine ⟨?_, ?_⟩
  · intro pre post hd htr
    obtain ⟨mp, me, hp, he⟩ := at_event hv h htr
    refine ⟨mp, hp, ?_⟩
    intro hcd hh hn
    simp only [step, hcd, hh, ne_eq, not_true_eq_false, if_false] at he
    have hn' : mp.handle ≠ 0 := hh ▸ hn
    simp only [hn', decide_true, Bool.and_self, Bool.not_true, Bool.false_eq_true, if_false, decide_not,
      beq_self_eq_true, Bool.true_and] at he
    by_cases h1 : mp.handleDrops = 0
    · by_cases h2 : resolvedKnown mp = true
      · exact ⟨h2, h1⟩
      · simp [h1, h2] at he
    · simp [h1] at he
  · intro hf hl
    obtain ⟨hcomp, hcr, hd1, _⟩ := reach_finished hv h hf
    have hcl := complete_lowered hcomp hcr hl
    exact ⟨hd1, hcl.2.2.2.2.2.2.1, hcl.2.1⟩

/-- **Only a call still in progress is cancelled.**  At every `subtask.cancel` of the call's handle:
no resolved status had been reported, no cancel had been issued before, and the operation had been
removed from the executor's map / waitable set first — exactly the conditions under which the host
does not trap (Appendix B). -/
theorem cancel_only_in_progress (hv : t.version = 1 ∨ t.version = 2) (h : Reach spec t c m tr) :
    (∀ pre post hd ret, tr = pre ++ .cancel hd ret :: post →
      ∃ mp, run spec.k { created := true } pre = .ok mp ∧
        (mp.called = true → hd = mp.handle → hd ≠ 0 →
          resolvedKnown mp = false ∧ mp.cancels = 0 ∧ mp.registered = false)) ∧
    (c.fut = .finished → m.cancels ≤ 1 ∧ (m.lowered = true → m.registered = false)) := by
  refine ⟨?_, ?_⟩
  · intro pre post hd ret htr
    obtain ⟨mp, me, hp, he⟩ := at_event hv h htr
    refine ⟨mp, hp, ?_⟩
    intro hcd hh hn
    simp only [step, hcd, hh, ne_eq, not_true_eq_false, if_false] at he
    have hn' : mp.handle ≠ 0 := hh ▸ hn
    simp only [hn', decide_true, Bool.and_self, Bool.not_true, Bool.false_eq_true, if_false, decide_not,
      beq_self_eq_true, Bool.true_and] at he
    by_cases h1 : resolvedKnown mp = true
    · simp [h1] at he
    · by_cases h2 : mp.cancels = 0
      · by_cases h3 : mp.registered = true
        · simp [h1, h2, h3] at he
        · exact ⟨by simpa using h1, h2, by simpa using h3⟩
      · simp [h1, h2] at he
  · intro hf
    obtain ⟨hcomp, hcr, _, hc1⟩ := reach_finished hv h hf
    exact ⟨hc1, fun hl => (complete_lowered hcomp hcr hl).2.2.2.2.2.2.2.2⟩

/-- **The parameter/result area stays allocated as long as the host may touch it.**  The area's
`Cleanup` is dropped at most once and only after a resolved status (RETURNED, STARTED_CANCELLED,
RETURNED_CANCELLED) was reported — hence after the callee started and read the parameters, and after
it wrote the results; every `params_dealloc_lists*` / `results_lift` happens while it is still
allocated (clauses (2) of the theorems above); for a call with a non-empty area whose future is gone
it was freed exactly once. -/
theorem param_area_live_until_started (hv : t.version = 1 ∨ t.version = 2) (h : Reach spec t c m tr) :
    cnt (fun e => e == .free spec.k) tr ≤ 1 ∧
    (∀ pre post, tr = pre ++ .free spec.k :: post →
      ∃ mp, run spec.k { created := true } pre = .ok mp ∧ resolvedKnown mp = true ∧ mp.areaFreed = 0) ∧
    (c.fut = .finished → m.lowered = true → spec.area = true → cnt (fun e => e == .free spec.k) tr = 1) := by
  have hc := reach_counts hv h
  refine ⟨by have := hc.2.2.2; omega, ?_, ?_⟩
  · intro pre post htr
    obtain ⟨mp, me, hp, he⟩ := at_event hv h htr
    refine ⟨mp, hp, ?_⟩
    simp only [step, ne_eq, not_true_eq_false, if_false] at he
    by_cases h1 : mp.areaFreed = 0
    · by_cases h2 : resolvedKnown mp = true
      · exact ⟨h2, h1⟩
      · simp [h1, h2] at he
    · simp [h1] at he
  · intro hf hl ha
    obtain ⟨hcomp, hcr, _, _⟩ := reach_finished hv h hf
    have := (complete_lowered hcomp hcr hl).2.2.2.2.2.2.2.1 ha
    rw [hc.2.2.2.1]; exact this

/-- A call that is dropped before its first poll never reaches the host: its parameters are released
by their ordinary Rust destructor, exactly once. -/
theorem unpolled_drop_releases_params (hv : t.version = 1 ∨ t.version = 2) (h : Reach spec t c m tr)
    (hf : c.fut = .finished) (hl : m.lowered = false) : m.pdrops = 1 := by
  obtain ⟨hcomp, hcr, _, _⟩ := reach_finished hv h hf
  unfold complete at hcomp
  simp only [hcr, hl, Bool.not_true, Bool.not_false, Bool.false_eq_true, if_false, if_true] at hcomp
  by_cases hp : m.pdrops = 1
  · exact hp
  · simp [hp] at hcomp

/-! ## The host resolution used by the harness is legal (Appendix B) -/

/-- Whatever cancel choice the script makes, the mock host's answer is one the rules allow, for every
subtask state in which its pending event (if any) is its current state. -/
theorem host_cancel_answer_legal (s : Host.Sub) (cx : Nat) (hp : ∀ p, s.pending = some p → p = s.state) :
    s.legalCancelRet (s.cancelAnswer cx) = true := by
  unfold Host.Sub.legalCancelRet Host.Sub.cancelAnswer
  by_cases hr : Host.resolved s.state = true
  · simp only [hr, if_true]
    cases hpd : s.pending with
    | none => simp
    | some p => simp [hp p hpd]
  · simp only [hr, Bool.false_eq_true, if_false]
    by_cases h0 : (s.state == Host.STARTING) = true
    · by_cases hc : (cx == 0) = true <;> by_cases h2 : (cx == 2) = true <;> simp [h0, hc, h2]
    · by_cases h2 : (cx == 2) = true <;> simp [h0, h2]

/-! ## Non-vacuity: concrete runs of the model -/

def spec0 : CallSpec := ⟨0, true⟩
def task2 : CurTask := ⟨1, 2⟩

/-- starting → (event) started → (event) returned: lists freed at STARTED, results lifted, area and
handle released once, task clone dropped -/
example :
    (do let c1 ← some ((CallSys.init spec0 task2).step (.poll (0 + 1 * 16)))
        match c1 with
        | .ok c1 e1 => match c1.step (.deliver 1) with
          | .ok c2 e2 => match c2.step (.poll 0) with
            | .ok c3 e3 => match c3.step (.deliver 2) with
              | .ok c4 e4 => match c4.step (.poll 0) with
                | .ok _ e5 => some (e1 ++ e2 ++ e3 ++ e4 ++ e5)
                | _ => none
              | _ => none
            | _ => none
          | _ => none
        | _ => none) =
    some [.lower 0, .callImport 0 0 1, .clone 1, .reg 1 1 false, .dlv 1 1, .deallocLists 0, .reg 1 1 false,
          .dlv 1 2, .lift 0, .free 0, .subDrop 1, .tdrop 1, .rdrop 0] := by decide

/-- dropped while STARTING, host answers STARTED_CANCELLED: unregistered first, lists *and* owned
handles released, no lift -/
example :
    (match (CallSys.init spec0 task2).step (.poll (0 + 1 * 16)) with
      | .ok c1 e1 => match c1.step (.drop 3) with
        | .ok _ e2 => some (e1 ++ e2)
        | _ => none
      | _ => none) =
    some [.lower 0, .callImport 0 0 1, .clone 1, .reg 1 1 false, .unreg 1 1 true, .cancel 1 3,
          .deallocListsOwn 0, .free 0, .subDrop 1, .tdrop 1] := by decide

/-- the monitor is not trivially true: freeing the lists twice is rejected -/
example : (match run 0 { created := true } [.lower 0, .callImport 0 1 1, .deallocLists 0, .deallocLists 0] with
    | .error cls => cls | .ok _ => "accepted") = "lists-freed-twice" := by decide

/-- … and so are a lift after RETURNED_CANCELLED and a cancel of a returned call -/
example : (match run 0 { created := true } [.lower 0, .callImport 0 0 1, .cancel 1 4, .deallocLists 0, .lift 0] with
    | .error cls => cls | .ok _ => "accepted") = "lift-not-returned" := by decide
example : (match run 0 { created := true } [.lower 0, .callImport 0 0 1, .dlv 1 2, .cancel 1 2] with
    | .error cls => cls | .ok _ => "accepted") = "cancel-not-in-progress" := by decide

end Witverif.Props.C21
