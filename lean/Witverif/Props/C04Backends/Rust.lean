import Witverif.Proofs.Scalar
import Witverif.Generated.CastExprs.Rust
/-! # C04 (backend half), backend `rust`: the emitted `Bitcast` expressions

`G.rust_<Bitcast>_<probe>` lists the expressions the `rust` generator emitted for that `Bitcast` on the
variant probe `<payload of case 0>_<payload of case 1>` (lowering side: payload value → joined slot;
lifting side: slot → payload value), re-extracted from generated output on every check run.
`…_is_spec`: the expression equals the canonical ABI's conversion (`Spec.joinConv`: reinterpret /
zero-extend / wrap) for **all** 2^32 / 2^64 bit patterns.  `…_roundtrip`: lifting what was lowered
recovers every payload bit pattern.  Proof script: `scalar_tac` (fixed). -/
namespace Witverif.Props.C04Backends.Rust
open Witverif.Scalar Witverif.Scalar.Spec
namespace G
export Witverif.Generated.CastExprs (rust_F32ToI32_f32_s32 rust_I32ToF32_f32_s32 rust_F64ToI64_f64_s64 rust_I64ToF64_f64_s64 rust_I32ToI64_s32_s64 rust_I64ToI32_s32_s64 rust_F32ToI64_f32_s64 rust_I64ToF32_f32_s64 rust_None_s32_f32 rust_I32ToI64_u32_f64 rust_I64ToI32_u32_f64 rust_F32ToI64_f32_f64 rust_I64ToF32_f32_f64 rust_F64ToI64_f64_f32 rust_I64ToF64_f64_f32 rust_I64ToP64_s64_string rust_P64ToI64_s64_string rust_I32ToP_s32_string rust_PToI32_s32_string rust_F32ToI32_I32ToP_f32_string rust_PToI32_I32ToF32_f32_string rust_F64ToI64_I64ToP64_f64_string rust_P64ToI64_I64ToF64_f64_string)
end G
set_option maxRecDepth 8000

/-- rust: `F32ToI32` (f32 payload into the i32 slot) is the canonical ABI conversion, all 2^32 patterns -/
theorem rust_F32ToI32_f32_s32_is_spec : ∀ e ∈ G.rust_F32ToI32_f32_s32, e.IsSpec := by
  unfold G.rust_F32ToI32_f32_s32; scalar_tac

/-- rust: `I32ToF32` (i32 slot back to the f32 payload) is the canonical ABI conversion, all 2^32 slot values -/
theorem rust_I32ToF32_f32_s32_is_spec : ∀ e ∈ G.rust_I32ToF32_f32_s32, e.IsSpec := by
  unfold G.rust_I32ToF32_f32_s32; scalar_tac
/-- rust: `I32ToF32 ∘ F32ToI32` recovers every f32 bit pattern -/
theorem f32_s32_roundtrip : RoundTrips G.rust_F32ToI32_f32_s32 G.rust_I32ToF32_f32_s32 := by
  unfold G.rust_F32ToI32_f32_s32 G.rust_I32ToF32_f32_s32; scalar_tac
example : G.rust_F32ToI32_f32_s32 ≠ [] ∧ G.rust_I32ToF32_f32_s32 ≠ [] := by decide

/-- rust: `F64ToI64` (f64 payload into the i64 slot) is the canonical ABI conversion, all 2^64 patterns -/
theorem rust_F64ToI64_f64_s64_is_spec : ∀ e ∈ G.rust_F64ToI64_f64_s64, e.IsSpec := by
  unfold G.rust_F64ToI64_f64_s64; scalar_tac

/-- rust: `I64ToF64` (i64 slot back to the f64 payload) is the canonical ABI conversion, all 2^64 slot values -/
theorem rust_I64ToF64_f64_s64_is_spec : ∀ e ∈ G.rust_I64ToF64_f64_s64, e.IsSpec := by
  unfold G.rust_I64ToF64_f64_s64; scalar_tac
/-- rust: `I64ToF64 ∘ F64ToI64` recovers every f64 bit pattern -/
theorem f64_s64_roundtrip : RoundTrips G.rust_F64ToI64_f64_s64 G.rust_I64ToF64_f64_s64 := by
  unfold G.rust_F64ToI64_f64_s64 G.rust_I64ToF64_f64_s64; scalar_tac
example : G.rust_F64ToI64_f64_s64 ≠ [] ∧ G.rust_I64ToF64_f64_s64 ≠ [] := by decide

/- FULL STATEMENT (false of the pinned tree, DESIGN §9 F3):
     theorem rust_I32ToI64_s32_s64_is_spec : ∀ e ∈ G.rust_I32ToI64_s32_s64, e.IsSpec
   the rust backend sign-extends where the canonical ABI zero-extends (lossless — `s32_s64_roundtrip` below —
   but not the canonical conversion: the upper 32 bits of the slot are ones for payloads with bit 31 set). -/
/-- witness: payload bits 0x80000000 go to 0xffffffff80000000; the canonical ABI says 0x0000000080000000 -/
theorem rust_I32ToI64_s32_s64_is_spec_full_false : ¬ ∀ e ∈ G.rust_I32ToI64_s32_s64, e.IsSpec := by
  intro h
  have h0 := CastEntry.evalAt_of_isSpec _ (h _ (List.getElem_mem (l := G.rust_I32ToI64_s32_s64) (n := 0) (by decide))) 0x80000000 0
  revert h0; decide
/-- it is the canonical conversion exactly when bit 31 of the payload is clear -/
theorem rust_I32ToI64_s32_s64_is_spec_partial : ∀ e ∈ G.rust_I32ToI64_s32_s64, e.IsSpecIf (fun v => decide (v < 0x80000000#64)) := by
  unfold G.rust_I32ToI64_s32_s64; scalar_tac

/-- rust: `I64ToI32` (i64 slot back to the s32 payload) is the canonical ABI conversion, all 2^64 slot values -/
theorem rust_I64ToI32_s32_s64_is_spec : ∀ e ∈ G.rust_I64ToI32_s32_s64, e.IsSpec := by
  unfold G.rust_I64ToI32_s32_s64; scalar_tac
/-- rust: `I64ToI32 ∘ I32ToI64` recovers every s32 bit pattern -/
theorem s32_s64_roundtrip : RoundTrips G.rust_I32ToI64_s32_s64 G.rust_I64ToI32_s32_s64 := by
  unfold G.rust_I32ToI64_s32_s64 G.rust_I64ToI32_s32_s64; scalar_tac
example : G.rust_I32ToI64_s32_s64 ≠ [] ∧ G.rust_I64ToI32_s32_s64 ≠ [] := by decide

/-- rust: `F32ToI64` (f32 payload into the i64 slot) is the canonical ABI conversion, all 2^32 patterns -/
theorem rust_F32ToI64_f32_s64_is_spec : ∀ e ∈ G.rust_F32ToI64_f32_s64, e.IsSpec := by
  unfold G.rust_F32ToI64_f32_s64; scalar_tac

/-- rust: `I64ToF32` (i64 slot back to the f32 payload) is the canonical ABI conversion, all 2^64 slot values -/
theorem rust_I64ToF32_f32_s64_is_spec : ∀ e ∈ G.rust_I64ToF32_f32_s64, e.IsSpec := by
  unfold G.rust_I64ToF32_f32_s64; scalar_tac
/-- rust: `I64ToF32 ∘ F32ToI64` recovers every f32 bit pattern -/
theorem f32_s64_roundtrip : RoundTrips G.rust_F32ToI64_f32_s64 G.rust_I64ToF32_f32_s64 := by
  unfold G.rust_F32ToI64_f32_s64 G.rust_I64ToF32_f32_s64; scalar_tac
example : G.rust_F32ToI64_f32_s64 ≠ [] ∧ G.rust_I64ToF32_f32_s64 ≠ [] := by decide

/-- rust: `Bitcast::None` (s32 in an i32 slot): both directions are the identity on bits -/
theorem rust_None_s32_f32_is_spec : ∀ e ∈ G.rust_None_s32_f32, e.IsSpec := by
  unfold G.rust_None_s32_f32; scalar_tac
theorem rust_None_s32_f32_roundtrip : RoundTrips (G.rust_None_s32_f32.filter (·.lowering)) (G.rust_None_s32_f32.filter (!·.lowering)) := by
  unfold G.rust_None_s32_f32; simp only [List.filter_cons, List.filter_nil]; scalar_tac
example : G.rust_None_s32_f32 ≠ [] := by decide

/- FULL STATEMENT (false of the pinned tree, DESIGN §9 F3):
     theorem rust_I32ToI64_u32_f64_is_spec : ∀ e ∈ G.rust_I32ToI64_u32_f64, e.IsSpec
   the rust backend sign-extends where the canonical ABI zero-extends (lossless — `u32_f64_roundtrip` below —
   but not the canonical conversion: the upper 32 bits of the slot are ones for payloads with bit 31 set). -/
/-- witness: payload bits 0x80000000 go to 0xffffffff80000000; the canonical ABI says 0x0000000080000000 -/
theorem rust_I32ToI64_u32_f64_is_spec_full_false : ¬ ∀ e ∈ G.rust_I32ToI64_u32_f64, e.IsSpec := by
  intro h
  have h0 := CastEntry.evalAt_of_isSpec _ (h _ (List.getElem_mem (l := G.rust_I32ToI64_u32_f64) (n := 0) (by decide))) 0x80000000 0
  revert h0; decide
/-- it is the canonical conversion exactly when bit 31 of the payload is clear -/
theorem rust_I32ToI64_u32_f64_is_spec_partial : ∀ e ∈ G.rust_I32ToI64_u32_f64, e.IsSpecIf (fun v => decide (v < 0x80000000#64)) := by
  unfold G.rust_I32ToI64_u32_f64; scalar_tac

/-- rust: `I64ToI32` (i64 slot back to the u32 payload) is the canonical ABI conversion, all 2^64 slot values -/
theorem rust_I64ToI32_u32_f64_is_spec : ∀ e ∈ G.rust_I64ToI32_u32_f64, e.IsSpec := by
  unfold G.rust_I64ToI32_u32_f64; scalar_tac
/-- rust: `I64ToI32 ∘ I32ToI64` recovers every u32 bit pattern -/
theorem u32_f64_roundtrip : RoundTrips G.rust_I32ToI64_u32_f64 G.rust_I64ToI32_u32_f64 := by
  unfold G.rust_I32ToI64_u32_f64 G.rust_I64ToI32_u32_f64; scalar_tac
example : G.rust_I32ToI64_u32_f64 ≠ [] ∧ G.rust_I64ToI32_u32_f64 ≠ [] := by decide

/-- rust: `F32ToI64` (f32 payload into the i64 slot) is the canonical ABI conversion, all 2^32 patterns -/
theorem rust_F32ToI64_f32_f64_is_spec : ∀ e ∈ G.rust_F32ToI64_f32_f64, e.IsSpec := by
  unfold G.rust_F32ToI64_f32_f64; scalar_tac

/-- rust: `I64ToF32` (i64 slot back to the f32 payload) is the canonical ABI conversion, all 2^64 slot values -/
theorem rust_I64ToF32_f32_f64_is_spec : ∀ e ∈ G.rust_I64ToF32_f32_f64, e.IsSpec := by
  unfold G.rust_I64ToF32_f32_f64; scalar_tac
/-- rust: `I64ToF32 ∘ F32ToI64` recovers every f32 bit pattern -/
theorem f32_f64_roundtrip : RoundTrips G.rust_F32ToI64_f32_f64 G.rust_I64ToF32_f32_f64 := by
  unfold G.rust_F32ToI64_f32_f64 G.rust_I64ToF32_f32_f64; scalar_tac
example : G.rust_F32ToI64_f32_f64 ≠ [] ∧ G.rust_I64ToF32_f32_f64 ≠ [] := by decide

/-- rust: `F64ToI64` (f64 payload into the i64 slot) is the canonical ABI conversion, all 2^64 patterns -/
theorem rust_F64ToI64_f64_f32_is_spec : ∀ e ∈ G.rust_F64ToI64_f64_f32, e.IsSpec := by
  unfold G.rust_F64ToI64_f64_f32; scalar_tac

/-- rust: `I64ToF64` (i64 slot back to the f64 payload) is the canonical ABI conversion, all 2^64 slot values -/
theorem rust_I64ToF64_f64_f32_is_spec : ∀ e ∈ G.rust_I64ToF64_f64_f32, e.IsSpec := by
  unfold G.rust_I64ToF64_f64_f32; scalar_tac
/-- rust: `I64ToF64 ∘ F64ToI64` recovers every f64 bit pattern -/
theorem f64_f32_roundtrip : RoundTrips G.rust_F64ToI64_f64_f32 G.rust_I64ToF64_f64_f32 := by
  unfold G.rust_F64ToI64_f64_f32 G.rust_I64ToF64_f64_f32; scalar_tac
example : G.rust_F64ToI64_f64_f32 ≠ [] ∧ G.rust_I64ToF64_f64_f32 ≠ [] := by decide

/-- rust: `I64ToP64` (s64 payload into the i64 slot) is the canonical ABI conversion, all 2^64 patterns -/
theorem rust_I64ToP64_s64_string_is_spec : ∀ e ∈ G.rust_I64ToP64_s64_string, e.IsSpec := by
  unfold G.rust_I64ToP64_s64_string; scalar_tac

/-- rust: `P64ToI64` (i64 slot back to the s64 payload) is the canonical ABI conversion, all 2^64 slot values -/
theorem rust_P64ToI64_s64_string_is_spec : ∀ e ∈ G.rust_P64ToI64_s64_string, e.IsSpec := by
  unfold G.rust_P64ToI64_s64_string; scalar_tac
/-- rust: `P64ToI64 ∘ I64ToP64` recovers every s64 bit pattern -/
theorem s64_string_roundtrip : RoundTrips G.rust_I64ToP64_s64_string G.rust_P64ToI64_s64_string := by
  unfold G.rust_I64ToP64_s64_string G.rust_P64ToI64_s64_string; scalar_tac
example : G.rust_I64ToP64_s64_string ≠ [] ∧ G.rust_P64ToI64_s64_string ≠ [] := by decide

/-- rust: `I32ToP` (s32 payload into the i32 slot) is the canonical ABI conversion, all 2^32 patterns -/
theorem rust_I32ToP_s32_string_is_spec : ∀ e ∈ G.rust_I32ToP_s32_string, e.IsSpec := by
  unfold G.rust_I32ToP_s32_string; scalar_tac

/-- rust: `PToI32` (i32 slot back to the s32 payload) is the canonical ABI conversion, all 2^32 slot values -/
theorem rust_PToI32_s32_string_is_spec : ∀ e ∈ G.rust_PToI32_s32_string, e.IsSpec := by
  unfold G.rust_PToI32_s32_string; scalar_tac
/-- rust: `PToI32 ∘ I32ToP` recovers every s32 bit pattern -/
theorem s32_string_roundtrip : RoundTrips G.rust_I32ToP_s32_string G.rust_PToI32_s32_string := by
  unfold G.rust_I32ToP_s32_string G.rust_PToI32_s32_string; scalar_tac
example : G.rust_I32ToP_s32_string ≠ [] ∧ G.rust_PToI32_s32_string ≠ [] := by decide

/-- rust: `F32ToI32_I32ToP` (f32 payload into the i32 slot) is the canonical ABI conversion, all 2^32 patterns -/
theorem rust_F32ToI32_I32ToP_f32_string_is_spec : ∀ e ∈ G.rust_F32ToI32_I32ToP_f32_string, e.IsSpec := by
  unfold G.rust_F32ToI32_I32ToP_f32_string; scalar_tac

/-- rust: `PToI32_I32ToF32` (i32 slot back to the f32 payload) is the canonical ABI conversion, all 2^32 slot values -/
theorem rust_PToI32_I32ToF32_f32_string_is_spec : ∀ e ∈ G.rust_PToI32_I32ToF32_f32_string, e.IsSpec := by
  unfold G.rust_PToI32_I32ToF32_f32_string; scalar_tac
/-- rust: `PToI32_I32ToF32 ∘ F32ToI32_I32ToP` recovers every f32 bit pattern -/
theorem f32_string_roundtrip : RoundTrips G.rust_F32ToI32_I32ToP_f32_string G.rust_PToI32_I32ToF32_f32_string := by
  unfold G.rust_F32ToI32_I32ToP_f32_string G.rust_PToI32_I32ToF32_f32_string; scalar_tac
example : G.rust_F32ToI32_I32ToP_f32_string ≠ [] ∧ G.rust_PToI32_I32ToF32_f32_string ≠ [] := by decide

/-- rust: `F64ToI64_I64ToP64` (f64 payload into the i64 slot) is the canonical ABI conversion, all 2^64 patterns -/
theorem rust_F64ToI64_I64ToP64_f64_string_is_spec : ∀ e ∈ G.rust_F64ToI64_I64ToP64_f64_string, e.IsSpec := by
  unfold G.rust_F64ToI64_I64ToP64_f64_string; scalar_tac

/-- rust: `P64ToI64_I64ToF64` (i64 slot back to the f64 payload) is the canonical ABI conversion, all 2^64 slot values -/
theorem rust_P64ToI64_I64ToF64_f64_string_is_spec : ∀ e ∈ G.rust_P64ToI64_I64ToF64_f64_string, e.IsSpec := by
  unfold G.rust_P64ToI64_I64ToF64_f64_string; scalar_tac
/-- rust: `P64ToI64_I64ToF64 ∘ F64ToI64_I64ToP64` recovers every f64 bit pattern -/
theorem f64_string_roundtrip : RoundTrips G.rust_F64ToI64_I64ToP64_f64_string G.rust_P64ToI64_I64ToF64_f64_string := by
  unfold G.rust_F64ToI64_I64ToP64_f64_string G.rust_P64ToI64_I64ToF64_f64_string; scalar_tac
example : G.rust_F64ToI64_I64ToP64_f64_string ≠ [] ∧ G.rust_P64ToI64_I64ToF64_f64_string ≠ [] := by decide

end Witverif.Props.C04Backends.Rust
