import Witverif.Proofs.Scalar
import Witverif.Generated.CastExprs.D
/-! # C04 (backend half), backend `d`: the emitted `Bitcast` expressions

`G.d_<Bitcast>_<probe>` lists the expressions the `d` generator emitted for that `Bitcast` on the
variant probe `<payload of case 0>_<payload of case 1>` (lowering side: payload value → joined slot;
lifting side: slot → payload value), re-extracted from generated output on every check run.
`…_is_spec`: the expression equals the canonical ABI's conversion (`Spec.joinConv`: reinterpret /
zero-extend / wrap) for **all** 2^32 / 2^64 bit patterns.  `…_roundtrip`: lifting what was lowered
recovers every payload bit pattern.  Proof script: `scalar_tac` (fixed). -/
namespace Witverif.Props.C04Backends.D
open Witverif.Scalar Witverif.Scalar.Spec
namespace G
export Witverif.Generated.CastExprs (d_F32ToI32_f32_s32 d_I32ToF32_f32_s32 d_F64ToI64_f64_s64 d_I64ToF64_f64_s64 d_I32ToI64_s32_s64 d_I64ToI32_s32_s64 d_F32ToI64_f32_s64 d_I64ToF32_f32_s64 d_None_s32_f32 d_I32ToI64_u32_f64 d_I64ToI32_u32_f64 d_F32ToI64_f32_f64 d_I64ToF32_f32_f64 d_F64ToI64_f64_f32 d_I64ToF64_f64_f32 d_I64ToP64_s64_string d_P64ToI64_s64_string d_I32ToP_s32_string d_PToI32_s32_string d_F32ToI32_I32ToP_f32_string d_PToI32_I32ToF32_f32_string d_F64ToI64_I64ToP64_f64_string d_P64ToI64_I64ToF64_f64_string)
end G
set_option maxRecDepth 8000

/-- d: `F32ToI32` (f32 payload into the i32 slot) is the canonical ABI conversion, all 2^32 patterns -/
theorem d_F32ToI32_f32_s32_is_spec : ∀ e ∈ G.d_F32ToI32_f32_s32, e.IsSpec := by
  unfold G.d_F32ToI32_f32_s32; scalar_tac

/-- d: `I32ToF32` (i32 slot back to the f32 payload) is the canonical ABI conversion, all 2^32 slot values -/
theorem d_I32ToF32_f32_s32_is_spec : ∀ e ∈ G.d_I32ToF32_f32_s32, e.IsSpec := by
  unfold G.d_I32ToF32_f32_s32; scalar_tac
/-- d: `I32ToF32 ∘ F32ToI32` recovers every f32 bit pattern -/
theorem f32_s32_roundtrip : RoundTrips G.d_F32ToI32_f32_s32 G.d_I32ToF32_f32_s32 := by
  unfold G.d_F32ToI32_f32_s32 G.d_I32ToF32_f32_s32; scalar_tac
example : G.d_F32ToI32_f32_s32 ≠ [] ∧ G.d_I32ToF32_f32_s32 ≠ [] := by decide

/-- d: `F64ToI64` (f64 payload into the i64 slot) is the canonical ABI conversion, all 2^64 patterns -/
theorem d_F64ToI64_f64_s64_is_spec : ∀ e ∈ G.d_F64ToI64_f64_s64, e.IsSpec := by
  unfold G.d_F64ToI64_f64_s64; scalar_tac

/-- d: `I64ToF64` (i64 slot back to the f64 payload) is the canonical ABI conversion, all 2^64 slot values -/
theorem d_I64ToF64_f64_s64_is_spec : ∀ e ∈ G.d_I64ToF64_f64_s64, e.IsSpec := by
  unfold G.d_I64ToF64_f64_s64; scalar_tac
/-- d: `I64ToF64 ∘ F64ToI64` recovers every f64 bit pattern -/
theorem f64_s64_roundtrip : RoundTrips G.d_F64ToI64_f64_s64 G.d_I64ToF64_f64_s64 := by
  unfold G.d_F64ToI64_f64_s64 G.d_I64ToF64_f64_s64; scalar_tac
example : G.d_F64ToI64_f64_s64 ≠ [] ∧ G.d_I64ToF64_f64_s64 ≠ [] := by decide

/-- d: `I32ToI64` (s32 payload into the i64 slot) is the canonical ABI conversion, all 2^32 patterns -/
theorem d_I32ToI64_s32_s64_is_spec : ∀ e ∈ G.d_I32ToI64_s32_s64, e.IsSpec := by
  unfold G.d_I32ToI64_s32_s64; scalar_tac

/-- d: `I64ToI32` (i64 slot back to the s32 payload) is the canonical ABI conversion, all 2^64 slot values -/
theorem d_I64ToI32_s32_s64_is_spec : ∀ e ∈ G.d_I64ToI32_s32_s64, e.IsSpec := by
  unfold G.d_I64ToI32_s32_s64; scalar_tac
/-- d: `I64ToI32 ∘ I32ToI64` recovers every s32 bit pattern -/
theorem s32_s64_roundtrip : RoundTrips G.d_I32ToI64_s32_s64 G.d_I64ToI32_s32_s64 := by
  unfold G.d_I32ToI64_s32_s64 G.d_I64ToI32_s32_s64; scalar_tac
example : G.d_I32ToI64_s32_s64 ≠ [] ∧ G.d_I64ToI32_s32_s64 ≠ [] := by decide

/-- d: `F32ToI64` (f32 payload into the i64 slot) is the canonical ABI conversion, all 2^32 patterns -/
theorem d_F32ToI64_f32_s64_is_spec : ∀ e ∈ G.d_F32ToI64_f32_s64, e.IsSpec := by
  unfold G.d_F32ToI64_f32_s64; scalar_tac

/-- d: `I64ToF32` (i64 slot back to the f32 payload) is the canonical ABI conversion, all 2^64 slot values -/
theorem d_I64ToF32_f32_s64_is_spec : ∀ e ∈ G.d_I64ToF32_f32_s64, e.IsSpec := by
  unfold G.d_I64ToF32_f32_s64; scalar_tac
/-- d: `I64ToF32 ∘ F32ToI64` recovers every f32 bit pattern -/
theorem f32_s64_roundtrip : RoundTrips G.d_F32ToI64_f32_s64 G.d_I64ToF32_f32_s64 := by
  unfold G.d_F32ToI64_f32_s64 G.d_I64ToF32_f32_s64; scalar_tac
example : G.d_F32ToI64_f32_s64 ≠ [] ∧ G.d_I64ToF32_f32_s64 ≠ [] := by decide

/-- d: `Bitcast::None` (s32 in an i32 slot): both directions are the identity on bits -/
theorem d_None_s32_f32_is_spec : ∀ e ∈ G.d_None_s32_f32, e.IsSpec := by
  unfold G.d_None_s32_f32; scalar_tac
theorem d_None_s32_f32_roundtrip : RoundTrips (G.d_None_s32_f32.filter (·.lowering)) (G.d_None_s32_f32.filter (!·.lowering)) := by
  unfold G.d_None_s32_f32; simp only [List.filter_cons, List.filter_nil]; scalar_tac
example : G.d_None_s32_f32 ≠ [] := by decide

/-- d: `I32ToI64` (u32 payload into the i64 slot) is the canonical ABI conversion, all 2^32 patterns -/
theorem d_I32ToI64_u32_f64_is_spec : ∀ e ∈ G.d_I32ToI64_u32_f64, e.IsSpec := by
  unfold G.d_I32ToI64_u32_f64; scalar_tac

/-- d: `I64ToI32` (i64 slot back to the u32 payload) is the canonical ABI conversion, all 2^64 slot values -/
theorem d_I64ToI32_u32_f64_is_spec : ∀ e ∈ G.d_I64ToI32_u32_f64, e.IsSpec := by
  unfold G.d_I64ToI32_u32_f64; scalar_tac
/-- d: `I64ToI32 ∘ I32ToI64` recovers every u32 bit pattern -/
theorem u32_f64_roundtrip : RoundTrips G.d_I32ToI64_u32_f64 G.d_I64ToI32_u32_f64 := by
  unfold G.d_I32ToI64_u32_f64 G.d_I64ToI32_u32_f64; scalar_tac
example : G.d_I32ToI64_u32_f64 ≠ [] ∧ G.d_I64ToI32_u32_f64 ≠ [] := by decide

/-- d: `F32ToI64` (f32 payload into the i64 slot) is the canonical ABI conversion, all 2^32 patterns -/
theorem d_F32ToI64_f32_f64_is_spec : ∀ e ∈ G.d_F32ToI64_f32_f64, e.IsSpec := by
  unfold G.d_F32ToI64_f32_f64; scalar_tac

/-- d: `I64ToF32` (i64 slot back to the f32 payload) is the canonical ABI conversion, all 2^64 slot values -/
theorem d_I64ToF32_f32_f64_is_spec : ∀ e ∈ G.d_I64ToF32_f32_f64, e.IsSpec := by
  unfold G.d_I64ToF32_f32_f64; scalar_tac
/-- d: `I64ToF32 ∘ F32ToI64` recovers every f32 bit pattern -/
theorem f32_f64_roundtrip : RoundTrips G.d_F32ToI64_f32_f64 G.d_I64ToF32_f32_f64 := by
  unfold G.d_F32ToI64_f32_f64 G.d_I64ToF32_f32_f64; scalar_tac
example : G.d_F32ToI64_f32_f64 ≠ [] ∧ G.d_I64ToF32_f32_f64 ≠ [] := by decide

/-- d: `F64ToI64` (f64 payload into the i64 slot) is the canonical ABI conversion, all 2^64 patterns -/
theorem d_F64ToI64_f64_f32_is_spec : ∀ e ∈ G.d_F64ToI64_f64_f32, e.IsSpec := by
  unfold G.d_F64ToI64_f64_f32; scalar_tac

/-- d: `I64ToF64` (i64 slot back to the f64 payload) is the canonical ABI conversion, all 2^64 slot values -/
theorem d_I64ToF64_f64_f32_is_spec : ∀ e ∈ G.d_I64ToF64_f64_f32, e.IsSpec := by
  unfold G.d_I64ToF64_f64_f32; scalar_tac
/-- d: `I64ToF64 ∘ F64ToI64` recovers every f64 bit pattern -/
theorem f64_f32_roundtrip : RoundTrips G.d_F64ToI64_f64_f32 G.d_I64ToF64_f64_f32 := by
  unfold G.d_F64ToI64_f64_f32 G.d_I64ToF64_f64_f32; scalar_tac
example : G.d_F64ToI64_f64_f32 ≠ [] ∧ G.d_I64ToF64_f64_f32 ≠ [] := by decide

/-- d: `I64ToP64` (s64 payload into the i64 slot) is the canonical ABI conversion, all 2^64 patterns -/
theorem d_I64ToP64_s64_string_is_spec : ∀ e ∈ G.d_I64ToP64_s64_string, e.IsSpec := by
  unfold G.d_I64ToP64_s64_string; scalar_tac

/-- d: `P64ToI64` (i64 slot back to the s64 payload) is the canonical ABI conversion, all 2^64 slot values -/
theorem d_P64ToI64_s64_string_is_spec : ∀ e ∈ G.d_P64ToI64_s64_string, e.IsSpec := by
  unfold G.d_P64ToI64_s64_string; scalar_tac
/-- d: `P64ToI64 ∘ I64ToP64` recovers every s64 bit pattern -/
theorem s64_string_roundtrip : RoundTrips G.d_I64ToP64_s64_string G.d_P64ToI64_s64_string := by
  unfold G.d_I64ToP64_s64_string G.d_P64ToI64_s64_string; scalar_tac
example : G.d_I64ToP64_s64_string ≠ [] ∧ G.d_P64ToI64_s64_string ≠ [] := by decide

/-- d: `I32ToP` (s32 payload into the i32 slot) is the canonical ABI conversion, all 2^32 patterns -/
theorem d_I32ToP_s32_string_is_spec : ∀ e ∈ G.d_I32ToP_s32_string, e.IsSpec := by
  unfold G.d_I32ToP_s32_string; scalar_tac

/-- d: `PToI32` (i32 slot back to the s32 payload) is the canonical ABI conversion, all 2^32 slot values -/
theorem d_PToI32_s32_string_is_spec : ∀ e ∈ G.d_PToI32_s32_string, e.IsSpec := by
  unfold G.d_PToI32_s32_string; scalar_tac
/-- d: `PToI32 ∘ I32ToP` recovers every s32 bit pattern -/
theorem s32_string_roundtrip : RoundTrips G.d_I32ToP_s32_string G.d_PToI32_s32_string := by
  unfold G.d_I32ToP_s32_string G.d_PToI32_s32_string; scalar_tac
example : G.d_I32ToP_s32_string ≠ [] ∧ G.d_PToI32_s32_string ≠ [] := by decide

/-- d: `F32ToI32_I32ToP` (f32 payload into the i32 slot) is the canonical ABI conversion, all 2^32 patterns -/
theorem d_F32ToI32_I32ToP_f32_string_is_spec : ∀ e ∈ G.d_F32ToI32_I32ToP_f32_string, e.IsSpec := by
  unfold G.d_F32ToI32_I32ToP_f32_string; scalar_tac

/-- d: `PToI32_I32ToF32` (i32 slot back to the f32 payload) is the canonical ABI conversion, all 2^32 slot values -/
theorem d_PToI32_I32ToF32_f32_string_is_spec : ∀ e ∈ G.d_PToI32_I32ToF32_f32_string, e.IsSpec := by
  unfold G.d_PToI32_I32ToF32_f32_string; scalar_tac
/-- d: `PToI32_I32ToF32 ∘ F32ToI32_I32ToP` recovers every f32 bit pattern -/
theorem f32_string_roundtrip : RoundTrips G.d_F32ToI32_I32ToP_f32_string G.d_PToI32_I32ToF32_f32_string := by
  unfold G.d_F32ToI32_I32ToP_f32_string G.d_PToI32_I32ToF32_f32_string; scalar_tac
example : G.d_F32ToI32_I32ToP_f32_string ≠ [] ∧ G.d_PToI32_I32ToF32_f32_string ≠ [] := by decide

/-- d: `F64ToI64_I64ToP64` (f64 payload into the i64 slot) is the canonical ABI conversion, all 2^64 patterns -/
theorem d_F64ToI64_I64ToP64_f64_string_is_spec : ∀ e ∈ G.d_F64ToI64_I64ToP64_f64_string, e.IsSpec := by
  unfold G.d_F64ToI64_I64ToP64_f64_string; scalar_tac

/-- d: `P64ToI64_I64ToF64` (i64 slot back to the f64 payload) is the canonical ABI conversion, all 2^64 slot values -/
theorem d_P64ToI64_I64ToF64_f64_string_is_spec : ∀ e ∈ G.d_P64ToI64_I64ToF64_f64_string, e.IsSpec := by
  unfold G.d_P64ToI64_I64ToF64_f64_string; scalar_tac
/-- d: `P64ToI64_I64ToF64 ∘ F64ToI64_I64ToP64` recovers every f64 bit pattern -/
theorem f64_string_roundtrip : RoundTrips G.d_F64ToI64_I64ToP64_f64_string G.d_P64ToI64_I64ToF64_f64_string := by
  unfold G.d_F64ToI64_I64ToP64_f64_string G.d_P64ToI64_I64ToF64_f64_string; scalar_tac
example : G.d_F64ToI64_I64ToP64_f64_string ≠ [] ∧ G.d_P64ToI64_I64ToF64_f64_string ≠ [] := by decide

end Witverif.Props.C04Backends.D
