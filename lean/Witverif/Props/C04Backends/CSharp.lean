import Witverif.Proofs.Scalar
import Witverif.Generated.CastExprs.CSharp
/-! # C04 (backend half), backend `csharp`: the emitted `Bitcast` expressions

`G.csharp_<Bitcast>_<probe>` lists the expressions the `csharp` generator emitted for that `Bitcast` on the
variant probe `<payload of case 0>_<payload of case 1>` (lowering side: payload value → joined slot;
lifting side: slot → payload value), re-extracted from generated output on every check run.
`…_is_spec`: the expression equals the canonical ABI's conversion (`Spec.joinConv`: reinterpret /
zero-extend / wrap) for **all** 2^32 / 2^64 bit patterns.  `…_roundtrip`: lifting what was lowered
recovers every payload bit pattern.  Proof script: `scalar_tac` (fixed). -/
namespace Witverif.Props.C04Backends.CSharp
open Witverif.Scalar Witverif.Scalar.Spec
namespace G
export Witverif.Generated.CastExprs (csharp_F32ToI32_f32_s32 csharp_I32ToF32_f32_s32 csharp_F64ToI64_f64_s64 csharp_I64ToF64_f64_s64 csharp_I32ToI64_s32_s64 csharp_I64ToI32_s32_s64 csharp_F32ToI64_f32_s64 csharp_I64ToF32_f32_s64 csharp_None_s32_f32 csharp_I32ToI64_u32_f64 csharp_I64ToI32_u32_f64 csharp_F32ToI64_f32_f64 csharp_I64ToF32_f32_f64 csharp_F64ToI64_f64_f32 csharp_I64ToF64_f64_f32 csharp_I64ToP64_s64_string csharp_P64ToI64_s64_string csharp_I32ToP_s32_string csharp_PToI32_s32_string csharp_F32ToI32_I32ToP_f32_string csharp_PToI32_I32ToF32_f32_string csharp_F64ToI64_I64ToP64_f64_string csharp_P64ToI64_I64ToF64_f64_string)
end G
set_option maxRecDepth 8000

/-- csharp: `F32ToI32` (f32 payload into the i32 slot) is the canonical ABI conversion, all 2^32 patterns -/
theorem csharp_F32ToI32_f32_s32_is_spec : ∀ e ∈ G.csharp_F32ToI32_f32_s32, e.IsSpec := by
  unfold G.csharp_F32ToI32_f32_s32; scalar_tac

/-- csharp: `I32ToF32` (i32 slot back to the f32 payload) is the canonical ABI conversion, all 2^32 slot values -/
theorem csharp_I32ToF32_f32_s32_is_spec : ∀ e ∈ G.csharp_I32ToF32_f32_s32, e.IsSpec := by
  unfold G.csharp_I32ToF32_f32_s32; scalar_tac
/-- csharp: `I32ToF32 ∘ F32ToI32` recovers every f32 bit pattern -/
theorem f32_s32_roundtrip : RoundTrips G.csharp_F32ToI32_f32_s32 G.csharp_I32ToF32_f32_s32 := by
  unfold G.csharp_F32ToI32_f32_s32 G.csharp_I32ToF32_f32_s32; scalar_tac
example : G.csharp_F32ToI32_f32_s32 ≠ [] ∧ G.csharp_I32ToF32_f32_s32 ≠ [] := by decide

/-- csharp: `F64ToI64` (f64 payload into the i64 slot) is the canonical ABI conversion, all 2^64 patterns -/
theorem csharp_F64ToI64_f64_s64_is_spec : ∀ e ∈ G.csharp_F64ToI64_f64_s64, e.IsSpec := by
  unfold G.csharp_F64ToI64_f64_s64; scalar_tac

/-- csharp: `I64ToF64` (i64 slot back to the f64 payload) is the canonical ABI conversion, all 2^64 slot values -/
theorem csharp_I64ToF64_f64_s64_is_spec : ∀ e ∈ G.csharp_I64ToF64_f64_s64, e.IsSpec := by
  unfold G.csharp_I64ToF64_f64_s64; scalar_tac
/-- csharp: `I64ToF64 ∘ F64ToI64` recovers every f64 bit pattern -/
theorem f64_s64_roundtrip : RoundTrips G.csharp_F64ToI64_f64_s64 G.csharp_I64ToF64_f64_s64 := by
  unfold G.csharp_F64ToI64_f64_s64 G.csharp_I64ToF64_f64_s64; scalar_tac
example : G.csharp_F64ToI64_f64_s64 ≠ [] ∧ G.csharp_I64ToF64_f64_s64 ≠ [] := by decide

/- FULL STATEMENT (false of the pinned tree, DESIGN §9 F3):
     theorem csharp_I32ToI64_s32_s64_is_spec : ∀ e ∈ G.csharp_I32ToI64_s32_s64, e.IsSpec
   the csharp backend sign-extends where the canonical ABI zero-extends (lossless — `s32_s64_roundtrip` below —
   but not the canonical conversion: the upper 32 bits of the slot are ones for payloads with bit 31 set). -/
/-- witness: payload bits 0x80000000 go to 0xffffffff80000000; the canonical ABI says 0x0000000080000000 -/
theorem csharp_I32ToI64_s32_s64_is_spec_full_false : ¬ ∀ e ∈ G.csharp_I32ToI64_s32_s64, e.IsSpec := by
  intro h
  have h0 := CastEntry.evalAt_of_isSpec _ (h _ (List.getElem_mem (l := G.csharp_I32ToI64_s32_s64) (n := 0) (by decide))) 0x80000000 0
  revert h0; decide
/-- it is the canonical conversion exactly when bit 31 of the payload is clear -/
theorem csharp_I32ToI64_s32_s64_is_spec_partial : ∀ e ∈ G.csharp_I32ToI64_s32_s64, e.IsSpecIf (fun v => decide (v < 0x80000000#64)) := by
  unfold G.csharp_I32ToI64_s32_s64; scalar_tac

/-- csharp: `I64ToI32` (i64 slot back to the s32 payload) is the canonical ABI conversion, all 2^64 slot values -/
theorem csharp_I64ToI32_s32_s64_is_spec : ∀ e ∈ G.csharp_I64ToI32_s32_s64, e.IsSpec := by
  unfold G.csharp_I64ToI32_s32_s64; scalar_tac
/-- csharp: `I64ToI32 ∘ I32ToI64` recovers every s32 bit pattern -/
theorem s32_s64_roundtrip : RoundTrips G.csharp_I32ToI64_s32_s64 G.csharp_I64ToI32_s32_s64 := by
  unfold G.csharp_I32ToI64_s32_s64 G.csharp_I64ToI32_s32_s64; scalar_tac
example : G.csharp_I32ToI64_s32_s64 ≠ [] ∧ G.csharp_I64ToI32_s32_s64 ≠ [] := by decide

/- FULL STATEMENT (false of the pinned tree, DESIGN §9 F3):
     theorem csharp_F32ToI64_f32_s64_is_spec : ∀ e ∈ G.csharp_F32ToI64_f32_s64, e.IsSpec
   the csharp backend sign-extends where the canonical ABI zero-extends (lossless — `f32_s64_roundtrip` below —
   but not the canonical conversion: the upper 32 bits of the slot are ones for payloads with bit 31 set). -/
/-- witness: payload bits 0x80000000 go to 0xffffffff80000000; the canonical ABI says 0x0000000080000000 -/
theorem csharp_F32ToI64_f32_s64_is_spec_full_false : ¬ ∀ e ∈ G.csharp_F32ToI64_f32_s64, e.IsSpec := by
  intro h
  have h0 := CastEntry.evalAt_of_isSpec _ (h _ (List.getElem_mem (l := G.csharp_F32ToI64_f32_s64) (n := 0) (by decide))) 0x80000000 0
  revert h0; decide
/-- it is the canonical conversion exactly when bit 31 of the payload is clear -/
theorem csharp_F32ToI64_f32_s64_is_spec_partial : ∀ e ∈ G.csharp_F32ToI64_f32_s64, e.IsSpecIf (fun v => decide (v < 0x80000000#64)) := by
  unfold G.csharp_F32ToI64_f32_s64; scalar_tac

/-- csharp: `I64ToF32` (i64 slot back to the f32 payload) is the canonical ABI conversion, all 2^64 slot values -/
theorem csharp_I64ToF32_f32_s64_is_spec : ∀ e ∈ G.csharp_I64ToF32_f32_s64, e.IsSpec := by
  unfold G.csharp_I64ToF32_f32_s64; scalar_tac
/-- csharp: `I64ToF32 ∘ F32ToI64` recovers every f32 bit pattern -/
theorem f32_s64_roundtrip : RoundTrips G.csharp_F32ToI64_f32_s64 G.csharp_I64ToF32_f32_s64 := by
  unfold G.csharp_F32ToI64_f32_s64 G.csharp_I64ToF32_f32_s64; scalar_tac
example : G.csharp_F32ToI64_f32_s64 ≠ [] ∧ G.csharp_I64ToF32_f32_s64 ≠ [] := by decide

/-- csharp: `Bitcast::None` (s32 in an i32 slot): both directions are the identity on bits -/
theorem csharp_None_s32_f32_is_spec : ∀ e ∈ G.csharp_None_s32_f32, e.IsSpec := by
  unfold G.csharp_None_s32_f32; scalar_tac
theorem csharp_None_s32_f32_roundtrip : RoundTrips (G.csharp_None_s32_f32.filter (·.lowering)) (G.csharp_None_s32_f32.filter (!·.lowering)) := by
  unfold G.csharp_None_s32_f32; simp only [List.filter_cons, List.filter_nil]; scalar_tac
example : G.csharp_None_s32_f32 ≠ [] := by decide

/- FULL STATEMENT (false of the pinned tree, DESIGN §9 F3):
     theorem csharp_I32ToI64_u32_f64_is_spec : ∀ e ∈ G.csharp_I32ToI64_u32_f64, e.IsSpec
   the csharp backend sign-extends where the canonical ABI zero-extends (lossless — `u32_f64_roundtrip` below —
   but not the canonical conversion: the upper 32 bits of the slot are ones for payloads with bit 31 set). -/
/-- witness: payload bits 0x80000000 go to 0xffffffff80000000; the canonical ABI says 0x0000000080000000 -/
theorem csharp_I32ToI64_u32_f64_is_spec_full_false : ¬ ∀ e ∈ G.csharp_I32ToI64_u32_f64, e.IsSpec := by
  intro h
  have h0 := CastEntry.evalAt_of_isSpec _ (h _ (List.getElem_mem (l := G.csharp_I32ToI64_u32_f64) (n := 0) (by decide))) 0x80000000 0
  revert h0; decide
/-- it is the canonical conversion exactly when bit 31 of the payload is clear -/
theorem csharp_I32ToI64_u32_f64_is_spec_partial : ∀ e ∈ G.csharp_I32ToI64_u32_f64, e.IsSpecIf (fun v => decide (v < 0x80000000#64)) := by
  unfold G.csharp_I32ToI64_u32_f64; scalar_tac

/-- csharp: `I64ToI32` (i64 slot back to the u32 payload) is the canonical ABI conversion, all 2^64 slot values -/
theorem csharp_I64ToI32_u32_f64_is_spec : ∀ e ∈ G.csharp_I64ToI32_u32_f64, e.IsSpec := by
  unfold G.csharp_I64ToI32_u32_f64; scalar_tac
/-- csharp: `I64ToI32 ∘ I32ToI64` recovers every u32 bit pattern -/
theorem u32_f64_roundtrip : RoundTrips G.csharp_I32ToI64_u32_f64 G.csharp_I64ToI32_u32_f64 := by
  unfold G.csharp_I32ToI64_u32_f64 G.csharp_I64ToI32_u32_f64; scalar_tac
example : G.csharp_I32ToI64_u32_f64 ≠ [] ∧ G.csharp_I64ToI32_u32_f64 ≠ [] := by decide

/- FULL STATEMENT (false of the pinned tree, DESIGN §9 F3):
     theorem csharp_F32ToI64_f32_f64_is_spec : ∀ e ∈ G.csharp_F32ToI64_f32_f64, e.IsSpec
   the csharp backend sign-extends where the canonical ABI zero-extends (lossless — `f32_f64_roundtrip` below —
   but not the canonical conversion: the upper 32 bits of the slot are ones for payloads with bit 31 set). -/
/-- witness: payload bits 0x80000000 go to 0xffffffff80000000; the canonical ABI says 0x0000000080000000 -/
theorem csharp_F32ToI64_f32_f64_is_spec_full_false : ¬ ∀ e ∈ G.csharp_F32ToI64_f32_f64, e.IsSpec := by
  intro h
  have h0 := CastEntry.evalAt_of_isSpec _ (h _ (List.getElem_mem (l := G.csharp_F32ToI64_f32_f64) (n := 0) (by decide))) 0x80000000 0
  revert h0; decide
/-- it is the canonical conversion exactly when bit 31 of the payload is clear -/
theorem csharp_F32ToI64_f32_f64_is_spec_partial : ∀ e ∈ G.csharp_F32ToI64_f32_f64, e.IsSpecIf (fun v => decide (v < 0x80000000#64)) := by
  unfold G.csharp_F32ToI64_f32_f64; scalar_tac

/-- csharp: `I64ToF32` (i64 slot back to the f32 payload) is the canonical ABI conversion, all 2^64 slot values -/
theorem csharp_I64ToF32_f32_f64_is_spec : ∀ e ∈ G.csharp_I64ToF32_f32_f64, e.IsSpec := by
  unfold G.csharp_I64ToF32_f32_f64; scalar_tac
/-- csharp: `I64ToF32 ∘ F32ToI64` recovers every f32 bit pattern -/
theorem f32_f64_roundtrip : RoundTrips G.csharp_F32ToI64_f32_f64 G.csharp_I64ToF32_f32_f64 := by
  unfold G.csharp_F32ToI64_f32_f64 G.csharp_I64ToF32_f32_f64; scalar_tac
example : G.csharp_F32ToI64_f32_f64 ≠ [] ∧ G.csharp_I64ToF32_f32_f64 ≠ [] := by decide

/-- csharp: `F64ToI64` (f64 payload into the i64 slot) is the canonical ABI conversion, all 2^64 patterns -/
theorem csharp_F64ToI64_f64_f32_is_spec : ∀ e ∈ G.csharp_F64ToI64_f64_f32, e.IsSpec := by
  unfold G.csharp_F64ToI64_f64_f32; scalar_tac

/-- csharp: `I64ToF64` (i64 slot back to the f64 payload) is the canonical ABI conversion, all 2^64 slot values -/
theorem csharp_I64ToF64_f64_f32_is_spec : ∀ e ∈ G.csharp_I64ToF64_f64_f32, e.IsSpec := by
  unfold G.csharp_I64ToF64_f64_f32; scalar_tac
/-- csharp: `I64ToF64 ∘ F64ToI64` recovers every f64 bit pattern -/
theorem f64_f32_roundtrip : RoundTrips G.csharp_F64ToI64_f64_f32 G.csharp_I64ToF64_f64_f32 := by
  unfold G.csharp_F64ToI64_f64_f32 G.csharp_I64ToF64_f64_f32; scalar_tac
example : G.csharp_F64ToI64_f64_f32 ≠ [] ∧ G.csharp_I64ToF64_f64_f32 ≠ [] := by decide

/-- csharp: `I64ToP64` (s64 payload into the i64 slot) is the canonical ABI conversion, all 2^64 patterns -/
theorem csharp_I64ToP64_s64_string_is_spec : ∀ e ∈ G.csharp_I64ToP64_s64_string, e.IsSpec := by
  unfold G.csharp_I64ToP64_s64_string; scalar_tac

/-- csharp: `P64ToI64` (i64 slot back to the s64 payload) is the canonical ABI conversion, all 2^64 slot values -/
theorem csharp_P64ToI64_s64_string_is_spec : ∀ e ∈ G.csharp_P64ToI64_s64_string, e.IsSpec := by
  unfold G.csharp_P64ToI64_s64_string; scalar_tac
/-- csharp: `P64ToI64 ∘ I64ToP64` recovers every s64 bit pattern -/
theorem s64_string_roundtrip : RoundTrips G.csharp_I64ToP64_s64_string G.csharp_P64ToI64_s64_string := by
  unfold G.csharp_I64ToP64_s64_string G.csharp_P64ToI64_s64_string; scalar_tac
example : G.csharp_I64ToP64_s64_string ≠ [] ∧ G.csharp_P64ToI64_s64_string ≠ [] := by decide

/-- csharp: `I32ToP` (s32 payload into the i32 slot) is the canonical ABI conversion, all 2^32 patterns -/
theorem csharp_I32ToP_s32_string_is_spec : ∀ e ∈ G.csharp_I32ToP_s32_string, e.IsSpec := by
  unfold G.csharp_I32ToP_s32_string; scalar_tac

/-- csharp: `PToI32` (i32 slot back to the s32 payload) is the canonical ABI conversion, all 2^32 slot values -/
theorem csharp_PToI32_s32_string_is_spec : ∀ e ∈ G.csharp_PToI32_s32_string, e.IsSpec := by
  unfold G.csharp_PToI32_s32_string; scalar_tac
/-- csharp: `PToI32 ∘ I32ToP` recovers every s32 bit pattern -/
theorem s32_string_roundtrip : RoundTrips G.csharp_I32ToP_s32_string G.csharp_PToI32_s32_string := by
  unfold G.csharp_I32ToP_s32_string G.csharp_PToI32_s32_string; scalar_tac
example : G.csharp_I32ToP_s32_string ≠ [] ∧ G.csharp_PToI32_s32_string ≠ [] := by decide

/-- csharp: `F32ToI32_I32ToP` (f32 payload into the i32 slot) is the canonical ABI conversion, all 2^32 patterns -/
theorem csharp_F32ToI32_I32ToP_f32_string_is_spec : ∀ e ∈ G.csharp_F32ToI32_I32ToP_f32_string, e.IsSpec := by
  unfold G.csharp_F32ToI32_I32ToP_f32_string; scalar_tac

/-- csharp: `PToI32_I32ToF32` (i32 slot back to the f32 payload) is the canonical ABI conversion, all 2^32 slot values -/
theorem csharp_PToI32_I32ToF32_f32_string_is_spec : ∀ e ∈ G.csharp_PToI32_I32ToF32_f32_string, e.IsSpec := by
  unfold G.csharp_PToI32_I32ToF32_f32_string; scalar_tac
/-- csharp: `PToI32_I32ToF32 ∘ F32ToI32_I32ToP` recovers every f32 bit pattern -/
theorem f32_string_roundtrip : RoundTrips G.csharp_F32ToI32_I32ToP_f32_string G.csharp_PToI32_I32ToF32_f32_string := by
  unfold G.csharp_F32ToI32_I32ToP_f32_string G.csharp_PToI32_I32ToF32_f32_string; scalar_tac
example : G.csharp_F32ToI32_I32ToP_f32_string ≠ [] ∧ G.csharp_PToI32_I32ToF32_f32_string ≠ [] := by decide

/-- csharp: `F64ToI64_I64ToP64` (f64 payload into the i64 slot) is the canonical ABI conversion, all 2^64 patterns -/
theorem csharp_F64ToI64_I64ToP64_f64_string_is_spec : ∀ e ∈ G.csharp_F64ToI64_I64ToP64_f64_string, e.IsSpec := by
  unfold G.csharp_F64ToI64_I64ToP64_f64_string; scalar_tac

/-- csharp: `P64ToI64_I64ToF64` (i64 slot back to the f64 payload) is the canonical ABI conversion, all 2^64 slot values -/
theorem csharp_P64ToI64_I64ToF64_f64_string_is_spec : ∀ e ∈ G.csharp_P64ToI64_I64ToF64_f64_string, e.IsSpec := by
  unfold G.csharp_P64ToI64_I64ToF64_f64_string; scalar_tac
/-- csharp: `P64ToI64_I64ToF64 ∘ F64ToI64_I64ToP64` recovers every f64 bit pattern -/
theorem f64_string_roundtrip : RoundTrips G.csharp_F64ToI64_I64ToP64_f64_string G.csharp_P64ToI64_I64ToF64_f64_string := by
  unfold G.csharp_F64ToI64_I64ToP64_f64_string G.csharp_P64ToI64_I64ToF64_f64_string; scalar_tac
example : G.csharp_F64ToI64_I64ToP64_f64_string ≠ [] ∧ G.csharp_P64ToI64_I64ToF64_f64_string ≠ [] := by decide

end Witverif.Props.C04Backends.CSharp
