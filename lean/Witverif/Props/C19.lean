import Witverif.Proofs.StreamWrite
/-!
# C19 — Stream writes and reads transfer each value exactly once, in order

Property theorems only (definitions and case analysis: `Proofs/AbiBuffer.lean`, `Proofs/Chan.lean`).

Models: `AbiBuffer` (abi_buffer.rs), `StreamWriteOp` / `StreamReadOp` as `Ops` records on the generic
`WaitableOperation` machine (stream_support.rs, waitable.rs), the futures `write` / `write_all` /
`write_one` / `read` / `next` / `collect` and the `futures::Stream` adapter (`Async/Chan.lean`), composed
with the host's rules for one end (`Host.End`, DESIGN Appendix B) into the labelled transition system
`ChanSys`.  Values are item ids; `window` = the values a write exposes to the host.
-/
namespace Witverif.Props.C19
open Witverif.Async Witverif.Generated

/-! ## `AbiBuffer`: cursor, lowered slab, `advance`, `take_vec` -/

/-- **The closed form of `advance` IS the code's loop**: `advanceRust` (Async/AbiBuffer.lean) transcribes
abi_buffer.rs `advance` statement by statement — `assert!(amt + cursor <= len)`, the early return without
lists, `abi_ptr_and_len()` taken once, `assert!(amt <= len)`, then `amt` iterations of `cursor += 1` (first),
`dealloc_lists(ptr)`, `ptr += elem size` (the pointer as the index of the item it points at) — and is equal,
for every buffer and every `amt` (both panics included), to the closed form `advance` all other theorems
use.  Induction on the number of iterations (`advanceLoop_spec`). -/
theorem advance_is_the_codes_loop (b : AbiBuffer) (amt : Nat) : b.advanceRust amt = b.advance amt :=
  AbiBuffer.advanceRust_eq_advance b amt

/-- the loop alone: `n` iterations from pointer index `ptr` move the cursor by `n` and call `dealloc_lists`
on exactly the items `ptr, ptr+1, …, ptr+n-1`, in that order, each once -/
theorem advance_loop_deallocs_each_once (b : AbiBuffer) (ptr n : Nat) (h : ptr + n ≤ b.items.length) :
    b.advanceLoop ptr n = ({ b with cursor := b.cursor + n }, ((b.items.drop ptr).take n).map (evDli b.c)) :=
  AbiBuffer.advanceLoop_spec b ptr n h

/-- `advance(amt)` within what remains moves the cursor by exactly `amt`, changes nothing else, and —
for payloads that own lists — deallocates the lists of exactly the first `amt` values of the window,
in order (an off-by-one in either direction is not this function).  Stated of the code's loop
(`advanceRust`); the closed form is the same function (`advance_is_the_codes_loop`). -/
theorem advance_moves_cursor_exactly (b : AbiBuffer) (amt : Nat) (h : amt ≤ b.remaining) (hc : b.cursor ≤ b.items.length) :
    b.advanceRust amt = .ok { b with cursor := b.cursor + amt }
      (if b.kind = .lists then (b.window.take amt).map (evDli b.c) else []) :=
  (AbiBuffer.advanceRust_eq_advance b amt).trans (AbiBuffer.advance_spec b amt h hc)

/-- the same, of the closed form -/
theorem advance_closed_form (b : AbiBuffer) (amt : Nat) (h : amt ≤ b.remaining) (hc : b.cursor ≤ b.items.length) :
    b.advance amt = .ok { b with cursor := b.cursor + amt }
      (if b.kind = .lists then (b.window.take amt).map (evDli b.c) else []) :=
  AbiBuffer.advance_spec b amt h hc

/-- the window after `advance(amt)` is the old window without its first `amt` values -/
theorem advance_window (b b' : AbiBuffer) (amt : Nat) (evs : List Ev) (h : b.advance amt = .ok b' evs) :
    b'.window = b.window.drop amt ∧ b'.remaining + amt = b.remaining :=
  ⟨(AbiBuffer.advance_window b b' amt evs h).1, AbiBuffer.advance_remaining b b' amt evs h⟩

/-- `advance` panics (`assert!`) exactly when the count exceeds what remains -/
theorem advance_rejects_overrun (b : AbiBuffer) (amt : Nat) (hc : b.cursor ≤ b.items.length) :
    (∃ m evs, b.advance amt = .panic m evs) ↔ b.remaining < amt :=
  AbiBuffer.advance_panics_iff b amt hc

/-- `take_vec` returns exactly the unsent values (in order), lifts each of them once if they had been
lowered, releases the slab if there is one and leaves the buffer empty; a second `take_vec` (the `Drop`
that follows `into_vec`) does nothing. -/
theorem take_vec_returns_exactly_the_unsent (b : AbiBuffer) :
    b.takeVec.1 = b.window ∧
    b.takeVec.2.2 = (if b.kind.lowers then b.window.map (evLi b.c) else []) ++ (if b.slab then [Ev.free b.c] else []) ∧
    b.takeVec.2.1.takeVec.2.2 = [] ∧ b.intoVec = (b.window, b.takeVec.2.2) := by
  have h := AbiBuffer.takeVec_spec b
  exact ⟨h.1, h.2.2.2.2, (AbiBuffer.takeVec_idem b).1, AbiBuffer.intoVec_spec b⟩

/-- **Every heap buffer created to lower a value is released exactly once** (buffer level).  For a
payload with owned lists and ANY sequence of host counts for the successive writes of one buffer (each
within what remains): the values whose lists get `dealloc_lists` (the transferred ones, in order)
followed by the values `take_vec` lifts back (the untransferred ones) are exactly the buffer's values —
none twice, none missing, no `lift` of a transferred value, no `dealloc_lists` of an untransferred
one; the vector handed back is exactly the untransferred tail; and the slab is released exactly once
however often the emptied buffer is dropped afterwards. -/
theorem lowered_buffers_freed_once (b : AbiBuffer) (hl : b.kind = .lists) (hc : b.cursor ≤ b.items.length)
    (ks : List Nat) (hk : ks.sum ≤ b.remaining) :
    ∃ b' evs, advanceAll b ks = .ok b' evs ∧
      dliIds b.c evs ++ liIds b.c b'.takeVec.2.2 = b.window ∧
      liIds b.c evs = [] ∧ dliIds b.c b'.takeVec.2.2 = [] ∧
      b'.takeVec.1 = b.window.drop ks.sum ∧
      ((b'.takeVec.2.2 ++ b'.takeVec.2.1.dropEvs).filter (· == Ev.free b.c)).length = (if b.slab then 1 else 0) := by
  obtain ⟨b', evs, h1, h2, h3, h4, h5, h6, h7⟩ := advanceAll_ledger b hl hc ks hk
  refine ⟨b', evs, h1, h2, h3, h4, h5, ?_⟩
  have := AbiBuffer.slab_freed_once b'
  rw [h6, h7] at this
  exact this

/-- `AbiBuffer::new` lowers every value exactly once, in order; the slab exists iff something was lowered -/
theorem new_lowers_each_value_once (c : Nat) (k : PKind) (items : List Nat) :
    (AbiBuffer.new c k items).2 = (if k.lowers then items.map (evLo c) else []) ∧
    (AbiBuffer.new c k items).1.window = items ∧
    ((AbiBuffer.new c k items).1.slab = true ↔ (k.lowers = true ∧ items ≠ [])) := by
  have h := AbiBuffer.new_spec c k items
  exact ⟨h.2.2.2.1, h.2.2.1, h.2.2.2.2⟩

/-! ## `ReturnCode::decode` and the counts -/

/-- the runtime's decoding of a return code is the inverse of the specification's encoding
`base | count << 4` (COMPLETED 0, DROPPED 1, CANCELLED 2), and BLOCKED is BLOCKED -/
theorem decode_matches_spec_encoding (base k : Nat) (hb : base < 3) (hk : k ≤ 268435455) :
    RetCode.decode (Host.packCode base k) =
      some (if base = 0 then .completed k else if base = 1 then .dropped k else .cancelled k) ∧
    RetCode.decode Host.BLOCKED = some .blocked :=
  ⟨decode_pack base k hb hk, decode_blocked⟩

/-- **Each write reports exactly the count the host transferred** (`counts_are_hosts`, write half): for
every code `base|k` a conforming host can produce for a write that offered `remaining` values
(`k ≤ remaining`) the write yields `Complete(k)` — `Dropped` / `Cancelled` only for `k = 0` —, the buffer
it hands back has advanced by exactly `k` (the values the host took are exactly the first `k` of the
window, the rest is untouched and still owned by the writer), and the writer is marked done exactly
for DROPPED (any count, 0 included).  A count beyond what was offered makes the runtime panic instead of
corrupting the buffer. -/
theorem counts_are_hosts_write (p : WSt) (base k : Nat) (hb : base < 3) (hk2 : k ≤ 268435455)
    (hc : p.buf.cursor ≤ p.buf.items.length) :
    (k ≤ p.buf.remaining →
      streamWriteUpdate p (Host.packCode base k) =
        .ok (.inl (sresOf base k,
          { buf := { p.buf with cursor := p.buf.cursor + k }, wr := { p.wr with done := p.wr.done || base == 1 } }))
          (if p.buf.kind = .lists then (p.buf.window.take k).map (evDli p.buf.c) else [])) ∧
    (p.buf.remaining < k → ∃ m evs, streamWriteUpdate p (Host.packCode base k) = .panic m evs) :=
  ⟨fun hk => streamWrite_update_spec p base k hb hk hk2 hc, fun hk => streamWrite_update_panics p base k hb hk hk2⟩

/-- **Each read reports exactly the count the host transferred** (`counts_are_hosts`, read half): for
every code `base|k` with `k` within the spare capacity the read yields `Complete(k)` (`Dropped` /
`Cancelled` only for `k = 0`), appends exactly the first `k` values the host wrote — each lifted exactly
once, in order, when the payload needs lifting —, releases its slab, and marks the reader done exactly
for DROPPED (any count, 0 included). -/
theorem counts_are_hosts_read (p : RSt) (base k : Nat) (hb : base < 3) (hk : k ≤ p.spare) (hk2 : k ≤ 268435455) :
    streamReadUpdate p (Host.packCode base k) =
      .ok (.inl (sresOf base k,
        { p with buf := p.buf ++ p.mem.take k, spare := p.spare - k, slab := false, mem := [],
                 rd := { p.rd with done := p.rd.done || base == 1 } }))
        ((if p.kind.lowers then (p.mem.take k).map (evLi p.c) else []) ++ p.freeSlab) :=
  streamRead_update_spec p base k hb hk hk2

/-! ## Where the pointer handed to the host points -/

/-- **The host reads at `base + cursor × element size`** (`host_pointer_is_cursor_times_size`): the `stream.write`
a write operation starts carries, as its pointer, the cursor of its buffer counted in elements from the base of
the buffer's storage (`abi_ptr_and_len().0`; in the loop of `advance` the same pointer is the index `ptr`,
`advance_is_the_codes_loop`); in the trace compared with the real runtime it is scaled by the channel's element
size (`Ev.scaleOff`), and the mock host reports the BYTE offset of the pointer it received within the live heap
block it lies in — so a pointer computed in other units than elements (e.g. `cursor` bytes) is a mismatch for every
payload wider than one byte. -/
theorem host_pointer_is_cursor_times_size (s : WSt) (ans esize : Nat) (hd : s.wr.done = false) :
    (streamWriteOps.start s ans).1.map (Ev.scaleOff esize) =
      [.ch .swrite [s.wr.handle, min s.buf.remaining Limits.streamMaxLength, ans, s.buf.cursor * esize]] := by
  simp [streamWriteOps, hd, Ev.scaleOff]

/-- **A resumed write points at the first value the host has not taken**: after ANY code `base|k` a conforming
host can give for a write (`k ≤ remaining`), the next `stream.write` on the buffer the write handed back — the
loop of `write_all` / `write_one`, or `write_buf` — has its pointer exactly `k` elements (`k × element size` bytes)
further, offers exactly the remaining values, and the values behind the pointer are the old window without its
first `k` values. -/
theorem resumed_write_points_past_the_transferred (p : WSt) (base k ans esize : Nat) (hb : base < 3) (hk : k ≤ p.buf.remaining)
    (hk2 : k ≤ 268435455) (hc : p.buf.cursor ≤ p.buf.items.length) (hnd : (p.wr.done || base == 1) = false) :
    ∃ r st evs, streamWriteUpdate p (Host.packCode base k) = .ok (.inl (r, st)) evs ∧
      (streamWriteOps.start st ans).1.map (Ev.scaleOff esize) =
        [.ch .swrite [p.wr.handle, min (p.buf.remaining - k) Limits.streamMaxLength, ans, (p.buf.cursor + k) * esize]] ∧
      st.buf.window = p.buf.window.drop k := by
  refine ⟨_, _, _, streamWrite_update_spec p base k hb hk hk2 hc, ?_, ?_⟩
  · have hr : ({ p.buf with cursor := p.buf.cursor + k } : AbiBuffer).remaining = p.buf.remaining - k := by
      simp only [AbiBuffer.remaining]; omega
    simp [streamWriteOps, hnd, Ev.scaleOff, hr]
  · simp [AbiBuffer.window, List.drop_drop, Nat.add_comm]

/-- the same for reads: a `stream.read` into a canonical vector points at the end of the values already in it
(`len × element size`), a read of a lowered payload at the base of a fresh slab -/
theorem host_read_pointer_is_vector_end (s : RSt) (ans esize : Nat) (hd : s.rd.done = false) :
    (streamReadOps.start s ans).1.map (Ev.scaleOff esize) =
      [.ch .sread [s.rd.handle, min s.spare Limits.streamMaxLength, ans, (if s.kind.lowers then 0 else s.buf.length) * esize]] := by
  simp [streamReadOps, hd, Ev.scaleOff]

/-! ## `write_all`, and what happens to values the host did not take -/

/-- One `await` point of `write_all` / `write_one` whose write the host answers AT ONCE with COMPLETED|k,
`1 ≤ k ≤ remaining`: either everything has been taken and the function ends, or it continues with a
`write_buf` of the SAME buffer whose `remaining` is smaller by exactly `k`.  (One step only; the induction
is `write_all_terminates_when_host_progresses`.  The path BLOCKED → peer takes items → event delivered →
poll is a different sequence of labels of the transition system; that each of its steps is panic-free and
ends in the same `running` continuation with the buffer advanced by the host's count is part of
`stream_never_traps`, shapes `waiting → queued → running`.) -/
theorem write_all_step_progress (g : GChan) (e : Env) (one first : Bool) (st : WSt) (k : Nat)
    (hd : st.wr.done = false) (hk1 : 1 ≤ k) (hk : k ≤ st.buf.remaining) (hk2 : k ≤ 268435455)
    (hc : st.buf.cursor ≤ st.buf.items.length) :
    ∃ g' evs, g.pollAll e one first (WOp.new st) (Host.packCode Host.COMPLETED k) = .ok (g', e) evs ∧
      (if st.buf.remaining = k then g'.running = false ∧ g'.act = .idle
       else g'.running = true ∧
         g'.act = .sall one (.awaiting false (WOp.new { buf := { st.buf with cursor := st.buf.cursor + k }, wr := st.wr })) ∧
         ({ st.buf with cursor := st.buf.cursor + k } : AbiBuffer).remaining + k = st.buf.remaining) :=
  write_all_progress g e one first st k hd hk1 hk hk2 hc

/-- **`write_all` terminates when the host makes progress**: `allRun e one f fuel g first st` runs
`write_all` / `write_one` from an `await` point to its end against a host that answers every write at once
with COMPLETED|`f st` (`f`: ANY function of the state of the write — the host's free choice of counts).  If
every count is legal and progresses (`1 ≤ f st ≤ remaining`, and within the 28-bit count field) the run
ends — no panic, the future gone (`act = idle`, not `running`) — after at most `remaining` writes.
Induction over the run with the measure `remaining` (`write_all_step_progress` is the step).
Hypothesis "answers at once": a host that answers BLOCKED and later delivers an event reaches the same
continuation (see `write_all_step_progress`); termination over such mixed schedules is not a theorem
here (validated: `iwa`/`wares` of every generated script, checks/C19.py). -/
theorem write_all_terminates_when_host_progresses (e : Env) (one : Bool) (f : WSt → Nat)
    (hf : ∀ st : WSt, 1 ≤ st.buf.remaining → 1 ≤ f st ∧ f st ≤ st.buf.remaining ∧ f st ≤ 268435455)
    (fuel : Nat) (g : GChan) (first : Bool) (st : WSt) (hd : st.wr.done = false)
    (hc : st.buf.cursor ≤ st.buf.items.length) (h1 : 1 ≤ st.buf.remaining) (hfuel : st.buf.remaining ≤ fuel) :
    ∃ g' n, allRun e one f fuel g first st = some (g', n) ∧ g'.running = false ∧ g'.act = .idle ∧ n ≤ st.buf.remaining :=
  allRun_terminates e one f hf fuel g first st hd hc h1 hfuel

/-- **Values that were not transferred are returned to the writer, or dropped exactly once**
(`untransferred_returned_or_dropped_once`): (1) when `write_all` ends — all taken, or the peer dropped —
it hands back exactly the window of its buffer (the values the host never took, in order), each lifted
back once if it had been lowered; (2) ledger of a buffer that is dropped instead (a write future dropped,
a kept buffer replaced), after ANY sequence of host counts `ks` for its earlier writes, for a payload with
owned lists: the values that got `dealloc_lists` (the transferred ones) followed by the values the drop
lifts back are exactly the buffer's values, in order; the values whose destructor runs in the drop are
exactly the untransferred tail `window.drop ks.sum` — each once, never a transferred one; the drop never
calls `dealloc_lists`, and the earlier writes never lifted. -/
theorem untransferred_returned_or_dropped_once (g : GChan) (status : SRes) (st : WSt)
    (b : AbiBuffer) (hl : b.kind = .lists) (hc : b.cursor ≤ b.items.length) (ks : List Nat) (hk : ks.sum ≤ b.remaining) :
    ((st.buf.remaining = 0 ∨ status = .dropped) →
      g.allFinish false status st =
        .ok { g with act := .idle, running := false, sw := g.sw.map fun _ => st.wr }
          (st.buf.takeVec.2.2 ++ [evP g.c .ready, .ch .wares (g.c :: st.buf.window)] ++ valDrops g.c g.kind st.buf.window)) ∧
    (∃ b' evs, advanceAll b ks = .ok b' evs ∧
      dliIds b.c evs ++ liIds b.c b'.dropEvs = b.window ∧
      liIds b.c b'.dropEvs = b.window.drop ks.sum ∧
      vdIds b.c b'.dropEvs = b.window.drop ks.sum ∧
      dliIds b.c b'.dropEvs = [] ∧ liIds b.c evs = [] ∧ vdIds b.c evs = []) :=
  ⟨write_all_returns_untransferred g status st, advanceAll_drop_ledger b hl hc ks hk⟩

/-! ## The operation kinds fit the generic waitable machine

`Ops.Stable` is the only assumption of the C18 theorems (registration, delivery, unregistration): they
therefore hold for stream reads and writes (and, `Props/C20.lean`, for future reads and writes). -/

theorem stream_ops_stable : streamWriteOps.Stable ∧ streamReadOps.Stable :=
  ⟨streamWriteOps_stable, streamReadOps_stable⟩

/-! ## After `StreamResult::Dropped` the end is marked done

Before the repair (`fix:` commit in /repo, see known_findings.jsonl `fixed: property=C19`) `in_progress_update`
set `writer.done` / `reader.done` only in the `Dropped(amt)` arm with `amt > 0`; for the code DROPPED|0 it
returned `StreamResult::Dropped` with the flag clear, so the next `write` / `read` on that end called the built-in
on an end the host had marked done — a trap (Appendix B: `read`/`write` trap unless idle).  The model follows the
repaired code: both `Dropped(0)` arms set the flag.  The former witness run is kept as a regression example: the
second write no longer reaches the host. -/

def f10Init : ChanSys := ChanSys.init 0 false true .canon ⟨1, 2⟩

def f10Labels : List CLabel :=
  [.opn 1 2, .write 1, .poll Host.BLOCKED, .peerDrop, .deliver, .poll 0, .write 1, .poll Host.DROPPED]

/-- the former witness run (write one value, the peer drops, DROPPED|0 is delivered, the body writes again): the
second write answers `Dropped` by itself — no `stream.write`, no trap — and the writer is marked done -/
theorem dropped_zero_run_stays_away_from_the_host :
    (runLabels f10Init f10Labels).map (fun r => (r.1.h.trapped, r.1.g.sw.map (·.done), r.2)) =
      some (false, some true,
        [.ch .opn [0], .ch .snew [1, 2], .ch .moved [2], .ch .iw [0, 1, 1], .ch .swrite [1, 1, 4294967295, 0], .clone 1,
         .reg 1 1 false, .poll 0 .pend, .ch .pd [0], .dlv 1 1, .poll 0 .ready, .tdrop 1, .ch .wres [0, 1, 0, 1],
         .ch .iw [0, 2, 1], .poll 0 .ready, .ch .wres [0, 1, 0, 1]]) := by
  rfl

/-- **Every DROPPED code marks the end done, and a done end keeps every later operation away from the host.**
(1) A DROPPED code with ANY count (0 included) sets the flag (write and read).  (2) Once it is set, starting a
write or a read does not call the built-in at all (the operation answers DROPPED by itself), so the host cannot
trap on it. -/
theorem dropped_sets_done :
    (∀ (p : WSt) (k : Nat), k ≤ p.buf.remaining → k ≤ 268435455 → p.buf.cursor ≤ p.buf.items.length →
      ∃ r st evs, streamWriteUpdate p (Host.packCode Host.DROPPED k) = .ok (.inl (r, st)) evs ∧ st.wr.done = true) ∧
    (∀ (p : RSt) (k : Nat), k ≤ p.spare → k ≤ 268435455 →
      ∃ r st evs, streamReadUpdate p (Host.packCode Host.DROPPED k) = .ok (.inl (r, st)) evs ∧ st.rd.done = true) ∧
    (∀ (s : WSt) (ans : Nat), s.wr.done = true → (streamWriteOps.start s ans).1 = [] ∧ (streamWriteOps.start s ans).2.1 = Limits.dropped) ∧
    (∀ (s : RSt) (ans : Nat), s.rd.done = true → (streamReadOps.start s ans).1 = [] ∧ (streamReadOps.start s ans).2.1 = Limits.dropped) := by
  refine ⟨?_, ?_, ?_, ?_⟩
  · intro p k hk hk2 hc
    have := streamWrite_update_spec p 1 k (by omega) hk hk2 hc
    exact ⟨_, _, _, this, by simp⟩
  · intro p k hk hk2
    have := streamRead_update_spec p 1 k (by omega) hk hk2
    exact ⟨_, _, _, this, by simp⟩
  · intro s ans hd; simp [streamWriteOps, hd]
  · intro s ans hd; simp [streamReadOps, hd]

/-! ## The guest-writer stream channel as a labelled transition system (full strength)

`SWReach p s tr`: state `s` of a guest-writer stream channel (`ChanSys`: the `StreamWriter`, the future the
body holds — `write` / `write_buf`, `write_all`, `write_one` at any of their `await` points — and a kept
`AbiBuffer`, on the generic `WaitableOperation` machine, composed with the host's rules for the end) is
reachable from the fresh channel by legal labels (`SWLegal` = `CLegal` + the opened handle is the channel's: any
body instruction between steps, in any order and number — open, write n, write_buf, into_vec, write_all n,
write_one, poll, cancel, drop the future, drop the end —; for the host exactly what `Host.End` allows: BLOCKED /
COMPLETED|k / DROPPED at once, the peer taking items in any number of steps or dropping while the end is copying,
delivery of the pending event, cancel answers = the pending code or any resolved race CANCELLED|k / COMPLETED|k /
DROPPED|k).  No further hypothesis: since the repair of the `Dropped(0)` arm the body may write again after
`StreamResult::Dropped`.  Any buffers, all payload kinds, both task ABI versions; induction over the step relation,
no depth bound. -/

/-- **`stream_never_traps`**: every legal step of a guest-writer stream channel is free of Rust panics
(`advance`'s `assert!`, `write_all`'s `assert!`, `unwrap`s of the waitable machine, `unreachable!`) and of host
traps, and leads to a reachable state again. -/
theorem stream_never_traps {p : SWP} (hh : p.hd ≠ 0) (hv : p.v = 1 ∨ p.v = 2) {s : ChanSys} {tr : List Ev}
    (h : SWReach p s tr) (l : CLabel) (hl : SWLegal p s l) :
    ∃ s' evs, s.step l = .ok s' evs ∧ s'.h.trapped = false ∧ SWReach p s' (tr ++ evs) := by
  have hg := sw_step_safe p s l (sw_reach_inv hh hv h).1 hl
  cases hs : s.step l with
  | panic msg evs => rw [hs] at hg; exact absurd hg (by simp [SWGood])
  | ok s' evs =>
    rw [hs] at hg
    exact ⟨s', evs, rfl, hg.1, SWReach.step h hl hs⟩

/-- the guest's `done` flag and the host's view agree whenever no operation is in flight: the writer is marked
done exactly when the host's end is done (so no write can reach a done end) -/
theorem writer_done_iff_host_done {p : SWP} (hh : p.hd ≠ 0) (hv : p.v = 1 ∨ p.v = 2) {s : ChanSys} {tr : List Ev}
    (h : SWReach p s tr) (hidle : s.g.act.isNone = true) (w : Writer) (hw : s.g.sw = some w) :
    w.done = true ↔ s.h.e.st = .done := by
  obtain ⟨_, _, sh, rfl, hok⟩ := (sw_reach_inv hh hv h).1
  cases sh with
  | idle n gd hdn kept win rcv =>
    simp only [swOk] at hok
    simp only [swSys, SWP.g0, Option.some.injEq] at hw
    subst hw
    cases hdn <;> cases gd <;> simp_all [swSys, swHost, stOf]
  | closed => simp [swSys, SWP.g0] at hw
  | gone n st win rcv => simp [swSys, SWP.g0] at hw
  | ready n gd hdn b win rcv => simp [swSys, SWP.g0, Act.isNone] at hidle
  | allNew n one items gd hdn win rcv => simp [swSys, SWP.g0, Act.isNone] at hidle
  | running n one b gs gd hdn win rcv => simp [swSys, SWP.g0, Act.isNone] at hidle
  | waiting n k b pr pend rcv => cases k <;> simp [swSys, SWP.g0, Act.isNone, OpK.act] at hidle
  | queued n k b code rcv => cases k <;> simp [swSys, SWP.g0, Act.isNone, OpK.act] at hidle

/-- in every reachable state the host has not trapped -/
theorem stream_writer_reachable_untrapped {p : SWP} (hh : p.hd ≠ 0) (hv : p.v = 1 ∨ p.v = 2) {s : ChanSys} {tr : List Ev}
    (h : SWReach p s tr) : s.h.trapped = false := (sw_reach_inv hh hv h).2

/-- **The host reads the guest's buffer where the guest's cursor is** (FIFO, state level): whenever the
host's end is copying in a reachable state, the write in flight holds a buffer `b` such that the window
the host reads from IS `b.window` (the values from the cursor on, in order), the size it was offered is
`min remaining MAX_LENGTH`, what it has taken so far is within that, the pending event (if any) carries
exactly that count, and the operation is registered with the task exactly once. -/
theorem host_reads_at_the_cursor {p : SWP} (hh : p.hd ≠ 0) (hv : p.v = 1 ∨ p.v = 2) {s : ChanSys} {tr : List Ev}
    (h : SWReach p s tr) (hc : s.h.e.st = .copying) :
    ∃ b, p.okBuf b ∧ s.h.window = b.window ∧ s.h.e.n = min b.remaining Limits.streamMaxLength ∧ s.h.e.progress ≤ s.h.e.n ∧
      (s.h.e.pending = none ∧ s.h.e.progress = 0 ∨
       s.h.e.pending = some (Host.packCode Host.COMPLETED s.h.e.progress) ∨
       s.h.e.pending = some (Host.packCode Host.DROPPED s.h.e.progress)) ∧
      s.env.regs = [(p.tp, p.hd)] := by
  obtain ⟨_, _, sh, rfl, hok⟩ := (sw_reach_inv hh hv h).1
  cases sh with
  | waiting n k b pr pend rcv =>
    simp only [swOk] at hok
    exact ⟨b, hok.1, rfl, rfl, hok.2.1, hok.2.2, rfl⟩
  | idle n gd hdn kept win rcv => cases hdn <;> simp [swSys, swHost, stOf] at hc
  | ready n gd hdn b win rcv => cases hdn <;> simp [swSys, swHost, stOf] at hc
  | allNew n one items gd hdn win rcv => cases hdn <;> simp [swSys, swHost, stOf] at hc
  | running n one b gs gd hdn win rcv => cases hdn <;> simp [swSys, swHost, stOf] at hc
  | queued n k b code rcv =>
    simp only [swOk, codeOk] at hok
    obtain ⟨_, base, j, rfl, hb, _⟩ := hok
    rcases hb with rfl | rfl <;>
      simp [swSys, swHost, Host.End.stAfter, Host.packCode, Host.COMPLETED, Host.DROPPED, Host.BLOCKED, Host.codeBase] at hc <;> omega
  | gone n st win rcv => simp only [swOk] at hok; simp [swSys, swHost] at hc; exact absurd hc hok
  | closed => simp [swSys] at hc

/-! ## FIFO over all histories: what the reader of a guest-writer stream gets

`nextUp s` (Proofs/StreamWrite.lean) = the values of the live buffer the host has not taken yet, in order: the
window of the buffer of the write in flight beyond the host's progress (or beyond the count of a code the
operation has received and not yet processed), the window of a write not started yet or of the kept buffer, the
values held by a `write_all` not polled yet.  `s.h.received` = everything the peer (the reader) has received, in
order.  Values are numbered 1, 2, … in the order the body writes them (`nextId` = the next fresh number). -/

/-- **`stream_writer_fifo`**: every legal step of a reachable guest-writer stream channel (any body instruction,
any behaviour of the host the rules allow; no further hypothesis) hands the reader exactly the next `j` values
the guest exposes, in order — nothing else, nothing twice, nothing skipped —: `received' = received ++
nextUp.take j`; and afterwards the guest exposes exactly the rest (`nextUp' = nextUp.drop j`: the cursor moved by
exactly what the host took, across BLOCKED / partial transfers / delivery / cancel races / the `write_all` loop) —
unless no buffer is left (it was handed back to the body as a vector, or dropped: the values are accounted for by
`untransferred_returned_or_dropped_once`), or the body made a new buffer of fresh values `nextId, nextId+1, …`.
Induction over all label sequences (`SWReach`), any buffers, all payload kinds, both task ABI versions. -/
theorem stream_writer_fifo {p : SWP} (hh : p.hd ≠ 0) (hv : p.v = 1 ∨ p.v = 2) {s : ChanSys} {tr : List Ev}
    (h : SWReach p s tr) (l : CLabel) (hl : SWLegal p s l) {s' : ChanSys} {evs : List Ev} (hs : s.step l = .ok s' evs) :
    ∃ j, s'.h.received = s.h.received ++ (nextUp s).take j ∧ s.g.nextId ≤ s'.g.nextId ∧
      (nextUp s' = (nextUp s).drop j ∨ (s'.g.act.isNone = true ∧ s'.g.kept = none) ∨
       nextUp s' = List.range' s.g.nextId (s'.g.nextId - s.g.nextId)) :=
  sw_step_fifo hh hv h hl hs

/-- **The reader gets each value at most once, in the order written**: in every reachable state, what the reader
has received followed by what the guest still exposes is strictly increasing in the write order and consists of
values the body has written (`< nextId`); in particular no value is received twice. -/
theorem stream_writer_receives_in_order_once {p : SWP} (hh : p.hd ≠ 0) (hv : p.v = 1 ∨ p.v = 2) {s : ChanSys} {tr : List Ev}
    (h : SWReach p s tr) :
    (s.h.received ++ nextUp s).Pairwise (· < ·) ∧ (∀ x ∈ s.h.received ++ nextUp s, x < s.g.nextId) ∧ s.h.received.Nodup := by
  obtain ⟨h1, h2⟩ := sw_reach_fifo hh hv h
  refine ⟨h1, h2, ?_⟩
  have := (List.pairwise_append.1 h1).1
  exact this.imp (fun hlt => Nat.ne_of_lt hlt)

/-- `nextUp` is what the host is looking at: while the host's end is copying, the values the guest exposes are the
host's window beyond its progress (with `host_reads_at_the_cursor`: the buffer from the guest's cursor on) -/
theorem next_up_is_the_hosts_window {p : SWP} (hh : p.hd ≠ 0) (hv : p.v = 1 ∨ p.v = 2) {s : ChanSys} {tr : List Ev}
    (h : SWReach p s tr) (hc : s.h.e.st = .copying) : nextUp s = s.h.window.drop s.h.e.progress := by
  obtain ⟨_, _, sh, rfl, hok⟩ := (sw_reach_inv hh hv h).1
  cases sh with
  | waiting n k b pr pend rcv => cases k <;> simp [swSys, swHost, nextUp, opNext, OpK.act]
  | idle n gd hdn kept win rcv => cases hdn <;> simp [swSys, swHost, stOf] at hc
  | ready n gd hdn b win rcv => cases hdn <;> simp [swSys, swHost, stOf] at hc
  | allNew n one items gd hdn win rcv => cases hdn <;> simp [swSys, swHost, stOf] at hc
  | running n one b gs gd hdn win rcv => cases hdn <;> simp [swSys, swHost, stOf] at hc
  | queued n k b code rcv =>
    simp only [swOk, codeOk] at hok
    obtain ⟨_, base, j, rfl, hb, _⟩ := hok
    rcases hb with rfl | rfl <;>
      simp [swSys, swHost, Host.End.stAfter, Host.packCode, Host.COMPLETED, Host.DROPPED, Host.BLOCKED, Host.codeBase] at hc <;> omega
  | gone n st win rcv => simp only [swOk] at hok; simp [swSys, swHost] at hc; exact absurd hc hok
  | closed => simp [swSys] at hc

/-! ## Non-vacuity -/

/-- a partial write of three values with owned lists: the host takes two, their lists are freed once
each, `into_vec` lifts the third back, the slab goes once -/
example :
    (match (AbiBuffer.new 0 .lists [1, 2, 3]).1.advance 2 with
     | .ok b evs => some (evs, b.intoVec)
     | .panic _ _ => none) =
    some ([evDli 0 1, evDli 0 2], ([3], [evLi 0 3, Ev.free 0])) := by decide

/-- `advance` past the end is rejected -/
example : (match (AbiBuffer.new 0 .canon [1, 2]).1.advance 3 with | .panic _ _ => true | .ok _ _ => false) = true := by decide

/-- a write of 3 values answered COMPLETED|2 reports `Complete(2)` and keeps one -/
example : (match streamWriteUpdate ⟨(AbiBuffer.new 0 .canon [1, 2, 3]).1, ⟨5, false⟩⟩ (Host.packCode 0 2) with
    | .ok (.inl (r, st)) _ => some (r, st.buf.window)
    | _ => none) = some (.complete 2, [3]) := by decide

end Witverif.Props.C19
