/-
Model of `wit_bindgen_core::Types` (crates/core/src/types.rs): `analyze`, `type_id_info`,
`type_info`, `type_info_func`, `collect_equal_types`, `is_structurally_equal` with its three
helpers, the `UnionFind` with path compression, `get_representative_type`, `get`.

The `Resolve` is abstracted to a *type table*: `List Def`, entry `i` is the `TypeDefKind` of the
type with arena index `i` (wit-parser 0.257 `TypeDefKind`; `Unknown` is not representable, the
code treats it as `unreachable!()`).  A definition refers to other types by index (`Ty.id i`).
`wit-parser` guarantees the table is topologically ordered (every reference points to a smaller
index); that is the predicate `WF` and it is *checked* by the driver on every exported table.

Conventions
* `TypeId` comparison (`ra < rb` in `UnionFind::union`) is comparison of arena indices
  (id-arena `Ord`: arena id, then index; one arena).
* `HashMap<TypeId, TypeId>` (union-find parents) is an association list observed only through
  `get`/`insert`; `HashMap<TypeId, TypeInfo>` is a list indexed by type id (after `analyze` every
  type id has an entry).  The iteration order of the hash map in the merge loop of
  `collect_equal_types` is a parameter `order` of the model.
* Rust recursion becomes structural recursion on a fuel argument; `none` = fuel exhausted or an
  indexing panic (`resolve.types[id]` out of range).  `Props.C28.struct_eq_terminates` /
  `collect_total` prove that the fuel the model passes always suffices on well-formed tables.
* `LiveTypes` (wit-parser) is external: the lists it yields are inputs of the model.
Import-free: linked into the driver executable `m_typeseq`.
-/
namespace Witverif.Text.TypesEq

abbrev Name := List Char

/-- `wit_parser::Type` without `Id`. -/
inductive Prim
  | bool | u8 | s8 | u16 | s16 | u32 | s32 | u64 | s64 | f32 | f64 | char | string | errorContext
deriving DecidableEq, Repr

/-- `wit_parser::Type`. -/
inductive Ty
  | prim (p : Prim)
  | id (i : Nat)
deriving DecidableEq, Repr

/-- `wit_parser::TypeDefKind` (0.257), `Handle` flattened into `own`/`borrow`. -/
inductive Def
  | record (fields : List (Name × Ty))
  | resource
  | own (r : Nat)
  | borrow (r : Nat)
  | flags (names : List Name)
  | tuple (tys : List Ty)
  | variant (cases : List (Name × Option Ty))
  | enum (names : List Name)
  | option (t : Ty)
  | result (ok err : Option Ty)
  | list (t : Ty)
  | map (k v : Ty)
  | fixedList (t : Ty) (n : Nat)
  | future (t : Option Ty)
  | stream (t : Option Ty)
  | alias (t : Ty)            -- `TypeDefKind::Type(t)`: `type a = t` and every `use`
deriving DecidableEq, Repr

abbrev Table := List Def

def optTys : Option Ty → List Ty
  | some t => [t]
  | none => []

/-- Every type a definition mentions (what `LiveTypes`/`TypeIdVisitor` walks). -/
def Def.refs : Def → List Ty
  | .record fs => fs.map (·.2)
  | .resource => []
  | .own r => [.id r]
  | .borrow r => [.id r]
  | .flags _ => []
  | .tuple ts => ts
  | .variant cs => cs.flatMap (fun c => optTys c.2)
  | .enum _ => []
  | .option t => [t]
  | .result ok err => optTys ok ++ optTys err
  | .list t => [t]
  | .map k v => [k, v]
  | .fixedList t _ => [t]
  | .future t => optTys t
  | .stream t => optTys t
  | .alias t => [t]

def Ty.ltB (n : Nat) : Ty → Bool
  | .prim _ => true
  | .id j => decide (j < n)

/-- Topological order, as a decidable check: entry `i` mentions only indices `< i`. -/
def wfFrom : Nat → List Def → Bool
  | _, [] => true
  | i, d :: ds => d.refs.all (Ty.ltB i) && wfFrom (i + 1) ds

def WF (T : Table) : Prop := wfFrom 0 T = true

instance (T : Table) : Decidable (WF T) := inferInstanceAs (Decidable (_ = true))

/-- Bottom-up table construction: entry `i` is computed from the entries `< i` already built
(the memo table of `type_id_info`; also used by the spec side for shapes and reachability). -/
def build {α : Type} (f : List α → Def → α) : List Def → List α → List α
  | [], acc => acc
  | d :: ds, acc => build f ds (acc ++ [f acc d])

/-! ## `TypeInfo` -/

structure TypeInfo where
  borrowed : Bool := false
  owned : Bool := false
  error : Bool := false
  hasList : Bool := false
  hasTuple : Bool := false
  hasResource : Bool := false
  hasBorrowHandle : Bool := false
  hasOwnHandle : Bool := false
deriving DecidableEq, Repr, Inhabited

/-- `impl BitOrAssign for TypeInfo`. -/
def TypeInfo.or (a b : TypeInfo) : TypeInfo where
  borrowed := a.borrowed || b.borrowed
  owned := a.owned || b.owned
  error := a.error || b.error
  hasList := a.hasList || b.hasList
  hasTuple := a.hasTuple || b.hasTuple
  hasResource := a.hasResource || b.hasResource
  hasBorrowHandle := a.hasBorrowHandle || b.hasBorrowHandle
  hasOwnHandle := a.hasOwnHandle || b.hasOwnHandle

/-- The eight facts, to state theorems uniformly. -/
inductive Flag
  | borrowed | owned | error | hasList | hasTuple | hasResource | hasBorrowHandle | hasOwnHandle
deriving DecidableEq, Repr

def TypeInfo.get (i : TypeInfo) : Flag → Bool
  | .borrowed => i.borrowed
  | .owned => i.owned
  | .error => i.error
  | .hasList => i.hasList
  | .hasTuple => i.hasTuple
  | .hasResource => i.hasResource
  | .hasBorrowHandle => i.hasBorrowHandle
  | .hasOwnHandle => i.hasOwnHandle

/-- `Types::type_info` with the memo table (`self.type_info`) holding every smaller id. -/
def typeInfo (memo : List TypeInfo) : Ty → TypeInfo
  | .prim .string => { hasList := true }
  | .prim .errorContext => { hasResource := true }
  | .prim _ => {}
  | .id i => memo.getD i {}

/-- `Types::optional_type_info`. -/
def optionalTypeInfo (memo : List TypeInfo) : Option Ty → TypeInfo
  | some t => typeInfo memo t
  | none => {}

/-- The `match &resolve.types[ty].kind` of `Types::type_id_info`. -/
def typeIdInfoKind (memo : List TypeInfo) : Def → TypeInfo
  | .record fs => fs.foldl (fun (info : TypeInfo) f => info.or (typeInfo memo f.2)) {}
  | .resource => { hasResource := true }
  | .borrow _ => { hasBorrowHandle := true, hasResource := true }
  | .own _ => { hasOwnHandle := true, hasResource := true }
  | .tuple ts => { ts.foldl (fun (info : TypeInfo) t => info.or (typeInfo memo t)) {} with hasTuple := true }
  | .flags _ => {}
  | .enum _ => {}
  | .variant cs => cs.foldl (fun (info : TypeInfo) c => info.or (optionalTypeInfo memo c.2)) {}
  | .list t => { typeInfo memo t with hasList := true }
  | .alias t => typeInfo memo t
  | .option t => typeInfo memo t
  | .result ok err => (optionalTypeInfo memo ok).or (optionalTypeInfo memo err)
  | .future _ => { hasResource := true, hasOwnHandle := true }
  | .stream _ => { hasResource := true, hasOwnHandle := true }
  | .fixedList t _ => typeInfo memo t
  | .map k v => { (typeInfo memo k).or (typeInfo memo v) with hasList := true }

/-- First loop of `Types::analyze`: `type_id_info` for every type in arena order. On a
topologically ordered table every recursive call is a memo hit. -/
def analyzeTypes (T : Table) : List TypeInfo := build typeIdInfoKind T []

/-- A world-level function as `type_info_func` sees it. `paramLive` / `resultLive` are what
`LiveTypes::add_type` yields for the parameters / the result (external, inputs of the model). -/
structure Func where
  isImport : Bool
  params : List Ty
  result : Option Ty
  paramLive : List Nat
  resultLive : List Nat
deriving Repr

def modifyAt (l : List TypeInfo) (i : Nat) (f : TypeInfo → TypeInfo) : Option (List TypeInfo) :=
  match l[i]? with
  | some x => some (l.set i (f x))
  | none => none            -- `.get_mut(&id).unwrap()` panics

/-- `for id in live.iter() { if resolve.types[id].name.is_some() { set flag } }` -/
def markLive (named : List Bool) (f : TypeInfo → TypeInfo) :
    List Nat → List TypeInfo → Option (List TypeInfo)
  | [], infos => some infos
  | id :: ids, infos =>
    match named[id]? with
    | none => none
    | some true =>
      match modifyAt infos id f with
      | none => none
      | some infos => markLive named f ids infos
    | some false => markLive named f ids infos

/-- `resolve_type_definition_id`: chase `TypeDefKind::Type(Type::Id(_))` layers. -/
def resolveTypeDefinitionId (T : Table) : Nat → Nat → Option Nat
  | 0, _ => none
  | fuel + 1, id =>
    match T[id]? with
    | none => none
    | some (.alias (.id d)) => resolveTypeDefinitionId T fuel d
    | some _ => some id

/-- `Types::type_info_func`. (Its calls `self.type_info(resolve, ty)` on the parameter / result
types are memo hits after the first loop of `analyze` and change nothing.) -/
def typeInfoFunc (T : Table) (named : List Bool) (infos : List TypeInfo) (fn : Func) :
    Option (List TypeInfo) :=
  match markLive named (fun i => if fn.isImport then { i with borrowed := true }
                                  else { i with owned := true }) fn.paramLive infos with
  | none => none
  | some infos =>
  match markLive named (fun i => { i with owned := true }) fn.resultLive infos with
  | none => none
  | some infos =>
  match fn.result with
  | some (.id id) =>
    -- the result type itself is chased through `type`/`use` layers first (repaired in /repo: before the
    -- repair only a result type that was *directly* a `result` was looked at)
    match resolveTypeDefinitionId T (id + 1) id with
    | none => none
    | some rd =>
    match T[rd]? with
    | none => none
    | some (.result _ (some (.id e))) =>
      match resolveTypeDefinitionId T (e + 1) e with
      | none => none
      | some d => modifyAt infos d (fun i => { i with error := true })
    | some _ => some infos
  | _ => some infos

def analyzeFuncs (T : Table) (named : List Bool) : List Func → List TypeInfo → Option (List TypeInfo)
  | [], infos => some infos
  | f :: fs, infos =>
    match typeInfoFunc T named infos f with
    | none => none
    | some infos => analyzeFuncs T named fs infos

/-- `Types::analyze`. `funcs` = the functions of all imports then exports of every world. -/
def analyze (T : Table) (named : List Bool) (funcs : List Func) : Option (List TypeInfo) :=
  analyzeFuncs T named funcs (analyzeTypes T)

/-! ## `UnionFind` -/

def kvGet : List (Nat × Nat) → Nat → Option Nat
  | [], _ => none
  | (k', v') :: rest, k => if k' = k then some v' else kvGet rest k

def kvInsert : List (Nat × Nat) → Nat → Nat → List (Nat × Nat)
  | [], k, v => [(k, v)]
  | (k', v') :: rest, k, v => if k' = k then (k, v) :: rest else (k', v') :: kvInsert rest k v

structure UF where
  parent : List (Nat × Nat) := []
deriving Repr

/-- `self.parent.get(&id).copied().unwrap_or(id)` -/
def UF.get (u : UF) (id : Nat) : Nat := (kvGet u.parent id).getD id

/-- `self.parent.insert(id, root)` -/
def UF.insert (u : UF) (id root : Nat) : UF := ⟨kvInsert u.parent id root⟩

/-- `UnionFind::find` (with path compression); fuel = recursion depth. -/
def find : Nat → UF → Nat → Option (Nat × UF)
  | 0, _, _ => none
  | fuel + 1, u, id =>
    let parent := u.get id
    if parent ≠ id then
      match find fuel u parent with
      | none => none
      | some (root, u) => some (root, u.insert id root)
    else some (id, u)

/-- `find` with the fuel that suffices when parents never exceed children (`id + 1` frames). -/
def findT (u : UF) (id : Nat) : Option (Nat × UF) := find (id + 1) u id

/-- `UnionFind::union`: the smaller id becomes the root. -/
def union (u : UF) (a b : Nat) : Option UF :=
  match findT u a with
  | none => none
  | some (ra, u) =>
  match findT u b with
  | none => none
  | some (rb, u) =>
    if ra ≠ rb then
      if ra < rb then some (u.insert rb ra) else some (u.insert ra rb)
    else some u

/-! ## `is_structurally_equal` and helpers

The four mutually recursive Rust functions are one function `eqF` over a call descriptor; every
Rust call consumes one unit of fuel. All of them take `&mut self` because `find` compresses
paths, so the union-find is threaded through, including through the short-circuiting
`Iterator::all` / `&&`. -/

inductive Call
  | se (a b : Nat)            -- is_structurally_equal(a, b)
  | tt (a b : Ty)             -- types_equal(a, b)
  | it (a : Nat) (b : Ty)     -- type_id_equal_to_type(a, b)
  | ot (a b : Option Ty)      -- optional_types_equal(a, b)
deriving Repr

abbrev R := Option (Bool × UF)

/-- `iter.all(f)` with state: stops at the first `false`. -/
def allM {α : Type} (f : UF → α → R) : UF → List α → R
  | u, [] => some (true, u)
  | u, x :: xs =>
    match f u x with
    | none => none
    | some (true, u) => allM f u xs
    | some (false, u) => some (false, u)

/-- `x && y` with state. -/
def andM (r : R) (k : UF → R) : R :=
  match r with
  | none => none
  | some (true, u) => k u
  | some (false, u) => some (false, u)

/-- The `match (a_def, b_def)` of `is_structurally_equal`; `rec` performs the recursive calls
(`eqF` at the remaining fuel). -/
def structural (rec : UF → Call → R) (a b : Nat) (u : UF) : Def → Def → R
  -- Peel off typedef layers and continue recursing.
  | .alias ta, _ => rec u (.it b ta)
  | _, .alias tb => rec u (.it a tb)
  | .record fa, .record fb =>
    if fa.length = fb.length then
      allM (fun u p => if p.1.1 = p.2.1 then rec u (.tt p.1.2 p.2.2) else some (false, u))
        u (fa.zip fb)
    else some (false, u)
  | .variant ca, .variant cb =>
    if ca.length = cb.length then
      allM (fun u p => if p.1.1 = p.2.1 then rec u (.ot p.1.2 p.2.2) else some (false, u))
        u (ca.zip cb)
    else some (false, u)
  | .enum ea, .enum eb =>
    some (decide (ea.length = eb.length) && (ea.zip eb).all (fun p => decide (p.1 = p.2)), u)
  | .flags fa, .flags fb =>
    some (decide (fa.length = fb.length) && (fa.zip fb).all (fun p => decide (p.1 = p.2)), u)
  | .tuple ta, .tuple tb =>
    if ta.length = tb.length then
      allM (fun u p => rec u (.tt p.1 p.2)) u (ta.zip tb)
    else some (false, u)
  | .list la, .list lb => rec u (.tt la lb)
  | .fixedList ta sa, .fixedList tb sb =>
    if sa = sb then rec u (.tt ta tb) else some (false, u)
  | .option oa, .option ob => rec u (.tt oa ob)
  | .result oka erra, .result okb errb =>
    andM (rec u (.ot oka okb)) (fun u => rec u (.ot erra errb))
  | .map ak av, .map bk bv =>
    andM (rec u (.tt ak bk)) (fun u => rec u (.tt av bv))
  | .future pa, .future pb => rec u (.ot pa pb)
  | .stream pa, .stream pb => rec u (.ot pa pb)
  | .own ra, .own rb => rec u (.se ra rb)
  | .borrow ra, .borrow rb => rec u (.se ra rb)
  -- Resources are only equal if their original ids are equal.
  | .resource, .resource => some (decide (a = b), u)
  -- every `(Kind(_), _) => false` arm
  | _, _ => some (false, u)

def eqF (T : Table) : Nat → UF → Call → R
  | 0, _, _ => none
  | fuel + 1, u, .se a b =>
    match T[a]?, T[b]? with
    | some aDef, some bDef =>
      match findT u a with
      | none => none
      | some (ra, u) =>
      match findT u b with
      | none => none
      | some (rb, u) =>
      if ra = rb then some (true, u)
      else structural (eqF T fuel) a b u aDef bDef
    | _, _ => none
  | fuel + 1, u, .tt a b =>
    match a, b with
    -- Peel off typedef layers and continue recursing.
    | .id a, b => eqF T fuel u (.it a b)
    | a, .id b => eqF T fuel u (.it b a)
    | .prim p, .prim q => some (decide (p = q), u)
  | fuel + 1, u, .it a b =>
    match T[a]? with
    | none => none
    | some ak =>
      match ak, b with
      | .alias ta, b => eqF T fuel u (.tt ta b)
      | _, .id b => eqF T fuel u (.se a b)
      | _, _ => some (false, u)
  | fuel + 1, u, .ot a b =>
    match a, b with
    | some a, some b => eqF T fuel u (.tt a b)
    | some _, none => some (false, u)
    | none, some _ => some (false, u)
    | none, none => some (true, u)

/-- Fuel that suffices for any call on a table of this length (`struct_eq_terminates`). -/
def eqFuel (T : Table) : Nat := 8 * T.length + 8

def isStructurallyEqual (T : Table) (u : UF) (a b : Nat) : R := eqF T (eqFuel T) u (.se a b)
def typesEqual (T : Table) (u : UF) (a b : Ty) : R := eqF T (eqFuel T) u (.tt a b)
def typeIdEqualToType (T : Table) (u : UF) (a : Nat) (b : Ty) : R := eqF T (eqFuel T) u (.it a b)
def optionalTypesEqual (T : Table) (u : UF) (a b : Option Ty) : R := eqF T (eqFuel T) u (.ot a b)

/-! ## `collect_equal_types` -/

/-- `for earlier in live_types.iter().take(i) { … }` for one `ty`. -/
def collectInner (T : Table) (ty : Nat) : UF → List Nat → Option UF
  | u, [] => some u
  | u, earlier :: rest =>
    match findT u ty with
    | none => none
    | some (rt, u) =>
    match findT u earlier with
    | none => none
    | some (re, u) =>
    if rt = re then collectInner T ty u rest            -- continue
    else
      match isStructurallyEqual T u ty earlier with
      | none => none
      | some (true, u) => union u ty earlier            -- union; break
      | some (false, u) => collectInner T ty u rest

/-- `for (i, ty) in live_types.iter().enumerate() { … }`; `before` = `live.take i`. -/
def collectOuter (T : Table) (mayAlias : Nat → Bool) : UF → List Nat → List Nat → Option UF
  | u, _, [] => some u
  | u, before, ty :: rest =>
    if !mayAlias ty then collectOuter T mayAlias u (before ++ [ty]) rest
    else
      match collectInner T ty u before with
      | none => none
      | some u => collectOuter T mayAlias u (before ++ [ty]) rest

/-- `*merged.entry(rep).or_default() |= info` on an association list. -/
def mergedOr : List (Nat × TypeInfo) → Nat → TypeInfo → List (Nat × TypeInfo)
  | [], k, v => [(k, (({} : TypeInfo).or v))]
  | (k', v') :: rest, k, v => if k' = k then (k', v'.or v) :: rest else (k', v') :: mergedOr rest k v

def mergedGet : List (Nat × TypeInfo) → Nat → Option TypeInfo
  | [], _ => none
  | (k', v') :: rest, k => if k' = k then some v' else mergedGet rest k

/-- `for (&id, &info) in &self.type_info { let rep = find(id); merged[rep] |= info }` in the
iteration order `order`. -/
def mergeLoop1 (infos : List TypeInfo) : UF → List (Nat × TypeInfo) → List Nat →
    Option (UF × List (Nat × TypeInfo))
  | u, m, [] => some (u, m)
  | u, m, id :: ids =>
    match infos[id]? with
    | none => none
    | some info =>
    match findT u id with
    | none => none
    | some (rep, u) => mergeLoop1 infos u (mergedOr m rep info) ids

/-- `for (&id, info) in &mut self.type_info { if let Some(m) = merged.get(&find(id)) { *info = m } }` -/
def mergeLoop2 (m : List (Nat × TypeInfo)) : UF → List TypeInfo → List Nat → Option (UF × List TypeInfo)
  | u, infos, [] => some (u, infos)
  | u, infos, id :: ids =>
    match findT u id with
    | none => none
    | some (rep, u) =>
      match mergedGet m rep with
      | some mi =>
        match modifyAt infos id (fun _ => mi) with
        | none => none
        | some infos => mergeLoop2 m u infos ids
      | none => mergeLoop2 m u infos ids

/-- The state of a `Types` value. -/
structure Types where
  typeInfo : List TypeInfo := []
  equalTypes : UF := {}
deriving Repr

/-- `Types::collect_equal_types`; `live` = `LiveTypes::add_world(..).iter()`, `order` = the hash
map's iteration order over all type ids. -/
def collectEqualTypes (T : Table) (s : Types) (live : List Nat) (mayAlias : Nat → Bool)
    (order : List Nat) : Option Types :=
  match collectOuter T mayAlias s.equalTypes [] live with
  | none => none
  | some u =>
  match mergeLoop1 s.typeInfo u [] order with
  | none => none
  | some (u, merged) =>
  match mergeLoop2 merged u s.typeInfo order with
  | none => none
  | some (u, infos) => some { typeInfo := infos, equalTypes := u }

/-- `Types::get_representative_type`. -/
def getRepresentativeType (s : Types) (id : Nat) : Option (Nat × Types) :=
  match findT s.equalTypes id with
  | none => none
  | some (r, u) => some (r, { s with equalTypes := u })

/-- `Types::get`. -/
def Types.get (s : Types) (id : Nat) : Option TypeInfo := s.typeInfo[id]?

/-- Query the representative of every id in the given order (state threaded). -/
def repsOf : Types → List Nat → Option (List Nat × Types)
  | s, [] => some ([], s)
  | s, id :: ids =>
    match getRepresentativeType s id with
    | none => none
    | some (r, s) =>
      match repsOf s ids with
      | none => none
      | some (rs, s) => some (r :: rs, s)

end Witverif.Text.TypesEq

/-! ## Specification side (does not mention the model of the code)

* `StructEq T a b`: the two types have the same *shape* — the tree obtained by replacing every
  reference by the definition it points to. A type alias (`type a = b`, `use`) has the shape of
  its target (an alias **is** structurally equal to what it names); the name of a record /
  variant / enum / flags type is not part of its shape, its field / case / flag names are, in
  order; a resource's shape is its own identity, so a resource equals only itself.
* `Reach ch T a s`: `s` is reachable from `a` through the child relation `ch`.
  `Contains` (value containment) uses `valueChildren`: fields, cases, elements, payloads of
  option/result/list/map/fixed-length list, alias targets — **not** the payload of a
  future/stream and not the resource behind a handle (those are `u32` handles).
  `Refers` uses every mentioned type (`Def.refs`, what `LiveTypes` walks).
* content facts are existence of a reachable node of the right kind.
-/
namespace Witverif.Text.TypesEqSpec
open Witverif.Text.TypesEq

inductive Label
  | prim (p : Prim)
  | absent                         -- a missing optional payload
  | record (names : List Name)
  | variant (names : List Name)
  | enum (names : List Name)
  | flags (names : List Name)
  | tuple | option | result | list | map | future | stream | own | borrow
  | fixedList (n : Nat)
  | resource (id : Nat)
  | dangling                       -- reference outside the table
deriving DecidableEq, Repr

mutual
inductive Shape
  | node (l : Label) (kids : Shapes)
inductive Shapes
  | nil
  | cons (s : Shape) (ss : Shapes)
end

deriving instance DecidableEq for Shape, Shapes

def Shapes.ofList : List Shape → Shapes
  | [] => .nil
  | s :: ss => .cons s (Shapes.ofList ss)

def shapeTy (memo : List Shape) : Ty → Shape
  | .prim p => .node (.prim p) .nil
  | .id i => memo.getD i (.node .dangling .nil)

def shapeOpt (memo : List Shape) : Option Ty → Shape
  | some t => shapeTy memo t
  | none => .node .absent .nil

/-- The shape of the definition with index `self`, given the shapes of all smaller indices. -/
def shapeDef (memo : List Shape) (self : Nat) : Def → Shape
  | .alias t => shapeTy memo t
  | .record fs => .node (.record (fs.map (·.1))) (.ofList (fs.map (fun f => shapeTy memo f.2)))
  | .variant cs => .node (.variant (cs.map (·.1))) (.ofList (cs.map (fun c => shapeOpt memo c.2)))
  | .enum ns => .node (.enum ns) .nil
  | .flags ns => .node (.flags ns) .nil
  | .tuple ts => .node .tuple (.ofList (ts.map (shapeTy memo)))
  | .option t => .node .option (.ofList [shapeTy memo t])
  | .result ok err => .node .result (.ofList [shapeOpt memo ok, shapeOpt memo err])
  | .list t => .node .list (.ofList [shapeTy memo t])
  | .map k v => .node .map (.ofList [shapeTy memo k, shapeTy memo v])
  | .fixedList t n => .node (.fixedList n) (.ofList [shapeTy memo t])
  | .future t => .node .future (.ofList [shapeOpt memo t])
  | .stream t => .node .stream (.ofList [shapeOpt memo t])
  | .own r => .node .own (.ofList [shapeTy memo (.id r)])
  | .borrow r => .node .borrow (.ofList [shapeTy memo (.id r)])
  | .resource => .node (.resource self) .nil

def shapes (T : Table) : List Shape := build (fun memo d => shapeDef memo memo.length d) T []

def shape (T : Table) (t : Ty) : Shape := shapeTy (shapes T) t

/-- Structural equality of two WIT types of the table. -/
def StructEq (T : Table) (a b : Ty) : Prop := shape T a = shape T b

instance (T : Table) (a b : Ty) : Decidable (StructEq T a b) :=
  inferInstanceAs (Decidable (shape T a = shape T b))

/-- Number of nodes of the unfolded shape of every entry (cheap; the driver refuses tables whose
shapes would be too large to build). -/
def sizeTy (memo : List Nat) : Ty → Nat
  | .prim _ => 1
  | .id i => memo.getD i 1

def shapeSizes (T : Table) : List Nat :=
  build (fun memo d => 1 + (d.refs.map (sizeTy memo)).foldl (· + ·) 0) T []

/-! ### reachability -/

/-- Components whose *values* are part of a value of the type. -/
def valueChildren : Def → List Ty
  | .future _ => []
  | .stream _ => []
  | .own _ => []
  | .borrow _ => []
  | d => d.refs

/-- `Reach ch T a s`: reflexive-transitive closure of "is a `ch`-child of the definition of". -/
inductive Reach (ch : Def → List Ty) (T : Table) : Ty → Ty → Prop
  | refl (a : Ty) : Reach ch T a a
  | step (i : Nat) (d : Def) (c s : Ty) : T[i]? = some d → c ∈ ch d → Reach ch T c s →
      Reach ch T (.id i) s

abbrev Contains (T : Table) : Ty → Ty → Prop := Reach valueChildren T
abbrev Refers (T : Table) : Ty → Ty → Prop := Reach Def.refs T

def rowTy (memo : List (List Ty)) : Ty → List Ty
  | .prim p => [.prim p]
  | .id i => memo.getD i []

/-- All nodes reachable from each entry (with repetitions), bottom-up. -/
def rows (ch : Def → List Ty) (T : Table) : List (List Ty) :=
  build (fun memo d => .id memo.length :: (ch d).flatMap (rowTy memo)) T []

def reachList (ch : Def → List Ty) (T : Table) (t : Ty) : List Ty := rowTy (rows ch T) t

/-- Node kinds that make a fact true. -/
def isNode (T : Table) (p : Def → Bool) (q : Prim → Bool) : Ty → Bool
  | .prim x => q x
  | .id i => match T[i]? with | some d => p d | none => false

def listNode (T : Table) : Ty → Bool :=
  isNode T (fun d => match d with | .list _ => true | .map _ _ => true | _ => false)
    (fun p => p = .string)
def tupleNode (T : Table) : Ty → Bool :=
  isNode T (fun d => match d with | .tuple _ => true | _ => false) (fun _ => false)
def resourceNode (T : Table) : Ty → Bool :=
  isNode T (fun d => match d with
    | .resource => true | .own _ => true | .borrow _ => true | .future _ => true | .stream _ => true
    | _ => false) (fun p => p = .errorContext)
def borrowNode (T : Table) : Ty → Bool :=
  isNode T (fun d => match d with | .borrow _ => true | _ => false) (fun _ => false)
def ownNode (T : Table) : Ty → Bool :=
  isNode T (fun d => match d with | .own _ => true | .future _ => true | .stream _ => true | _ => false)
    (fun _ => false)

/-- The node predicate of each content fact. -/
def contentNode (T : Table) : Flag → Option (Ty → Bool)
  | .hasList => some (listNode T)
  | .hasTuple => some (tupleNode T)
  | .hasResource => some (resourceNode T)
  | .hasBorrowHandle => some (borrowNode T)
  | .hasOwnHandle => some (ownNode T)
  | _ => none

/-- Declarative content fact: some contained node has the kind. -/
def HasNode (T : Table) (node : Ty → Bool) (t : Ty) : Prop := ∃ s, Contains T t s ∧ node s = true

/-- Decision procedure used by the monitor (`hasNodeB_iff` relates it to `HasNode`). -/
def hasNodeB (T : Table) (node : Ty → Bool) (t : Ty) : Bool := (reachList valueChildren T t).any node

/-- Follow `type a = b` / `use` layers to the defining type id (a type defined as a primitive,
`type a = u32`, is its own definition). -/
def aliasTarget (T : Table) : Nat → Ty → Ty
  | 0, t => t
  | _, .prim p => .prim p
  | fuel + 1, .id i =>
    match T[i]? with
    | some (.alias (.id j)) => aliasTarget T fuel (.id j)
    | _ => .id i

/-- The type (after aliases) in the error position of a function result type `r`, where `r`
itself may be named through aliases. -/
def errorTypeOf (T : Table) (r : Ty) : Option Ty :=
  match aliasTarget T (T.length + 1) r with
  | .id i =>
    match T[i]? with
    | some (.result _ (some e)) =>
      match aliasTarget T (T.length + 1) e with
      | .id d => some (.id d)
      | .prim _ => none
    | _ => none
  | .prim _ => none

end Witverif.Text.TypesEqSpec
