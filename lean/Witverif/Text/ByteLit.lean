import Witverif.Text.ByteLitBase
import Witverif.Generated.RustSection
/-
Model of how `emit_custom_section` (crates/rust/src/lib.rs) writes the component-type metadata into
the Rust source text:

    pub static __WIT_BINDGEN_COMPONENT_TYPE: [u8; N] = *b"\
    <escaped bytes, a `\`-newline continuation whenever line_length >= 80>";

The escape table (`match byte { … }`) and the wrap width are *generated* from the source text
(`Generated/RustSection.lean`), so the theorems are re-proved against what the code says now.
Specification side (`ByteLitSpec`): the Rust lexer's reading of a byte-string literal — escapes
`\\ \" \' \0 \n \t \r \xHH`, and `\` followed by a newline skips that newline and ALL following
whitespace (The Rust Reference, "Byte string literals" / "String continuation escapes").
Import-free apart from the table.
-/
namespace Witverif.Text.ByteLit

def inRange (lo hi b : Nat) : Bool := lo ≤ b && b ≤ hi

/-- `u8::is_ascii_*` -/
def Class.holds : Class → Nat → Bool
  | .alnum, b => inRange 48 57 b || inRange 65 90 b || inRange 97 122 b
  | .punct, b => inRange 33 47 b || inRange 58 64 b || inRange 91 96 b || inRange 123 126 b
  | .graphic, b => inRange 33 126 b
  | .alpha, b => inRange 65 90 b || inRange 97 122 b
  | .digit, b => inRange 48 57 b
  | .whitespace, b => b == 32 || b == 9 || b == 10 || b == 12 || b == 13
  | .upper, b => inRange 65 90 b
  | .lower, b => inRange 97 122 b
  | .control, b => b ≤ 31 || b == 127
  | .ascii, b => b ≤ 127
  | .hexdigit, b => inRange 48 57 b || inRange 65 70 b || inRange 97 102 b

def Pat.matches : Pat → Nat → Bool
  | .byte n, b => b == n
  | .range lo hi, b => inRange lo hi b
  | .classes cs, b => cs.any (·.holds b)
  | .any, _ => true

/-- the action of the first arm that matches (`match` is first-match; `.hex` if none does) -/
def actOf : List (Pat × Act) → Nat → Act
  | [], _ => .hex
  | (p, a) :: rest, b => if p.matches b then a else actOf rest b

def hexDigit (n : Nat) : Char := if n < 10 then Char.ofNat (48 + n) else Char.ofNat (87 + n)

/-- the characters written for one byte -/
def escByte (arms : List (Pat × Act)) (b : Nat) : List Char :=
  match actOf arms b with
  | .lit s => s
  | .verbatim => [Char.ofNat b]
  | .hex => ['\\', 'x', hexDigit (b / 16), hexDigit (b % 16)]

/-- the loop body with an arbitrary decision, per byte, whether a continuation precedes it -/
def emitW (arms : List (Pat × Act)) : List Bool → List Nat → List Char
  | w :: ws, b :: bs => (if w then ['\\', '\n'] else []) ++ escByte arms b ++ emitW arms ws bs
  | _, _ => []

/-- the loop as written: `line_length` counts the characters since the last continuation -/
def emitLoop (arms : List (Pat × Act)) (width : Nat) : Nat → List Nat → List Char
  | _, [] => []
  | ll, b :: bs =>
    let wrap := decide (ll ≥ width)
    let e := escByte arms b
    (if wrap then ['\\', '\n'] else []) ++ e ++ emitLoop arms width ((if wrap then 0 else ll) + e.length) bs

/-- the wrap decisions the loop takes -/
def wrapsOf (arms : List (Pat × Act)) (width : Nat) : Nat → List Nat → List Bool
  | _, [] => []
  | ll, b :: bs =>
    let wrap := decide (ll ≥ width)
    wrap :: wrapsOf arms width ((if wrap then 0 else ll) + (escByte arms b).length) bs

/-- everything between `*b"` and the closing `";`: the initial `\`-newline, then the loop -/
def emitBody (arms : List (Pat × Act)) (width : Nat) (bs : List Nat) : List Char :=
  '\\' :: '\n' :: emitLoop arms width 0 bs

/-- the real generator's literal body -/
def sectionLiteral (bs : List Nat) : List Char :=
  emitBody Witverif.Generated.RustSection.arms Witverif.Generated.RustSection.wrapWidth bs

end Witverif.Text.ByteLit

/-! ## Specification side: the Rust lexer on a byte-string literal (does not mention the model) -/
namespace Witverif.Text.ByteLitSpec

def isWs (c : Char) : Bool := c == ' ' || c == '\t' || c == '\n' || c == '\r'

def hexVal (c : Char) : Option Nat :=
  if '0' ≤ c ∧ c ≤ '9' then some (c.toNat - 48)
  else if 'a' ≤ c ∧ c ≤ 'f' then some (c.toNat - 87)
  else if 'A' ≤ c ∧ c ≤ 'F' then some (c.toNat - 55)
  else none

def consB (b : Nat) : Option (List Nat × List Char) → Option (List Nat × List Char)
  | some (bs, r) => some (b :: bs, r)
  | none => none

/-- Read the body of a byte-string literal up to its closing `"`; returns the bytes and the text
after the quote.  `skip` = a string continuation is in progress (whitespace is being skipped).
`none` = not a well-formed literal body (unknown escape, non-ASCII character, no closing quote). -/
def decode : Bool → List Char → Option (List Nat × List Char)
  | _, [] => none
  | skip, c :: cs =>
    if skip && isWs c then decode true cs
    else if c == '"' then some ([], cs)
    else if c == '\\' then
      match cs with
      | '\n' :: r => decode true r
      | '\\' :: r => consB 92 (decode false r)
      | '"' :: r => consB 34 (decode false r)
      | '\'' :: r => consB 39 (decode false r)
      | '0' :: r => consB 0 (decode false r)
      | 'n' :: r => consB 10 (decode false r)
      | 't' :: r => consB 9 (decode false r)
      | 'r' :: r => consB 13 (decode false r)
      | 'x' :: h1 :: h2 :: r =>
        match hexVal h1, hexVal h2 with
        | some a, some b => consB (a * 16 + b) (decode false r)
        | _, _ => none
      | _ => none
    else if c.toNat < 128 && c != '\r' then consB c.toNat (decode false cs)
    else none

/-- the literal `*b"<body>";` as a whole denotes exactly `bytes` -/
def literalDenotes (body : List Char) (bytes : List Nat) : Bool :=
  match decode false body with
  | some (bs, rest) => bs == bytes && rest.take 1 == [';']
  | none => false

end Witverif.Text.ByteLitSpec
