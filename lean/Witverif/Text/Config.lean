import Witverif.Text.RustStr
import Witverif.Text.RustStr2
/-
Model of the test-configuration reader (crates/test/src/config.rs).

  pub fn parse_test_config<T>(contents: &str, comment: &str) -> Result<T> {
      let config_lines: Vec<_> = contents.lines()
          .take_while(|l| l.starts_with(comment))
          .map(|l| &l[comment.len()..])
          .collect();
      let config_text = config_lines.join("\n");
      toml::from_str(&config_text).context("failed to parse the test configuration")
  }

  enum StringList { String(String), List(Vec<String>) }
  impl From<StringList> for Vec<String>:  String(s) => s.split_whitespace()…collect(),  List(l) => l

The TOML parser (`toml` crate) is external: the model stops at `config_text`.
Strings are `List Char`.  Import-free apart from the `RustStr` primitives.
-/
namespace Witverif.Text.Config
open Witverif.Text

/-- `config_lines` -/
def configLines (contents comment : List Char) : List (List Char) :=
  ((RustStr.lines contents).takeWhile (fun l => RustStr.startsWith l comment)).map
    (fun l => l.drop comment.length)          -- `&l[comment.len()..]`

/-- `config_text` -/
def configText (contents comment : List Char) : List Char :=
  RustStr2.join ['\n'] (configLines contents comment)

inductive StringList
  | string (s : List Char)
  | list (l : List (List Char))
deriving Repr, DecidableEq

/-- `impl From<StringList> for Vec<String>` -/
def StringList.toVec : StringList → List (List Char)
  | .string s => RustStr2.splitWhitespace s
  | .list l => l

/-- `StringList::default()` -/
def StringList.default : StringList := .list []

end Witverif.Text.Config

/-! ## Specification side (independent of the model of the code)

* The configuration of a file is read off its list of lines by one recursion: while the line is
  `marker ++ body`, emit `body`; stop for good at the first line that is not of this shape.
  `acceptsConfig` judges an observed configuration text.
* The words of a string are judged by a checker, not produced: `isWordsOf s ws` holds when `s` is
  white space, then `w₁`, then at least one white character, … , `wₙ`, then white space, with every
  `wᵢ` non-empty and free of white space. -/
namespace Witverif.Text.ConfigSpec
open Witverif.Text

/-- `marker ++ body = line` solved for `body` -/
def bodyOf : (marker line : List Char) → Option (List Char)
  | [], l => some l
  | _ :: _, [] => none
  | m :: ms, c :: cs => if m = c then bodyOf ms cs else none

/-- bodies of the leading block of marker lines -/
def leadingBodies (marker : List Char) : List (List Char) → List (List Char)
  | [] => []
  | l :: ls =>
    match bodyOf marker l with
    | some b => b :: leadingBodies marker ls
    | none => []

/-- bodies separated by single `\n` (no trailing newline) -/
def unlines : List (List Char) → List Char
  | [] => []
  | b :: bs => b ++ bs.flatMap (fun x => '\n' :: x)

/-- the observed configuration text is the one the file's leading comment block spells -/
def acceptsConfig (contents marker observed : List Char) : Bool :=
  observed == unlines (leadingBodies marker (RustStr.lines contents))

/-- `ws` are the words of `s` -/
def isWordsOf : List Char → List (List Char) → Bool
  | s, [] => s.all RustStr.isWhite
  | s, w :: ws =>
    let s' := s.dropWhile RustStr.isWhite
    let r := s'.drop w.length
    !w.isEmpty && w.all (fun c => !RustStr.isWhite c) && w.isPrefixOf s' &&
      (match r with | [] => true | c :: _ => RustStr.isWhite c) && isWordsOf r ws

/-- the observed argument vector is what the configuration value means -/
def acceptsArgs : Config.StringList → List (List Char) → Bool
  | .string s, observed => isWordsOf s observed
  | .list l, observed => observed == l

end Witverif.Text.ConfigSpec
