/-
Model of `heck::ToSnakeCase` (heck 0.5.0, `src/lib.rs::transform` + `lowercase`, `src/snake.rs`).

  for word in s.split(|c| !c.is_alphanumeric()) {          -- `splitWords`
      let (mut init, mut mode) = (0, Boundary);
      while let Some((i, c)) = chars.next() {               -- `wordSegs` (cur = word[init..i])
          if let Some(next) = peek {
              next_mode = lower if c.is_lowercase, upper if c.is_uppercase, else mode
              if next_mode == Lowercase && next.is_uppercase()      { emit word[init..=i]; init = i+1; mode = Boundary }
              else if mode == Uppercase && c.is_uppercase() && next.is_lowercase()
                                                                    { emit word[init..i];  init = i;   mode = Boundary }
              else { mode = next_mode }
          } else { emit word[init..]; break }
      }
  }
  emit(seg) = (if !first_word { "_" }) ++ lowercase(seg)            -- `joinU ∘ map lowerSeg`
  lowercase(seg): per char `to_lowercase()`, except a final 'Σ' becomes 'ς'.

Character classes (`char::is_alphanumeric / is_lowercase / is_uppercase / to_lowercase`) are exact
for ASCII; outside ASCII the model knows the characters of `table` only and treats every other
non-ASCII character as a separator (this is the declared domain of the model; the `heck` glue
correspondence draws its non-ASCII characters from this table plus two genuine separators).
Import-free: linked into the driver executables.
-/
namespace Witverif.Text.Heck

/-- A non-ASCII character known to the model: its `is_lowercase`, `is_uppercase`, `to_lowercase`.
All table characters are `is_alphanumeric`. -/
structure UChar where
  c : Char
  lower : Bool
  upper : Bool
  toLower : List Char
deriving Repr

def table : List UChar := [
  ⟨'é', true, false, ['é']⟩,
  ⟨'É', false, true, ['é']⟩,
  ⟨'ß', true, false, ['ß']⟩,
  ⟨'Σ', false, true, ['σ']⟩,
  ⟨'σ', true, false, ['σ']⟩,
  ⟨'ς', true, false, ['ς']⟩,
  ⟨'ǅ', false, false, ['ǆ']⟩,          -- titlecase letter: cased neither way, still lowered
  ⟨'İ', false, true, ['i', Char.ofNat 0x307]⟩,  -- lowercases to two characters (i + combining dot above)
  ⟨'中', false, false, ['中']⟩,
  ⟨'٣', false, false, ['٣']⟩,           -- Nd digit
  ⟨'²', false, false, ['²']⟩,           -- No numeric
  ⟨'ª', true, false, ['ª']⟩,            -- Other_Lowercase
  ⟨'Ⅷ', false, true, ['ⅷ']⟩,          -- Other_Uppercase, Nl numeric
  ⟨'ⅷ', true, false, ['ⅷ']⟩
]

def lookup (c : Char) : Option UChar := table.find? (fun e => e.c == c)

def isAsciiLower (c : Char) : Bool := 97 ≤ c.toNat && c.toNat ≤ 122
def isAsciiUpper (c : Char) : Bool := 65 ≤ c.toNat && c.toNat ≤ 90
def isAsciiDigit (c : Char) : Bool := 48 ≤ c.toNat && c.toNat ≤ 57

/-- `char::is_alphanumeric` -/
def isAlnum (c : Char) : Bool :=
  if c.toNat < 128 then isAsciiLower c || isAsciiUpper c || isAsciiDigit c
  else (lookup c).isSome

/-- `char::is_lowercase` -/
def isLower (c : Char) : Bool :=
  if c.toNat < 128 then isAsciiLower c
  else match lookup c with | some e => e.lower | none => false

/-- `char::is_uppercase` -/
def isUpper (c : Char) : Bool :=
  if c.toNat < 128 then isAsciiUpper c
  else match lookup c with | some e => e.upper | none => false

/-- `char::to_lowercase` (an iterator of one or more characters) -/
def lowerChar (c : Char) : List Char :=
  if c.toNat < 128 then (if isAsciiUpper c then [Char.ofNat (c.toNat + 32)] else [c])
  else match lookup c with | some e => e.toLower | none => [c]

/-- `s.split(|c| !c.is_alphanumeric())`: all pieces, empty ones included. -/
def splitWords : List Char → List (List Char)
  | [] => [[]]
  | c :: cs =>
    if isAlnum c then
      match splitWords cs with
      | w :: ws => (c :: w) :: ws
      | [] => [[c]]
    else [] :: splitWords cs

inductive Mode
  | boundary | lower | upper
deriving DecidableEq, Repr

def nextMode (m : Mode) (c : Char) : Mode :=
  if isLower c then .lower else if isUpper c then .upper else m

/-- The `while let` loop over one word; `cur` is `word[init..i]`. Returns the emitted segments. -/
def wordSegs : List Char → List Char → Mode → List (List Char)
  | [], _, _ => []
  | [c], cur, _ => [cur ++ [c]]
  | c :: n :: rest, cur, m =>
    if nextMode m c == .lower && isUpper n then
      (cur ++ [c]) :: wordSegs (n :: rest) [] .boundary
    else if m == .upper && isUpper c && isLower n then
      cur :: wordSegs (n :: rest) [c] .boundary
    else wordSegs (n :: rest) (cur ++ [c]) (nextMode m c)

/-- heck's `lowercase(seg)`. -/
def lowerSeg : List Char → List Char
  | [] => []
  | [c] => if c == 'Σ' then ['ς'] else lowerChar c
  | c :: cs => lowerChar c ++ lowerSeg cs

/-- All segments of a string in emission order, lowercased. -/
def segments (s : List Char) : List (List Char) :=
  ((splitWords s).flatMap (fun w => wordSegs w [] .boundary)).map lowerSeg

/-- Segments joined by the `boundary` callback of snake case (`_`). -/
def joinU : List (List Char) → List Char
  | [] => []
  | [x] => x
  | x :: y :: ys => x ++ '_' :: joinU (y :: ys)

/-- `str::to_snake_case` -/
def snake (s : List Char) : List Char := joinU (segments s)

end Witverif.Text.Heck
