/-
Rust `str` primitives on `List Char`, shared by the text models (Source, CheckMode, …).
Import-free.  Each function is compared with the real `std` function on seeded strings by the
`ruststr` engine of `harness/text-run` ("glue" correspondence, reported separately).

Transcribed from library/core/src/str (Rust 1.95):
  * `char::is_whitespace`  = Unicode `White_Space`
  * `str::trim_start/trim_end/trim` = strip `White_Space` code points at the ends
  * `str::lines` = `split_inclusive('\n')`, then for each piece: strip the final `\n`; if one was
    stripped, strip one `\r` in front of it.  No trailing empty line for a final `\n`; a bare `\r`
    at the end of an unterminated last line is kept.
  * `starts_with/ends_with` on a string or char pattern = prefix / suffix test
  * `char::is_control` = general category `Cc` = U+0000..U+001F, U+007F..U+009F
-/
namespace Witverif.Text.RustStr

/-- `char::is_whitespace`: the 25 `White_Space` code points. -/
def isWhite (c : Char) : Bool :=
  let n := c.toNat
  (0x9 ≤ n && n ≤ 0xD) || n == 0x20 || n == 0x85 || n == 0xA0 || n == 0x1680 ||
  (0x2000 ≤ n && n ≤ 0x200A) || n == 0x2028 || n == 0x2029 || n == 0x202F || n == 0x205F ||
  n == 0x3000

/-- `char::is_control` (general category `Cc`). -/
def isControl (c : Char) : Bool :=
  let n := c.toNat
  n ≤ 0x1F || (0x7F ≤ n && n ≤ 0x9F)

def trimStart (s : List Char) : List Char := s.dropWhile isWhite
def trimEnd (s : List Char) : List Char := (s.reverse.dropWhile isWhite).reverse
def trim (s : List Char) : List Char := trimEnd (trimStart s)

def startsWith (s p : List Char) : Bool := p.isPrefixOf s
def endsWith (s p : List Char) : Bool := p.reverse.isPrefixOf s.reverse

/-- `split_inclusive('\n')`, each piece given as (text without the `\n`, was it terminated by `\n`).
Only the last piece can be unterminated, and then it is non-empty. -/
def splitNl : List Char → List (List Char × Bool)
  | [] => []
  | c :: cs =>
    if c = '\n' then ([], true) :: splitNl cs
    else match splitNl cs with
      | [] => [([c], false)]
      | (l, t) :: r => (c :: l, t) :: r

/-- strip one trailing `\r` -/
def stripCrEnd (l : List Char) : List Char :=
  if l.getLast? = some '\r' then l.dropLast else l

/-- the `LinesMap` closure: a `\r` is stripped only in front of a stripped `\n` -/
def lineOf (p : List Char × Bool) : List Char := if p.2 then stripCrEnd p.1 else p.1

/-- `str::lines().collect::<Vec<_>>()` -/
def lines (s : List Char) : List (List Char) := (splitNl s).map lineOf

/-- inverse of `splitNl` -/
def joinNl : List (List Char × Bool) → List Char
  | [] => []
  | (l, t) :: r => l ++ (if t then ['\n'] else []) ++ joinNl r

end Witverif.Text.RustStr
