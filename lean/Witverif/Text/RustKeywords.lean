/-
Specification table: the keywords of Rust, edition 2024 (The Rust Reference, "Keywords").
Generated bindings are compiled by their consumers with the edition of the consuming crate; the
repository's own acceptance test (crates/test/src/rust.rs `verify`) compiles them with
`--edition=2021` and `--edition=2024`, and the workspace itself is `edition = "2024"`.
Weak keywords (`'static`, `macro_rules`, `raw`, `safe`, `union`) are usable as identifiers and are
not listed.  Import-free.
-/
namespace Witverif.Text.RustKeywords

/-- strict keywords (all editions) and those added in 2018 (`async`, `await`, `dyn`) -/
def strict : List (List Char) := [
  "as", "break", "const", "continue", "crate", "else", "enum", "extern", "false", "fn", "for", "if",
  "impl", "in", "let", "loop", "match", "mod", "move", "mut", "pub", "ref", "return", "self", "Self",
  "static", "struct", "super", "trait", "true", "type", "unsafe", "use", "where", "while",
  "async", "await", "dyn"].map String.toList

/-- reserved keywords: all editions, plus `try` (2018+) and `gen` (2024+) -/
def reserved : List (List Char) := [
  "abstract", "become", "box", "do", "final", "macro", "override", "priv", "typeof", "unsized",
  "virtual", "yield", "try", "gen"].map String.toList

/-- an identifier spelled like one of these is rejected by rustc --edition 2024 -/
def keywords2024 : List (List Char) := strict ++ reserved

/-- keywords that cannot even be written as raw identifiers (`r#…`); the generator escapes with a
trailing `_` instead of `r#`, so this matters only as documentation of why it does so -/
def cannotBeRaw : List (List Char) := ["crate", "self", "Self", "super"].map String.toList

end Witverif.Text.RustKeywords
