import Witverif.Text.RustStr
/-
More Rust `str` / slice primitives on `List Char` (companion of `RustStr.lean`, which is owned by
the `Source` model; this file adds what the test-configuration model needs).  Import-free apart
from `RustStr`.  Compared with the real `std` functions by the `glue` ops of `harness/config-run`.

  * `str::split_whitespace()` = split at `char::is_whitespace`, empty pieces dropped
  * `[&str]::join(sep)`
  * `&l[n..]` after `l.starts_with(p)` with `n = p.len()`  (= dropping the prefix's characters)
-/
namespace Witverif.Text.RustStr2
open Witverif.Text.RustStr (isWhite)

/-- put a character in front of the first word -/
def consWord (c : Char) : List (List Char) → List (List Char)
  | w :: ws => (c :: w) :: ws
  | [] => [[c]]      -- not reached from `splitWhitespace`: the rest starts with a non-white character

/-- `s.split_whitespace().collect::<Vec<_>>()`.  Structural: a non-white character either closes
a one-character word (next is white / end) or is put in front of the first word of the rest. -/
def splitWhitespace : List Char → List (List Char)
  | [] => []
  | c :: cs =>
    if isWhite c then splitWhitespace cs
    else match cs with
      | [] => [[c]]
      | d :: _ =>
        if isWhite d then [c] :: splitWhitespace cs
        else consWord c (splitWhitespace cs)

/-- `pieces.join(sep)` -/
def join (sep : List Char) : List (List Char) → List Char
  | [] => []
  | [x] => x
  | x :: y :: r => x ++ sep ++ join sep (y :: r)

end Witverif.Text.RustStr2
