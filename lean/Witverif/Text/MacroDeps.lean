/-
Model of the file-dependency logic of `wit_bindgen::generate!` (C32).

Anchors
  crates/guest-rust/macro/src/lib.rs
    `impl Parse for Config`   — how `path:` / `inline:` options (any order) or the bare forms
                                `generate!()`, `generate!("w")`, `generate!("w" in "p")` become a
                                `Option<Source>`                                  → `foldOpts`, `sourceOf`
    `parse_source`            — `root.join(path)`, `canonicalize`, `Resolve::push_path`,
                                `files.extend(sources.paths())`, the default `wit` directory,
                                inline + path                                      → `parsePaths`, `parseSource`
    `Config::expand`          — one `const _: &[u8] = include_bytes!(r#"…"#);` per element of
                                `files`                                            → `expandIncludes`
  wit-parser 0.257.0 `src/resolve/fs.rs` (`push_path`, `push_dir`, `parse_deps_dir`, `push_file`),
  `src/ast.rs` (`SourceMap::push_dir`), `src/resolve/mod.rs` (`PackageSources::source_names`)
                                                                                   → `pushPath` …
    wit-parser is an external crate: its model here is the *assumption* side of C32 ("push_path
    reports every file it read"), written from its source so that the assumption is checked, not
    postulated; the correspondence run compares it with what the real crate does.

The file system is an oracle: a finite list of entries (parent directory, name, kind).  Paths are
kept innermost-component-first (`"/a/b/c.wit"` = `["c.wit","b","a"]`), so a child path is `n :: d`.
No symbolic links (declared domain of the model).  File contents are abstracted to what
wit-parser does with them: valid WIT text, text/bytes it rejects, or a wasm-encoded WIT package.
Whether name resolution between the parsed packages succeeds is not modelled (the model then says
`ok`; over-approximating success only strengthens the theorems, which are conditional on success).

Import-free: linked into the driver executable `m_macrodeps`.
-/
namespace Witverif.Text.MacroDeps

abbrev Name := List Char
/-- absolute path, innermost component first; `[]` is the root directory -/
abbrev RPath := List Name

inductive Content
  | wit       -- UTF-8 text that wit-parser accepts as (part of) a WIT package
  | bad       -- anything wit-parser rejects (syntax error, invalid UTF-8, a real component, …)
  | wasmPkg   -- a WIT package in its binary (wasm) encoding
deriving DecidableEq, Repr

inductive Kind
  | dir
  | file (c : Content)
deriving DecidableEq, Repr

structure Ent where
  parent : RPath
  name : Name
  kind : Kind
deriving DecidableEq, Repr

/-- entries in `read_dir` order -/
abbrev FS := List Ent

def lookup (fs : FS) : RPath → Option Kind
  | [] => some .dir
  | n :: d => (fs.find? (fun e => e.parent == d && e.name == n)).map (·.kind)

def isDir (fs : FS) (p : RPath) : Bool := lookup fs p == some .dir

/-- `read_dir(d)`: names and kinds of the entries whose parent is `d` -/
def children (fs : FS) (d : RPath) : List (Name × Kind) :=
  (fs.filter (fun e => e.parent == d)).map (fun e => (e.name, e.kind))

/-! ### path strings, `PathBuf::join`, `fs::canonicalize` -/

/-- A path as written in the macro invocation, split at `/` (empty components dropped). -/
structure PathArg where
  abs : Bool
  comps : List Name
deriving DecidableEq, Repr

def dot : Name := ['.']
def dotdot : Name := ['.', '.']

/-- OS path resolution without symlinks: every directory stepped through must exist. -/
def walk (fs : FS) : RPath → List Name → Option RPath
  | cur, [] => some cur
  | cur, c :: cs =>
    if !isDir fs cur then none
    else if c == dot then walk fs cur cs
    else if c == dotdot then walk fs cur.tail cs
    else walk fs (c :: cur) cs

/-- `fs::canonicalize(root.join(path))`; `none` = the path does not exist. -/
def canonicalize (fs : FS) (root : RPath) (p : PathArg) : Option RPath :=
  match walk fs (if p.abs then [] else root) p.comps with
  | some r => if (lookup fs r).isSome then some r else none
  | none => none

/-! ### wit-parser: what `push_path` reads and what it reports -/

def witSuffix : Name := ['.', 'w', 'i', 't']

def endsWithWit (n : Name) : Bool := witSuffix.isSuffixOf n

/-- `Path::extension`: the part after the last `.`, unless there is no `.` or nothing before it. -/
def extension (n : Name) : Option Name :=
  let r := n.reverse
  match r.dropWhile (· != '.') with
  | [] => none
  | _ :: before => if before.isEmpty then none else some (r.takeWhile (· != '.')).reverse

def depExts : List Name := [['w', 'i', 't'], ['w', 'a', 't'], ['w', 'a', 's', 'm']]

def isDepFileName (n : Name) : Bool :=
  match extension n with
  | some e => depExts.contains e
  | none => false

/-- Outcome of a piece of the traversal. -/
structure R where
  reads : List RPath              -- files whose *contents* were read, in order
  listed : List RPath             -- directories enumerated with `read_dir`
  tracked : Option (List RPath)   -- `none` = error; `some l` = the paths reported in `sources`
deriving DecidableEq, Repr

/-- `SourceMap::push_dir`: the non-directory entries of `d` whose name ends in `.wit`. -/
def witMembers (fs : FS) (d : RPath) : List (Name × Content) :=
  (children fs d).filterMap fun
    | (n, .file c) => if endsWithWit n then some (n, c) else none
    | (_, .dir) => none

def witFilesOf (fs : FS) (d : RPath) : List RPath := (witMembers fs d).map (fun m => m.1 :: d)

/-- `parse_source_map` on the group read from `d`: needs at least one file, all of them WIT text. -/
def groupOk (fs : FS) (d : RPath) : Bool :=
  let ms := witMembers fs d
  !ms.isEmpty && ms.all (fun m => m.2 == .wit)

/-- insertion into a list sorted by name (`entries.sort_by_key(|e| e.file_name())`) -/
def nameLe : Name → Name → Bool
  | [], _ => true
  | _ :: _, [] => false
  | a :: as, b :: bs => if a.toNat < b.toNat then true else if b.toNat < a.toNat then false else nameLe as bs

def insertSorted (x : Name × Kind) : List (Name × Kind) → List (Name × Kind)
  | [] => [x]
  | y :: ys => if nameLe x.1 y.1 then x :: y :: ys else y :: insertSorted x ys

def sortEntries : List (Name × Kind) → List (Name × Kind)
  | [] => []
  | x :: xs => insertSorted x (sortEntries xs)

/-- the loop of `parse_deps_dir` over the sorted entries of `dd = <dir>/deps` -/
def depsLoop (fs : FS) (dd : RPath) : List (Name × Kind) → R
  | [] => ⟨[], [], some []⟩
  | (n, .dir) :: rest =>
    let fsn := witFilesOf fs (n :: dd)
    if groupOk fs (n :: dd) then
      let r := depsLoop fs dd rest
      ⟨fsn ++ r.reads, (n :: dd) :: r.listed, r.tracked.map (fsn ++ ·)⟩
    else ⟨fsn, [n :: dd], none⟩
  | (n, .file c) :: rest =>
    if isDepFileName n then
      match c with
      | .wit =>
        let r := depsLoop fs dd rest
        ⟨(n :: dd) :: r.reads, r.listed, r.tracked.map ((n :: dd) :: ·)⟩
      | .wasmPkg =>
        -- `ParsedFile::Package(_) => continue`: decoded and merged, but its path is not recorded
        let r := depsLoop fs dd rest
        ⟨(n :: dd) :: r.reads, r.listed, r.tracked⟩
      | .bad => ⟨[n :: dd], [], none⟩
    else depsLoop fs dd rest

def depsName : Name := ['d', 'e', 'p', 's']

/-- `List::eraseDups` spelled out (`IndexSet` of `source_names`) -/
def dedup : List RPath → List RPath
  | [] => []
  | x :: xs => x :: (dedup xs).filter (· != x)

/-- `Resolve::push_dir` -/
def pushDir (fs : FS) (d : RPath) : R :=
  let main := witFilesOf fs d
  if !groupOk fs d then ⟨main, [d], none⟩
  else
    let dd := depsName :: d
    match lookup fs dd with
    | none => ⟨main, [d], some (dedup main)⟩
    | some (.file _) => ⟨main, [d], none⟩                 -- `read_dir` of a file fails
    | some .dir =>
      let r := depsLoop fs dd (sortEntries (children fs dd))
      ⟨main ++ r.reads, d :: dd :: r.listed, r.tracked.map (fun t => dedup (main ++ t))⟩

/-- `Resolve::push_path` on an existing canonical path -/
def pushPath (fs : FS) (p : RPath) : R :=
  match lookup fs p with
  | some .dir => pushDir fs p
  | some (.file .bad) => ⟨[p], [], none⟩
  | some (.file _) => ⟨[p], [], some [p]⟩     -- WIT text or wasm-encoded: `from_single_source`
  | none => ⟨[], [], none⟩                     -- `fs::read` fails

/-! ### the macro -/

/-- the closure `parse` of `parse_source`: sequential, stops at the first error (`?`) -/
def parsePaths (fs : FS) (root : RPath) : List PathArg → R
  | [] => ⟨[], [], some []⟩
  | p :: ps =>
    match canonicalize fs root p with
    | none => ⟨[], [], none⟩         -- falls back to the un-normalised path, which cannot be read
    | some c =>
      let r := pushPath fs c
      match r.tracked with
      | none => r
      | some t =>
        let r' := parsePaths fs root ps
        ⟨r.reads ++ r'.reads, r.listed ++ r'.listed, r'.tracked.map (t ++ ·)⟩

inductive Source
  | paths (ps : List PathArg)
  | inline (ok : Bool) (ps : Option (List PathArg))   -- `ok`: the inline text parses and resolves
deriving DecidableEq, Repr

def witName : Name := ['w', 'i', 't']

/-- `root.join("wit")` as a path argument (absolute) -/
def defaultArg (root : RPath) : PathArg := ⟨true, root.reverse ++ [witName]⟩

def failIf (r : R) (ok : Bool) : R := if ok then r else { r with tracked := none }

/-- `parse_source` -/
def parseSource (fs : FS) (root : RPath) : Option Source → R
  | some (.inline ok (some ps)) => failIf (parsePaths fs root ps) ok
  | some (.inline ok none) =>
    if (lookup fs (witName :: root)).isSome then failIf (parsePaths fs root [defaultArg root]) ok
    else failIf ⟨[], [], some []⟩ ok
  | some (.paths ps) => parsePaths fs root ps
  | none => parsePaths fs root [defaultArg root]

/-- source-selecting options of the braced form, in the order written -/
inductive SrcOpt
  | path (ps : List PathArg)
  | inline (ok : Bool)
deriving DecidableEq, Repr

/-- the `match source { … }` arms of `Config::parse`; `none` = "cannot specify second source" -/
def stepOpt : Option Source → SrcOpt → Option (Option Source)
  | some (.paths _), .path _ => none
  | some (.inline _ (some _)), .path _ => none
  | some (.inline i none), .path ps => some (some (.inline i (some ps)))
  | none, .path ps => some (some (.paths ps))
  | some (.inline _ _), .inline _ => none
  | some (.paths p), .inline ok => some (some (.inline ok (some p)))
  | none, .inline ok => some (some (.inline ok none))

def foldOpts : Option Source → List SrcOpt → Option (Option Source)
  | s, [] => some s
  | s, o :: os =>
    match stepOpt s o with
    | none => none
    | some s' => foldOpts s' os

inductive Invocation
  | braces (opts : List SrcOpt)
  | bare (inPath : Option PathArg)       -- `generate!()`, `generate!("w")`, `generate!("w" in "p")`
deriving DecidableEq, Repr

def sourceOf : Invocation → Option (Option Source)
  | .braces opts => foldOpts none opts
  | .bare none => some none
  | .bare (some p) => some (some (.paths [p]))

/-- One macro expansion. `laterOk`: world selection and code generation succeed
(`select_world`, `generator.generate`); on any error the macro expands to `compile_error!`
and nothing is tracked. -/
def run (fs : FS) (root : RPath) (inv : Invocation) (laterOk : Bool) : R :=
  match sourceOf inv with
  | none => ⟨[], [], none⟩
  | some src => failIf (parseSource fs root src) laterOk

def filesRead (fs : FS) (root : RPath) (inv : Invocation) (laterOk : Bool) : List RPath :=
  (run fs root inv laterOk).reads

def filesTracked (fs : FS) (root : RPath) (inv : Invocation) (laterOk : Bool) : List RPath :=
  ((run fs root inv laterOk).tracked).getD []

/-! ### `Config::expand`: the dependency anchors -/

def includePre : List Char := "const _: &[u8] = include_bytes!(r#\"".toList
def includePost : List Char := "\"#);\n".toList

/-- `format!("const _: &[u8] = include_bytes!(r#\"{}\"#);\n", file.display())` for every file -/
def expandIncludes : List (List Char) → List Char
  | [] => []
  | f :: fs => includePre ++ f ++ includePost ++ expandIncludes fs

/-- `path.display()` of an absolute path -/
def display : RPath → List Char
  | [] => ['/']
  | p => p.reverse.flatMap (fun n => '/' :: n)

end Witverif.Text.MacroDeps

/-! ## Specification side (does not mention the model of the code) -/
namespace Witverif.Text.MacroDepsSpec

/-- C32 on one observed expansion: every file that was read is a recorded dependency. -/
def readSubsetTracked (reads tracked : List (List (List Char))) : Bool :=
  reads.all (fun p => tracked.contains p)

/-- Rust's lexing of a raw string literal `r#"…"#`: the body ends at the first `"#`. -/
def rawBody : List Char → Option (List Char × List Char)
  | [] => none
  | '"' :: '#' :: rest => some ([], rest)
  | c :: rest =>
    match rawBody rest with
    | some (b, r) => some (c :: b, r)
    | none => none

def stripPrefix (p : List Char) (s : List Char) : Option (List Char) :=
  if p.isPrefixOf s then some (s.drop p.length) else none

def anchorOpen : List Char := "const _: &[u8] = include_bytes!(r#\"".toList
def anchorClose : List Char := ");\n".toList

/-- What rustc sees in the emitted anchors: the sequence of paths given to `include_bytes!`.
`fuel` bounds the number of items (the text length suffices). -/
def includedPaths : Nat → List Char → Option (List (List Char))
  | _, [] => some []
  | 0, _ :: _ => none
  | fuel + 1, s =>
    match stripPrefix anchorOpen s with
    | none => none
    | some s1 =>
      match rawBody s1 with
      | none => none
      | some (body, s2) =>
        match stripPrefix anchorClose s2 with
        | none => none
        | some s3 =>
          match includedPaths fuel s3 with
          | some ps => some (body :: ps)
          | none => none

/-- the path text does not contain `"#` -/
def rawSafe : List Char → Bool
  | [] => true
  | '"' :: '#' :: _ => false
  | _ :: rest => rawSafe rest

end Witverif.Text.MacroDepsSpec
