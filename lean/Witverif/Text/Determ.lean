import Witverif.Generated.HashSites
/-
C15, model side: what each *consumer class* of the hash-iteration inventory
(`Generated/HashSites.lean`) does with the elements it receives, as small total functions over
lists.  The order in which a `HashMap`/`HashSet` yields its elements is modelled as an arbitrary
permutation of a fixed list (std's `RandomState` picks one per process); the theorems of
`Props/C15.lean` show that the result of every order-insensitive class is the same for all
permutations.

  sorted          `v.sort()` after collecting             → `sortBy`
  btreeInsert     `BTreeMap::insert` / `Files::push`      → `btreeIter`: the insert log sorted by key
  hashInsert      `HashSet::insert` / `extend`            → a list observed through `contains` only
  reduce          `any` / `all` / `count` / `|=` folds    → `List.any`, `List.all`, `foldl (· ||| ·)`
  retainPred      `retain(|k, _| p k)`                    → `List.filter`
  perElementState `*info = merged[rep(id)]` per entry     → `List.map` of a function of the element
  emitted         `uwriteln!(out, …)` per element         → `List.foldl (· ++ ·)` (NOT permutation invariant)

Import-free apart from the generated table.
-/
namespace Witverif.Text.Determ
open Witverif.Generated.HashSites

/-! ### sorting (insertion sort: any correct sort returns the same list on total antisymmetric orders) -/

def insertSorted {α} (le : α → α → Bool) (a : α) : List α → List α
  | [] => [a]
  | b :: bs => if le a b then a :: b :: bs else b :: insertSorted le a bs

def sortBy {α} (le : α → α → Bool) : List α → List α
  | [] => []
  | a :: as => insertSorted le a (sortBy le as)

/-! ### BTreeMap<K, V> / `Files`: built from a log of inserts, observed through in-order iteration
(entries sorted by key).  With distinct keys (`Files::push` under distinct names, `BTreeMap::insert`
of the keys of a HashMap) no entry overwrites or extends another. -/

def btreeIter {κ ν} (keyLe : κ → κ → Bool) (log : List (κ × ν)) : List (κ × ν) :=
  sortBy (fun a b => keyLe a.1 b.1) log

/-! ### emission: the elements reach the output in iteration order -/

def emit (l : List String) : String := l.foldl (· ++ ·) ""

/-- the sites of the inventory whose consumer is order-sensitive -/
def sensitiveSites : List Site := sites.filter (fun s => !s.consumer.insensitive)

end Witverif.Text.Determ
