import Witverif.Text.RustStr
/-
Model of `wit_bindgen_core::Source` (crates/core/src/source.rs:36-142).

  pub struct Source { s: String, indent: usize, in_line_comment: bool, continuing_line: bool }

Strings are `List Char`, `usize` is `Nat` (no wrap of `+=`), `indent -= amt` panics on underflow
(dev profile: overflow checks on) and is an explicit error here; `saturating_sub` is `Nat` subtraction.
`as_mut_string` (raw access to `s`) is outside the model.  `write!`/`uwrite!` = `push_str`
(`impl fmt::Write`: one `push_str` per formatted piece).
Imports only the import-free `RustStr`: linked into the driver executable `m_source`.
-/
namespace Witverif.Text
open RustStr

structure Source where
  s : List Char
  indent : Nat
  inLineComment : Bool
  continuingLine : Bool
deriving Repr, DecidableEq

namespace Source

/-- `Source::default()` -/
def empty : Source := ⟨[], 0, false, false⟩

/-- `for _ in 0..self.indent { self.s.push_str("  ") }` -/
def spaces (n : Nat) : List Char := List.replicate (2 * n) ' '

/-- two `String::pop`s -/
def pop2 (s : List Char) : List Char := s.dropLast.dropLast

/-- `fn newline` (source.rs:122-126) -/
def newline (st : Source) : Source :=
  { st with inLineComment := false, continuingLine := false, s := st.s ++ ['\n'] }

/-- Body of the `for (i, line)` loop of `push_str_impl` (source.rs:64-100), without the final
`newline` decision.  `single` is `lines.len() == 1`. -/
def pushLine (single interp : Bool) (line : List Char) (st : Source) : Source :=
  -- 64-71: indentation at the start of a line, not for empty lines
  let s1 := if !st.continuingLine && !line.isEmpty then st.s ++ spaces st.indent else st.s
  -- 73-76
  let trimmed := trim line
  let cm := st.inLineComment || (interp && startsWith trimmed ['/', '/'])
  let syn := interp && !cm
  let closes := startsWith trimmed ['}']
  -- 78-83: a closing line is moved one level out by popping two spaces
  let s2 := if syn && closes && endsWith s1 [' ', ' '] then pop2 s1 else s1
  -- 84-88
  let s3 := s2 ++ (if single then line else trimStart line)
  -- 89-100
  let i1 := if syn && endsWith trimmed ['{'] then st.indent + 1 else st.indent
  let i2 := if syn && closes then i1 - 1 else i1
  ⟨s3, i2, cm, true⟩

/-- The loop over `lines` with the newline decision `i != lines.len() - 1 || src.ends_with('\n')`. -/
def pushLines (single endsNl interp : Bool) : List (List Char) → Source → Source
  | [], st => st
  | [l], st => let st := pushLine single interp l st; if endsNl then newline st else st
  | l :: ls, st => pushLines single endsNl interp ls (newline (pushLine single interp l st))

/-- `fn push_str_impl` -/
def pushStrImpl (st : Source) (src : List Char) (interp : Bool) : Source :=
  let ls := lines src
  pushLines (ls.length == 1) (endsWith src ['\n']) interp ls st

def pushStr (st : Source) (src : List Char) : Source := pushStrImpl st src true
def pushStrLiteral (st : Source) (src : List Char) : Source := pushStrImpl st src false

/-- `fn append_src`: note that `continuing_line` is not taken over. -/
def appendSrc (st src : Source) : Source :=
  { st with s := st.s ++ src.s, indent := st.indent + src.indent, inLineComment := src.inLineComment }

def addIndent (st : Source) (n : Nat) : Source := { st with indent := st.indent + n }

/-- `fn deindent`: `self.indent -= amt` panics on underflow. -/
def deindent (st : Source) (n : Nat) : Option Source :=
  if n ≤ st.indent then some { st with indent := st.indent - n } else none

/-- `fn set_indent` returns the old level. -/
def setIndent (st : Source) (n : Nat) : Source × Nat := ({ st with indent := n }, st.indent)

/-- Operations of a history.  `appendSrc` carries the other buffer as a value. -/
inductive Op
  | pushStr (t : List Char)
  | pushLit (t : List Char)
  | indent (n : Nat)
  | deindent (n : Nat)
  | setIndent (n : Nat)
  | appendSrc (other : Source)
deriving Repr

/-- One operation; `none` = panic (`deindent` below zero). -/
def step (st : Source) : Op → Option Source
  | .pushStr t => some (st.pushStr t)
  | .pushLit t => some (st.pushStrLiteral t)
  | .indent n => some (st.addIndent n)
  | .deindent n => st.deindent n
  | .setIndent n => some (st.setIndent n).1
  | .appendSrc o => some (st.appendSrc o)

/-- Run a history; `none` if some operation panicked. -/
def run (st : Source) : List Op → Option Source
  | [] => some st
  | op :: ops => match st.step op with
    | none => none
    | some st' => run st' ops

/-- The states after each operation (stops at a panic): what the correspondence compares. -/
def trace (st : Source) : List Op → List (Option Source)
  | [] => []
  | op :: ops => match st.step op with
    | none => [none]
    | some st' => some st' :: trace st' ops

end Source
end Witverif.Text

/-! ## Specification side (independent of the model of the code)

C25 as monitors over what can be observed of a `Source`: the requests of a history and, after
each request, the buffer text and the indentation level (probed with `set_indent`).  The unit of
brace interpretation is a *piece*: one `\n`-delimited line of one appended fragment (the property's
"lines", for fragments that split lines).  Nothing here mentions `Witverif.Text.Source`; only the
language-level string functions of `RustStr` (`trim`, `starts_with`, `ends_with`, `split_inclusive`).

  (1) content:   `contentStep`   the text is the appended text, up to whitespace at line starts;
                                 a failure is classified by which of three precise losses explain it
  (2) nesting:   `stepVerdict.level`  the level is Σ explicit + #opening pieces − #closing pieces (outside comments)
                 `lineIndentOk`  a line begun at level L starts with 2·L spaces (one level less for a closing piece)
                 `bufferLineStep`  the property's literal reading: the level is Σ explicit + the nesting of the
                                 buffer's own lines; a disagreement is known only when a line was assembled from
                                 several fragment pieces and the level is the per-piece one
  (3) literal:   `stepVerdict.literal`, `neutralRel`  literal text changes no level and influences nothing but itself
  (4) balanced:  `stepVerdict.balanced`  a brace-balanced fragment restores the level
`monitorAll` is what the check evaluates; after an `append_src` off a line boundary it keeps judging
content (with the stale-indentation class), literal and the deindent/set_indent API (`offSyncVerdict`).
-/
namespace Witverif.Text.SourceSpec
open RustStr

/-! ### (1) content modulo whitespace at the start of lines -/

/-- Delete the `White_Space` characters between a line start and the first other character.
The flag says whether we are still inside such leading whitespace. -/
def strip : Bool → List Char → List Char
  | _, [] => []
  | b, c :: cs =>
    if c = '\n' then c :: strip true cs
    else if b && isWhite c then strip true cs
    else c :: strip false cs

/-- The flag of `strip` after having read `s`: `true` iff the last line of `s` is blank so far. -/
def lineBlank : Bool → List Char → Bool
  | b, [] => b
  | b, c :: cs =>
    if c = '\n' then lineBlank true cs
    else if b && isWhite c then lineBlank true cs
    else lineBlank false cs

/-- "the same text up to whitespace at the start of lines" -/
def contentEq (a b : List Char) : Bool := strip true a == strip true b

/-- `\r\n` ↦ `\n` (one pass): drop every `\r` that is immediately followed by `\n` -/
def crlfToLf : List Char → List Char
  | [] => []
  | c :: cs => if c = '\r' ∧ cs.head? = some '\n' then crlfToLf cs else c :: crlfToLf cs

/-- remove the leading whitespace of the first line only -/
def trimStartLine (s : List Char) : List Char := s.dropWhile fun c => isWhite c && c != '\n'

def firstLine (t : List Char) : List Char := t.takeWhile (· != '\n')
/-- the fragment has text after a line break -/
def multiLine (t : List Char) : Bool := (splitNl t).length ≥ 2
def pop2 (s : List Char) : List Char := s.dropLast.dropLast

/-- The three known ways in which the buffer loses content (DESIGN §9 F8). -/
structure Loss where
  cr : Bool      -- a `\r` in front of `\n` is dropped
  trim : Bool    -- whitespace at the start of a multi-line fragment appended mid-line is dropped
  pop : Bool     -- two spaces in front of a closing brace appended mid-line are dropped
deriving Repr, DecidableEq

/-- Which losses can apply at all to appending `t` after `prev` (precise side conditions). -/
def applicable (prev t : List Char) (interp : Bool) : Loss :=
  let mid := !lineBlank true prev            -- the last line of the buffer already has content
  { cr := crlfToLf t != t,
    trim := mid && multiLine t && (firstLine t).head?.any isWhite,
    pop := interp && mid && endsWith prev [' ', ' '] && startsWith (trim (firstLine t)) ['}'] }

/-- The appended text / previous buffer with the given losses applied. -/
def lossy (l : Loss) (prev t : List Char) : List Char :=
  let t1 := if l.cr then crlfToLf t else t
  let t2 := if l.trim then trimStartLine t1 else t1
  (if l.pop then pop2 prev else prev) ++ t2

def Loss.none : Loss := ⟨false, false, false⟩
def Loss.le (a b : Loss) : Bool := (!a.cr || b.cr) && (!a.trim || b.trim) && (!a.pop || b.pop)

/-- candidate explanations, smallest first -/
def lossCandidates : List Loss :=
  [⟨true, false, false⟩, ⟨false, true, false⟩, ⟨false, false, true⟩,
   ⟨true, true, false⟩, ⟨true, false, true⟩, ⟨false, true, true⟩, ⟨true, true, true⟩]

inductive ContentV
  | ok                -- content preserved
  | known (l : Loss)  -- not preserved; exactly explained by these applicable known losses
  | stale (l : Loss)  -- not preserved; explained by indentation written in the middle of a line after an
                      -- `append_src` that ended mid-line (stale `continuing_line`), plus these known losses
  | other             -- not preserved and not explained: a new kind of content loss
deriving Repr, DecidableEq

/-- Monitor (1) for one appended text `t`: buffer `prev` before, `out` after. -/
def contentStep (prev out t : List Char) (interp : Bool) : ContentV :=
  if contentEq out (prev ++ t) then .ok
  else
    let app := applicable prev t interp
    match lossCandidates.find? (fun l => l.le app && contentEq out (lossy l prev t)) with
    | some l => .known l
    | none => .other

/-! ### (2) nesting level and line indentation -/

/-- One line of one appended fragment. -/
structure Piece where
  text : List Char
  nl : Bool        -- followed by a line break
  interp : Bool    -- appended with `push_str` (syntax is interpreted) rather than as literal
  single : Bool    -- the fragment consists of this piece only
deriving Repr

def piecesOf (interp : Bool) (t : List Char) : List Piece :=
  (splitNl t).map fun p => ⟨p.1, p.2, interp, (splitNl t).length == 1⟩

/-- ignoring surrounding whitespace, the piece starts with `//` / ends with `{` / starts with `}` -/
def Piece.isComment (p : Piece) : Bool := startsWith (trim p.text) ['/', '/']
def Piece.opens (p : Piece) : Bool := endsWith (trim p.text) ['{']
def Piece.closes (p : Piece) : Bool := startsWith (trim p.text) ['}']
def Piece.hasContent (p : Piece) : Bool := p.text.any (fun c => !isWhite c)
/-- the piece's text as it is to appear (leading whitespace is dropped in multi-line fragments) -/
def Piece.shown (p : Piece) : List Char := if p.single then p.text else trimStart p.text

/-- What the history so far determines, independent of any buffer. -/
structure Track where
  level : Int       -- nesting level
  inComment : Bool  -- a `//` piece was appended since the last line break
  midLine : Bool    -- some piece was appended since the last line break
  levelOk : Bool    -- no closing piece at level ≤ 0 so far (otherwise nesting is undefined)
  sync : Bool       -- no `append_src` off a line boundary so far
deriving Repr, DecidableEq

def Track.init : Track := ⟨0, false, false, true, true⟩

def Track.comment (tr : Track) (p : Piece) : Bool := tr.inComment || (p.interp && p.isComment)
/-- the piece's braces count -/
def Track.eff (tr : Track) (p : Piece) : Bool := p.interp && !tr.comment p
def Track.delta (tr : Track) (p : Piece) : Int :=
  (if tr.eff p && p.opens then 1 else 0) - (if tr.eff p && p.closes then 1 else 0)

def Track.piece (tr : Track) (p : Piece) : Track :=
  { tr with
    level := tr.level + tr.delta p,
    inComment := if p.nl then false else tr.comment p,
    midLine := !p.nl,
    levelOk := tr.levelOk && !(tr.eff p && p.closes && tr.level ≤ 0) }

def Track.pieces (tr : Track) (ps : List Piece) : Track := ps.foldl Track.piece tr

def spaces (n : Nat) : List Char := List.replicate n ' '

/-- What the output line begun by piece `p` (at tracking state `tr`) must look like. -/
def lineBeginOk (tr : Track) (p : Piece) (seg : List Char) : Bool :=
  if tr.midLine || !tr.levelOk then true           -- does not begin a line / nesting undefined
  else if p.text.isEmpty then seg.isEmpty          -- blank lines carry no indentation
  else if !p.hasContent then true                  -- whitespace only: covered by (1)
  else
    let lvl := tr.level - (if tr.eff p && p.closes then 1 else 0)
    (spaces (2 * lvl.toNat) ++ trimEnd p.shown).isPrefixOf seg

/-- the text up to the first line break, and the text after it -/
def breakNl : List Char → List Char × List Char
  | [] => ([], [])
  | c :: cs => if c = '\n' then ([], cs) else (c :: (breakNl cs).1, (breakNl cs).2)

/-- pieces against the output lines they belong to; `rest` starts at the line of the first piece -/
def lineIndentGo : Track → List Piece → List Char → Bool
  | _, [], _ => true
  | tr, p :: ps, rest =>
    lineBeginOk tr p (breakNl rest).1 && lineIndentGo (tr.piece p) ps (breakNl rest).2

/-- the text after the last line break -/
def lastLine (s : List Char) : List Char := (s.reverse.takeWhile (· != '\n')).reverse

/-- Monitor (2b): every line begun by this fragment is indented by its nesting level.
`prev`/`out`: the buffer before/after; the fragment's output starts on the last line of `prev`. -/
def lineIndentOk (tr : Track) (ps : List Piece) (prev out : List Char) : Bool :=
  lineIndentGo tr ps (out.drop (prev.length - (lastLine prev).length))

/-- `Balanced`: counting the braces of the fragment's own lines (outside comments) from zero, the
count never goes negative and ends at zero. -/
def balancedGo : Track → List Piece → Bool
  | tr, [] => tr.level == 0
  | tr, p :: ps => (tr.piece p).levelOk && balancedGo (tr.piece p) ps

def Balanced (t : List Char) : Bool := balancedGo Track.init (piecesOf true t)

/-! ### requests, observations, the per-request monitor -/

inductive Req
  | text (interp : Bool) (t : List Char)   -- push_str / write! / push_str_literal
  | indent (n : Nat)
  | deindent (n : Nat)
  | setIndent (n : Nat)
  | append (sub : List Char) (subIndent : Nat)   -- append_src of a buffer with this text and level
deriving Repr

/-- buffer text and probed level after a request -/
structure Obs where
  indent : Nat
  s : List Char
  old : Option Nat := none     -- value returned by set_indent
deriving Repr

structure Verdict where
  content : ContentV := .ok
  level : Bool := true       -- (2a)
  lineIndent : Bool := true  -- (2b)
  literal : Bool := true     -- (3a)
  balanced : Bool := true    -- (4)
  api : Bool := true         -- deindent panics exactly below zero; set_indent returns the old level
  checkedLevel : Bool := false
  checkedBalanced : Bool := false   -- (4) applied to a fragment that does open a brace
deriving Repr, DecidableEq

def Verdict.good (v : Verdict) : Bool :=
  v.content == .ok && v.level && v.lineIndent && v.literal && v.balanced && v.api

/-- good except for content losses of the known classes -/
def Verdict.goodModuloKnown (v : Verdict) : Bool :=
  v.content != .other && v.level && v.lineIndent && v.literal && v.balanced && v.api

/-- `append_src` is within the property's domain when both buffers are on a line boundary -/
def appendInDomain (tr : Track) (sub : List Char) : Bool :=
  !tr.midLine && (sub.isEmpty || sub.getLast? == some '\n')

def trackReq (tr : Track) : Req → Track
  | .text interp t => tr.pieces (piecesOf interp t)
  | .indent n => { tr with level := tr.level + n }
  | .deindent n => { tr with level := tr.level - n }
  | .setIndent n => { tr with level := n, levelOk := true }
  | .append sub subIndent =>
    if appendInDomain tr sub then { tr with level := tr.level + subIndent, inComment := false }
    else { tr with sync := false }

/-- Does the model-independent expectation say the request must panic? -/
def mustPanic (tr : Track) : Req → Bool
  | .deindent n => tr.level < n
  | _ => false

/-- The monitors for one request: `prev` observed before, `o` after. -/
def stepVerdict (tr : Track) (prev : Obs) (r : Req) (o : Obs) : Verdict :=
  let tr' := trackReq tr r
  let base : Verdict :=
    { level := !tr'.levelOk || decide ((o.indent : Int) = tr'.level), checkedLevel := tr'.levelOk }
  if !tr.sync then {} else
  match r with
  | .text interp t =>
    let ps := piecesOf interp t
    let bal := interp && !tr.inComment && Balanced t
    { base with
      content := contentStep prev.s o.s t interp,
      lineIndent := lineIndentOk tr ps prev.s o.s,
      literal := interp || o.indent == prev.indent,
      balanced := !bal || o.indent == prev.indent,
      checkedBalanced := bal && ps.any (·.opens) }
  | .indent _ => { base with content := if o.s == prev.s then .ok else .other }
  | .deindent n =>
    { base with content := if o.s == prev.s then .ok else .other,
                api := !(tr.levelOk && tr.level < n) }
  | .setIndent _ =>
    { base with content := if o.s == prev.s then .ok else .other,
                api := o.old == some prev.indent }
  | .append sub _ =>
    if tr'.sync then { base with content := if o.s == prev.s ++ sub then .ok else .other }
    else {}

/-- A history: requests paired with what was observed (`none` = panicked; the history ends there). -/
def monitor (tr : Track) (prev : Obs) : List (Req × Option Obs) → List Verdict
  | [] => []
  | (.append _ _, none) :: _ => [{}]     -- the panic happened while building the sub-buffer
  | (r, none) :: _ => [{ api := !tr.sync || !tr.levelOk || mustPanic tr r }]
  | (r, some o) :: rest => stepVerdict tr prev r o :: monitor (trackReq tr r) o rest


/-! ### the whole-buffer-line reading of (2), and what remains judged after an off-boundary `append_src`

The property's literal wording speaks of *lines*: "braces that open at line ends and close at line
starts".  Read over the lines of the buffer (not the pieces of the fragments), the nesting level
is `bufferLevel`.  The code follows the per-piece reading; the two agree when no buffer line is
assembled from several fragment pieces (`Aux.split`), and differ e.g. for
`push_str("if x {"); push_str(" y }\n")` (level 1, although no buffer line ends in `{`). -/

/-- what one complete buffer line contributes to the nesting level -/
def lineDelta (l : List Char) : Int :=
  if startsWith (trim l) ['/', '/'] then 0
  else (if endsWith (trim l) ['{'] then 1 else 0) - (if startsWith (trim l) ['}'] then 1 else 0)

/-- nesting level implied by the lines of a buffer: +1 per line ending in `{`, −1 per line
starting with `}`, outside `//` comment lines -/
def bufferLevel (s : List Char) : Int := (splitNl s).foldl (fun a p => a + lineDelta p.1) 0

/-- Spec-side bookkeeping next to `Track` (from the requests only). -/
structure Aux where
  stale : Bool := false     -- an `append_src` left the buffer mid-line and no piece was appended since
  explicit : Int := 0       -- Σ indent − Σ deindent
  lineView : Bool := true   -- only push_str / indent / deindent so far: the buffer-line reading applies
  split : Bool := false     -- some buffer line was assembled from more than one fragment piece
deriving Repr, DecidableEq

def auxReq (tr : Track) (ax : Aux) : Req → Aux
  | .text interp t =>
    { ax with stale := if t.isEmpty then ax.stale else false,
              lineView := ax.lineView && interp,
              split := ax.split || (tr.midLine && !t.isEmpty) }
  | .indent n => { ax with explicit := ax.explicit + n }
  | .deindent n => { ax with explicit := ax.explicit - n }
  | .setIndent _ => { ax with lineView := false }
  | .append sub _ =>
    { ax with lineView := false,
              stale := if sub.getLast? == some '\n' then false else if sub.isEmpty then ax.stale else true }

inductive BufV
  | na          -- the buffer-line reading does not apply here (literal text, set_indent, append_src, mid-line, …)
  | ok
  | knownSplit  -- differs, the history has a split line, and the level is the per-piece level
  | other
deriving Repr, DecidableEq

/-- Monitor (2, whole-buffer-line reading) after a request; `tr'`, `ax'` are the states after it. -/
def bufferLineStep (tr' : Track) (ax' : Aux) (o : Obs) : BufV :=
  if !(ax'.lineView && tr'.sync && tr'.levelOk) || tr'.midLine then .na
  else if (o.indent : Int) = ax'.explicit + bufferLevel o.s then .ok
  else if ax'.split && decide ((o.indent : Int) = tr'.level) then .knownSplit
  else .other

/-- Monitor (1) where an `append_src` may have left the line state stale: if the plain check
fails, allow for `2·level` spaces written in front of the fragment. -/
def contentStepAt (stale : Bool) (prevIndent : Nat) (prev out t : List Char) (interp : Bool) : ContentV :=
  match contentStep prev out t interp with
  | .other =>
    if stale && !(firstLine (crlfToLf t)).isEmpty then
      match contentStep (prev ++ spaces (2 * prevIndent)) out t interp with
      | .ok => .stale Loss.none
      | .known l => .stale l
      | v => v
    else .other
  | v => v

/-- What is still judged once an `append_src` happened off a line boundary: content (1), literal
(3a) and the `deindent`/`set_indent` API on the observed level.  (Nesting is not: the comment and
line state of the appended buffer are not observable.) -/
def offSyncVerdict (tr : Track) (ax : Aux) (prev : Obs) (r : Req) (o : Obs) : Verdict :=
  match r with
  | .text interp t =>
    { content := contentStepAt (ax.stale && !tr.midLine) prev.indent prev.s o.s t interp,
      literal := interp || o.indent == prev.indent }
  | .indent _ => { content := if o.s == prev.s then .ok else .other }
  | .deindent n => { content := if o.s == prev.s then .ok else .other, api := !decide (prev.indent < n) }
  | .setIndent _ => { content := if o.s == prev.s then .ok else .other, api := o.old == some prev.indent }
  | .append sub _ => { content := if o.s == prev.s ++ sub then .ok else .other }

def stepVerdictAll (tr : Track) (ax : Aux) (prev : Obs) (r : Req) (o : Obs) : Verdict :=
  if tr.sync && (trackReq tr r).sync then stepVerdict tr prev r o else offSyncVerdict tr ax prev r o

structure VerdictAll where
  base : Verdict := {}
  bufferLine : BufV := .na
deriving Repr, DecidableEq

def VerdictAll.goodModuloKnown (v : VerdictAll) : Bool := v.base.goodModuloKnown && v.bufferLine != .other
def VerdictAll.good (v : VerdictAll) : Bool := v.base.good && (v.bufferLine == .ok || v.bufferLine == .na)

/-- The complete monitor of a history (what the check evaluates on the implementation). -/
def monitorAll (tr : Track) (ax : Aux) (prev : Obs) : List (Req × Option Obs) → List VerdictAll
  | [] => []
  | (.append _ _, none) :: _ => [{}]
  | (.deindent n, none) :: _ => [{ base := { api := decide (prev.indent < n) } }]
  | (_, none) :: _ => [{ base := { api := false } }]      -- nothing else may panic
  | (r, some o) :: rest =>
    { base := stepVerdictAll tr ax prev r o,
      bufferLine := bufferLineStep (trackReq tr r) (auxReq tr ax r) o }
      :: monitorAll (trackReq tr r) (auxReq tr ax r) o rest

/-! ### (3b) literal text influences nothing but itself (metamorphic) -/

/-- the neutral variant of a literal fragment: every non-whitespace character becomes `x` -/
def neutral (t : List Char) : List Char := t.map fun c => if isWhite c then c else 'x'

/-- Two buffers obtained from the same history, the second with all literal fragments
neutralised: same length, and they differ at most where the first has a non-whitespace
character and the second the neutral `x`. -/
def neutralRel : List Char → List Char → Bool
  | [], [] => true
  | a :: as, b :: bs => (a == b || (!isWhite a && b == 'x')) && neutralRel as bs
  | _, _ => false

/-- Monitor (3b) for one pair of observations of the two runs. -/
def literalPairOk (a b : Obs) : Bool := a.indent == b.indent && neutralRel a.s b.s

end Witverif.Text.SourceSpec
