import Witverif.Text.Source
/-
Model of the file loop of the CLI's `main` (src/bin/wit-bindgen.rs:169-208): after generation,

  for (name, contents) in files.iter() {            // BTreeMap order
      let dst = out_dir.join(name);  eprintln!("Generating {dst:?}");
      if opt.check {
          let prev = std::fs::read(&dst).with_context(..)?;                    // "failed to read"
          if prev != contents {
              if let (Ok(p), Ok(c)) = (str::from_utf8(&prev), str::from_utf8(contents)) {
                  if !p.chars().any(|c| c.is_control() && !matches!(c, '\n' | '\r' | '\t')) && p.lines().eq(c.lines())
                  { bail!("{} differs only in line endings (CRLF vs. LF). …") }
              }
              bail!("not up to date: {}")
          }
          continue;
      }
      create_dir_all(parent)?;  std::fs::write(&dst, contents)?;
  }

with an effect log.  A byte string is either valid UTF-8 (kept decoded, `List Char`) or not
(raw bytes): byte equality of two valid strings is equality of their decodings (UTF-8 is
injective) and a valid string never equals an invalid one, so `Bytes` equality is `Vec<u8>` equality.
I/O other than a failing `read` is assumed to succeed.  Imports only import-free model files.
-/
namespace Witverif.Text.CheckMode
open RustStr

inductive Bytes
  | utf8 (cs : List Char)
  | binary (raw : List Nat)
deriving DecidableEq, Repr

abbrev Name := List Char

/-- the output directory: readable files by name (anything else - absent, a directory - fails to read) -/
abbrev FS := List (Name × Bytes)

def FS.read (fs : FS) (n : Name) : Option Bytes := (fs.find? (·.1 == n)).map (·.2)
def FS.write (fs : FS) (n : Name) (c : Bytes) : FS := (n, c) :: fs.filter (·.1 != n)

inductive Effect
  | read (n : Name)
  | createDirAll (n : Name)     -- parent of `n`
  | write (n : Name) (c : Bytes)
deriving DecidableEq, Repr

inductive Outcome
  | ok
  | failedRead (n : Name)
  | lineEndings (n : Name)
  | notUpToDate (n : Name)
deriving DecidableEq, Repr

/-- `c.is_control() && !matches!(c, '\n' | '\r' | '\t')` -/
def badControl (c : Char) : Bool := isControl c && !(c == '\n' || c == '\r' || c == '\t')

/-- the branch taken when `prev != contents` -/
def classify (n : Name) (prev contents : Bytes) : Outcome :=
  match prev, contents with
  | .utf8 p, .utf8 c =>
    if !p.any badControl && lines p == lines c then .lineEndings n else .notUpToDate n
  | _, _ => .notUpToDate n

/-- the loop with `opt.check` set -/
def checkLoop (fs : FS) : List (Name × Bytes) → Outcome × List Effect
  | [] => (.ok, [])
  | (n, c) :: rest =>
    match fs.read n with
    | none => (.failedRead n, [.read n])
    | some prev =>
      if prev ≠ c then (classify n prev c, [.read n])
      else ((checkLoop fs rest).1, .read n :: (checkLoop fs rest).2)

/-- the loop without `opt.check` -/
def writeLoop (fs : FS) : List (Name × Bytes) → FS × List Effect
  | [] => (fs, [])
  | (n, c) :: rest =>
    ((writeLoop (fs.write n c) rest).1, .createDirAll n :: .write n c :: (writeLoop (fs.write n c) rest).2)

/-- `main` after generation: outcome, effects, the directory afterwards -/
def runMain (check : Bool) (fs : FS) (files : List (Name × Bytes)) : Outcome × List Effect × FS :=
  if check then ((checkLoop fs files).1, (checkLoop fs files).2, fs)
  else (.ok, (writeLoop fs files).2, (writeLoop fs files).1)

end Witverif.Text.CheckMode

/-! ## Specification side (independent of the model of the code)

C33 as a predicate on what can be observed of a `--check` run: the files the generator would
produce (in iteration order), the directory before, the reported outcome, and whether the
directory tree is unchanged afterwards.  "Differs only in line endings" is defined without
`str::lines`: equal after `\r\n ↦ \n` and after making the final line break explicit. -/
namespace Witverif.Text.CheckSpec
open RustStr Witverif.Text.CheckMode

/-- every file the generator would produce exists with identical bytes -/
def upToDate (fs : FS) (files : List (Name × Bytes)) : Bool :=
  files.all fun f => fs.read f.1 == some f.2

/-- `\r\n ↦ \n`, and a final line break made explicit.  Here the spec deliberately FOLLOWS THE CODE:
`str::lines` yields no trailing empty line, so `"a"` and `"a\n"` have equal lines and the CLI reports
a missing/extra final line break as "differs only in line endings"; the property's "line-ending-only
difference" is read to include the final line break. (A blank line more or less - `"a\n"` vs
`"a\n\n"` - is not a line-ending-only difference in either.) -/
def normEol (s : List Char) : List Char :=
  let u := SourceSpec.crlfToLf s
  if u.isEmpty || u.getLast? == some '\n' then u else u ++ ['\n']

/-- text whose only control characters are `\n`, `\r`, `\t` -/
def plainText (s : List Char) : Bool := s.all fun c => !isControl c || c == '\n' || c == '\r' || c == '\t'

/-- two different texts that differ only in line endings -/
def eolOnly (prev contents : Bytes) : Bool :=
  match prev, contents with
  | .utf8 p, .utf8 c => p != c && plainText p && normEol p == normEol c
  | _, _ => false

/-- the first file that is not up to date, if any -/
def firstStale (fs : FS) : List (Name × Bytes) → Option (Name × Bytes)
  | [] => none
  | f :: rest => if fs.read f.1 == some f.2 then firstStale fs rest else some f

/-- the outcome the property demands -/
def expected (fs : FS) (files : List (Name × Bytes)) : Outcome :=
  match firstStale fs files with
  | none => .ok
  | some (n, c) =>
    match fs.read n with
    | none => .failedRead n
    | some prev => if eolOnly prev c then .lineEndings n else .notUpToDate n

/-- Monitor: observed outcome and "tree unchanged" flag of a `--check` run. -/
def checkRunOk (fs : FS) (files : List (Name × Bytes)) (o : Outcome) (unchanged : Bool) : Bool :=
  unchanged && decide (o = expected fs files) && (decide (o = .ok) == upToDate fs files)

end Witverif.Text.CheckSpec
