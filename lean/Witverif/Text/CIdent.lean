import Witverif.Generated.CIdent
import Witverif.Text.Heck
/-
Model of the C backend's identifier mangling (crates/c/src/lib.rs):

* `toCIdent` = `to_c_ident`: `to_snake_case`, then lookup of the snake-cased name in the literal
  escape table (regenerated from the source by tools/gen_cident.py);
* `cFuncName` = `c_func_name` (`<ns>_<snake(func)>`, `.` → `_`), `cTypeName` (`<ns>_<snake>_t`),
  `cFreeName` (`<ns>_<snake>_free`, `define_dtor`), `cDropOwnName` (`<ns>_<snake>_drop_own`).

Spec side (`CIdentSpec`): the reserved words of the C dialect the bindings are compiled as
(C17 keywords plus the GNU keywords `asm`, `typeof` that clang accepts in its default gnu17 mode).
Import-free apart from the generated table and Heck.
-/
namespace Witverif.Text.CIdent
open Witverif.Text

def lookup (t : List (List Char × List Char)) (name : List Char) : Option (List Char) :=
  match t.find? (fun e => e.1 == name) with
  | some e => some e.2
  | none => none

/-- `to_c_ident` -/
def toCIdent (name : List Char) : List Char :=
  match lookup Witverif.Generated.CIdent.escapeTable (Heck.snake name) with
  | some v => v
  | none => Heck.snake name

def dotToUnderscore (s : List Char) : List Char := s.map fun c => if c == '.' then '_' else c

/-- `c_func_name` (namespace already computed) -/
def cFuncName (ns func : List Char) : List Char := ns ++ ['_'] ++ dotToUnderscore (Heck.snake func)
/-- typedef name of a named type (`define_live_types`) -/
def cTypeName (ns ty : List Char) : List Char := ns ++ ['_'] ++ Heck.snake ty ++ "_t".toList
/-- free helper of a named type (`define_dtor`) -/
def cFreeName (ns ty : List Char) : List Char := ns ++ ['_'] ++ Heck.snake ty ++ "_free".toList
/-- `type_resource`: `<ns>_<snake>_drop_own` -/
def cDropOwnName (ns res : List Char) : List Char := ns ++ ['_'] ++ Heck.snake res ++ "_drop_own".toList

/-! ### `interface_identifier`: the C namespace of an interface `ns:pkg/iface@version` -/

/-- `s.replace(chars, to)` for a set of single characters -/
def applyRepl (r : List Char × List Char) (s : List Char) : List Char :=
  s.flatMap fun c => if r.1.contains c then r.2 else [c]

/-- the version as it enters an identifier: the extracted `.replace` chain, in order -/
def mangleVersion (v : List Char) : List Char :=
  Witverif.Generated.CIdent.versionReplacements.foldl (fun s r => applyRepl r s) v

/-- `interface_identifier` for `WorldKey::Interface` without `--rename`: `[exports_]<ns>_<pkg>_[<version>_]<iface>`;
the version is present iff the package occurs with several versions in the `Resolve` (`multi`) and has one -/
def interfaceIdentifier (inExport : Bool) (ns pkg : List Char) (ver : Option (List Char)) (multi : Bool)
    (iface : List Char) : List Char :=
  (if inExport then "exports_".toList else []) ++ Heck.snake ns ++ ['_'] ++ Heck.snake pkg ++ ['_'] ++
    (match multi, ver with
     | true, some v => mangleVersion v ++ ['_']
     | _, _ => []) ++
    Heck.snake iface

end Witverif.Text.CIdent

namespace Witverif.Text.CIdentSpec

/-- characters of a C identifier -/
def cIdentChar (c : Char) : Bool :=
  Heck.isAsciiLower c || Heck.isAsciiUpper c || Heck.isAsciiDigit c || c == '_'

/-- characters of a semver version string (`MAJOR.MINOR.PATCH[-pre.release][+build.meta]`) -/
def semverChars : List Char :=
  "0123456789abcdefghijklmnopqrstuvwxyzABCDEFGHIJKLMNOPQRSTUVWXYZ.-+".toList


/-- identifiers the generated C must avoid: the lower-case C17 keywords (the `_Xxx` keywords cannot be
produced from a WIT name), the GNU keywords `asm`/`typeof` of clang's default gnu17, and the macros
of `<stdbool.h>`, which every generated header includes.  (Typedef names of `<stdint.h>`/`<stddef.h>`
are *not* in this list — see the known finding `c-typedef-name-as-parameter`.) -/
def cKeywords : List (List Char) :=
  ["auto", "break", "case", "char", "const", "continue", "default", "do", "double", "else", "enum",
   "extern", "float", "for", "goto", "if", "inline", "int", "long", "register", "restrict", "return",
   "short", "signed", "sizeof", "static", "struct", "switch", "typedef", "union", "unsigned", "void",
   "volatile", "while", "asm", "typeof", "bool", "true", "false"].map String.toList

end Witverif.Text.CIdentSpec
