/-
Specification table: the keywords of C++23 ([lex.key] Table 5) together with the alternative tokens
([lex.digraph] Table 3: `and`, `and_eq`, `bitand`, `bitor`, `compl`, `not`, `not_eq`, `or`, `or_eq`,
`xor`, `xor_eq`), none of which can be used as an identifier.  Identifiers with special meaning
(`final`, `override`, `import`, `module`) are usable as names and are not listed; the Transactional
Memory / Reflection TS keywords (`atomic_cancel`, `atomic_commit`, `atomic_noexcept`, `synchronized`,
`reflexpr`) are not keywords of ISO C++23 (g++ 12 -std=c++23 accepts them as identifiers) and are not listed.
Import-free.
-/
namespace Witverif.Text.CppKeywords

def keywords23 : List (List Char) := [
  "alignas", "alignof", "asm", "auto", "bool", "break", "case", "catch", "char", "char8_t", "char16_t",
  "char32_t", "class", "concept", "const", "consteval", "constexpr", "constinit", "const_cast",
  "continue", "co_await", "co_return", "co_yield", "decltype", "default", "delete", "do", "double",
  "dynamic_cast", "else", "enum", "explicit", "export", "extern", "false", "float", "for", "friend",
  "goto", "if", "inline", "int", "long", "mutable", "namespace", "new", "noexcept", "nullptr",
  "operator", "private", "protected", "public", "register", "reinterpret_cast", "requires", "return",
  "short", "signed", "sizeof", "static", "static_assert", "static_cast", "struct", "switch",
  "template", "this", "thread_local", "throw", "true", "try", "typedef", "typeid", "typename",
  "union", "unsigned", "using", "virtual", "void", "volatile", "wchar_t", "while",
  -- alternative tokens
  "and", "and_eq", "bitand", "bitor", "compl", "not", "not_eq", "or", "or_eq", "xor", "xor_eq"].map String.toList

end Witverif.Text.CppKeywords
