/-
Model of the guest allocation entry points (C24).

  crates/guest-rust/src/rt/mod.rs
      pub unsafe fn cabi_realloc(old_ptr, old_len, align, new_len) -> *mut u8
      Cleanup::new(layout) -> (*mut u8, Option<Cleanup>) ; Cleanup::forget ; impl Drop for Cleanup
  crates/guest-rust/src/rt/wit_bindgen_cabi_realloc.rs   (generated wrapper, forwards 1:1)
  crates/rust/src/lib.rs  RuntimeItem::CabiDealloc        pub unsafe fn cabi_dealloc(ptr, size, align)

The global allocator is a *parameter*: `Allocator` is an arbitrary state transformer answering
`GlobalAlloc` calls, `Lawful` is the `GlobalAlloc` contract (what `alloc`/`realloc`/`dealloc` promise
when the caller keeps its side), and every theorem in `Props/C24.lean` takes `Lawful A` as a
hypothesis.  `bump` is a concrete lawful allocator (non-vacuity, and the allocator the driver runs).

Pointers, sizes and alignments are `Nat`; `usize` overflow of `new_len` rounded up to `align` is a
caller obligation of `GlobalAlloc` and outside the property's range (sizes ≤ 2^20, align ≤ 2^16).
Import-free (linked into the driver `m_realloc`).
-/
namespace Witverif.Text.Realloc

/-- A live heap block as the allocator's ledger sees it. -/
structure Block where
  ptr : Nat
  size : Nat
  align : Nat
deriving DecidableEq, Repr

/-- The `GlobalAlloc` calls the code under test makes. -/
inductive ACall
  | alloc (size align : Nat)
  | realloc (ptr size align newSize : Nat)
  | dealloc (ptr size align : Nat)
deriving DecidableEq, Repr

/-- Allocator-visible state: ledger of live blocks and byte contents. -/
structure Heap where
  live : List Block
  mem : Nat → Nat

/-- An allocator: how it answers a call (pointer, `0` = null) and the heap afterwards. -/
structure Allocator where
  exec : Heap → ACall → Nat × Heap

def ValidAlign (a : Nat) : Prop := ∃ k, a = 2 ^ k

/-- The `GlobalAlloc` contract, allocator's side, for calls whose caller side (`CallOk`) holds.
A null answer means failure; the code under test then aborts, so nothing is required of the heap. -/
structure Lawful (A : Allocator) : Prop where
  alloc_ok : ∀ h s a, s ≠ 0 → ValidAlign a → (A.exec h (.alloc s a)).1 ≠ 0 →
    a ∣ (A.exec h (.alloc s a)).1 ∧
    (A.exec h (.alloc s a)).2.live = ⟨(A.exec h (.alloc s a)).1, s, a⟩ :: h.live ∧
    (∀ b ∈ h.live, b.ptr ≠ (A.exec h (.alloc s a)).1)
  realloc_ok : ∀ h p s a n, ⟨p, s, a⟩ ∈ h.live → n ≠ 0 → ValidAlign a → (A.exec h (.realloc p s a n)).1 ≠ 0 →
    a ∣ (A.exec h (.realloc p s a n)).1 ∧
    (A.exec h (.realloc p s a n)).2.live = ⟨(A.exec h (.realloc p s a n)).1, n, a⟩ :: h.live.erase ⟨p, s, a⟩ ∧
    (∀ b ∈ h.live.erase ⟨p, s, a⟩, b.ptr ≠ (A.exec h (.realloc p s a n)).1) ∧
    (∀ i, i < min s n → (A.exec h (.realloc p s a n)).2.mem ((A.exec h (.realloc p s a n)).1 + i) = h.mem (p + i))
  dealloc_ok : ∀ h p s a, ⟨p, s, a⟩ ∈ h.live → (A.exec h (.dealloc p s a)).2.live = h.live.erase ⟨p, s, a⟩

/-- Caller's side of the contract: is this call allowed in this heap? -/
def CallOk (h : Heap) : ACall → Prop
  | .alloc s a => s ≠ 0 ∧ ValidAlign a
  | .realloc p s a n => ⟨p, s, a⟩ ∈ h.live ∧ n ≠ 0 ∧ ValidAlign a
  | .dealloc p s a => ⟨p, s, a⟩ ∈ h.live

/-! ## `cabi_realloc` -/

inductive Out
  | ret (p : Nat)     -- returned pointer
  | abort             -- allocator returned null: `handle_alloc_error` / `unreachable` (a trap, never a null return)
  | assertFail        -- `debug_assert_ne!(new_len, 0, "non-zero old_len requires non-zero new_len!")`
deriving DecidableEq, Repr

/-- The allocator call `cabi_realloc` makes, if any. -/
def cabiReallocCall (oldPtr oldLen align newLen : Nat) : Option ACall :=
  if oldLen = 0 then
    if newLen = 0 then none else some (.alloc newLen align)
  else if newLen = 0 then none
  else some (.realloc oldPtr oldLen align newLen)

/-- `cabi_realloc` run against allocator `A`. -/
def cabiRealloc (A : Allocator) (h : Heap) (oldPtr oldLen align newLen : Nat) : Out × Heap :=
  if oldLen = 0 then
    if newLen = 0 then (.ret align, h)
    else
      let r := A.exec h (.alloc newLen align)
      if r.1 = 0 then (.abort, r.2) else (.ret r.1, r.2)
  else if newLen = 0 then (.assertFail, h)
  else
    let r := A.exec h (.realloc oldPtr oldLen align newLen)
    if r.1 = 0 then (.abort, r.2) else (.ret r.1, r.2)

/-! ## `cabi_dealloc` (generated runtime item) -/

def cabiDeallocCall (ptr size align : Nat) : Option ACall :=
  if size = 0 then none else some (.dealloc ptr size align)

def cabiDealloc (A : Allocator) (h : Heap) (ptr size align : Nat) : Heap :=
  match cabiDeallocCall ptr size align with
  | none => h
  | some c => (A.exec h c).2

/-! ## `Cleanup` -/

/-- `Cleanup { ptr, layout }` -/
structure Cleanup where
  ptr : Nat
  size : Nat
  align : Nat
deriving DecidableEq, Repr

inductive NewOut
  | ok (ptr : Nat) (c : Option Cleanup)
  | abort
deriving DecidableEq, Repr

def cleanupNewCall (size align : Nat) : Option ACall :=
  if size = 0 then none else some (.alloc size align)

/-- `Cleanup::new(layout)` -/
def cleanupNew (A : Allocator) (h : Heap) (size align : Nat) : NewOut × Heap :=
  if size = 0 then (.ok 0 none, h)
  else
    let r := A.exec h (.alloc size align)
    if r.1 = 0 then (.abort, r.2) else (.ok r.1 (some ⟨r.1, size, align⟩), r.2)

/-- `impl Drop for Cleanup`: poison the block with 0xff, then `dealloc(ptr, layout)`. -/
def cleanupDropCall (c : Cleanup) : ACall := .dealloc c.ptr c.size c.align

/-- the poison loop of `Drop for Cleanup`: `for i in 0..layout.size() { *ptr.add(i) = 0xff }` — the bytes it
writes are exactly `[ptr, ptr + size)` -/
def cleanupPoison (h : Heap) (c : Cleanup) : Heap :=
  { h with mem := fun a => if c.ptr ≤ a ∧ a < c.ptr + c.size then 255 else h.mem a }

def cleanupDrop (A : Allocator) (h : Heap) (c : Cleanup) : Heap :=
  (A.exec (cleanupPoison h c) (cleanupDropCall c)).2

/-- `Cleanup::forget`: `mem::forget(self)` -/
def cleanupForget (h : Heap) (_c : Cleanup) : Heap := h

/-! ## Histories -/

/-- Host / bindings operations.  `r`: the host calls `cabi_realloc` for one of its slots (a slot
holds the `(ptr, size, align)` of the earlier result, or is empty = size 0); `d`: generated code
calls `cabi_dealloc` on a slot; `n`/`x`/`f`: `Cleanup::new`, drop, `forget` (cleanups are numbered
in creation order; Rust ownership makes a second `x`/`f` of the same cleanup impossible — the model
treats it as a no-op). -/
inductive Op
  | r (slot alog newLen : Nat)
  | d (slot : Nat)
  | n (size alog : Nat)
  | x (i : Nat)
  | f (i : Nat)
deriving DecidableEq, Repr

inductive ClSt | alive | dropped | forgotten
deriving DecidableEq, Repr

structure St where
  heap : Heap
  slots : Nat → Block          -- host-held results; `size = 0` = not a heap block
  ncls : Nat                   -- cleanups created so far
  cl : Nat → Cleanup           -- cleanup i (`size = 0`: `Cleanup::new` returned `None`)
  clSt : Nat → ClSt

def St.init (h : Heap) : St := ⟨h, fun _ => ⟨0, 0, 1⟩, 0, fun _ => ⟨0, 0, 1⟩, fun _ => .alive⟩

/-- What one operation returned (the part of the outcome that is a function of the code). -/
inductive Res
  | r (o : Out)
  | d
  | n (o : NewOut)
  | x
  | f
  | bad            -- cleanup index out of range
deriving DecidableEq, Repr

structure StepOut where
  st : St
  res : Res
  calls : List ACall       -- allocator calls made by the code under test during the operation

def optCall : Option ACall → List ACall
  | none => []
  | some c => [c]

def setSlot (f : Nat → Block) (i : Nat) (b : Block) : Nat → Block := fun j => if j = i then b else f j
def setSt (f : Nat → ClSt) (i : Nat) (v : ClSt) : Nat → ClSt := fun j => if j = i then v else f j
def setCl (f : Nat → Cleanup) (i : Nat) (v : Cleanup) : Nat → Cleanup := fun j => if j = i then v else f j

def step (A : Allocator) (s : St) : Op → StepOut
  | .r slot alog newLen =>
    let b := s.slots slot
    let align := 2 ^ alog
    let r := cabiRealloc A s.heap b.ptr b.size align newLen
    let calls := optCall (cabiReallocCall b.ptr b.size align newLen)
    match r.1 with
    | .ret p => ⟨{ s with heap := r.2, slots := setSlot s.slots slot ⟨p, newLen, align⟩ }, .r r.1, calls⟩
    | _ => ⟨{ s with heap := r.2 }, .r r.1, calls⟩
  | .d slot =>
    let b := s.slots slot
    ⟨{ s with heap := cabiDealloc A s.heap b.ptr b.size b.align, slots := setSlot s.slots slot ⟨0, 0, 1⟩ },
     .d, optCall (cabiDeallocCall b.ptr b.size b.align)⟩
  | .n size alog =>
    let r := cleanupNew A s.heap size (2 ^ alog)
    let calls := optCall (cleanupNewCall size (2 ^ alog))
    match r.1 with
    | .ok p _ => ⟨{ s with heap := r.2, ncls := s.ncls + 1, cl := setCl s.cl s.ncls ⟨p, size, 2 ^ alog⟩,
                           clSt := setSt s.clSt s.ncls .alive }, .n r.1, calls⟩
    | .abort => ⟨{ s with heap := r.2 }, .n r.1, calls⟩
  | .x i =>
    if i < s.ncls then
      if s.clSt i = .alive then
        if (s.cl i).size = 0 then ⟨{ s with clSt := setSt s.clSt i .dropped }, .x, []⟩
        else ⟨{ s with heap := cleanupDrop A s.heap (s.cl i), clSt := setSt s.clSt i .dropped }, .x, [cleanupDropCall (s.cl i)]⟩
      else ⟨s, .x, []⟩
    else ⟨s, .bad, []⟩
  | .f i =>
    if i < s.ncls then
      if s.clSt i = .alive then ⟨{ s with heap := cleanupForget s.heap (s.cl i), clSt := setSt s.clSt i .forgotten }, .f, []⟩
      else ⟨s, .f, []⟩
    else ⟨s, .bad, []⟩

/-! ## A concrete lawful allocator (non-vacuity of `Lawful`; the allocator the driver runs)

Bump allocation: every block gets a fresh address above everything handed out before, rounded up
to the alignment; `realloc` always moves and copies; never fails. -/

def alignUp (n a : Nat) : Nat := ((n + a - 1) / a) * a

/-- highest address in use (exclusive), at least 1 so that no block sits at address 0 -/
def top : List Block → Nat
  | [] => 1
  | b :: l => max (b.ptr + b.size) (top l)

def bump : Allocator where
  exec h c :=
    match c with
    | .alloc s a =>
      let p := alignUp (top h.live + 1) a
      (p, { h with live := ⟨p, s, a⟩ :: h.live })
    | .realloc q s a n =>
      let p := alignUp (top h.live + 1) a
      (p, { live := ⟨p, n, a⟩ :: h.live.erase ⟨q, s, a⟩,
            mem := fun x => if p ≤ x ∧ x < p + min s n then h.mem (q + (x - p)) else h.mem x })
    | .dealloc q s a => (0, { h with live := h.live.erase ⟨q, s, a⟩ })

def Heap.empty : Heap := ⟨[], fun _ => 0⟩

/-- the allocator never reports failure on a lawful request -/
def NeverFails (A : Allocator) : Prop :=
  (∀ h s a, s ≠ 0 → ValidAlign a → (A.exec h (.alloc s a)).1 ≠ 0) ∧
  (∀ h p s a n, ⟨p, s, a⟩ ∈ h.live → n ≠ 0 → ValidAlign a → (A.exec h (.realloc p s a n)).1 ≠ 0)

end Witverif.Text.Realloc

/-! ## Specification side (independent of the model of the code)

What the harness *observes* for each operation on the real code, and the C24 property as a monitor
over those observations.  The monitor tracks only the host's own bookkeeping (what it asked for:
slot sizes/aligns, which cleanups exist), never the model. -/
namespace Witverif.Text.ReallocSpec
open Witverif.Text.Realloc (Op)

/-- where the returned pointer lies -/
inductive Rel | align | null | blk | wild
deriving DecidableEq, Repr

/-- an allocator call as seen by the checking allocator; `ok` = its pointer argument is the block
the operation is about -/
inductive CallObs
  | A (size align : Nat)
  | R (ok : Bool) (size align newSize : Nat)
  | D (ok : Bool) (size align : Nat)
deriving DecidableEq, Repr

inductive Obs
  | r (rel : Rel) (aligned : Bool) (pfx : Option Bool) (calls : List CallObs) (live : Bool) (err : Nat)
  | d (calls : List CallObs) (err : Nat)
  | n (null : Bool) (hasObj : Bool) (aligned : Bool) (calls : List CallObs) (err : Nat)
  | x (calls : List CallObs) (err : Nat)
  | f (calls : List CallObs) (err : Nat)
  | panic
deriving DecidableEq, Repr

structure Mon where
  slots : Nat → Nat × Nat           -- (size, align) the host holds per slot
  ncls : Nat
  cls : Nat → Nat × Nat × Bool      -- (size, align, not yet dropped/forgotten) per cleanup

def Mon.init : Mon := ⟨fun _ => (0, 1), 0, fun _ => (0, 1, false)⟩

/-- One observed step is acceptable (the C24 statement, clause by clause). -/
def stepOk (m : Mon) : Op → Obs → Bool
  | .r slot alog new, .r rel aligned pfx calls live err =>
    let old := (m.slots slot).1
    err == 0 && aligned &&                                   -- aligned as requested; allocator used lawfully
    (if old == 0 && new == 0 then
      rel == .align && calls == []                           -- zero-sized allocation = the alignment itself
     else
      rel == .blk && live &&                                 -- non-null: a live block of exactly the new layout
      pfx != some false &&                                   -- contents preserved up to the smaller size
      (if old == 0 then calls == [.A new (2 ^ alog)] else calls == [.R true old (2 ^ alog) new]))
  | .d slot, .d calls err =>
    let (size, al) := m.slots slot
    err == 0 && (if size == 0 then calls == [] else calls == [.D true size al])
  | .n size alog, .n null hasObj aligned calls err =>
    err == 0 && aligned && (null == (size == 0)) && (hasObj == (size != 0)) &&
    (if size == 0 then calls == [] else calls == [.A size (2 ^ alog)])
  | .x i, .x calls err =>
    let (size, al, alive) := m.cls i
    decide (i < m.ncls) && err == 0 &&
    (if alive && size != 0 then calls == [.D true size al] else calls == [])   -- freed exactly once
  | .f i, .f calls err =>
    decide (i < m.ncls) && err == 0 && calls == []                            -- forgetting frees nothing
  | _, _ => false

/-- host bookkeeping after a (non-panicking) operation -/
def Mon.next (m : Mon) : Op → Mon
  | .r slot alog new => { m with slots := fun j => if j = slot then (new, 2 ^ alog) else m.slots j }
  | .d slot => { m with slots := fun j => if j = slot then (0, 1) else m.slots j }
  | .n size alog => { m with ncls := m.ncls + 1, cls := fun j => if j = m.ncls then (size, 2 ^ alog, true) else m.cls j }
  | .x i | .f i => { m with cls := fun j => if j = i then ((m.cls i).1, (m.cls i).2.1, false) else m.cls j }

/-- a panicking operation leaves the host's table unchanged -/
def stepMon (m : Mon) (op : Op) : Obs → Mon
  | .panic => m
  | _ => m.next op

def check (m : Mon) : List Op → List Obs → Bool
  | [], [] => true
  | op :: ops, o :: os => stepOk m op o && check (stepMon m op o) ops os
  | _, _ => false

/-- per-step verdicts (the driver reports the first failing step and keeps going) -/
def verdicts (m : Mon) : List Op → List Obs → List Bool
  | op :: ops, o :: os => stepOk m op o :: verdicts (stepMon m op o) ops os
  | _, _ => []

/-- End-of-history clause: forgotten non-empty cleanups are still allocated (all flags set) and the
checking allocator saw no contract violation. -/
def endOk (flags : List Bool) (errs : Nat) : Bool := errs == 0 && flags.all id

end Witverif.Text.ReallocSpec

/-! ## Observation of the model (model side of the correspondence)

The same observation function the harness applies to the real code, applied to a model step:
computed from the state before, the result and the state after. -/
namespace Witverif.Text.Realloc
open Witverif.Text.ReallocSpec (Obs Rel CallObs Mon)

def callObs (about : Nat) : ACall → CallObs
  | .alloc s a => .A s a
  | .realloc p s a n => .R (p == about) s a n
  | .dealloc p s a => .D (p == about) s a

/-- decidable version of `CallOk` for alignments that are literally powers of two -/
def callOkB (h : Heap) : ACall → Bool
  | .alloc s _ => s != 0
  | .realloc p s a n => h.live.contains ⟨p, s, a⟩ && n != 0
  | .dealloc p s a => h.live.contains ⟨p, s, a⟩

def errCount (h : Heap) (calls : List ACall) : Nat := (calls.filter (fun c => !callOkB h c)).length

def observe (before : St) (op : Op) (o : StepOut) : Obs :=
  match op, o.res with
  | .r slot alog new, .r (.ret p) =>
    let old := before.slots slot
    let al := 2 ^ alog
    let isLive := o.st.heap.live.contains ⟨p, new, al⟩
    let rel : Rel := if p = 0 then .null else if old.size = 0 ∧ new = 0 ∧ p = al then .align
                     else if isLive then .blk else if p = al then .align else .wild
    -- `pfx`: `some true` stands for the statement of `Props.C24.realloc_preserves_prefix`
    let pfx : Option Bool := if old.size = 0 ∨ new = 0 ∨ rel ≠ .blk then none else some true
    .r rel (p % al == 0) pfx (o.calls.map (callObs old.ptr)) isLive (errCount before.heap o.calls)
  | .d slot, .d => .d (o.calls.map (callObs (before.slots slot).ptr)) (errCount before.heap o.calls)
  | .n size alog, .n (.ok p c) =>
    .n (p == 0) c.isSome (p % 2 ^ alog == 0) (o.calls.map (callObs 0)) (if size = 0 then 0 else errCount before.heap o.calls)
  | .x i, .x => .x (o.calls.map (callObs (before.cl i).ptr)) (errCount before.heap o.calls)
  | .f i, .f => .f (o.calls.map (callObs (before.cl i).ptr)) (errCount before.heap o.calls)
  | _, _ => .panic      -- assertion failure, allocation failure (abort) or bad index

def runObs (A : Allocator) (s : St) : List Op → List Obs
  | [] => []
  | op :: ops =>
    let o := step A s op
    observe s op o :: runObs A (match observe s op o with | .panic => s | _ => o.st) ops

/-- the precondition of a history, on the host's own bookkeeping: a request about a non-empty block
names the alignment it was allocated with ("consistent with earlier results") and does not resize
it to zero (the precondition `cabi_realloc` documents with its `debug_assert`); cleanup indices exist -/
def opPre (m : Mon) : Op → Bool
  | .r slot alog new =>
    -- consistent with the earlier result: same alignment; and the documented precondition
    ((m.slots slot).1 == 0 || ((m.slots slot).2 == 2 ^ alog && new != 0))
  | .d _ => true
  | .n _ _ => true
  | .x i | .f i => decide (i < m.ncls)

def histPre (m : Mon) : List Op → Bool
  | [] => true
  | op :: ops => opPre m op && histPre (m.next op) ops

end Witverif.Text.Realloc
