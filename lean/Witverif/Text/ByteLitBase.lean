/-
Vocabulary of the byte-escaping table of `emit_custom_section` (crates/rust/src/lib.rs), shared by the
generated table `Generated/RustSection.lean` and the model `Text/ByteLit.lean`.  Import-free.
-/
namespace Witverif.Text.ByteLit

/-- the `u8::is_ascii_*` predicates a guard may use -/
inductive Class
  | alnum | punct | graphic | alpha | digit | whitespace | upper | lower | control | ascii | hexdigit
deriving DecidableEq, Repr

/-- pattern of one `match byte` arm -/
inductive Pat
  | byte (n : Nat)                 -- `b'c'` or an integer literal
  | range (lo hi : Nat)            -- `b'x'..=b'y'`
  | classes (cs : List Class)      -- `b if b.is_ascii_…() || …`
  | any                            -- `_`
deriving DecidableEq, Repr

/-- what the arm writes -/
inductive Act
  | lit (s : List Char)            -- `s.push_str("…")`
  | verbatim                       -- `s.push(char::from(*byte))`
  | hex                            -- `uwrite!(s, "\\x{:02x}", byte)`
deriving DecidableEq, Repr

end Witverif.Text.ByteLit
