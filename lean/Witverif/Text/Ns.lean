/-
Model of `wit_bindgen_core::Ns` (crates/core/src/ns.rs).

  pub struct Ns { defined: HashSet<String>, tmp: usize }
  insert(name): Ok iff newly inserted
  tmp(name):    ret = name; while defined.contains(ret) { ret = name ++ tmp; tmp += 1 }; defined.insert(ret); ret

Strings are `List Char`; the hash set is a list without order-dependent observers
(only `contains`), `usize` is `Nat` (overflow after 2^64 iterations is out of scope).
Import-free: linked into the driver executable.
-/
namespace Witverif.Text

structure Ns where
  defined : List (List Char)
  ctr : Nat
deriving Repr

namespace Ns

def empty : Ns := ⟨[], 0⟩

/-- `format!("{}{}", name, n)` -/
def fmt (name : List Char) (n : Nat) : List Char := name ++ Nat.toDigits 10 n

/-- `Ns::insert`: `true` = `Ok(())`, `false` = `Err(..)`. The state is unchanged on conflict. -/
def insert (ns : Ns) (name : List Char) : Ns × Bool :=
  if ns.defined.contains name then (ns, false)
  else ({ ns with defined := name :: ns.defined }, true)

/-- the body of the `while` loop, run at most `fuel` times; returns `none` if fuel ran out. -/
def tmpLoop (defined : List (List Char)) (name : List Char) : Nat → Nat → List Char → Option (List Char × Nat)
  | 0, _, _ => none
  | fuel + 1, ctr, ret =>
    if defined.contains ret then tmpLoop defined name fuel (ctr + 1) (fmt name ctr)
    else some (ret, ctr)

/-- `Ns::tmp` with explicit fuel. -/
def tmpFuel (ns : Ns) (name : List Char) (fuel : Nat) : Option (Ns × List Char) :=
  match tmpLoop ns.defined name fuel ns.ctr name with
  | none => none
  | some (ret, ctr) => some ({ defined := ret :: ns.defined, ctr := ctr }, ret)

/-- `Ns::tmp`; `defined.length + 2` iterations always suffice (theorem `tmp_terminates`). -/
def tmp (ns : Ns) (name : List Char) : Option (Ns × List Char) :=
  tmpFuel ns name (ns.defined.length + 2)

/-- Operations of a history. -/
inductive Op
  | insert (name : List Char)
  | tmp (name : List Char)
deriving Repr

/-- Observable outcome of one operation. -/
inductive Out
  | ok | conflict | name (s : List Char) | diverged
deriving Repr, BEq, DecidableEq

def step (ns : Ns) : Op → Ns × Out
  | .insert n => let (ns', ok) := ns.insert n; (ns', if ok then .ok else .conflict)
  | .tmp n => match ns.tmp n with
    | some (ns', r) => (ns', .name r)
    | none => (ns, .diverged)

def run (ns : Ns) : List Op → Ns × List Out
  | [] => (ns, [])
  | op :: ops =>
    let (ns', o) := ns.step op
    let (ns'', os) := ns'.run ops
    (ns'', o :: os)

end Ns
end Witverif.Text

/-! ## Specification side (independent of the model of the code)

The property C26 as a monitor over an observed history: `known` is the set of names
defined or handed out so far.  This is what the check evaluates on the *implementation's*
outputs, and what `Props.C26.history_spec` proves of the model's outputs. -/
namespace Witverif.Text.NsSpec
open Witverif.Text.Ns (Op Out)

/-- One observed step is acceptable. -/
def stepOk (known : List (List Char)) : Op → Out → Bool
  | .insert n, .ok => !known.contains n          -- accepted ⇒ was not defined
  | .insert n, .conflict => known.contains n     -- conflict reported ⇔ already defined
  | .tmp _, .name r => !known.contains r         -- fresh: differs from everything known
  | _, _ => false

def stepKnown (known : List (List Char)) : Op → Out → List (List Char)
  | .insert n, _ => n :: known
  | .tmp _, .name r => r :: known
  | .tmp _, _ => known

def check (known : List (List Char)) : List Op → List Out → Bool
  | [], [] => true
  | op :: ops, o :: os => stepOk known op o && check (stepKnown known op o) ops os
  | _, _ => false

end Witverif.Text.NsSpec
