import Witverif.Text.Ns
/-
Model of the MoonBit package-graph bookkeeping (crates/moonbit/src/pkg.rs, crates/moonbit/src/lib.rs).

  struct Imports { packages: HashMap<String, String>,  // package name -> alias
                   ns: Ns }
  PkgResolver.package_import: HashMap<String, Imports>   // per generated package `this`

  qualify_package(this, name):
    if name != this {
      let imports = package_import.entry(this).or_default();
      if let Some(alias) = imports.packages.get(name) { "@{alias}." }
      else { let alias = imports.ns.tmp(name.split(".").last().unwrap());
             imports.packages.entry(name).or_insert(alias.clone()); "@{alias}." }
    } else { "" }

  write_moon_pkg(imports):   (the "import" array)
    deps = imports.packages.iter().map(|(k, v)|
             format!("{{ \"path\" : \"{}/{}\", \"alias\" : \"{}\" }}", project_name, k.replace(".", "/"), v))
    deps.sort(); join(",\n")

Hash maps are association lists observed through get / insert-if-absent / iteration-then-sort
(iteration order never reaches the output: `deps.sort()`).  Package names are dotted
(`interface.ns.pkg.iface`, `world.w`, `gen.interface…`, `async-core`); a generated package lives in
the directory `name.replace(".", "/")`.  Import-free apart from the `Ns` model (C26).
-/
namespace Witverif.Text.MoonPkg
open Witverif.Text

abbrev Str := List Char

structure Imports where
  packages : List (Str × Str)
  ns : Ns
deriving Repr

def Imports.empty : Imports := ⟨[], Ns.empty⟩

/-- `HashMap::get` -/
def lookup (k : Str) : List (Str × α) → Option α
  | [] => none
  | (k', v) :: rest => if k' = k then some v else lookup k rest

/-- `HashMap::insert` (replace or add) -/
def upsert (k : Str) (v : α) : List (Str × α) → List (Str × α)
  | [] => [(k, v)]
  | (k', v') :: rest => if k' = k then (k, v) :: rest else (k', v') :: upsert k v rest

/-- `name.split(".").last().unwrap()`: the characters after the last `.` -/
def lastSegment (name : Str) : Str :=
  name.foldl (fun acc c => if c = '.' then [] else acc ++ [c]) []

/-- `PkgResolver::package_import` -/
abbrev State := List (Str × Imports)

/-- what `qualify_package` returns -/
inductive Out
  | self                    -- `""`: the package refers to itself
  | alias (a : Str)         -- `"@{a}."`
  | diverged                -- `Ns::tmp` did not terminate (impossible, C26)
deriving Repr, DecidableEq

def Out.text : Out → Str
  | .self => []
  | .alias a => '@' :: a ++ ['.']
  | .diverged => "<diverged>".toList

/-- the `name != this` part of `qualify_package`, on the `Imports` of `this` -/
def Imports.qualify (imports : Imports) (name : Str) : Imports × Out :=
  match lookup name imports.packages with
  | some a => (imports, .alias a)
  | none =>
    match imports.ns.tmp (lastSegment name) with
    | none => (imports, .diverged)
    | some (ns', a) => ({ packages := imports.packages ++ [(name, a)], ns := ns' }, .alias a)

/-- `PkgResolver::qualify_package` -/
def qualify (st : State) (this name : Str) : State × Out :=
  if name = this then (st, .self)
  else
    let imports := (lookup this st).getD Imports.empty      -- `.entry(this).or_default()`
    let (imports', o) := imports.qualify name
    (upsert this imports' st, o)

/-- a sequence of `qualify_package(this, name)` calls -/
def run (st : State) : List (Str × Str) → State × List Out
  | [] => (st, [])
  | (this, name) :: calls =>
    let (st', o) := qualify st this name
    let (st'', os) := run st' calls
    (st'', o :: os)

/-- the calls of a run paired with what they returned -/
def trace (st : State) (calls : List (Str × Str)) : List (Str × Str × Out) :=
  calls.zip (run st calls).2 |>.map (fun c => (c.1.1, c.1.2, c.2))

/-- `k.replace(".", "/")` -/
def dirOf (name : Str) : Str := name.map (fun c => if c = '.' then '/' else c)

/-- lexicographic `<=` on strings by code point (= Rust's `String: Ord`, byte-wise UTF-8 order) -/
def leStr : Str → Str → Bool
  | [], _ => true
  | _ :: _, [] => false
  | a :: as, b :: bs => if a.toNat < b.toNat then true else if b.toNat < a.toNat then false else leStr as bs

/-- one element of the `"import"` array -/
def depLine (project : Str) (k v : Str) : Str :=
  "{ \"path\" : \"".toList ++ project ++ '/' :: dirOf k ++ "\", \"alias\" : \"".toList ++ v ++ "\" }".toList

/-- `Vec::sort` (the result only depends on the multiset: the order is total), as insertion sort -/
def insertStr (x : Str) : List Str → List Str
  | [] => [x]
  | y :: ys => if leStr x y then x :: y :: ys else y :: insertStr x ys

def sortStr (l : List Str) : List Str := l.foldr insertStr []

/-- the sorted `deps` of `write_moon_pkg` -/
def depLines (project : Str) (imports : Imports) : List Str :=
  sortStr (imports.packages.map (fun kv => depLine project kv.1 kv.2))

/-- the declared imports of `write_moon_pkg` as (path, alias) pairs (before formatting and sorting) -/
def declared (project : Str) (imports : Imports) : List (Str × Str) :=
  imports.packages.map (fun kv => (project ++ '/' :: dirOf kv.1, kv.2))

end Witverif.Text.MoonPkg

/-! ## Specification side (independent of the model of the code)

C30 as monitors over what is observable of a generated package: the (path, alias) pairs declared
in its `moon.pkg.json`, the aliases its sources use (`@alias.`), and the set of generated package
directories. -/
namespace Witverif.Text.MoonSpec

abbrev Str := List Char

def allDistinct : List Str → Bool
  | [] => true
  | x :: xs => !xs.contains x && allDistinct xs

/-- one package: every alias is declared at most once, every path at most once, and every alias
used in the sources is declared (hence declared under exactly one alias, exactly once). -/
def packageOk (decl : List (Str × Str)) (used : List Str) : Bool :=
  allDistinct (decl.map (·.2)) && allDistinct (decl.map (·.1)) &&
  used.all (fun a => (decl.map (·.2)).contains a)

/-- `p` is `project/` followed by a generated directory -/
def underProject (project : Str) (dirs : List Str) (p : Str) : Bool :=
  dirs.any (fun d => p == project ++ '/' :: d)

/-- the graph: every declared path of the project exists as a generated package directory -/
def graphOk (project : Str) (dirs : List Str) (decls : List (List (Str × Str))) : Bool :=
  decls.all (fun decl => decl.all (fun pa => underProject project dirs pa.1))

/-- kebab-case is preserved: the declared path is the dotted package name with `.` → `/`, nothing
else changed (same length, every other character identical). -/
def pathPreserves : Str → Str → Bool
  | [], [] => true
  | n :: ns, p :: ps => (if n == '.' then p == '/' else p == n) && pathPreserves ns ps
  | _, _ => false

def find (k : Str) : List (Str × α) → Option α
  | [] => none
  | (k', v) :: rest => if k' == k then some v else find k rest

/-- the final import tables: per package the names are distinct and the aliases are distinct -/
def finalOk (final : List (Str × List (Str × Str))) : Bool :=
  final.all (fun tp => allDistinct (tp.2.map (·.1)) && allDistinct (tp.2.map (·.2)))

/-- one observed call `qualify_package(this, name) = out` (`none` = `""`, `some a` = `"@a."`)
against the final tables: a self reference gets no qualifier, anything else gets the alias under
which `this` finally declares `name`. -/
def callOk (final : List (Str × List (Str × Str))) (c : Str × Str × Option Str) : Bool :=
  if c.2.1 == c.1 then c.2.2 == none
  else match c.2.2 with
    | none => false
    | some a => (match find c.1 final with | some t => find c.2.1 t | none => none) == some a

/-- every declared (name, alias) of every package was handed out by some call -/
def allHandedOut (final : List (Str × List (Str × Str))) (calls : List (Str × Str × Option Str)) : Bool :=
  final.all (fun tp => tp.2.all (fun ka => calls.any (fun c => c.1 == tp.1 && c.2.1 == ka.1 && c.2.2 == some ka.2)))

/-- The C30 monitor over a history of `qualify_package` calls and the final import tables.
It implies: an alias is declared for every qualifier returned, the same package always gets the
same alias, different packages get different aliases, nothing else is declared. -/
def historyOk (final : List (Str × List (Str × Str))) (calls : List (Str × Str × Option Str)) : Bool :=
  finalOk final && calls.all (callOk final) && allHandedOut final calls

end Witverif.Text.MoonSpec
