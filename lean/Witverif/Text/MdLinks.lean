import Witverif.Text.Heck
import Witverif.Text.Source
/-
Model of the Markdown documentation generator `crates/markdown/src/lib.rs` (C29, and the
Markdown part of C16).

Two parts, mirroring the Rust code:

  * `Md.gen`      — `preprocess` / `import_interface` / `import_types` / `import_funcs` /
                    `export_funcs` / `export_interface` and the `InterfaceGenerator` methods
                    (`docs`, `func`, `print_ty`, `print_type_header`, `type_*`), driven in the order of
                    `WorldGenerator::generate` (crates/core/src/lib.rs:26-85), over an *abstract world*:
                    names, `name_world_key` strings, doc comments, type trees in which a named type
                    is a reference by name (that is all `print_ty` reads of it).  The generator is
                    modelled as a list of operations on the `Source` buffer (`Op.str` = `push_str`,
                    `Op.lit` = `push_str_literal`, `indent`/`deindent`) interleaved with the
                    `hrefs.insert` calls (`Op.href`) and the panics of the Rust code (`Op.panic`),
                    then run on the `Source` model of C25.  `uwriteln!` = one `push_str` per piece of
                    the format string (`impl fmt::Write for Source`).
  * `Md.rewrite`  — the loop of `Markdown::finish` (lib.rs:206-236) over the pulldown-cmark events
                    of the generated `.md`, abstracted to what the loop inspects
                    (`Start(Link)`, `End(Link)`, `Code`) plus opaque other events.

`HashMap<String,String>` is an association list, newest binding first (`insert` = cons, `get` =
first match).  `to_snake_case` is `Heck.snake`.  Markdown parsing (`Parser::new`) and HTML
rendering (`push_html`) are external (pulldown-cmark); the correspondence run obtains the input
events from the real parser and renders the model's output events with the real renderer.

Imports only import-free model files: linked into the driver executable `m_mdlinks`.
-/
namespace Witverif.Text.Md
open RustStr

abbrev Str := List Char

/-! ## abstract world -/

mutual
/-- A type as `print_ty` sees it. -/
inductive Ty
  | prim (name : Str)            -- `Type::Bool` … `Type::ErrorContext`, by their printed name
  | ref (name : Str)             -- `Type::Id` of a type with `name = Some(..)`
  | alias (t : Ty)               -- unnamed `TypeDefKind::Type(t)`
  | tuple (ts : Tys)
  | option (t : Ty)
  | result2 (ok err : Ty) | resultErr (err : Ty) | resultOk (ok : Ty) | result0
  | list (t : Ty)
  | flist (n : Nat) (t : Ty)     -- `FixedLengthList`
  | map (k v : Ty)
  | future1 (t : Ty) | future0
  | stream1 (t : Ty) | stream0
  | own (t : Ty) | borrow (t : Ty)   -- `print_ty(&Type::Id(resource))`
  | unknown                      -- `TypeDefKind::Unknown`
  | bad                          -- unnamed record/resource/flags/enum/variant (`assert!` fails)
inductive Tys
  | nil
  | cons (t : Ty) (ts : Tys)
end

def Tys.toList : Tys → List Ty
  | .nil => []
  | .cons t ts => t :: ts.toList

def Tys.ofList : List Ty → Tys
  | [] => .nil
  | t :: ts => .cons t (Tys.ofList ts)

/-- record field / variant or enum case / flag -/
structure Member where
  name : Str
  ty : Option Ty
  docs : Option Str

/-- what `define_type` dispatches on -/
inductive DefKind
  | record (fields : List Member)
  | resource
  | flags (fs : List Member)
  | tuple (ts : List Ty)
  | variant (cases : List Member)
  | enum (cases : List Member)
  | option (t : Ty)
  | result (ok err : Option Ty)
  | self (t : Ty)       -- list / map / fixed-length list / future / stream: `type_alias(id, name, &Type::Id(id))`
  | alias (t : Ty)      -- `TypeDefKind::Type(t)`
  | handle              -- core `define_type`: panic "handle types do not require definition"
  | unknown

structure TypeDef where
  name : Str
  docs : Option Str
  kind : DefKind

structure Func where
  name : Str
  docs : Option Str
  params : List (Str × Ty)
  result : Option Ty

structure Iface where
  docs : Option Str
  types : List TypeDef
  funcs : List Func

/-- a world item with its `name_world_key` -/
inductive Item
  | iface (key : Str) (i : Iface)
  | func (key : Str) (f : Func)
  | type (key : Str) (t : TypeDef)

structure World where
  name : Str
  docs : Option Str
  imports : List Item
  exports : List Item

/-! ## the generator as a list of buffer operations -/

inductive Op
  | str (s : Str)        -- `Source::push_str`
  | lit (s : Str)        -- `Source::push_str_literal`
  | indent | deindent    -- `indent(1)` / `deindent(1)`
  | href (k v : Str)     -- `hrefs.insert(k, v)`
  | panic (msg : Str)
deriving Repr, DecidableEq

def s (x : String) : Str := x.toList
def snake (x : Str) : Str := Heck.snake x

/-- `<a id="x"></a>` -/
def anchor (x : Str) : Str := s "<a id=\"" ++ x ++ s "\"></a>"

/-- `InterfaceGenerator::docs` -/
def docsOps (d : Option Str) : List Op :=
  (lines (d.getD ['\n'])).flatMap fun l => [.lit (trim l), .str ['\n']]

def natStr (n : Nat) : Str := (toString n).toList

mutual
/-- `print_ty` (lib.rs:327-453) -/
def printTy : Ty → List Op
  | .prim n => [.str (['`'] ++ n ++ ['`'])]
  | .ref n => [.str (s "[`"), .str n, .str (s "`](#"), .str (snake n), .str (s ")")]
  | .alias t => printTy t
  | .tuple ts => [.str (s "(")] ++ printTys true ts ++ [.str (s ")")]
  | .option t => [.str (s "option<")] ++ printTy t ++ [.str (s ">")]
  | .result2 a b => [.str (s "result<")] ++ printTy a ++ [.str (s ", ")] ++ printTy b ++ [.str (s ">")]
  | .resultErr b => [.str (s "result<_, ")] ++ printTy b ++ [.str (s ">")]
  | .resultOk a => [.str (s "result<")] ++ printTy a ++ [.str (s ">")]
  | .result0 => [.str (s "result")]
  | .list t => [.str (s "list<")] ++ printTy t ++ [.str (s ">")]
  | .flist n t => [.str (s "list<")] ++ printTy t ++ [.str (s ", " ++ natStr n ++ s ">")]
  | .map k v => [.str (s "map<")] ++ printTy k ++ [.str (s ", ")] ++ printTy v ++ [.str (s ">")]
  | .future1 t => [.str (s "future<")] ++ printTy t ++ [.str (s ">")]
  | .future0 => [.str (s "future")]
  | .stream1 t => [.str (s "stream<")] ++ printTy t ++ [.str (s ">")]
  | .stream0 => [.str (s "stream")]
  | .own t => [.str (s "own<")] ++ printTy t ++ [.str (s ">")]
  | .borrow t => [.str (s "borrow<")] ++ printTy t ++ [.str (s ">")]
  | .unknown => [.panic (s "internal error: entered unreachable code")]
  | .bad => [.panic (s "assertion failed: ty.name.is_some()")]
/-- the tuple loop: `, ` before every element but the first -/
def printTys : Bool → Tys → List Op
  | _, .nil => []
  | first, .cons t ts => (if first then [] else [.str (s ", ")]) ++ printTy t ++ printTys false ts
end

/-- `print_type_header`; the flag is `types_header_printed` -/
def typeHeader (printed : Bool) (kind name : Str) : List Op :=
  (if printed then [] else [.str (s "----\n\n"), .str (s "### Types\n\n")]) ++
  [.str (s "#### " ++ anchor (snake name) ++ ['`'] ++ kind ++ [' '] ++ name ++ s "`\n"),
   .href name (['#'] ++ snake name)]

/-- member docs: `if docs.contents.is_some() { indent(1); push_str("\n<p>"); docs(..); deindent(1) }` -/
def memberDocs (d : Option Str) : List Op :=
  if d.isSome then [.indent, .str (s "\n<p>")] ++ docsOps d ++ [.deindent] else []

/-- the `- <a id="r.f"></a>`name`` bullet and its `hrefs.insert("r::name", "#r.f")` -/
def memberHead (tname mname : Str) (colon : Bool) : List Op :=
  [.str (s "- " ++ anchor (snake tname ++ ['.'] ++ snake mname) ++ ['`'] ++ mname ++ ['`'] ++
         (if colon then s ": " else [])),
   .href (tname ++ s "::" ++ mname) (['#'] ++ snake tname ++ ['.'] ++ snake mname)]

def optTy (colon : Bool) : Option Ty → List Op
  | some t => (if colon then [.str (s ": ")] else []) ++ printTy t
  | none => []

def recordField (tname : Str) (m : Member) : List Op :=
  memberHead tname m.name true ++ optTy false m.ty ++ memberDocs m.docs ++ [.str ['\n']]
def flagMember (tname : Str) (m : Member) : List Op :=
  memberHead tname m.name true ++ memberDocs m.docs ++ [.str ['\n']]
def variantCase (tname : Str) (m : Member) : List Op :=
  memberHead tname m.name false ++ optTy true m.ty ++ memberDocs m.docs ++ [.str ['\n']]
def enumCase (tname : Str) (m : Member) : List Op :=
  memberHead tname m.name false ++ memberDocs m.docs ++ [.str ['\n']]

/-- `type_tuple`'s loop (`i` is the element index) -/
def tupleFields (tname : Str) : Nat → List Ty → List Op
  | _, [] => []
  | i, t :: ts =>
    [.str (s "- " ++ anchor (snake tname ++ ['.'] ++ natStr i) ++ ['`'] ++ natStr i ++ s "`: "),
     .href (tname ++ s "::" ++ natStr i) (['#'] ++ snake tname ++ ['.'] ++ natStr i)] ++
    printTy t ++ [.str ['\n']] ++ tupleFields tname (i + 1) ts

def resultTy : Option Ty → Option Ty → List Op
  | some a, some b => [.str (s "result<")] ++ printTy a ++ [.str (s ", ")] ++ printTy b ++ [.str (s ">")]
  | none, some b => [.str (s "result<_, ")] ++ printTy b ++ [.str (s ">")]
  | some a, none => [.str (s "result<")] ++ printTy a ++ [.str (s ">")]
  | none, none => [.str (s "result")]

/-- `type_alias` -/
def aliasOps (printed : Bool) (name : Str) (t : Ty) (d : Option Str) : List Op :=
  typeHeader printed (s "type") name ++ printTy t ++ [.str (s "\n<p>")] ++ docsOps d ++ [.str ['\n']]

/-- `define_type(name, id)`: the operations, and whether the types header has been printed after it -/
def defineType (printed : Bool) (t : TypeDef) : List Op × Bool :=
  let n := t.name
  match t.kind with
  | .record fs =>
    (typeHeader printed (s "record") n ++ [.str ['\n']] ++ docsOps t.docs ++
      [.str (s "\n##### Record Fields\n\n")] ++ fs.flatMap (recordField n) ++ [.str ['\n']], true)
  | .resource => (typeHeader printed (s "resource") n ++ [.str ['\n']] ++ docsOps t.docs, true)
  | .flags fs =>
    (typeHeader printed (s "flags") n ++ [.str ['\n']] ++ docsOps t.docs ++
      [.str (s "\n##### Flags members\n\n")] ++ fs.flatMap (flagMember n) ++ [.str ['\n']], true)
  | .tuple ts =>
    (typeHeader printed (s "tuple") n ++ [.str ['\n']] ++ docsOps t.docs ++
      [.str (s "\n##### Tuple Fields\n\n")] ++ tupleFields n 0 ts ++ [.str ['\n']], true)
  | .variant cs =>
    (typeHeader printed (s "variant") n ++ [.str ['\n']] ++ docsOps t.docs ++
      [.str (s "\n##### Variant Cases\n\n")] ++ cs.flatMap (variantCase n) ++ [.str ['\n']], true)
  | .enum cs =>
    (typeHeader printed (s "enum") n ++ [.str ['\n']] ++ docsOps t.docs ++
      [.str (s "\n##### Enum Cases\n\n")] ++ cs.flatMap (enumCase n) ++ [.str ['\n']], true)
  | .option ty =>
    (typeHeader printed (s "type") n ++ [.str (s "option<")] ++ printTy ty ++ [.str (s ">"), .str ['\n']] ++
      docsOps t.docs, true)
  | .result a b =>
    (typeHeader printed (s "type") n ++ resultTy a b ++ [.str ['\n']] ++ docsOps t.docs, true)
  | .self ty => (aliasOps printed n ty t.docs, true)
  | .alias ty => (aliasOps printed n ty t.docs, true)
  | .handle => ([.panic (s "handle types do not require definition")], printed)
  | .unknown => ([.panic (s "internal error: entered unreachable code")], printed)

/-- `types(id)` / the loop of `import_types`: one `InterfaceGenerator`, so the header flag is threaded -/
def defineTypes : Bool → List TypeDef → List Op
  | _, [] => []
  | printed, t :: ts => (defineType printed t).1 ++ defineTypes (defineType printed t).2 ts

/-- `InterfaceGenerator::func` -/
def funcOps (f : Func) : List Op :=
  [.str (s "#### " ++ anchor (snake f.name) ++ ['`']),
   .href f.name (['#'] ++ snake f.name),
   .str f.name, .str (s ": func`"), .str (s "\n\n")] ++ docsOps f.docs ++
  (if f.params.length > 0 then
    [.str ['\n'], .str (s "##### Params\n\n")] ++
    f.params.flatMap (fun p =>
      [.str (s "- " ++ anchor (snake f.name ++ ['.'] ++ snake p.1) ++ ['`'] ++ p.1 ++ s "`: ")] ++
      printTy p.2 ++ [.str ['\n']])
   else []) ++
  (match f.result with
   | some t => [.str (s "\n##### Return values\n\n"),
                .str (s "- " ++ anchor (snake f.name ++ s ".0") ++ [' '])] ++ printTy t ++ [.str ['\n']]
   | none => []) ++
  [.str ['\n']]

/-- `InterfaceGenerator::funcs` -/
def funcsOps (fs : List Func) : List Op :=
  if fs.isEmpty then [] else [.str (s "----\n\n"), .str (s "### Functions\n\n")] ++ fs.flatMap funcOps

def Item.key : Item → Str
  | .iface k _ | .func k _ | .type k _ => k

/-- one table-of-contents line of `preprocess` -/
def tocLine (it : Item) : List Op :=
  match it with
  | .iface k _ => [.str (s "    - interface `"), .str k, .str (s "`\n")]
  | .func k _ => [.str (s "    - function `"), .str k, .str (s "`\n")]
  | .type k _ => [.str (s "    - type `"), .str k, .str (s "`\n")]

def toc (title : Str) (items : List Item) : List Op :=
  if items.isEmpty then [] else [.str title] ++ items.flatMap tocLine

/-- `preprocess` (lib.rs:40-113).  `uwriteln!(src, "# <a id=\"{}\"></a>World {}\n", …)` writes the
pieces of the format string one by one; `writeln!` appends its `\n` to the last literal piece. -/
def preprocess (w : World) : List Op :=
  [.str (s "# <a id=\""), .str (snake w.name), .str (s "\"></a>World "), .str w.name, .str (s "\n\n"),
   .href w.name (['#'] ++ snake w.name)] ++
  docsOps w.docs ++ [.str ['\n']] ++
  toc (s " - Imports:\n") w.imports ++ toc (s " - Exports:\n") w.exports ++ [.str ['\n']]

/-- the `## <a id="…"></a>{Import|Export} interface {name}` heading and its `hrefs.insert` -/
def ifaceHead (what key : Str) : List Op :=
  [.str (s "## <a id=\""), .str (snake key), .str (s "\"></a>" ++ what ++ s " interface "), .str key,
   .str (s "\n\n"), .href key (['#'] ++ snake key)]

def importInterface (key : Str) (i : Iface) : List Op :=
  ifaceHead (s "Import") key ++ docsOps i.docs ++ [.str ['\n']] ++ defineTypes false i.types ++ funcsOps i.funcs

/-- `export_interface`: like `import_interface` (the interface's doc comment is printed since the
`fix:` commit that added the `docs(..)` call) -/
def exportInterface (key : Str) (i : Iface) : List Op :=
  ifaceHead (s "Export") key ++ docsOps i.docs ++ [.str ['\n']] ++ defineTypes false i.types ++ funcsOps i.funcs

def worldHead (pre wname : Str) : List Op := [.str pre, .str wname, .str (s "`\n\n")]

def itemFuncs : List Item → List Func
  | [] => []
  | .func _ f :: r => f :: itemFuncs r
  | _ :: r => itemFuncs r
def itemTypes : List Item → List TypeDef
  | [] => []
  | .type _ t :: r => t :: itemTypes r
  | _ :: r => itemTypes r
def itemIfaces : List Item → List (Str × Iface)
  | [] => []
  | .iface k i :: r => (k, i) :: itemIfaces r
  | _ :: r => itemIfaces r

/-- `WorldGenerator::generate` up to `finish`: interfaces as met, then world types, then world
functions; exports: functions first, then interfaces.  An exported `Type` item is `unreachable!()`. -/
def genOps (w : World) : List Op :=
  preprocess w ++
  (itemIfaces w.imports).flatMap (fun p => importInterface p.1 p.2) ++
  (if (itemTypes w.imports).isEmpty then [] else
    worldHead (s "## Exported types from world `") w.name ++ defineTypes false (itemTypes w.imports)) ++
  (if (itemFuncs w.imports).isEmpty then [] else
    worldHead (s "## Imported functions to world `") w.name ++ (itemFuncs w.imports).flatMap funcOps) ++
  (if (itemTypes w.exports).isEmpty then [] else [.panic (s "internal error: entered unreachable code")]) ++
  (if (itemFuncs w.exports).isEmpty then [] else
    worldHead (s "## Exported functions from world `") w.name ++ (itemFuncs w.exports).flatMap funcOps) ++
  (itemIfaces w.exports).flatMap (fun p => exportInterface p.1 p.2)

/-! ## running the operations on the `Source` buffer -/

structure St where
  src : Source
  hrefs : List (Str × Str)

inductive Res
  | ok (st : St)
  | panic (msg : Str)

def step (st : St) : Op → Res
  | .str t => .ok { st with src := st.src.pushStr t }
  | .lit t => .ok { st with src := st.src.pushStrLiteral t }
  | .indent => .ok { st with src := st.src.addIndent 1 }
  | .deindent => match st.src.deindent 1 with
    | some x => .ok { st with src := x }
    | none => .panic (s "attempt to subtract with overflow")
  | .href k v => .ok { st with hrefs := (k, v) :: st.hrefs }
  | .panic m => .panic m

def run (st : St) : List Op → Res
  | [] => .ok st
  | op :: ops => match step st op with
    | .ok st' => run st' ops
    | .panic m => .panic m

def St.init : St := ⟨Source.empty, []⟩

/-- the generated `.md` text and the `hrefs` table, or the panic message -/
def gen (w : World) : Res := run St.init (genOps w)

/-! ## `Markdown::finish`: the link pass over the events -/

/-- pulldown-cmark events as far as the pass distinguishes them -/
inductive Ev
  | startLink (lt dest title id : Str)   -- `Start(Tag::Link{..})`
  | endLink                              -- `End(TagEnd::Link)`
  | code (c : Str)                       -- `Code`
  | text (t : Str)
  | html (t : Str)                       -- `Html` (block)
  | inlineHtml (t : Str)                 -- `InlineHtml`
  | start (tag : Str)                    -- any other `Start`, opaque
  | stop (tag : Str)                     -- any other `End`, opaque
  | other (t : Str)                      -- `SoftBreak`, `HardBreak`, `Rule`
deriving Repr, DecidableEq

/-- `hrefs.get(code)` -/
def lookup (hrefs : List (Str × Str)) (k : Str) : Option Str :=
  match hrefs with
  | [] => none
  | (k', v) :: r => if k' = k then some v else lookup r k

/-- the inserted link: `Tag::Link{ link_type: Inline, dest_url: dst, title: "", id: "" }` -/
def mkLink (dst : Str) : Ev := .startLink (s "in") dst [] []

/-- the `for event in parser` loop; the flag is `in_link` -/
def rewriteGo (hrefs : List (Str × Str)) : Bool → List Ev → List Ev
  | _, [] => []
  | _, .startLink a b c d :: es => .startLink a b c d :: rewriteGo hrefs true es
  | _, .endLink :: es => .endLink :: rewriteGo hrefs false es
  | inLink, .code c :: es =>
    if inLink then .code c :: rewriteGo hrefs inLink es
    else match lookup hrefs c with
      | some dst => mkLink dst :: .code c :: .endLink :: rewriteGo hrefs inLink es
      | none => .code c :: rewriteGo hrefs inLink es
  | inLink, e :: es => e :: rewriteGo hrefs inLink es

def rewrite (hrefs : List (Str × Str)) (evs : List Ev) : List Ev := rewriteGo hrefs false evs

end Witverif.Text.Md

/-! ## Specification side

Nothing below mentions the model of the code (`Md.gen*`, `Md.rewrite*`); it uses the data types
of events / worlds and Rust `str` primitives only.

  (1) no link nested in a link:  `noNested` on an event list (markdown links),
      `tokNoNested` on the `<a …>` / `</a>` tags of an HTML text (`scan`) — an `<a>` opened while
      another is open — and `anchorsOf` = the tags an event list renders to;
  (2) `hrefsDefined`: every `<a href="#x">` has an `<a id="x">` / `name="x"` in the same document;
  (3) `docsVerbatim`: every line of every doc comment, trimmed, occurs in the `.md`.
-/
namespace Witverif.Text.MdSpec
open RustStr
open Md (Str Ev World Item Iface TypeDef DefKind Member Func)

/-! ### (1) nesting -/

/-- link depth over events, starting at depth `d`: a `Start(Link)` at depth > 0 is a nested link.
`End(Link)` at depth 0 is ignored (saturating). -/
def noNested : Nat → List Ev → Bool
  | _, [] => true
  | d, .startLink .. :: es => d == 0 && noNested (d + 1) es
  | d, .endLink :: es => noNested (d - 1) es
  | d, _ :: es => noNested d es

/-- an `<a …>` start tag with its `href` and `id`/`name` attribute values, or `</a>` -/
inductive Tok
  | openA (href : Option Str) (id : Option Str)
  | closeA
deriving Repr, DecidableEq

/-- value of attribute `key` inside the text of a start tag (after `<a`): `key="…"` or `key='…'`
preceded by whitespace; first occurrence. -/
def attr (key : Str) : List Char → Option Str
  | [] => none
  | c :: cs =>
    if isWhite c && (key ++ ['=']).isPrefixOf cs then
      match cs.drop (key.length + 1) with
      | q :: rest => if q == '"' || q == '\'' then some (rest.takeWhile (· != q)) else some ((q :: rest).takeWhile (fun c => !isWhite c))
      | [] => some []
    else attr key cs

/-- the tag text up to (not including) the closing `>` -/
def tagBody (cs : List Char) : List Char := cs.takeWhile (· != '>')

/-- scan an HTML text for anchor tags.  `<a` must be followed by whitespace or `>`; tag names are
matched case-insensitively (`<A HREF>`). -/
def scan : List Char → List Tok
  | [] => []
  | c :: cs =>
    if c == '<' then
      match cs with
      | a :: rest =>
        if (a == 'a' || a == 'A') && (rest.head?.all fun x => isWhite x || x == '>') && !rest.isEmpty then
          let body := tagBody rest
          .openA ((attr (Md.s "href") body).orElse fun _ => attr (Md.s "HREF") body)
                 ((attr (Md.s "id") body).orElse fun _ => attr (Md.s "name") body) :: scan cs
        else if a == '/' then
          match rest with
          | b :: rest2 =>
            if (b == 'a' || b == 'A') && (rest2.head?.all fun x => isWhite x || x == '>') then .closeA :: scan cs
            else scan cs
          | [] => scan cs
        else scan cs
      | [] => []
    else scan cs

/-- anchor nesting over tags: an `<a>` opened at depth > 0 is nested -/
def tokNoNested : Nat → List Tok → Bool
  | _, [] => true
  | d, .openA .. :: ts => d == 0 && tokNoNested (d + 1) ts
  | d, .closeA :: ts => tokNoNested (d - 1) ts

/-- the anchor tags an event list renders to: links render as `<a href=…>`…`</a>`, raw HTML is
copied through, everything else is escaped text or non-anchor tags -/
def anchorsOf : List Ev → List Tok
  | [] => []
  | .startLink _ dest _ _ :: es => .openA (some dest) none :: anchorsOf es
  | .endLink :: es => .closeA :: anchorsOf es
  | .html t :: es => scan t ++ anchorsOf es
  | .inlineHtml t :: es => scan t ++ anchorsOf es
  | _ :: es => anchorsOf es

/-- Input condition of the HTML-level claim: the input events' own HTML has no nested anchor, and
no code span sits inside a raw-HTML anchor without being inside a markdown link (`inLink`). -/
def htmlSafe : Nat → Bool → List Ev → Bool
  | _, _, [] => true
  | d, _, .startLink .. :: es => d == 0 && htmlSafe (d + 1) true es
  | d, _, .endLink :: es => htmlSafe (d - 1) false es
  | d, b, .code _ :: es => (b || d == 0) && htmlSafe d b es
  | d, b, .html t :: es => tokNoNested d (scan t) && htmlSafe (depthAfter d (scan t)) b es
  | d, b, .inlineHtml t :: es => tokNoNested d (scan t) && htmlSafe (depthAfter d (scan t)) b es
  | d, b, _ :: es => htmlSafe d b es
where
  depthAfter : Nat → List Tok → Nat
    | d, [] => d
    | d, .openA .. :: ts => depthAfter (d + 1) ts
    | d, .closeA :: ts => depthAfter (d - 1) ts

/-! ### (2) intra-document links -/

def ids : List Tok → List Str
  | [] => []
  | .openA _ (some i) :: ts => i :: ids ts
  | _ :: ts => ids ts

/-- fragments of the intra-document hrefs -/
def fragments : List Tok → List Str
  | [] => []
  | .openA (some ('#' :: x)) _ :: ts => x :: fragments ts
  | _ :: ts => fragments ts

def hrefsDefined (ts : List Tok) : Bool := (fragments ts).all fun x => (ids ts).contains x

/-- the fragments without an anchor (for the report) -/
def dangling (ts : List Tok) : List Str := (fragments ts).filter fun x => !(ids ts).contains x

/-! ### (3) documentation text -/

/-- `needle` occurs in `hay` -/
def isInfix (needle : Str) : Str → Bool
  | [] => needle.isEmpty
  | c :: cs => needle.isPrefixOf (c :: cs) || isInfix needle cs

/-- every line of the doc comment, without surrounding whitespace, occurs in the text -/
def docIn (md : Str) (doc : Str) : Bool := (lines doc).all fun l => isInfix (trim l) md

def memberDocs (ms : List Member) : List Str := ms.filterMap (·.docs)

def typeDocs (t : TypeDef) : List Str :=
  t.docs.toList ++ match t.kind with
    | .record fs | .flags fs | .variant fs | .enum fs => memberDocs fs
    | _ => []

def ifaceDocs (i : Iface) : List Str :=
  i.docs.toList ++ i.types.flatMap typeDocs ++ i.funcs.filterMap (·.docs)

def itemDocs : Item → List Str
  | .iface _ i => ifaceDocs i
  | .func _ f => f.docs.toList
  | .type _ t => typeDocs t

/-- every doc comment of the world: the world's, its interfaces', types', members', functions' -/
def allDocs (w : World) : List Str :=
  w.docs.toList ++ w.imports.flatMap itemDocs ++ w.exports.flatMap itemDocs

def docsVerbatim (md : Str) (w : World) : Bool := (allDocs w).all (docIn md)

/-- What the generator prints of an exported item: as `itemDocs`, but no exported type items
(`unreachable!()` in `WorldGenerator::generate`: a valid world has none). -/
def exportItemDocs : Item → List Str
  | .iface _ i => ifaceDocs i
  | .func _ f => f.docs.toList
  | .type _ _ => []

/-- the doc comments that have a `docs(..)` call in the generator -/
def printedDocs (w : World) : List Str :=
  w.docs.toList ++ w.imports.flatMap itemDocs ++ w.exports.flatMap exportItemDocs

def printedDocsVerbatim (md : Str) (w : World) : Bool := (printedDocs w).all (docIn md)

/-- the doc comments missing from the text (for the report) -/
def missingDocs (md : Str) (w : World) : List Str := (allDocs w).filter fun d => !docIn md d

end Witverif.Text.MdSpec
