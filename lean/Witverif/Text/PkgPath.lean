import Witverif.Text.Heck
/-
Model of `wit_bindgen_core::name_package_module` (crates/core/src/path.rs).

  let versions_with_same_name = packages.filter(|p| p.namespace == pkg.namespace && p.name == pkg.name)
  let base = pkg.name.name.to_snake_case();
  if versions_with_same_name.len() == 1 { return base }
  let Some(version) = pkg.version else { return base };
  let version = version.to_string().replace('.', "_").replace('-', "_").replace('+', "_").to_snake_case();
  format!("{base}{version}")

`Resolve::packages` is a list of packages (only the `PackageName` matters), `semver::Version` is a
structure whose `Display` is `toStr` (pre-release / build metadata are the crate's opaque identifier
strings, empty = absent).  Import-free apart from the Heck model.
-/
namespace Witverif.Text.PkgPath
open Witverif.Text.Heck

structure Version where
  major : Nat
  minor : Nat
  patch : Nat
  pre : List Char
  build : List Char
deriving DecidableEq, Repr

/-- `<semver::Version as Display>::fmt` -/
def Version.toStr (v : Version) : List Char :=
  Nat.toDigits 10 v.major ++ '.' :: (Nat.toDigits 10 v.minor ++ '.' :: (Nat.toDigits 10 v.patch ++
    ((if v.pre = [] then [] else '-' :: v.pre) ++ (if v.build = [] then [] else '+' :: v.build))))

/-- `wit_parser::PackageName` -/
structure Pkg where
  ns : List Char
  name : List Char
  version : Option Version
deriving DecidableEq, Repr

/-- `str::replace(a, b)` for single characters. -/
def replaceChar (a b : Char) (s : List Char) : List Char := s.map (fun c => if c = a then b else c)

/-- the mangled version suffix -/
def mangleVersion (v : Version) : List Char :=
  snake (replaceChar '+' '_' (replaceChar '-' '_' (replaceChar '.' '_' v.toStr)))

/-- the closure of the `filter_map` -/
def sameName (pkg p : Pkg) : Bool := p.ns == pkg.ns && p.name == pkg.name

/-- `name_package_module(resolve, id)` with `resolve.packages = pkgs`, `resolve.packages[id] = pkg`. -/
def namePackageModule (pkgs : List Pkg) (pkg : Pkg) : List Char :=
  let base := snake pkg.name
  if (pkgs.filter (sameName pkg)).length == 1 then base
  else match pkg.version with
    | none => base
    | some v => base ++ mangleVersion v

/-- by arena index; `none` = the Rust index panics. -/
def nameAt (pkgs : List Pkg) (i : Nat) : Option (List Char) :=
  (pkgs[i]?).map (namePackageModule pkgs)

/-- the names of all packages, in arena order -/
def allNames (pkgs : List Pkg) : List (List Char) := pkgs.map (namePackageModule pkgs)

end Witverif.Text.PkgPath

/-! ## Specification side (independent of the model of the code)

C27 as a monitor over an observed (packages, module names) pair, the validity predicates of the
inputs the property quantifies over (WIT package names, semantic versions), and the decidable
hypotheses of the partial theorems. -/
namespace Witverif.Text.PkgSpec
open Witverif.Text.PkgPath (Pkg Version)

def isLowerAz (c : Char) : Bool := 97 ≤ c.toNat && c.toNat ≤ 122
def isUpperAz (c : Char) : Bool := 65 ≤ c.toNat && c.toNat ≤ 90
def isDigit09 (c : Char) : Bool := 48 ≤ c.toNat && c.toNat ≤ 57

/-- Every two *different* packages of one namespace carry different module names
(`obs` pairs each package with the name the implementation produced for it). -/
def pairwiseOk : List (Pkg × List Char) → Bool
  | [] => true
  | (p, n) :: rest =>
    rest.all (fun qm => !(p.ns == qm.1.ns && p != qm.1) || n != qm.2) && pairwiseOk rest

/-- The C27 monitor. -/
def check (pkgs : List Pkg) (names : List (List Char)) : Bool :=
  pkgs.length == names.length && pairwiseOk (pkgs.zip names)

/-! ### Valid inputs (what wit-parser / semver accept) -/

/-- one `-`-separated word of a WIT identifier: all lower-case or all upper-case letters, digits anywhere -/
def wordOk (w : List Char) : Bool :=
  w != [] && (w.all (fun c => isLowerAz c || isDigit09 c) || w.all (fun c => isUpperAz c || isDigit09 c))

def splitOn (sep : Char) : List Char → List (List Char)
  | [] => [[]]
  | c :: cs =>
    if c = sep then [] :: splitOn sep cs
    else match splitOn sep cs with
      | w :: ws => (c :: w) :: ws
      | [] => [[c]]

/-- `wit_parser::validate_id` -/
def validName (n : List Char) : Bool :=
  (match n with | c :: _ => isLowerAz c || isUpperAz c | [] => false) && (splitOn '-' n).all wordOk

def identChar (c : Char) : Bool := isLowerAz c || isUpperAz c || isDigit09 c || c == '-'

/-- a semver pre-release identifier: `[0-9A-Za-z-]+`, numeric ones without leading zero -/
def preIdentOk (w : List Char) : Bool :=
  w != [] && w.all identChar &&
  !(w.all isDigit09 && w.length > 1 && w.head? == some '0')

def buildIdentOk (w : List Char) : Bool := w != [] && w.all identChar

def validVersion (v : Version) : Bool :=
  (v.pre == [] || (splitOn '.' v.pre).all preIdentOk) &&
  (v.build == [] || (splitOn '.' v.build).all buildIdentOk)

def validPkg (p : Pkg) : Bool :=
  validName p.ns && validName p.name && (match p.version with | none => true | some v => validVersion v)

/-! ### Hypotheses of the partial theorems -/

/-- rest of a plain name; `prev` = previous character -/
def plainTail : Char → List Char → Bool
  | prev, [] => prev != '-'
  | prev, c :: cs =>
    (if c == '-' then prev != '-'
     else if isDigit09 c then prev == '-'
     else isLowerAz c) && plainTail c cs

/-- lower-case kebab name (`[a-z][a-z0-9]*` words… ) in which every digit directly follows a `-`:
`foo`, `foo-bar`, `http-2`, but not `foo1`, `foo-10`, `FOO`. -/
def plainName : List Char → Bool
  | [] => false
  | c :: cs => isLowerAz c && plainTail c cs

def plainPreTail : Char → List Char → Bool
  | prev, [] => prev != '.'
  | prev, c :: cs =>
    (if c == '.' then prev != '.' else (isLowerAz c || isDigit09 c)) && plainPreTail c cs

/-- pre-release made of `.`-separated non-empty `[a-z0-9]+` identifiers (no `-`, no upper case) -/
def plainPre : List Char → Bool
  | [] => true
  | c :: cs => (isLowerAz c || isDigit09 c) && plainPreTail c cs

/-- no build metadata, plain pre-release -/
def plainVersion (v : Version) : Bool := v.build == [] && plainPre v.pre

/-- a package's version, if any, is plain -/
def plainVersionOpt : Option Version → Bool
  | none => true
  | some v => plainVersion v

def plainPkg (p : Pkg) : Bool := plainName p.name && plainVersionOpt p.version

end Witverif.Text.PkgSpec
