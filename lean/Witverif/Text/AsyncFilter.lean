/-
Model of `wit_bindgen_core::AsyncFilterSet` (crates/core/src/async_.rs).

  struct AsyncFilterSet { async_: Vec<Async>, used_options: HashSet<usize> }
  struct Async { enabled: bool, filter: AsyncFilter }
  enum AsyncFilter { All, Function(String), Import(String), Export(String) }

  Async::parse(s)      strip one leading '-' (=> disabled); "all" | "import:"… | "export:"… | name
  Display              inverse rendering
  is_async(resolve, interface, func, is_import)
                       name_to_test = "{name_world_key(interface)}#{func.name}" | func.name
                       for (i, opt) in enumerate: All => use(i), return enabled
                                                  Import(s) if !is_import => continue
                                                  Export(s) if  is_import => continue
                                                  s == name_to_test => use(i), return enabled
                       no directive: func.kind is one of the Async* kinds
  ensure_all_used()    first i not in used_options whose filter is not All => Err("unused async option: {opt}")
  debug_opts / any_enabled / push / all(b)

Strings are `List Char`; `HashSet<usize>` is a list observed only through `contains`.
`resolve.name_world_key(key)` (wit-parser) is a parameter: a function descriptor carries the
already-rendered interface name.  Import-free: linked into the driver executable.
-/
namespace Witverif.Text.AsyncFilter

/-! ### Data shared by the model and the specification (syntax of directives, function descriptors) -/

inductive Filter
  | all
  | function (s : List Char)
  | «import» (s : List Char)
  | «export» (s : List Char)
deriving Repr, DecidableEq

structure Async where
  enabled : Bool
  filter : Filter
deriving Repr, DecidableEq

/-- `wit_parser::FunctionKind` (the resource id carried by the method kinds is irrelevant here). -/
inductive Kind
  | freestanding | method | static | constructor
  | asyncFreestanding | asyncMethod | asyncStatic
deriving Repr, DecidableEq

/-- The final `match &func.kind` of `is_async`: what the WIT declares. -/
def Kind.declaredAsync : Kind → Bool
  | .freestanding | .method | .static | .constructor => false
  | .asyncFreestanding | .asyncMethod | .asyncStatic => true

/-- What `is_async` is asked about: `interface.map(name_world_key)`, `func.name`, `func.kind`,
and the `is_import` flag. -/
structure Func where
  iface : Option (List Char)
  name : List Char
  kind : Kind
  isImport : Bool
deriving Repr, DecidableEq

/-- The documented way to name a function in a directive: `foo:bar/baz#method`, or the bare
name for a function declared directly in the world. -/
def Func.qualName (f : Func) : List Char :=
  match f.iface with
  | some k => k ++ '#' :: f.name
  | none => f.name

def sAll : List Char := "all".toList
def sImport : List Char := "import:".toList
def sExport : List Char := "export:".toList
def sUnused : List Char := "unused async option: ".toList

/-- `impl Display for AsyncFilter` -/
def Filter.display : Filter → List Char
  | .all => sAll
  | .function s => s
  | .import s => sImport ++ s
  | .export s => sExport ++ s

/-- `impl Display for Async`: the documented directive syntax `[-](all | NAME | import:NAME | export:NAME)`. -/
def Async.display (a : Async) : List Char :=
  (if a.enabled then [] else ['-']) ++ a.filter.display

/-! ### Model of the code -/

/-- `str::strip_prefix(&str)` -/
def stripPrefix : List Char → List Char → Option (List Char)
  | [], s => some s
  | _ :: _, [] => none
  | p :: ps, c :: cs => if p = c then stripPrefix ps cs else none

/-- The `let filter = match s { … }` of `Async::parse`. -/
def parseFilter (s : List Char) : Filter :=
  if s = sAll then .all
  else match stripPrefix sImport s with
    | some r => .import r
    | none => match stripPrefix sExport s with
      | some r => .export r
      | none => .function s

/-- `Async::parse` -/
def parse (s : List Char) : Async :=
  match stripPrefix ['-'] s with
  | some s' => { enabled := false, filter := parseFilter s' }
  | none => { enabled := true, filter := parseFilter s }

/-- `AsyncFilterSet` -/
structure Set where
  opts : List Async
  used : List Nat
deriving Repr

namespace Set

/-- `AsyncFilterSet::default()` -/
def empty : Set := ⟨[], []⟩

/-- `AsyncFilterSet::all(b)` -/
def all (b : Bool) : Set := ⟨[⟨b, .all⟩], []⟩

/-- `AsyncFilterSet::push` -/
def push (s : Set) (directive : List Char) : Set := { s with opts := s.opts ++ [parse directive] }

/-- `debug_opts` -/
def debugOpts (s : Set) : List (List Char) := s.opts.map Async.display

/-- `any_enabled` -/
def anyEnabled (s : Set) : Bool := s.opts.any (·.enabled)

/-- The `for (i, opt) in self.async_.iter().enumerate()` loop of `is_async`:
`some (i, enabled)` when the loop returns at index `i`, `none` when it falls through. -/
def scan (nameToTest : List Char) (isImport : Bool) : List Async → Nat → Option (Nat × Bool)
  | [], _ => none
  | opt :: rest, i =>
    match opt.filter with
    | .all => some (i, opt.enabled)
    | .function s =>
      if s = nameToTest then some (i, opt.enabled) else scan nameToTest isImport rest (i + 1)
    | .import s =>
      if !isImport then scan nameToTest isImport rest (i + 1)          -- `continue`
      else if s = nameToTest then some (i, opt.enabled) else scan nameToTest isImport rest (i + 1)
    | .export s =>
      if isImport then scan nameToTest isImport rest (i + 1)           -- `continue`
      else if s = nameToTest then some (i, opt.enabled) else scan nameToTest isImport rest (i + 1)

/-- `HashSet::insert` -/
def useIdx (used : List Nat) (i : Nat) : List Nat := if used.contains i then used else i :: used

/-- `AsyncFilterSet::is_async` (`&mut self`: returns the new state and the answer). -/
def isAsync (s : Set) (f : Func) : Set × Bool :=
  let nameToTest := match f.iface with
    | some key => key ++ '#' :: f.name        -- format!("{}#{}", resolve.name_world_key(key), func.name)
    | none => f.name
  match scan nameToTest f.isImport s.opts 0 with
  | some (i, b) => ({ s with used := useIdx s.used i }, b)
  | none => (s, f.kind.declaredAsync)

/-- The loop of `ensure_all_used`: `some msg` = `Err(msg)`. -/
def ensureLoop (used : List Nat) : List Async → Nat → Option (List Char)
  | [], _ => none
  | opt :: rest, i =>
    if used.contains i then ensureLoop used rest (i + 1)
    else if opt.filter ≠ .all then some (sUnused ++ opt.display)
    else ensureLoop used rest (i + 1)

/-- `AsyncFilterSet::ensure_all_used`: `none` = `Ok(())`, `some msg` = `Err(msg)`. -/
def ensureAllUsed (s : Set) : Option (List Char) := ensureLoop s.used s.opts 0

/-- Operations of a history on one `AsyncFilterSet`. -/
inductive Op
  | query (f : Func)
  | ensure
  | anyEnabled
  | debugOpts
  | push (directive : List Char)
deriving Repr

/-- Observable outcome of one operation. -/
inductive Out
  | bool (b : Bool)
  | ok
  | err (msg : List Char)
  | strs (l : List (List Char))
  | unit
deriving Repr, DecidableEq

/-- `ensure_all_used` as an observable outcome. -/
def ensureOut (s : Set) : Out :=
  match s.ensureAllUsed with
  | none => .ok
  | some m => .err m

def step (s : Set) : Op → Set × Out
  | .query f => ((s.isAsync f).1, .bool (s.isAsync f).2)
  | .ensure => (s, s.ensureOut)
  | .anyEnabled => (s, .bool s.anyEnabled)
  | .debugOpts => (s, .strs s.debugOpts)
  | .push d => (s.push d, .unit)

def run (s : Set) : List Op → Set × List Out
  | [] => (s, [])
  | op :: ops =>
    let (s', o) := s.step op
    let (s'', os) := s'.run ops
    (s'', o :: os)

/-- What a generator does with a world: asks about every function (in any order, possibly
repeatedly) and then — Rust only — calls `ensure_all_used`. -/
def afterGenerating (s : Set) (world : List Func) : Set := (s.run (world.map .query)).1

end Set
end Witverif.Text.AsyncFilter

/-! ## Specification side (independent of the model of the code)

A directive *matches* a function when it is `all`, or names the function (`Func.qualName`) with
no direction or with the function's own direction.  The function is async exactly when the
**first** matching directive in the list is enabled; with no matching directive, when the WIT
says so.  A directive is *used* by a set of queried functions when it is the first match of one
of them; `ensure_all_used` must reject exactly when some non-`all` directive is unused, naming
the first such one.  Stated with `List.find?` / `List.findIdx?` over the whole directive list —
no loop, no state, no index bookkeeping. -/
namespace Witverif.Text.AsyncFilterSpec
open Witverif.Text.AsyncFilter

def «matches» (d : Async) (f : Func) : Bool :=
  match d.filter with
  | .all => true
  | .function n => n == f.qualName
  | .import n => f.isImport && n == f.qualName
  | .export n => !f.isImport && n == f.qualName

/-- The first matching directive decides; otherwise the WIT declaration. -/
def expected (ds : List Async) (f : Func) : Bool :=
  match ds.find? (fun d => «matches» d f) with
  | some d => d.enabled
  | none => f.kind.declaredAsync

/-- Index of the directive that decides `f`, if any. -/
def decider (ds : List Async) (f : Func) : Option Nat := ds.findIdx? (fun d => «matches» d f)

/-- Directive number `i` decided some function of `queried`. -/
def usedBy (ds : List Async) (queried : List Func) (i : Nat) : Bool :=
  queried.any (fun f => decider ds f == some i)

/-- The first non-`all` directive whose index is not `used`, if any. -/
def firstUnused (ds : List Async) (used : Nat → Bool) : Option Async :=
  (ds.zipIdx.find? (fun p => p.1.filter != .all && !used p.2)).map (·.1)

def expectedEnsure (ds : List Async) (used : Nat → Bool) : Set.Out :=
  match firstUnused ds used with
  | none => .ok
  | some d => .err (sUnused ++ d.display)

/-- The well-formed directives: exactly those that the documented syntax can denote
(`Function "all"`, `Function "import:x"`, an enabled `Function "-x"` are written the same way as
another directive, so no text denotes them). -/
def WF (d : Async) : Bool :=
  match d.filter with
  | .function s =>
    s != sAll && (stripPrefix sImport s).isNone && (stripPrefix sExport s).isNone
      && (!d.enabled || (stripPrefix ['-'] s).isNone)
  | _ => true

/-- Monitor over an observed history on a set whose directives are `ds` (given structurally;
`push` appends one more directive, given structurally in `pushed`, in order).
`deciders` = indices of the directives that decided a query so far (at the time of the query). -/
def check : (ds : List Async) → (deciders : List Nat) → (pushed : List Async) →
    List Set.Op → List Set.Out → Bool
  | _, _, _, [], [] => true
  | ds, u, pu, .query f :: ops, .bool b :: os =>
    (b == expected ds f) &&
      check ds (match decider ds f with | some i => i :: u | none => u) pu ops os
  | ds, u, pu, .ensure :: ops, o :: os => (o == expectedEnsure ds u.contains) && check ds u pu ops os
  | ds, u, pu, .anyEnabled :: ops, .bool b :: os => (b == ds.any (·.enabled)) && check ds u pu ops os
  | ds, u, pu, .debugOpts :: ops, .strs l :: os => (l == ds.map Async.display) && check ds u pu ops os
  | ds, u, d :: pu, .push _ :: ops, .unit :: os => check (ds ++ [d]) u pu ops os
  | _, _, _, _, _ => false

/-- What the generated code must do for a world: the set of functions bound with the async ABI. -/
def asyncSet (ds : List Async) (world : List Func) : List Func := world.filter (expected ds)

/-- Whether the Rust generator must reject the directive list for this world. -/
def expectedReject (ds : List Async) (world : List Func) : Set.Out :=
  expectedEnsure ds (usedBy ds world)

end Witverif.Text.AsyncFilterSpec
