import Witverif.Text.Heck
import Witverif.Text.PkgPath
import Witverif.Text.RustKeywords
import Witverif.Text.CppKeywords
import Witverif.Generated.RustIdent
import Witverif.Generated.CppIdent
/-
Model of the identifier functions of the Rust and C++ backends (C09, C31).

  crates/rust/src/lib.rs   `to_rust_ident`        = `escapeBy Generated.RustIdent.matchOnSnake Generated.RustIdent.escapeTable`
                           `to_upper_camel_case`  = `toUpperCamelRust`
  crates/c/src/lib.rs      `to_c_ident`           = `escapeBy Generated.CppIdent.matchOnSnake Generated.CppIdent.escapeTable`
                           (crates/cpp/src/lib.rs imports exactly this function)
  heck 0.5                 `to_snake_case` (Heck.snake), `to_upper_camel_case`/`to_pascal_case`
                           (`upperCamel`), `to_shouty_snake_case` (`shouty`)
  crates/rust/src/bindgen.rs  temporaries `<base>{tmp}` / `<base>{tmp}_{i}` and fixed locals
                           (inventory in `Generated.RustIdent.tempBases` / `fixedLocals`)
  crates/rust/src/lib.rs   module path of an interface: [to_rust_ident ns, to_rust_ident (name_package_module pkg), to_rust_ident iface]
  crates/cpp/src/lib.rs    `namespace(..)`: [to_c_ident ns, to_c_ident (name_package_module pkg), to_c_ident iface]

The escape tables are *generated* from the source text on every run (tools/gen_ident_tables.py), so
the theorems are re-proved against what the code says now.  Whether the table is looked up on the
name as written in WIT (`match name`, the code before /repo d8fe118 / 89692d8) or on the snake-cased
name (`match name.to_snake_case().as_str()`, the code since) is extracted too (`matchOnSnake`);
`escapeBy` selects `escapeIdent` resp. `escapeIdentS`.  Names that hit no arm are converted with heck.  Domain: WIT identifiers
(`PkgSpec.validName` = wit-parser `validate_id`), i.e. ASCII; `upperChar` is exact for ASCII only.
Import-free apart from other model files.
-/
namespace Witverif.Text.Ident
open Witverif.Text.Heck

def lookupT (t : List (List Char × List Char)) (n : List Char) : Option (List Char) :=
  (t.find? (fun e => e.1 == n)).map (·.2)

/-- `match name { "k" => "v".into(), …, s => s.to_snake_case() }` -/
def escapeIdent (t : List (List Char × List Char)) (n : List Char) : List Char :=
  match lookupT t n with
  | some v => v
  | none => snake n

/-- `match name.to_snake_case().as_str() { "k" => "v".into(), …, s => s.into() }` -/
def escapeIdentS (t : List (List Char × List Char)) (n : List Char) : List Char :=
  match lookupT t (snake n) with
  | some v => v
  | none => snake n

/-- which of the two shapes the source has is extracted with the table (`matchOnSnake`) -/
def escapeBy (onSnake : Bool) (t : List (List Char × List Char)) (n : List Char) : List Char :=
  if onSnake then escapeIdentS t n else escapeIdent t n

def toRustIdent : List Char → List Char :=
  escapeBy Witverif.Generated.RustIdent.matchOnSnake Witverif.Generated.RustIdent.escapeTable
def toCIdent : List Char → List Char :=
  escapeBy Witverif.Generated.CppIdent.matchOnSnake Witverif.Generated.CppIdent.escapeTable

/-- the segments heck finds, before any case conversion -/
def rawSegments (s : List Char) : List (List Char) :=
  (splitWords s).flatMap (fun w => wordSegs w [] .boundary)

/-- `char::to_uppercase` on ASCII -/
def upperChar (c : Char) : Char := if isAsciiLower c then Char.ofNat (c.toNat - 32) else c

/-- heck `capitalize`: first character upper-cased, the rest through `lowercase` -/
def capitalize : List Char → List Char
  | [] => []
  | c :: cs => upperChar c :: lowerSeg cs

/-- heck `to_upper_camel_case` (= `to_pascal_case`) -/
def upperCamel (s : List Char) : List Char := (rawSegments s).flatMap capitalize

/-- heck `to_shouty_snake_case` -/
def shouty (s : List Char) : List Char := joinU ((rawSegments s).map (·.map upperChar))

/-- crates/rust `to_upper_camel_case` (`"guest" => "Guest_"`) -/
def toUpperCamelRust (n : List Char) : List Char :=
  match lookupT Witverif.Generated.RustIdent.camelTable n with
  | some v => v
  | none => upperCamel n

/-- the Rust type name of a WIT type captures a prelude name the templates use unqualified -/
def capturesPrelude (n : List Char) : Bool :=
  Witverif.Generated.RustIdent.unqualifiedPrelude.contains (toUpperCamelRust n)

/-- the Rust type name of a WIT type equals a generic type parameter the templates declare (`T`) -/
def capturedByGenericParam (n : List Char) : Bool :=
  Witverif.Generated.RustIdent.genericParams.contains (toUpperCamelRust n)

/-- the Rust name of a resource method / static function equals a function the templates define by a
fixed name (inherent methods `handle`, `take_handle`, `from_handle`, `new`, … of the resource wrapper) -/
def clashesWithGeneratedFn (n : List Char) : Bool :=
  Witverif.Generated.RustIdent.generatedFnNames.contains (toRustIdent n)

/-! ### generator-introduced locals -/

def allDigits (s : List Char) : Bool := !s.isEmpty && s.all isAsciiDigit

/-- `name` is `base ++ <digits>` or `base ++ <digits> ++ "_" ++ <digits>` -/
def isTempOf (base name : List Char) : Bool :=
  base.isPrefixOf name &&
    (let r := name.drop base.length
     allDigits r || (allDigits (r.takeWhile (· != '_')) && match r.dropWhile (· != '_') with
        | _ :: t => allDigits t
        | [] => false))

def isTemp (bases : List (List Char)) (name : List Char) : Bool := bases.any (isTempOf · name)

/-- the Rust identifier `x` can be bound by a `let` the generator itself emits -/
def clashesWithRustLocal (x : List Char) : Bool :=
  isTemp Witverif.Generated.RustIdent.tempBases x || Witverif.Generated.RustIdent.fixedLocals.contains x

def clashesWithCppLocal (x : List Char) : Bool :=
  isTemp Witverif.Generated.CppIdent.tempBases x || Witverif.Generated.CppIdent.fixedLocals.contains x

/-! ### module / namespace paths -/
open Witverif.Text.PkgPath in
/-- Rust: `crate::<ns>::<pkg module>::<iface>` -/
def rustModulePath (pkgs : List Pkg) (p : Pkg) (iface : List Char) : List (List Char) :=
  [toRustIdent p.ns, toRustIdent (namePackageModule pkgs p), toRustIdent iface]

open Witverif.Text.PkgPath in
/-- C++: `<ns>::<pkg module>::<iface>` (`namespace(..)` in crates/cpp/src/lib.rs) -/
def cppNamespacePath (pkgs : List Pkg) (p : Pkg) (iface : List Char) : List (List Char) :=
  [toCIdent p.ns, toCIdent (namePackageModule pkgs p), toCIdent iface]

end Witverif.Text.Ident

/-! ## Specification side: what an emitted identifier must satisfy (does not mention the model) -/
namespace Witverif.Text.IdentSpec

def notKeyword (kws : List (List Char)) (ident : List Char) : Bool := !kws.contains ident

/-- the identifiers emitted for the names of one scope are pairwise different -/
def pairwiseDistinct : List (List Char) → Bool
  | [] => true
  | x :: xs => !xs.contains x && pairwiseDistinct xs

end Witverif.Text.IdentSpec
