import Witverif.Text.TypesEq
import Drivers.Util
/-! Driver for the `TypesEq` model (C28), executable `m_typeseq`.

Request line = the answer line of `harness/typeseq-run` (the real code's table and answers):
  `ok T=<table> N=<named> U=<funcs> L=<live> I=<infos> X=<bits>;<reps↑>;<reps↓>;<infos> …`
Answer line:
  `I=<model infos after analyze> X=<reps↑>;<reps↓>;<infos after collect> …`
  then a TAB and `spec=ok` or `spec=fail:<class>:<detail>` — the C28 specification
  (`TypesEqSpec`: shapes, reachability) evaluated on the **implementation's** answers. -/
open Witverif.Text.TypesEq Witverif.Text.TypesEqSpec Drivers

namespace TypesEqDriver

def primOfNat : Nat → Option Prim
  | 0 => some .bool | 1 => some .u8 | 2 => some .s8 | 3 => some .u16 | 4 => some .s16
  | 5 => some .u32 | 6 => some .s32 | 7 => some .u64 | 8 => some .s64 | 9 => some .f32
  | 10 => some .f64 | 11 => some .char | 12 => some .string | 13 => some .errorContext
  | _ => none

def parseTy (s : String) : Option Ty :=
  if s.startsWith "p" then (s.drop 1).toString.toNat? >>= primOfNat |>.map Ty.prim
  else if s.startsWith "i" then (s.drop 1).toString.toNat?.map Ty.id
  else none

def parseOptTy (s : String) : Option (Option Ty) :=
  if s == "-" then some none else (parseTy s).map some

def parseNamed {α} (p : String → Option α) (s : String) : Option (Name × α) :=
  match s.splitOn ":" with
  | [n, t] => do let n ← hexToChars n; let t ← p t; pure (n, t)
  | _ => none

def parseDef (s : String) : Option Def :=
  match s.splitOn "/" with
  | "R" :: fs => (fs.mapM (parseNamed parseTy)).map .record
  | ["Z"] => some .resource
  | ["H", r] => r.toNat?.map .own
  | ["B", r] => r.toNat?.map .borrow
  | "F" :: ns => (ns.mapM hexToChars).map .flags
  | "T" :: ts => (ts.mapM parseTy).map .tuple
  | "V" :: cs => (cs.mapM (parseNamed parseOptTy)).map .variant
  | "E" :: ns => (ns.mapM hexToChars).map .enum
  | ["O", t] => (parseTy t).map .option
  | ["X", a, b] => do let a ← parseOptTy a; let b ← parseOptTy b; pure (.result a b)
  | ["L", t] => (parseTy t).map .list
  | ["M", k, v] => do let k ← parseTy k; let v ← parseTy v; pure (.map k v)
  | ["A", t, n] => do let t ← parseTy t; let n ← n.toNat?; pure (.fixedList t n)
  | ["U", t] => (parseOptTy t).map .future
  | ["S", t] => (parseOptTy t).map .stream
  | ["Y", t] => (parseTy t).map .alias
  | _ => none

def parseList {α} (sep : String) (p : String → Option α) (s : String) : Option (List α) :=
  if s == "-" then some [] else (s.splitOn sep).mapM p

def parseIds (s : String) : Option (List Nat) := parseList "." String.toNat? s

def parseBits (s : String) : Option (List Bool) :=
  if s == "-" then some [] else s.toList.mapM fun c => if c == '1' then some true else if c == '0' then some false else none

def parseFunc (s : String) : Option Func :=
  match s.splitOn "/" with
  | [imp, ps, r, pl, rl] => do
    let ps ← parseList "." parseTy ps
    let r ← parseOptTy r
    let pl ← parseIds pl
    let rl ← parseIds rl
    pure { isImport := imp == "1", params := ps, result := r, paramLive := pl, resultLive := rl }
  | _ => none

def infoOfByte (b : Nat) : TypeInfo where
  borrowed := b % 2 == 1
  owned := b / 2 % 2 == 1
  error := b / 4 % 2 == 1
  hasList := b / 8 % 2 == 1
  hasTuple := b / 16 % 2 == 1
  hasResource := b / 32 % 2 == 1
  hasBorrowHandle := b / 64 % 2 == 1
  hasOwnHandle := b / 128 % 2 == 1

def byteOfInfo (i : TypeInfo) : Nat :=
  (if i.borrowed then 1 else 0) + (if i.owned then 2 else 0) + (if i.error then 4 else 0) +
  (if i.hasList then 8 else 0) + (if i.hasTuple then 16 else 0) + (if i.hasResource then 32 else 0) +
  (if i.hasBorrowHandle then 64 else 0) + (if i.hasOwnHandle then 128 else 0)

def parseInfos (s : String) : Option (List TypeInfo) :=
  if s == "-" then some [] else
  let rec go : List Char → List TypeInfo → Option (List TypeInfo)
    | [], acc => some acc.reverse
    | [_], _ => none
    | a :: b :: rest, acc =>
      match hexVal a, hexVal b with
      | some x, some y => go rest (infoOfByte (x * 16 + y) :: acc)
      | _, _ => none
  go s.toList []

def showInfos (l : List TypeInfo) : String :=
  if l.isEmpty then "-" else
  String.ofList (l.flatMap fun i => let b := byteOfInfo i; [hexDigit (b / 16), hexDigit (b % 16)])

def showIds (l : List Nat) : String :=
  if l.isEmpty then "-" else ".".intercalate (l.map toString)

structure ImplFilter where
  bits : List Bool
  repsUp : List Nat
  repsDown : List Nat
  infos : List TypeInfo

def parseFilter (s : String) : Option ImplFilter :=
  match s.splitOn ";" with
  | [b, u, d, i] => do
    let b ← parseBits b; let u ← parseIds u; let d ← parseIds d; let i ← parseInfos i
    pure ⟨b, u, d, i⟩
  | _ => none

structure Req where
  table : Table := []
  named : List Bool := []
  funcs : List Func := []
  live : List Nat := []
  infos0 : List TypeInfo := []
  filters : List ImplFilter := []

def parseReq (line : String) : Option Req :=
  let toks := (line.splitOn " ").filter (· ≠ "")
  match toks with
  | "ok" :: rest =>
    rest.foldlM (fun (r : Req) tok =>
      let body := (tok.drop 2).toString
      if tok.startsWith "T=" then (parseList "," parseDef body).map fun t => { r with table := t }
      else if tok.startsWith "N=" then (parseBits body).map fun t => { r with named := t }
      else if tok.startsWith "U=" then (parseList "," parseFunc body).map fun t => { r with funcs := t }
      else if tok.startsWith "L=" then (parseIds body).map fun t => { r with live := t }
      else if tok.startsWith "I=" then (parseInfos body).map fun t => { r with infos0 := t }
      else if tok.startsWith "X=" then (parseFilter body).map fun t => { r with filters := r.filters ++ [t] }
      else none) {}
  | _ => none

/-! ### the model's answers -/

structure ModelFilter where
  repsUp : List Nat
  repsDown : List Nat
  infos : List TypeInfo

def runFilter (T : Table) (infos0 : List TypeInfo) (live : List Nat) (bits : List Bool) :
    Option ModelFilter := do
  let n := T.length
  let s0 : Types := { typeInfo := infos0, equalTypes := {} }
  let s1 ← collectEqualTypes T s0 live (fun i => bits.getD i false) (List.range n)
  let (up, s2) ← repsOf s1 (List.range n)
  let (downRev, s3) ← repsOf s2 (List.range n).reverse
  let infos ← (List.range n).mapM s3.get
  pure ⟨up, downRev.reverse, infos⟩

/-! ### the specification evaluated on the implementation's answers -/

def sameSet (a b : List Nat) : Bool := a.all b.contains && b.all a.contains

def idsOf (l : List Ty) : List Nat := l.filterMap fun | .id i => some i | .prim _ => none

/-- ids reachable (through every mentioned type) from a list of types -/
def refReach (refRows : List (List Ty)) (ts : List Ty) : List Nat :=
  idsOf (ts.flatMap (rowTy refRows))

def flagsContent : List Flag := [.hasList, .hasTuple, .hasResource, .hasBorrowHandle, .hasOwnHandle]

def flagName : Flag → String
  | .borrowed => "borrowed" | .owned => "owned" | .error => "error" | .hasList => "has_list"
  | .hasTuple => "has_tuple" | .hasResource => "has_resource"
  | .hasBorrowHandle => "has_borrow_handle" | .hasOwnHandle => "has_own_handle"

def firstSome {α β} (l : List α) (f : α → Option β) : Option β :=
  l.foldl (fun acc x => match acc with | some r => some r | none => f x) none

/-- keep the first message of each failure class (class = text before the first `:`) -/
def firstPerClass (msgs : List String) : List String :=
  (msgs.foldl (fun (acc : List String × List String) m =>
    let k := (m.splitOn ":").headD ""
    if acc.1.contains k then acc else (k :: acc.1, acc.2 ++ [m])) ([], [])).2

/-- Spec of the facts after `analyze`, checked on the implementation's `infos0`. -/
def specAnalyze (r : Req) : List String :=
  let T := r.table
  let n := T.length
  let valRows := rows valueChildren T
  let refRows := rows Def.refs T
  let ids := List.range n
  -- content facts = a contained node of the right kind
  let c1 := ids.flatMap fun i =>
    flagsContent.filterMap fun fl =>
      match contentNode T fl with
      | none => none
      | some node =>
        let want := (rowTy valRows (.id i)).any node
        let got := (r.infos0.getD i {}).get fl
        if want == got then none
        else some s!"content-{flagName fl}:type {i} impl={got} spec={want}"
  -- LiveTypes assumption: the lists are the referenced-type closure
  let c2 := r.funcs.filterMap fun f =>
    if !sameSet f.paramLive (refReach refRows f.params) then some s!"live-assumption:params {showIds f.paramLive}"
    else if !sameSet f.resultLive (refReach refRows (optTys f.result)) then some s!"live-assumption:result {showIds f.resultLive}"
    else none
  -- usage facts
  let reachP := r.funcs.map fun f => refReach refRows f.params
  let reachR := r.funcs.map fun f => refReach refRows (optTys f.result)
  let errs := r.funcs.map fun f => match f.result with | some t => errorTypeOf T t | none => none
  let fr := r.funcs.zip (reachP.zip (reachR.zip errs))
  let c3 := ids.flatMap fun i =>
    let nm := r.named.getD i false
    let wantB := nm && fr.any fun (f, p, _, _) => f.isImport && p.contains i
    let wantO := nm && fr.any fun (f, p, q, _) => (!f.isImport && p.contains i) || q.contains i
    let wantE := fr.any fun (_, _, _, e) => e == some (Ty.id i)
    let got := r.infos0.getD i {}
    (if got.borrowed != wantB then [s!"usage-borrowed:type {i} impl={got.borrowed} spec={wantB}"] else []) ++
    (if got.owned != wantO then [s!"usage-owned:type {i} impl={got.owned} spec={wantO}"] else []) ++
    (if got.error != wantE then
      -- classify: missed only because the function names its result type through an alias
      let direct := fr.any fun (f, _, _, e) =>
        match f.result with
        | some (.id ri) => (match T[ri]? with | some (.result _ _) => e == some (Ty.id i) | _ => false)
        | _ => false
      if wantE && !got.error && !direct then [s!"error-via-result-alias:type {i} impl=false spec=true"]
      else [s!"usage-error:type {i} impl={got.error} spec={wantE}"]
    else [])
  c1 ++ c2 ++ c3

def orAll (l : List TypeInfo) : TypeInfo := l.foldl TypeInfo.or {}

/-- Spec of one `collect_equal_types` run, checked on the implementation's answers. -/
def specFilter (r : Req) (shp : List Shape) (f : ImplFilter) : Option String :=
  let n := r.table.length
  let ids := List.range n
  let rep (i : Nat) := f.repsUp.getD i i
  let sh (i : Nat) := shp.getD i (.node .dangling .nil)
  if f.repsUp.length != n || f.repsDown.length != n || f.infos.length != n || f.bits.length != n then
    some "malformed:lengths"
  else if f.repsUp != f.repsDown then some "rep-unstable:second query differs"
  else
  let c1 := firstSome ids fun a =>
    if rep (rep a) != rep a then some s!"rep-unstable:rep(rep {a}) ≠ rep {a}"
    else if decide (sh (rep a) = sh a) then none
    else some s!"classes-unsound:type {a} merged with {rep a}"
  if let some e := c1 then some e else
  -- non-live types are never merged
  let c2 := firstSome ids fun a =>
    if !r.live.contains a && rep a != a then some s!"classes-unsound-nonlive:type {a}" else none
  if let some e := c2 then some e else
  -- every admitted live type with an earlier structurally equal live type is merged with an earlier one
  let rec scan (before : List Nat) : List Nat → Option String
    | [] => none
    | t :: rest =>
      let bad :=
        if f.bits.getD t false && before.any (fun e => decide (sh e = sh t))
            && !before.any (fun e => rep e == rep t) then
          some s!"classes-incomplete:type {t} has an earlier equal type but was not merged"
        else none
      match bad with
      | some e => some e
      | none => scan (before ++ [t]) rest
  if let some e := scan [] r.live then some e else
  -- when everything may alias: live types are merged exactly when structurally equal
  let c4 :=
    if f.bits.all id then
      firstSome r.live fun a => firstSome r.live fun b =>
        if decide (sh a = sh b) && rep a != rep b then some s!"classes-incomplete:types {a} {b} equal but distinct classes"
        else none
    else none
  if let some e := c4 then some e else
  -- equal types share the union of the facts
  firstSome ids fun a =>
    let want := orAll ((ids.filter fun b => rep b == rep a).map fun b => r.infos0.getD b {})
    let got := f.infos.getD a {}
    if want == got then none else some s!"info-union:type {a} impl={byteOfInfo got} spec={byteOfInfo want}"

def sizeLimit : Nat := 400000

def handle (line : String) : String :=
  match parseReq line with
  | none => "bad-request"
  | some r =>
    let T := r.table
    if !decide (WF T) then "not-topological" else
    if r.named.length != T.length || r.infos0.length != T.length then "bad-request:lengths" else
    if !(r.live.all (· < T.length)) || !(r.funcs.all fun f => f.paramLive.all (· < T.length) && f.resultLive.all (· < T.length)) then
      "bad-request:ids"
    else if (shapeSizes T).foldl (· + ·) 0 > sizeLimit then "too-big" else
    match analyze T r.named r.funcs with
    | none => "I=model-error"
    | some infos0 =>
      let fs := r.filters.map fun f =>
        match runFilter T infos0 r.live f.bits with
        | none => "X=model-error"
        | some m => s!"X={showIds m.repsUp};{showIds m.repsDown};{showInfos m.infos}"
      let model := " ".intercalate (s!"I={showInfos infos0}" :: fs)
      let shp := shapes T
      let fails := specAnalyze r
        ++ (if decide r.live.Nodup then [] else ["live-assumption:duplicate live id"])
        ++ r.filters.filterMap (specFilter r shp)
      let verdict := match firstPerClass fails with
        | [] => "ok"
        | fs => "fail:" ++ "|".intercalate fs
      model ++ "\tspec=" ++ verdict

end TypesEqDriver

def main : IO Unit := lineLoop TypesEqDriver.handle
