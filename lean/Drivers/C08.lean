import Witverif.Abi.AsyncHostCall
import Witverif.Abi.RustAsync
import Witverif.Async.GlueSpec
import Witverif.Async.ExportGlue
import Drivers.Util
import Drivers.AbiParse
/-! Driver `m_c08` (C08): the async side of the Lean canonical-ABI host for native runs of generated
Rust bindings (harness/bind-native with async worlds), the model of the Rust backend's async layout
numbers, and the spec monitors of C08.  One request per line, fields separated by `|`:

  aliftargs|<p>|<fn>|<bits,…>|<addr:hex;…>   host lifts the arguments of an async-lowered import call
                                             (bits = core arguments WITHOUT the result pointer)
  alifttr|<p>|<T>|<bits,…>|<addr:hex;…>      host lifts the operands of `task.return`
        → need <addr,len;…> | ok <VAL>|blocks=<addr:size:align,…> | trap
  aresult|<p>|<T>|<VAL>                      host stores the result of an async-lowered import call
        → ok indirect=1 flat=… ptrs=… blocks=<result area first> slots=…
  layout|<fn>                                model of the code: abi_layout / results_offset / params_lower
        → indirect=<0|1> size=<w32/w64> align=… roff=… offs=<…,…|-> lower=<core types>
  areaok|<p>|<fn>|<size>|<align>|<roff>      spec verdict on the IMPLEMENTATION's numbers → ok | bad
  sig|<variant>|<p>|<fn>                     model of `Resolve::wasm_signature` (async variants too) + the spec's
                                             flat-parameter decision at p (4 flat parameters for async-lowered imports)
  predict|<k>|<j or ->                       model of the code (Async/ExportGlue.lean: generated wrapper ∥ executor): the host's
                                             observations of an async export whose body yields k times, cancelled at
                                             suspension j (- = never) → tokens
  predict2|<s0>|<e,e,…|->|<j or ->           same, for a body that awaits one async import answered s0 at the call and
                                             then the subtask events e…, cancelled at suspension j
  monitor|<export|import>|<tokens>           spec monitor (Async/GlueSpec.lean) on the implementation's trace
        → ok | fail:<class>
-/
open Witverif.Abi Witverif.Abi.CHost Witverif.Abi.HostCall Drivers Drivers.AbiParse

def natsStr (xs : List Nat) : String := if xs.isEmpty then "-" else ",".intercalate (xs.map toString)

def bytesHex (bs : List Nat) : String :=
  if bs.isEmpty then "-" else
  String.ofList (bs.flatMap fun x => [hexDigit (x / 16 % 16), hexDigit (x % 16)])

def blockStr (b : CHost.Block) : String :=
  toString b.addr ++ ":" ++ toString b.size ++ ":" ++ toString b.align ++ ":" ++ bytesHex b.bytes

def imageStr (indirect : Bool) (im : Image) : String :=
  "ok indirect=" ++ (if indirect then "1" else "0")
    ++ " flat=" ++ natsStr (im.flat.map (·.bits))
    ++ " ptrs=" ++ (if im.flatPtr.isEmpty then "-" else String.ofList (im.flatPtr.map fun b => if b then '1' else '0'))
    ++ " blocks=" ++ (if im.blocks.isEmpty then "-" else ";".intercalate (im.blocks.map blockStr))
    ++ " slots=" ++ natsStr im.slots

def parseNats (s : String) : Option (List Nat) :=
  if s == "-" || s == "" then some [] else (s.splitOn ",").mapM String.toNat?

def parseDump (s : String) : Option (List (Nat × List Nat)) :=
  if s == "-" || s == "" then some [] else
  (s.splitOn ";").mapM fun blk =>
    match blk.splitOn ":" with
    | [a, h] => do
        let a ← a.toNat?
        let bs ← hexToBytes h
        pure (a, bs.toList.map UInt8.toNat)
    | _ => none

def covered (dump : List (Nat × List Nat)) (a n : Nat) : Bool :=
  n == 0 || dump.any fun (b, bs) => b ≤ a && a + n ≤ b + bs.length

def triplesStr (xs : List (Nat × Nat × Nat)) : String :=
  if xs.isEmpty then "-" else
  ",".intercalate (xs.map fun (a, s, al) => toString a ++ ":" ++ toString s ++ ":" ++ toString al)

def liftWith (indirect : Bool) (dump : List (Nat × List Nat))
    (rds : Spec.Mem → List (Nat × Nat × Nat)) (lift : Spec.Mem → Option Val) : String :=
  let m := memOf dump
  let rs := rds m
  let missing := rs.filter fun (a, n, _) => !covered dump a n
  if !missing.isEmpty then
    "need " ++ ";".intercalate (missing.map fun (a, n, _) => toString a ++ "," ++ toString n)
  else
    match lift m with
    | some v =>
        let blocks := if indirect then rs.drop 1 else rs
        "ok " ++ showVal v ++ "|blocks=" ++ triplesStr blocks
    | none => "trap"

open Witverif.Async.ExportGlue in
/-- labels of one callback of the combined system: the root future is polled once; `ready` = it completes,
otherwise it yields (wakes its own waker and returns Pending) -/
def cbLabels (ready : Bool) : List Label :=
  [.exec (.cancelRead 0), .exec .tau, .rootPoll ready] ++ (if ready then [] else [.exec (.wake 0)]) ++
  [.exec (.pollDone ready ready), .exec (.decide 0 0 0)] ++ (if ready then [.exec (.cancelRead 0), .exec .tau] else [])

open Witverif.Async.ExportGlue in
def cancelLabels : List Label := [.hostCb 6 0 0, .exec (.cancelRead 0), .rootDrop, .exec .dropTasksDone, .exec .tau]

open Witverif.Async.ExportGlue in
/-- the label script of "yield k times, then finish; EVENT_CANCEL at suspension j" -/
def exportScript (k : Nat) (cancelAt : Option Nat) : List Label :=
  let rec go (i : Nat) (fuel : Nat) : List Label :=
    match fuel with
    | 0 => []
    | fuel + 1 =>
      if i < k then
        cbLabels false ++ (if cancelAt = some i then cancelLabels else Label.hostCb 0 0 0 :: go (i + 1) fuel)
      else cbLabels true
  Label.hostCall :: go 0 (k + 1)

open Witverif.Async.ExportGlue in
/-- the label script of "the body awaits one async import": status `s0` at the call (2 = returned at once),
then the subtask events `evs` (1 started, 2 returned), EVENT_CANCEL at suspension `cancelAt` -/
def awaitScript (s0 : Nat) (evs : List Nat) (cancelAt : Option Nat) : List Label :=
  let block : List Label := [.rootPoll false, .exec (.reg 1 2), .exec (.pollDone false false), .exec (.decide 0 0 0), .exec (.sleepRead 0 0 0 0)]
  let finish : List Label := [.rootPoll true, .exec (.pollDone true true), .exec (.decide 0 0 0), .exec (.cancelRead 0), .exec .tau]
  let cancel : List Label := [.hostCb 6 0 0, .exec (.cancelRead 0), .exec (.unreg 1), .rootDrop, .exec .dropTasksDone, .exec .tau]
  let deliver (st : Nat) : List Label := [.hostCb 1 1 st, .exec .tau, .exec (.wake 0), .exec .cbDone, .exec (.cancelRead 0), .exec .tau]
  let rec go (i : Nat) : List Nat → List Label
    | [] => if cancelAt.isSome then cancel else []
    | st :: rest =>
      if cancelAt = some i then cancel
      else if st = 2 then deliver st ++ finish
      else deliver st ++ block ++ go (i + 1) rest
  [Label.hostCall, .exec (.cancelRead 0), .exec .tau] ++ (if s0 = 2 then finish else block ++ go 0 evs)

def expEvStr : Witverif.Async.GlueSpec.ExpEv → String
  | .call => "call" | .user => "user" | .ret => "ret" | .cancel => "cancel"
  | .ev e => "ev:" ++ toString e | .cb c => "cb:" ++ toString c

def handle (line : String) : String :=
  match line.splitOn "|" with
  | ["aliftargs", p, f, bits, dump] =>
      match p.toNat?, parseFunc f, parseNats bits, parseDump dump with
      | some p, some f, some bits, some dump =>
          liftWith (AsyncHost.paramsIndirect p f.params) dump (AsyncHost.readsArgs p f.params bits)
            (AsyncHost.liftArgs p f.params bits)
      | _, _, _, _ => "bad-request"
  | ["alifttr", p, t, bits, dump] =>
      match p.toNat?, parseTy t, parseNats bits, parseDump dump with
      | some p, some t, some bits, some dump =>
          liftWith (AsyncHost.taskReturnIndirect p t) dump (AsyncHost.readsTaskReturn p t bits)
            (AsyncHost.liftTaskReturn p t bits)
      | _, _, _, _ => "bad-request"
  | ["aresult", p, t, v] =>
      match p.toNat?, parseTy t, parseVal v with
      | some p, some t, some v =>
          if !Spec.hasTy t v then "bad-value" else imageStr true (AsyncHost.lowerResult p t v)
      | _, _, _ => "bad-request"
  | ["layout", f] =>
      match parseFunc f with
      | some f => RustAsync.layoutStr f
      | none => "bad-request"
  | ["areaok", p, f, size, align, roff] =>
      match p.toNat?, parseFunc f, size.toNat?, align.toNat?, roff.toNat? with
      | some p, some f, some size, some align, some roff =>
          if AsyncHost.areaOk p f.params f.result size align roff then "ok" else "bad"
      | _, _, _, _, _ => "bad-request"
  | ["sig", v, p, f] =>
      let variant : Option Variant := match v with
        | "GuestImportAsync" => some .guestImportAsync
        | "GuestExportAsync" => some .guestExportAsync
        | "GuestImport" => some .guestImport
        | "GuestExport" => some .guestExport
        | _ => none
      match variant, p.toNat?, parseFunc f with
      | some v, some p, some f =>
          let s := wasmSignature v f
          let specInd := if v = .guestImportAsync then AsyncHost.paramsIndirect p f.params else paramsIndirect p f.params
          let b01 := fun (b : Bool) => if b then "1" else "0"
          coreTysStr s.params ++ " -> " ++ coreTysStr s.results ++ " indirect=" ++ b01 s.indirectParams
            ++ " retptr=" ++ b01 s.retptr ++ " spec-indirect=" ++ b01 specInd
      | _, _, _ => "bad-request"
  | ["predict", k, j] =>
      match k.toNat?, (if j == "-" then some none else j.toNat?.map some) with
      | some k, some cancelAt =>
          match Witverif.Async.ExportGlue.run (Witverif.Async.ExportGlue.Sys.init false) (exportScript k cancelAt) with
          | some s => " ".intercalate (s.obs.map expEvStr)
          | none => "model-stuck"
      | _, _ => "bad-request"
  | ["predict2", s0, evs, j] =>
      match s0.toNat?, parseNats evs, (if j == "-" then some none else j.toNat?.map some) with
      | some s0, some evs, some cancelAt =>
          match Witverif.Async.ExportGlue.run (Witverif.Async.ExportGlue.Sys.init false) (awaitScript s0 evs cancelAt) with
          | some s => " ".intercalate (s.obs.map expEvStr)
          | none => "model-stuck"
      | _, _, _ => "bad-request"
  | ["monitor", kind, toks] => Witverif.Async.GlueSpec.runStr kind toks
  | _ => "bad-request"

partial def loop (stdin stdout : IO.FS.Stream) : IO Unit := do
  let line ← stdin.getLine
  if line.isEmpty then return ()
  let l := if line.endsWith "\n" then (line.dropEnd 1).toString else line
  stdout.putStrLn (handle l)
  stdout.flush
  loop stdin stdout

def main : IO Unit := do
  loop (← IO.getStdin) (← IO.getStdout)
