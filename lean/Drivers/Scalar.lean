import Drivers.Util
import Witverif.Generated.ScalarExprs
import Witverif.Generated.CastExprs
/-! Model driver `m_scalar` for C14 / C04 (backend half).  One request per line:

    s <list> <idx> <hex input> <dbg 0|1>           evaluate scalar entry: `<holds 0|1>\t<actual>\t<expected>`
    c <list> <idx> <hex input> <hex junk>          evaluate cast entry against Spec.joinConv
    r <fwd list> <i> <back list> <j> <hex input> <hex junk1> <hex junk2>     round trip
    spec <lang> <wty> <lower|lift> <flat|mem> <hex input>     the value Spec prescribes (or `undefined`)
    n s | n c                                      list names with their lengths

Values print as `ok:<ty>:<hex bits>` | `trap` | `err:<hex msg>` | `none`. -/
open Witverif.Scalar Witverif.Generated

namespace Drivers.Scalar

def hexNat (s : String) : Option Nat :=
  s.toList.foldl (fun acc c => match acc, Drivers.hexVal c with
    | some a, some d => some (a * 16 + d)
    | _, _ => none) (some 0)

def natHex (n : Nat) : String :=
  let rec go (fuel n : Nat) (acc : List Char) : List Char :=
    match fuel with
    | 0 => acc
    | fuel + 1 => if n < 16 then Drivers.hexDigit n :: acc else go fuel (n / 16) (Drivers.hexDigit (n % 16) :: acc)
  String.ofList (go 20 n [])

def showRes : Res → String
  | .ok v => "ok:" ++ v.ty.name ++ ":" ++ natHex v.bits.toNat
  | .trap => "trap"
  | .err m => "err:" ++ Drivers.strToHex m

def showORes : Option Res → String
  | some r => showRes r
  | none => "none"

def b01 (b : Bool) : String := if b then "1" else "0"

def lookupS (l : String) (i : Nat) : Option Entry :=
  match ScalarExprs.table.lookup l with
  | some es => es[i]?
  | none => none

def lookupC (l : String) (i : Nat) : Option CastEntry :=
  match CastExprs.table.lookup l with
  | some es => es[i]?
  | none => none

def handle (line : String) : String :=
  match line.splitOn " " with
  | ["s", l, i, x, d] =>
    match lookupS l i.toNat!, hexNat x with
    | some e, some n =>
      let (h, a, b) := e.evalAt (BitVec.ofNat 64 n) (d == "1")
      b01 h ++ "\t" ++ showRes a ++ "\t" ++ showRes b
    | _, _ => "bad-request"
  | ["c", l, i, x, j] =>
    match lookupC l i.toNat!, hexNat x, hexNat j with
    | some e, some n, some jn =>
      let (h, a, b) := e.evalAt (BitVec.ofNat 64 n) (BitVec.ofNat 64 jn)
      b01 h ++ "\t" ++ showRes a ++ "\t" ++ showORes b
    | _, _, _ => "bad-request"
  | ["r", l1, i1, l2, i2, x, j1, j2] =>
    match lookupC l1 i1.toNat!, lookupC l2 i2.toNat!, hexNat x, hexNat j1, hexNat j2 with
    | some f, some b, some n, some a1, some a2 =>
      let (h, s, r) := roundTripAt f b (BitVec.ofNat 64 n) (BitVec.ofNat 64 a1) (BitVec.ofNat 64 a2)
      b01 h ++ "\t" ++ showRes s ++ "\t" ++ showRes r
    | _, _, _, _, _ => "bad-request"
  | ["spec", l, t, d, p, x] =>
    -- the expected value alone (used when an emitted snippet could not be translated but can be run natively)
    let lang? : Option Lang := [Lang.rust, .c, .cpp, .csharp, .go, .moonbit, .d].find? (·.name == l)
    let wty? : Option Spec.WTy := [Spec.WTy.bool, .s8, .u8, .s16, .u16, .s32, .u32, .s64, .u64, .f32, .f64, .char].find? (·.name == t)
    match lang?, wty?, hexNat x with
    | some lang, some wty, some n =>
      let e : Entry := { lang := lang, wty := wty, dir := if d == "lower" then .lower else .lift,
                         pos := if p == "flat" then .flat else .mem, side := "", instr := "", opTy := none, dstTy := none,
                         expr := .trap, src := "" }
      let (_, _, b) := e.evalAt (BitVec.ofNat 64 n) false
      let defined := match e.dir, e.pos with
        | .lower, _ => wty.valid ((BitVec.ofNat 64 n).setWidth _)
        | .lift, .flat => Spec.liftDefined wty ((BitVec.ofNat 64 n).setWidth _)
        | .lift, .mem => Spec.loadDefined wty ((BitVec.ofNat 64 n).setWidth _)
      if defined then showRes b else "undefined"
    | _, _, _ => "bad-request"
  | ["n", "s"] => " ".intercalate (ScalarExprs.table.map fun p => p.1 ++ ":" ++ toString p.2.length)
  | ["n", "c"] => " ".intercalate (CastExprs.table.map fun p => p.1 ++ ":" ++ toString p.2.length)
  | _ => "bad-request"

end Drivers.Scalar

def main : IO Unit := Drivers.lineLoop Drivers.Scalar.handle
