import Witverif.Abi.CHostImage
import Witverif.Abi.Gen
import Witverif.Abi.CSig
import Witverif.Abi.CProfile
import Witverif.Text.CIdent
import Witverif.Abi.Names
import Drivers.Util
import Drivers.AbiParse
/-! Driver `m_chost` (C10, C11, C12): the Lean canonical-ABI specification acting as the
component-model host for native runs of generated C bindings, plus the C-specific models.
One request per line, fields separated by `|` (protocol documented in harness/c-native/README.md).

  lower|<p>|flat|<T>|<VAL>      → ok flat=<bits,…> ptrs=<0/1…> blocks=<addr:size:align:hex;…> slots=<addr,…>
  lower|<p>|mem|<T>|<VAL>       → same; flat = address of the area, the first block is the area
  lift|<p>|flat|<T>|<bits,…>|<addr:hex;…>   → ok <VAL> | trap
  lift|<p>|mem|<T>|<addr>|<addr:hex;…>      → ok <VAL> | trap
  sig|<variant>|<fn term>       → the model of `Resolve::wasm_signature`
  layout|<p>|<T>                → size=<n> align=<n> csize=<n> calign=<n>   (canonical vs. C struct layout model)
  cfree|<p>|<late 0|1>|<T>|<VAL> → ok sizes=<n,…>   byte sizes of the blocks the generated `<T>_free` helper frees, in order
                                  (late = 1: helper generated in a pass after the one that defined the shared anonymous types)
  ident|<hex name>              → <hex to_c_ident(name)>  (model over the regenerated escape table)
  ifaceid|<exports 0|1>|<hex ns>|<hex pkg>|<hex version or ->|<multi 0|1>|<hex iface>  → <hex interface_identifier>
  dtor|<hex module>|<hex resource name>  → <hex model export name> <hex spec export name>
  csig|<flat 0|1>|(<shape> …)|<shape or _>  → params=<v0,p1,m2,o:ok,…> ret=<void|value|bool-option|bool-result> names=<ret,err,…>
-/
open Witverif.Abi Witverif.Abi.CHost Drivers Drivers.AbiParse

def natsStr (xs : List Nat) : String := if xs.isEmpty then "-" else ",".intercalate (xs.map toString)

def bytesHex (bs : List Nat) : String :=
  if bs.isEmpty then "-" else
  String.ofList (bs.flatMap fun x => [hexDigit (x / 16 % 16), hexDigit (x % 16)])

def blockStr (b : CHost.Block) : String :=
  toString b.addr ++ ":" ++ toString b.size ++ ":" ++ toString b.align ++ ":" ++ bytesHex b.bytes

def imageStr (im : Image) : String :=
  "ok flat=" ++ natsStr (im.flat.map (·.bits))
    ++ " ptrs=" ++ (if im.flatPtr.isEmpty then "-" else String.ofList (im.flatPtr.map fun b => if b then '1' else '0'))
    ++ " blocks=" ++ (if im.blocks.isEmpty then "-" else ";".intercalate (im.blocks.map blockStr))
    ++ " slots=" ++ natsStr im.slots

def parseNats (s : String) : Option (List Nat) :=
  if s == "-" || s == "" then some [] else (s.splitOn ",").mapM String.toNat?

def parseDump (s : String) : Option (List (Nat × List Nat)) :=
  if s == "-" || s == "" then some [] else
  (s.splitOn ";").mapM fun blk =>
    match blk.splitOn ":" with
    | [a, h] => do
        let a ← a.toNat?
        let bs ← hexToBytes h
        pure (a, bs.toList.map UInt8.toNat)
    | _ => none

def parseVariant : String → Option Variant
  | "GuestImport" => some .guestImport | "GuestExport" => some .guestExport
  | "GuestImportAsync" => some .guestImportAsync | "GuestExportAsync" => some .guestExportAsync
  | "GuestExportAsyncStackful" => some .guestExportAsyncStackful | _ => none

mutual
partial def toShape : Sx → Option CSig.Shape
  | .atom "scalar" => some .scalar | .atom "string" => some .string
  | .atom "flags" => some .flags | .atom "enum" => some .enum | .atom "handle" => some .handle
  | .atom "future" => some .future | .atom "stream" => some .stream
  | .atom "tuple" => some .tuple | .atom "record" => some .record | .atom "list" => some .list
  | .atom "map" => some .map | .atom "variant" => some .variant
  | .list [.atom "alias", s] => (toShape s).map .alias
  | .list [.atom "option", s] => (toShape s).map .option
  | .list [.atom "result", a, b] => do pure (.result (← toOptShape a) (← toOptShape b))
  | _ => none
partial def toOptShape : Sx → Option (Option CSig.Shape)
  | .atom "_" => some none
  | s => (toShape s).map some
end

def b01 (b : Bool) : String := if b then "1" else "0"

def handle (line : String) : String :=
  match line.splitOn "|" with
  | ["lower", p, mode, t, v] =>
      match p.toNat?, parseTy t, parseVal v with
      | some p, some t, some v =>
          if !Spec.hasTy t v then "bad-value"
          else if mode == "flat" then imageStr (encodeFlat p t v)
          else imageStr (encodeMem p t v)
      | _, _, _ => "bad-request"
  | ["lift", p, mode, t, x, dump] =>
      match p.toNat?, parseTy t, parseNats x, parseDump dump with
      | some p, some t, some xs, some blocks =>
          let m := memOf blocks
          let r := if mode == "flat" then decodeFlat p t xs m
                   else match xs with
                     | [a] => decodeMem p t a m
                     | _ => none
          match r with
          | some v => "ok " ++ showVal v
          | none => "trap"
      | _, _, _, _ => "bad-request"
  | ["sig", v, f] =>
      match parseVariant v, parseFunc f with
      | some v, some f =>
          let s := wasmSignature v f
          coreTysStr s.params ++ " -> " ++ coreTysStr s.results ++ " indirect=" ++ b01 s.indirectParams
            ++ " retptr=" ++ b01 s.retptr
      | _, _ => "bad-request"
  | ["layout", p, t] =>
      match p.toNat?, parseTy t with
      | some p, some t =>
          "size=" ++ toString (elemSize p t) ++ " align=" ++ toString (alignment p t)
            ++ " csize=" ++ toString (CProfile.cSize p t) ++ " calign=" ++ toString (CProfile.cAlign p t)
      | _, _ => "bad-request"
  | ["cfree", p, late, t, v] =>
      match p.toNat?, parseTy t, parseVal v with
      | some p, some t, some v =>
          if !Spec.hasTy t v then "bad-value" else
          let (area, heap) := ({} : Spec.Heap).alloc (elemSize p t) (alignment p t)
          let st := Spec.store p t v area { mem := [], heap }
          let frees := CProfile.cFreesObserved (late == "1") p st.mem t area
          let sizes := frees.map fun (a, _) =>
            match st.heap.blocks.find? (fun b => b.1 == a && b.2.1 > 0) with
            | some b => b.2.1
            | none => 0
          "ok sizes=" ++ natsStr sizes
      | _, _, _ => "bad-request"
  | ["ident", n] =>
      match hexToChars n with
      | some n => charsToHex (Witverif.Text.CIdent.toCIdent n)
      | none => "bad-request"
  | ["ifaceid", ex, ns, pkg, ver, multi, iface] =>
      match hexToChars ns, hexToChars pkg, hexToChars iface with
      | some ns, some pkg, some iface =>
          let v := if ver == "-" then none else hexToChars ver
          charsToHex (Witverif.Text.CIdent.interfaceIdentifier (ex == "1") ns pkg v (multi == "1") iface)
      | _, _, _ => "bad-request"
  | ["dtor", m, n] =>
      match hexToStr m, hexToStr n with
      | some m, some n =>
          let spec := match Names.Spec.dtor .sync (.name m) n with
            | some e => e.name
            | none => "?"
          strToHex (CProfile.cDtorExportName m n) ++ " " ++ strToHex spec
      | _, _ => "bad-request"
  | ["csig", fl, ps, r] =>
      match parseOne ps, parseOne r with
      | some (.list pss), some rs =>
          match pss.mapM toShape, toOptShape rs with
          | some shapes, some res =>
              let flat := fl == "1"
              let sg := CSig.printSig flat shapes res
              let rt := CSig.classifyRet flat res
              "params=" ++ (if sg.params.isEmpty then "-" else ",".intercalate (sg.params.map CSig.CParam.str))
                ++ " ret=" ++ sg.ret.str
                ++ " names=" ++ (if rt.retptrs.isEmpty then "-" else ",".intercalate (CSig.retptrNames rt))
          | _, _ => "bad-request"
      | _, _ => "bad-request"
  | _ => "bad-request"

def main : IO Unit := lineLoop handle
