/-! Shared helpers for the model drivers (import-free, so every driver links as a `lean_exe`).
Line protocol conventions: one request per line, tokens separated by single spaces or tabs,
strings travel hex-encoded (UTF-8 bytes, lower-case hex, empty string = `-`). -/
namespace Drivers

def hexDigit (n : Nat) : Char :=
  if n < 10 then Char.ofNat (48 + n) else Char.ofNat (87 + n)

def hexVal (c : Char) : Option Nat :=
  if '0' ≤ c ∧ c ≤ '9' then some (c.toNat - 48)
  else if 'a' ≤ c ∧ c ≤ 'f' then some (c.toNat - 87)
  else if 'A' ≤ c ∧ c ≤ 'F' then some (c.toNat - 55)
  else none

def bytesToHex (b : ByteArray) : String :=
  if b.size == 0 then "-" else
  String.ofList (b.toList.flatMap fun x => [hexDigit (x.toNat / 16), hexDigit (x.toNat % 16)])

def hexToBytes (s : String) : Option ByteArray :=
  if s == "-" then some ByteArray.empty else
  let rec go : List Char → ByteArray → Option ByteArray
    | [], acc => some acc
    | [_], _ => none
    | a :: b :: rest, acc =>
      match hexVal a, hexVal b with
      | some x, some y => go rest (acc.push (UInt8.ofNat (x * 16 + y)))
      | _, _ => none
  go s.toList ByteArray.empty

def strToHex (s : String) : String := bytesToHex s.toUTF8
def charsToHex (cs : List Char) : String := strToHex (String.ofList cs)

def hexToStr (h : String) : Option String :=
  match hexToBytes h with
  | some b => String.fromUTF8? b
  | none => none

def hexToChars (h : String) : Option (List Char) := (hexToStr h).map String.toList

/-- Read stdin line by line, answer each with `f`. -/
partial def lineLoop (f : String → String) : IO Unit := do
  let stdin ← IO.getStdin
  let stdout ← IO.getStdout
  let rec loop : IO Unit := do
    let line ← stdin.getLine
    if line.isEmpty then return ()
    let l := if line.endsWith "\n" then (line.dropEnd 1).toString else line
    stdout.putStrLn (f l)
    loop
  loop
  stdout.flush

/-- Stateful variant. -/
partial def lineLoopState {σ : Type} (init : σ) (f : σ → String → σ × String) : IO Unit := do
  let stdin ← IO.getStdin
  let stdout ← IO.getStdout
  let rec loop (s : σ) : IO Unit := do
    let line ← stdin.getLine
    if line.isEmpty then return ()
    let l := if line.endsWith "\n" then (line.dropEnd 1).toString else line
    let (s', out) := f s l
    stdout.putStrLn out
    loop s'
  loop init
  stdout.flush

end Drivers
