import Drivers.Util
/-! placeholder, replaced by the MoonPkg driver (C30) -/
def main : IO Unit := pure ()
