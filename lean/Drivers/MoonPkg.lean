import Witverif.Text.MoonPkg
import Drivers.Util
/-! Driver for the `MoonPkg` model (C30).

`q <call> <call> …[\t<impl outs>\t<impl final>]`      direct drive of `qualify_package`
    `<call>` = `hex(this):hex(name)`
    answer: `<out> <out> …\t<final>` (same format as `moon-run qualify`: `s` | `a:<hex>`;
    `hex(this)=hex(name):hex(alias),…;…` sorted) and, when the implementation's answer was supplied,
    `\tspec=<ok|fail|malformed>`: the monitor `MoonSpec.historyOk` on the implementation's outputs.

`g <hex project> <dir>,<dir>,… <pkg>;<pkg>;…`          generated file tree (end-to-end)
    `<dir>` = hex(generated package directory), `<pkg>` = `hex(dir)=<decl>,…|<used>,…|<expected>,…|<ext>,…`
    with `<decl>` = `hex(path):hex(alias)` (imports inside the project), `<used>` = hex(alias used in
    the sources), `<expected>` = `hex(dotted package name):hex(path)` pairs whose path must preserve
    the name, `<ext>` = `hex(path):hex(alias)` imports from outside the project (alias checks only)
    answer: per package `<dir hex>=<p><g><k>` flags (`1` ok / `0` fail) for
    packageOk / graphOk / pathPreserves, then ` all=<ok|fail>`. -/
open Witverif.Text Witverif.Text.MoonPkg Drivers

def words (s : String) : List String := (s.splitOn " ").filter (· ≠ "")

def parseCall (t : String) : Option (Str × Str) :=
  match t.splitOn ":" with
  | [a, b] => match hexToChars a, hexToChars b with
    | some x, some y => some (x, y)
    | _, _ => none
  | _ => none

def showOut : Out → String
  | .self => "s"
  | .alias a => "a:" ++ charsToHex a
  | .diverged => "diverged"

def parseOut (t : String) : Option (Option Str) :=
  if t == "s" then some none
  else if t.startsWith "a:" then (hexToChars (t.drop 2).toString).map some
  else none

def insertSorted (le : α → α → Bool) (x : α) : List α → List α
  | [] => [x]
  | y :: ys => if le x y then x :: y :: ys else y :: insertSorted le x ys

def sortBy (le : α → α → Bool) (l : List α) : List α := l.foldr (insertSorted le) []

def showFinal (st : State) : String :=
  let tables := sortBy (fun a b => leStr a.1 b.1) st
  ";".intercalate (tables.map fun (this, imp) =>
    charsToHex this ++ "=" ++ ",".intercalate
      ((sortBy (fun a b => leStr a.1 b.1) imp.packages).map fun (k, v) => charsToHex k ++ ":" ++ charsToHex v))

def parsePair (t : String) : Option (Str × Str) := parseCall t

def parseFinal (s : String) : Option (List (Str × List (Str × Str))) :=
  if s == "" then some [] else
  (s.splitOn ";").mapM fun t =>
    match t.splitOn "=" with
    | [a, b] =>
      match hexToChars a, (if b == "" then some [] else (b.splitOn ",").mapM parsePair) with
      | some this, some tbl => some (this, tbl)
      | _, _ => none
    | _ => none

def handleQ (rest : String) : String :=
  let parts := rest.splitOn "\t"
  match (words (parts.headD "")).mapM parseCall with
  | none => "bad-request"
  | some calls =>
    let (st, outs) := run [] calls
    let model := " ".intercalate (outs.map showOut) ++ "\t" ++ showFinal st
    match parts with
    | [_, io, ifin] =>
      match (words io).mapM parseOut, parseFinal ifin with
      | some iouts, some fin =>
        if iouts.length != calls.length then model ++ "\tspec=malformed" else
        let obs := (calls.zip iouts).map fun c => (c.1.1, c.1.2, c.2)
        model ++ "\tspec=" ++ (if MoonSpec.historyOk fin obs then "ok" else "fail")
      | _, _ => model ++ "\tspec=malformed"
    | _ => model

def parseList (s : String) (f : String → Option α) : Option (List α) :=
  if s == "" then some [] else (s.splitOn ",").mapM f

def handleG (rest : String) : String :=
  match words rest with
  | [proj, dirsS, pkgsS] =>
    match hexToChars proj, parseList dirsS hexToChars with
    | some project, some dirs =>
      let res := (pkgsS.splitOn ";").map fun t =>
        match t.splitOn "=" with
        | [d, body] =>
          match body.splitOn "|" with
          | [declS, usedS, expS, extS] =>
            match parseList declS parsePair, parseList usedS hexToChars, parseList expS parsePair,
                  parseList extS parsePair with
            | some decl, some used, some exp, some ext =>
              let p := MoonSpec.packageOk (decl ++ ext) used
              let g := MoonSpec.graphOk project dirs [decl]
              let k := exp.all fun (name, path) => MoonSpec.pathPreserves name path
              some (d, p, g, k)
            | _, _, _, _ => none
          | _ => none
        | _ => none
      if res.any (·.isNone) then "bad-request"
      else
        let rs := res.filterMap id
        let b (x : Bool) := if x then "1" else "0"
        " ".intercalate (rs.map fun (d, p, g, k) => d ++ "=" ++ b p ++ b g ++ b k)
          ++ " all=" ++ (if rs.all (fun (_, p, g, k) => p && g && k) then "ok" else "fail")
    | _, _ => "bad-request"
  | _ => "bad-request"

def handle (line : String) : String :=
  if line.startsWith "q " then handleQ (line.drop 2).toString
  else if line == "q" then handleQ ""
  else if line.startsWith "g " then handleG (line.drop 2).toString
  else "bad-request"

def main : IO Unit := lineLoop handle
