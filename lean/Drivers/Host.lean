import Witverif.Abi.HostCall
import Witverif.Abi.RustProfile
import Witverif.Abi.RustLedger
import Witverif.Abi.Resource
import Drivers.Util
import Drivers.AbiParse
/-! Driver `m_host` (C05, C06, C07): the Lean canonical-ABI specification acting as the
component-model host for native runs of generated **Rust** bindings (harness/bind-native), the Rust
profile of the generator model, and the resource-glue model.  One request per line, fields
separated by `|`; protocol documented in harness/bind-native/README.md.  The image format
(`flat= ptrs= blocks= slots=`) is the one of `m_chost` (harness/c-native).

  args|<p>|<fn>|<VALS>                 host lowers the arguments of an export call
        → ok indirect=<0|1> flat=<bits,…> ptrs=<01…> blocks=<addr:size:align:hex;…> slots=<addr,…>
  result|<p>|<T>|<VAL>                 host lowers the result of an import call (indirect: first block = return area)
        → same
  liftargs|<p>|<fn>|<bits,…>|<addr:hex;…>     host lifts what the guest lowered for an import call
  liftresult|<p>|<T>|<bits,…>|<addr:hex;…>    host lifts the result of an export call
        → need <addr,len;…>  (memory the lift reads that is not in the dump)
        | ok <VAL>|blocks=<addr:size:align,…>   (blocks = every buffer reachable from the value)
        | trap
  sig|<variant>|<fn>                   model of `Resolve::wasm_signature` + spec-side 16/1 decisions at p
  postfrees|<p>|<fn>|<retarea>|<dump>  model of the code: blocks the generated cabi_post_* frees
        → ok freed=<addr:size:align,…> spec=<…> skipflist=<…> | panic | stuck
  rustobserve|<zext|sext>|<T>|<VAL>    model of the code: the value Rust code observes when the host sends VAL
                                       (mode = FlagsLift rendering read off the generated text)
  ledger|<p>|<fn>|<VALS>|<VAL or _>    model of the code (RustLedger): event counts of one export call of the stub
        → ok hasmap=<0|1> galloc=<n> hostfree=<n> gfree=<n> postfree=<n> leak=<n>
  ledger-import|<p>|<fn>|<VALS>|<VAL or _>   same for one import call, counted after the caller built the arguments
        → ok hasmap=<0|1> galloc=<n> hostfree=<n> gfree=<n>
  canon|<T>                            → rust=<0|1> bits=<0|1>
  resource|<script>                    C07: see Witverif/Abi/Resource.lean (`runScript`)
-/
open Witverif.Abi Witverif.Abi.CHost Witverif.Abi.HostCall Drivers Drivers.AbiParse

def natsStr (xs : List Nat) : String := if xs.isEmpty then "-" else ",".intercalate (xs.map toString)

def bytesHex (bs : List Nat) : String :=
  if bs.isEmpty then "-" else
  String.ofList (bs.flatMap fun x => [hexDigit (x / 16 % 16), hexDigit (x % 16)])

def blockStr (b : CHost.Block) : String :=
  toString b.addr ++ ":" ++ toString b.size ++ ":" ++ toString b.align ++ ":" ++ bytesHex b.bytes

def imageStr (indirect : Bool) (im : Image) : String :=
  "ok indirect=" ++ (if indirect then "1" else "0")
    ++ " flat=" ++ natsStr (im.flat.map (·.bits))
    ++ " ptrs=" ++ (if im.flatPtr.isEmpty then "-" else String.ofList (im.flatPtr.map fun b => if b then '1' else '0'))
    ++ " blocks=" ++ (if im.blocks.isEmpty then "-" else ";".intercalate (im.blocks.map blockStr))
    ++ " slots=" ++ natsStr im.slots

def parseNats (s : String) : Option (List Nat) :=
  if s == "-" || s == "" then some [] else (s.splitOn ",").mapM String.toNat?

def parseDump (s : String) : Option (List (Nat × List Nat)) :=
  if s == "-" || s == "" then some [] else
  (s.splitOn ";").mapM fun blk =>
    match blk.splitOn ":" with
    | [a, h] => do
        let a ← a.toNat?
        let bs ← hexToBytes h
        pure (a, bs.toList.map UInt8.toNat)
    | _ => none

def covered (dump : List (Nat × List Nat)) (a n : Nat) : Bool :=
  n == 0 || dump.any fun (b, bs) => b ≤ a && a + n ≤ b + bs.length

def triplesStr (xs : List (Nat × Nat × Nat)) : String :=
  if xs.isEmpty then "-" else
  ",".intercalate (xs.map fun (a, s, al) => toString a ++ ":" ++ toString s ++ ":" ++ toString al)

/-- lift with the "need more memory" protocol -/
def liftWith (p : Nat) (indirect : Bool) (t : Ty) (bits : List Nat) (dump : List (Nat × List Nat))
    (lift : Spec.Mem → Option Val) : String :=
  let m := memOf dump
  let rs := reads p indirect t bits m
  let missing := rs.filter fun (a, n, _) => !covered dump a n
  if !missing.isEmpty then
    "need " ++ ";".intercalate (missing.map fun (a, n, _) => toString a ++ "," ++ toString n)
  else
    match lift m with
    | some v =>
        let blocks := if indirect then rs.drop 1 else rs
        "ok " ++ showVal v ++ "|blocks=" ++ triplesStr blocks
    | none => "trap"

def parseVariant : String → Option Variant
  | "GuestImport" => some .guestImport | "GuestExport" => some .guestExport
  | _ => none

def b01 (b : Bool) : String := if b then "1" else "0"

def handle (line : String) : String :=
  match line.splitOn "|" with
  | ["args", p, f, vs] =>
      match p.toNat?, parseFunc f, parseVal vs with
      | some p, some f, some (.record vs) =>
          if !Spec.hasTys f.params vs then "bad-value"
          else imageStr (paramsIndirect p f.params) (lowerArgs p f.params vs)
      | _, _, _ => "bad-request"
  | ["result", p, t, v] =>
      match p.toNat?, parseTy t, parseVal v with
      | some p, some t, some v =>
          if !Spec.hasTy t v then "bad-value"
          else imageStr (resultIndirect p (some t)) (lowerResult p t v)
      | _, _, _ => "bad-request"
  | ["liftargs", p, f, bits, dump] =>
      match p.toNat?, parseFunc f, parseNats bits, parseDump dump with
      | some p, some f, some bits, some dump =>
          liftWith p (paramsIndirect p f.params) (paramsTy f.params) bits dump (liftArgs p f.params bits)
      | _, _, _, _ => "bad-request"
  | ["liftresult", p, t, bits, dump] =>
      match p.toNat?, parseTy t, parseNats bits, parseDump dump with
      | some p, some t, some bits, some dump =>
          liftWith p (resultIndirect p (some t)) t bits dump (liftResult p t bits)
      | _, _, _, _ => "bad-request"
  | ["sig", v, p, f] =>
      match parseVariant v, p.toNat?, parseFunc f with
      | some v, some p, some f =>
          let s := wasmSignature v f
          coreTysStr s.params ++ " -> " ++ coreTysStr s.results ++ " indirect=" ++ b01 s.indirectParams
            ++ " retptr=" ++ b01 s.retptr ++ " spec-indirect=" ++ b01 (paramsIndirect p f.params)
            ++ " spec-retptr=" ++ b01 (resultIndirect p f.result)
      | _, _, _ => "bad-request"
  | ["postfrees", p, f, ra, dump] =>
      match p.toNat?, parseFunc f, ra.toNat?, parseDump dump with
      | some p, some f, some ra, some dump =>
          let m := memOf dump
          match f.result with
          | none => "bad-request"
          | some r =>
            match postReturn f with
            | .error e => "panic:" ++ e.str
            | .ok _ =>
              match RustProfile.postFrees p f ra m with
              | some fr =>
                  "ok freed=" ++ triplesStr fr ++ " spec=" ++ triplesStr (RustProfile.resultBlocks p r ra m)
                    ++ " skipflist=" ++ triplesStr (RustProfile.resultBlocksSkippingFlists p r ra m)
              | none => "stuck"
      | _, _, _, _ => "bad-request"
  | ["rustobserve", mode, t, v] =>
      match parseTy t, parseVal v with
      | some t, some v =>
          if !Spec.hasTy t v then "bad-value" else "ok " ++ showVal (RustProfile.rustObserve (mode == "sext") t v)
      | _, _ => "bad-request"
  | ["ledger", p, f, vs, r] =>
      match p.toNat?, parseFunc f, parseVal vs with
      | some p, some f, some (.record vs) =>
          let rv : Option Val := if r == "_" then none else parseVal r
          let args := RustLedger.argsTree (paramsIndirect p f.params) f.params vs
          let res := match f.result, rv with
            | some t, some v => RustLedger.shape t v
            | _, _ => RustLedger.Tree.node .plain false false []
          let (ga, hf, gf, pf, lk) := RustLedger.exportCounts args res
          "ok hasmap=" ++ b01 (RustLedger.hasMapAny f.params || RustLedger.hasMapOpt f.result)
            ++ " galloc=" ++ toString ga ++ " hostfree=" ++ toString hf ++ " gfree=" ++ toString gf
            ++ " postfree=" ++ toString pf ++ " leak=" ++ toString lk
      | _, _, _ => "bad-request"
  | ["ledger-import", p, f, vs, r] =>
      match p.toNat?, parseFunc f, parseVal vs with
      | some p, some f, some (.record vs) =>
          let rv : Option Val := if r == "_" then none else parseVal r
          let args := RustLedger.argsTree (paramsIndirect p f.params) f.params vs
          let res := match f.result, rv with
            | some t, some v => RustLedger.shape t v
            | _, _ => RustLedger.Tree.node .plain false false []
          let (ga, hf, gf) := RustLedger.importCounts args res
          "ok hasmap=" ++ b01 (RustLedger.hasMapAny f.params || RustLedger.hasMapOpt f.result)
            ++ " galloc=" ++ toString ga ++ " hostfree=" ++ toString hf ++ " gfree=" ++ toString gf
      | _, _, _ => "bad-request"
  | ["canon", t] =>
      match parseTy t with
      | some t => "rust=" ++ b01 (RustProfile.rustCanon t) ++ " bits=" ++ b01 (allBitsValid t)
      | none => "bad-request"
  | ["resource", script] => Resource.runScript script
  | _ => "bad-request"

partial def loop (stdin stdout : IO.FS.Stream) : IO Unit := do
  let line ← stdin.getLine
  if line.isEmpty then return ()
  let l := if line.endsWith "\n" then (line.dropEnd 1).toString else line
  stdout.putStrLn (handle l)
  stdout.flush
  loop stdin stdout

def main : IO Unit := do
  loop (← IO.getStdin) (← IO.getStdout)
