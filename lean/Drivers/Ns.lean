import Witverif.Text.Ns
import Drivers.Util
/-! Driver for the `Ns` model (C26).
Request line:  `<op> <op> …`            with `<op>` = `i:<hex>` (insert) | `t:<hex>` (tmp)
               optionally followed by a TAB and the implementation's outputs `<out> <out> …`
Answer line:   `<out> <out> …`          with `<out>` = `ok` | `conflict` | `n:<hex>` | `diverged`
               and, when implementation outputs were supplied, ` \t spec=<ok|fail|malformed>`:
               the C26 monitor `NsSpec.check` evaluated on the implementation's outputs. -/
open Witverif.Text Drivers

def parseOp (t : String) : Option Ns.Op :=
  if t.startsWith "i:" then (hexToChars (t.drop 2).toString).map .insert
  else if t.startsWith "t:" then (hexToChars (t.drop 2).toString).map .tmp
  else none

def parseOut (t : String) : Option Ns.Out :=
  if t == "ok" then some .ok
  else if t == "conflict" then some .conflict
  else if t == "diverged" then some .diverged
  else if t.startsWith "n:" then (hexToChars (t.drop 2).toString).map .name
  else none

def showOut : Ns.Out → String
  | .ok => "ok" | .conflict => "conflict" | .diverged => "diverged"
  | .name s => "n:" ++ charsToHex s

def words (s : String) : List String := (s.splitOn " ").filter (· ≠ "")

def handle (line : String) : String :=
  let parts := line.splitOn "\t"
  let opsS := parts.headD ""
  match (words opsS).mapM parseOp with
  | none => "bad-op"
  | some ops =>
    let outs := (Ns.empty.run ops).2
    let model := " ".intercalate (outs.map showOut)
    match parts with
    | [_, implS] =>
      match (words implS).mapM parseOut with
      | none => model ++ "\tspec=malformed"
      | some iouts => model ++ "\tspec=" ++ (if NsSpec.check [] ops iouts then "ok" else "fail")
    | _ => model

def main : IO Unit := lineLoop handle
