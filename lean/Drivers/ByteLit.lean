import Witverif.Text.ByteLit
import Drivers.Util
/-! Driver for the component-type literal model (C09).
Request line: `<N> <hex of the source text following `*b"`> <hex of the expected metadata bytes | ->`
Answer: `decoded=<hex bytes | none> n=<decoded length> term=<0|1> model_eq=<0|1|->`
          decoded/n/term: `ByteLitSpec.decode` (the Rust lexer) on the text; term = the closing quote is followed by `;`
          model_eq: the model's `sectionLiteral expected ++ "\";"` is a prefix of the text (exact model/implementation tie)
        TAB `spec=ok` | `spec=fail:<length|bytes|unterminated>`: the literal denotes exactly N bytes, equal to the expected
        metadata when supplied. -/
open Witverif.Text Witverif.Text.ByteLit Drivers

def bytesOf (h : String) : Option (List Nat) := (hexToBytes h).map fun b => b.toList.map (·.toNat)
def hexOfBytes (l : List Nat) : String := bytesToHex (ByteArray.mk (l.map UInt8.ofNat).toArray)

def handle (line : String) : String :=
  match line.splitOn " " with
  | [nS, textH, expH] =>
    match nS.toNat?, hexToChars textH with
    | some n, some text =>
      let expected := if expH == "-" then none else bytesOf expH
      let dec := ByteLitSpec.decode false text
      let (dh, dn, term, bs) := match dec with
        | some (bs, rest) => (hexOfBytes bs, bs.length, rest.take 1 == [';'], some bs)
        | none => ("none", 0, false, none)
      let modelEq := match expected with
        | some e => if (sectionLiteral e ++ ['"', ';']).isPrefixOf text then "1" else "0"
        | none => "-"
      let verdict :=
        if !term then "fail:unterminated"
        else if dn != n then "fail:length"
        else match expected, bs with
          | some e, some b => if e == b then "ok" else "fail:bytes"
          | _, _ => "ok"
      s!"decoded={dh} n={dn} term={if term then 1 else 0} model_eq={modelEq}\tspec={verdict}"
    | _, _ => "bad-request"
  | _ => "bad-request"

def main : IO Unit := lineLoop handle
