import Witverif.Abi.Sem
import Witverif.Abi.Gen
/-! Parser for the tree-form text printed by the Rust harness `abi-trace` (and by `Block.str`),
for type terms and for value terms.  Only used by drivers (partial functions allowed here). -/
namespace Drivers.AbiParse
open Witverif.Abi

inductive Sx where
  | atom (s : String)
  | list (xs : List Sx)
  | brace (xs : List Sx)
deriving Repr, Inhabited

def tokenize (s : String) : List String :=
  let rec go (cs : List Char) (cur : List Char) (acc : List String) : List String :=
    let flush := if cur.isEmpty then acc else String.ofList cur.reverse :: acc
    match cs with
    | [] => flush.reverse
    | '=' :: '>' :: rest => go rest [] ("=>" :: flush)
    | c :: rest =>
      if c == '(' || c == ')' || c == '{' || c == '}' then go rest [] (String.singleton c :: flush)
      else if c == ' ' then go rest [] flush
      else go rest (c :: cur) acc
  go s.toList [] []

partial def parseMany (toks : List String) : List Sx × List String :=
  match toks with
  | [] => ([], [])
  | ")" :: rest => ([], rest)
  | "}" :: rest => ([], rest)
  | "(" :: rest =>
    let (inner, rest') := parseMany rest
    let (more, rest'') := parseMany rest'
    (Sx.list inner :: more, rest'')
  | "{" :: rest =>
    let (inner, rest') := parseMany rest
    let (more, rest'') := parseMany rest'
    (Sx.brace inner :: more, rest'')
  | a :: rest =>
    let (more, rest') := parseMany rest
    (Sx.atom a :: more, rest')

def parseOne (s : String) : Option Sx :=
  match (parseMany (tokenize s)).1 with
  | [x] => some x
  | _ => none

mutual
partial def toTy : Sx → Option Ty
  | .atom "bool" => some .bool | .atom "s8" => some .s8 | .atom "u8" => some .u8
  | .atom "s16" => some .s16 | .atom "u16" => some .u16 | .atom "s32" => some .s32
  | .atom "u32" => some .u32 | .atom "s64" => some .s64 | .atom "u64" => some .u64
  | .atom "f32" => some .f32 | .atom "f64" => some .f64 | .atom "char" => some .char
  | .atom "string" => some .string | .atom "errctx" => some .errctx
  | .atom "own" => some .own | .atom "borrow" => some .borrow
  | .list [.atom "list", e] => (toTy e).map .list
  | .list [.atom "flist", e, .atom n] => do pure (.flist (← toTy e) (← n.toNat?))
  | .list [.atom "map", k, v] => do pure (.map (← toTy k) (← toTy v))
  | .list (.atom "record" :: fs) => (fs.mapM toTy).map .record
  | .list (.atom "tuple" :: fs) => (fs.mapM toTy).map .tuple
  | .list [.atom "flags", .atom n] => n.toNat?.map .flags
  | .list [.atom "enum", .atom n] => n.toNat?.map .enum
  | .list (.atom "variant" :: cs) => (cs.mapM toOptTy).map .variant
  | .list [.atom "option", t] => (toTy t).map .option
  | .list [.atom "result", a, b] => do pure (.result (← toOptTy a) (← toOptTy b))
  | .list [.atom "future", p] => (toOptTy p).map .future
  | .list [.atom "stream", p] => (toOptTy p).map .stream
  | _ => none
partial def toOptTy : Sx → Option (Option Ty)
  | .atom "_" => some none
  | s => (toTy s).map some
end

def toFunc : Sx → Option Func
  | .list [.atom "fn", .atom kind, .list ps, r] => do
      let params ← ps.mapM toTy
      let result ← toOptTy r
      pure (Func.mk (kind == "method") params result)
  | _ => none

def parseTy (s : String) : Option Ty := (parseOne s).bind toTy
def parseFunc (s : String) : Option Func := (parseOne s).bind toFunc

def nat? : Sx → Option Nat
  | .atom s => s.toNat?
  | _ => none

/-- value terms: `(b 0|1) (i N) (f32 N) (f64 N) (c N) (s hex…) (l v…) (r v…) (fl 0101…) (var i v?) (e i) (h n)` -/
partial def toVal : Sx → Option Val
  | .list [.atom "b", .atom x] => some (.bool (x == "1"))
  | .list [.atom "i", .atom x] => x.toInt?.map .int
  | .list [.atom "f32", .atom x] => x.toNat?.map .f32
  | .list [.atom "f64", .atom x] => x.toNat?.map .f64
  | .list [.atom "c", .atom x] => x.toNat?.map .char
  | .list (.atom "s" :: bs) => (bs.mapM nat?).map .str
  | .list (.atom "l" :: vs) => (vs.mapM toVal).map .list
  | .list (.atom "r" :: vs) => (vs.mapM toVal).map .record
  | .list [.atom "fl", .atom bits] => some (.flags (bits.toList.map (· == '1')))
  | .list [.atom "fl"] => some (.flags [])
  | .list [.atom "var", .atom i] => i.toNat?.map fun i => .variant i none
  | .list [.atom "var", .atom i, v] => do pure (.variant (← i.toNat?) (some (← toVal v)))
  | .list [.atom "e", .atom i] => i.toNat?.map .enum
  | .list [.atom "h", .atom h] => h.toNat?.map .handle
  | _ => none

def parseVal (s : String) : Option Val := (parseOne s).bind toVal

partial def showVal : Val → String
  | .bool b => "(b " ++ (if b then "1" else "0") ++ ")"
  | .int n => "(i " ++ toString n ++ ")"
  | .f32 b => "(f32 " ++ toString b ++ ")"
  | .f64 b => "(f64 " ++ toString b ++ ")"
  | .char c => "(c " ++ toString c ++ ")"
  | .str bs => "(s" ++ String.join (bs.map fun b => " " ++ toString b) ++ ")"
  | .list vs => "(l" ++ String.join (vs.map fun v => " " ++ showVal v) ++ ")"
  | .record vs => "(r" ++ String.join (vs.map fun v => " " ++ showVal v) ++ ")"
  | .flags bs => "(fl " ++ String.ofList (bs.map fun b => if b then '1' else '0') ++ ")"
  | .variant i none => "(var " ++ toString i ++ ")"
  | .variant i (some v) => "(var " ++ toString i ++ " " ++ showVal v ++ ")"
  | .enum i => "(e " ++ toString i ++ ")"
  | .handle h => "(h " ++ toString h ++ ")"

def parseOff (s : String) : Option Off :=
  match s.splitOn "/" with
  | [a, b] => do pure ⟨← a.toNat?, ← b.toNat?⟩
  | _ => none

def parseCore : String → Option CoreTy
  | "i32" => some .i32 | "i64" => some .i64 | "f32" => some .f32 | "f64" => some .f64
  | "ptr" => some .ptr | "p64" => some .p64 | "len" => some .len | _ => none

def parseCores (s : String) : Option (List CoreTy) :=
  if s == "-" then some [] else (s.splitOn ",").mapM parseCore

def parseBitcast1 : String → Option Bitcast
  | "F32ToI32" => some .f32ToI32 | "F64ToI64" => some .f64ToI64 | "I32ToI64" => some .i32ToI64
  | "F32ToI64" => some .f32ToI64 | "I32ToF32" => some .i32ToF32 | "I64ToF64" => some .i64ToF64
  | "I64ToI32" => some .i64ToI32 | "I64ToF32" => some .i64ToF32 | "P64ToI64" => some .p64ToI64
  | "I64ToP64" => some .i64ToP64 | "P64ToP" => some .p64ToP | "PToP64" => some .pToP64
  | "I32ToP" => some .i32ToP | "PToI32" => some .pToI32 | "PToL" => some .pToL | "LToP" => some .lToP
  | "I32ToL" => some .i32ToL | "LToI32" => some .lToI32 | "I64ToL" => some .i64ToL
  | "LToI64" => some .lToI64 | "None" => some .none | _ => none

def parseBitcast (s : String) : Option Bitcast :=
  match s.splitOn "." with
  | ["seq", a, b] => do pure (.seq (← parseBitcast1 a) (← parseBitcast1 b))
  | [a] => parseBitcast1 a
  | _ => none

def scalarOps : List ScalarOp :=
  [.i32FromChar, .i64FromU64, .i64FromS64, .i32FromU32, .i32FromS32, .i32FromU16, .i32FromS16,
   .i32FromU8, .i32FromS8, .coreF32FromF32, .coreF64FromF64, .s8FromI32, .u8FromI32, .s16FromI32,
   .u16FromI32, .s32FromI32, .u32FromI32, .s64FromI64, .u64FromI64, .charFromI32, .f32FromCoreF32,
   .f64FromCoreF64, .boolFromI32, .i32FromBool]
def loadKinds : List LoadKind := [.i32, .i32_8u, .i32_8s, .i32_16u, .i32_16s, .i64, .f32, .f64, .ptr, .len]
def storeKinds : List StoreKind := [.i32, .i32_8, .i32_16, .i64, .f32, .f64, .ptr, .len]

def isRealloc : Sx → Option Bool
  | .atom "realloc" => some true
  | .atom "borrow" => some false
  | _ => none

def off? : Sx → Option Off
  | .atom s => parseOff s
  | _ => none
def cores? : Sx → Option (List CoreTy)
  | .atom s => parseCores s
  | _ => none

/-- parse an instruction name with its static parameters off the front; returns the rest -/
def parseOp : List Sx → Option (Op × List Sx)
  | .atom name :: rest =>
    match scalarOps.find? (·.str == name) with
    | some s => some (.scalar s, rest)
    | none =>
    match loadKinds.find? (·.str == name), rest with
    | some k, o :: rest' => (off? o).map fun o => (.load k o, rest')
    | _, _ =>
    match storeKinds.find? (·.str == name), rest with
    | some k, o :: rest' => (off? o).map fun o => (.store k o, rest')
    | _, _ =>
    match name, rest with
    | "ListCanonLower", e :: r :: rest => do pure (.listCanonLower (← toTy e) (← isRealloc r), rest)
    | "StringLower", r :: rest => do pure (.stringLower (← isRealloc r), rest)
    | "ListLower", e :: r :: rest => do pure (.listLower (← toTy e) (← isRealloc r), rest)
    | "ListCanonLift", e :: rest => do pure (.listCanonLift (← toTy e), rest)
    | "StringLift", rest => some (.stringLift, rest)
    | "ListLift", e :: rest => do pure (.listLift (← toTy e), rest)
    | "MapLower", k :: v :: r :: rest => do pure (.mapLower (← toTy k) (← toTy v) (← isRealloc r), rest)
    | "MapLift", k :: v :: rest => do pure (.mapLift (← toTy k) (← toTy v), rest)
    | "FixedLengthListLift", e :: n :: rest => do pure (.flistLift (← toTy e) (← nat? n), rest)
    | "FixedLengthListLower", e :: n :: rest => do pure (.flistLower (← toTy e) (← nat? n), rest)
    | "FixedLengthListLowerToMemory", e :: n :: rest => do pure (.flistLowerMem (← toTy e) (← nat? n), rest)
    | "FixedLengthListLiftFromMemory", e :: n :: rest => do pure (.flistLiftMem (← toTy e) (← nat? n), rest)
    | "RecordLower", n :: rest => do pure (.recordLower (← nat? n), rest)
    | "RecordLift", n :: rest => do pure (.recordLift (← nat? n), rest)
    | "TupleLower", n :: rest => do pure (.tupleLower (← nat? n), rest)
    | "TupleLift", n :: rest => do pure (.tupleLift (← nat? n), rest)
    | "HandleLower", .atom k :: rest => some (.handleLower (k == "own"), rest)
    | "HandleLift", .atom k :: rest => some (.handleLift (k == "own"), rest)
    | "FutureLower", rest => some (.futureLower, rest)
    | "FutureLift", rest => some (.futureLift, rest)
    | "StreamLower", rest => some (.streamLower, rest)
    | "StreamLift", rest => some (.streamLift, rest)
    | "ErrorContextLower", rest => some (.errLower, rest)
    | "ErrorContextLift", rest => some (.errLift, rest)
    | "FlagsLower", n :: rest => do pure (.flagsLower (← nat? n), rest)
    | "FlagsLift", n :: rest => do pure (.flagsLift (← nat? n), rest)
    | "VariantLower", n :: rs :: rest => do pure (.variantLower (← nat? n) (← cores? rs), rest)
    | "VariantLift", n :: rest => do pure (.variantLift (← nat? n), rest)
    | "EnumLower", n :: rest => do pure (.enumLower (← nat? n), rest)
    | "EnumLift", n :: rest => do pure (.enumLift (← nat? n), rest)
    | "OptionLower", rs :: rest => do pure (.optionLower (← cores? rs), rest)
    | "OptionLift", rest => some (.optionLift, rest)
    | "ResultLower", rs :: rest => do pure (.resultLower (← cores? rs), rest)
    | "ResultLift", rest => some (.resultLift, rest)
    | "CallWasm", ps :: rs :: rest => do pure (.callWasm (← cores? ps) (← cores? rs), rest)
    | "CallInterface", np :: nr :: .atom a :: rest => do
        pure (.callInterface (← nat? np) (← nat? nr) (a == "async"), rest)
    | "Return", n :: rest => do pure (.ret (← nat? n), rest)
    | "Malloc", s :: a :: rest => do pure (.malloc (← off? s) (← off? a), rest)
    | "GuestDeallocate", s :: a :: rest => do pure (.dealloc (← off? s) (← off? a), rest)
    | "GuestDeallocateString", rest => some (.deallocString, rest)
    | "GuestDeallocateList", e :: rest => do pure (.deallocList (← toTy e), rest)
    | "GuestDeallocateMap", k :: v :: rest => do pure (.deallocMap (← toTy k) (← toTy v), rest)
    | "GuestDeallocateVariant", n :: rest => do pure (.deallocVariant (← nat? n), rest)
    | "DropHandle", t :: rest => do pure (.dropHandle (← toTy t), rest)
    | "AsyncTaskReturn", ps :: rest => do pure (.asyncTaskReturn (← cores? ps), rest)
    | "Flush", n :: rest => do pure (.flush (← nat? n), rest)
    | _, _ => none
  | _ => none

def isBrace : Sx → Bool
  | .brace _ => true
  | _ => false

/-- split the contents of `{ stmts => results }` -/
def splitArrow (xs : List Sx) : List Sx × List Sx :=
  let pre := xs.takeWhile fun | .atom "=>" => false | _ => true
  (pre, xs.drop (pre.length + 1))

mutual
partial def toExpr : Sx → Option Expr
  | .list [.atom "arg", n] => (nat? n).map .arg
  | .list [.atom "in", n] => (nat? n).map .inp
  | .list [.atom "rp", n, s, a] => do pure (.rp (← nat? n) (← off? s) (← off? a))
  | .list [.atom "pl", l] => (nat? l).map .pl
  | .list [.atom "elem", l] => (nat? l).map .elem
  | .list [.atom "key", l] => (nat? l).map .key
  | .list [.atom "val", l] => (nat? l).map .val
  | .list [.atom "base", l] => (nat? l).map .base
  | .list [.atom "i32", v] => (nat? v).map .i32
  | .list [.atom "zero", .atom t] => (parseCore t).map .zero
  | .list [.atom "cast", .atom c, e] => do pure (.cast (← parseBitcast c) (← toExpr e))
  | .list [.atom "#", k, .list inner] => do
      let (o, args, blocks) ← opArgsBlocks inner
      pure (.op o args (blocks.map (·.2)) (← nat? k))
  | .list (.atom "res" :: k :: inner) => do
      let (o, rest) ← parseOp inner
      pure (.res (← nat? k) o (← rest.mapM toExpr))
  | .list inner => do
      let (o, args, blocks) ← opArgsBlocks inner
      pure (.op o args (blocks.map (·.2)) 0)
  | _ => none
partial def opArgsBlocks (inner : List Sx) : Option (Op × List Expr × List Block) := do
  let (o, rest) ← parseOp inner
  let args ← (rest.filter (!isBrace ·)).mapM toExpr
  let blocks ← (rest.filter isBrace).mapM toBlock
  pure (o, args, blocks)
partial def toStmt : Sx → Option Stmt
  | .list (.atom "let" :: _ :: inner) => do
      let (o, args, blocks) ← opArgsBlocks inner
      pure (.eff o args blocks)
  | _ => none
partial def toBlock : Sx → Option Block
  | .brace xs => do
      let (ss, rs) := splitArrow xs
      pure (← ss.mapM toStmt, ← rs.mapM toExpr)
  | _ => none
end

def parseBlock (s : String) : Option Block := (parseOne s).bind toBlock

end Drivers.AbiParse
