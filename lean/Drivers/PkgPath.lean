import Witverif.Text.PkgPath
import Drivers.Util
/-! Driver for the `PkgPath` model (C27) and the `Heck` glue model.

Request line (heck glue):  `h <hex string>`                    → `<hex snake>`
Request line (pkgpath):    `<mode> <pkg> <pkg> …`  with `<pkg>` = `hex(ns):hex(name):hex(version)|~`
                           (mode is ignored by the model: `d`/`w` only select how the harness
                           builds the `Resolve`), optionally followed by a TAB and the
                           implementation's names `<hex> <hex> …`
Answer:   `<hex name> …`   and, when implementation names were supplied,
          `\tspec=<ok|fail|malformed>\tcoll=<i>-<j>,…\tplain=<bits>\tvalid=<bits>`:
          the C27 monitor `PkgSpec.check` on the implementation's names, the colliding index pairs
          (different packages of one namespace with equal implementation names), and per package
          whether it satisfies the hypotheses of the partial theorem / is a valid WIT+semver name. -/
open Witverif.Text Witverif.Text.PkgPath Drivers

def words (s : String) : List String := (s.splitOn " ").filter (· ≠ "")

def splitFirst (sep : Char) : List Char → List Char × Option (List Char)
  | [] => ([], none)
  | c :: cs =>
    if c = sep then ([], some cs)
    else let (a, b) := splitFirst sep cs; (c :: a, b)

def parseNat (cs : List Char) : Option Nat :=
  if cs.isEmpty || !(cs.all fun c => PkgSpec.isDigit09 c) then none
  else some (cs.foldl (fun a c => a * 10 + (c.toNat - 48)) 0)

def parseVersion (s : List Char) : Option Version :=
  let (main, build) := splitFirst '+' s
  let (core, pre) := splitFirst '-' main
  match PkgSpec.splitOn '.' core with
  | [a, b, c] =>
    match parseNat a, parseNat b, parseNat c with
    | some ma, some mi, some pa =>
      -- an explicitly empty pre-release / build (`1.0.0-`, `1.0.0+`) is not a semver string
      if pre == some [] || build == some [] then none
      else some ⟨ma, mi, pa, pre.getD [], build.getD []⟩
    | _, _, _ => none
  | _ => none

def parsePkg (t : String) : Option Pkg :=
  match t.splitOn ":" with
  | [a, b, c] =>
    match hexToChars a, hexToChars b with
    | some ns, some name =>
      if c == "~" then some ⟨ns, name, none⟩
      else match hexToChars c with
        | some v => (parseVersion v).map fun v => ⟨ns, name, some v⟩
        | none => none
    | _, _ => none
  | _ => none

def bits (l : List Bool) : String := String.ofList (l.map fun b => if b then '1' else '0')

/-- index pairs `i<j` of different same-namespace packages whose observed names coincide -/
def collisions (obs : List (Pkg × List Char)) : List (Nat × Nat) :=
  let ix := (List.range obs.length).zip obs
  ix.flatMap fun (i, p, n) =>
    ix.filterMap fun (j, q, m) =>
      if i < j && p.ns == q.ns && p != q && n == m then some (i, j) else none

def handlePkg (line : String) : String :=
  let parts := line.splitOn "\t"
  match words (parts.headD "") with
  | [] => "bad-request"
  | _mode :: toks =>
    match toks.mapM parsePkg with
    | none => "bad-request"
    | some pkgs =>
      let model := " ".intercalate ((allNames pkgs).map charsToHex)
      match parts with
      | [_, implS] =>
        match (words implS).mapM hexToChars with
        | none => model ++ "\tspec=malformed"
        | some names =>
          let ok := PkgSpec.check pkgs names
          let coll := collisions (pkgs.zip names)
          model ++ "\tspec=" ++ (if ok then "ok" else "fail")
            ++ "\tcoll=" ++ ",".intercalate (coll.map fun (i, j) => s!"{i}-{j}")
            ++ "\tplain=" ++ bits (pkgs.map PkgSpec.plainPkg)
            ++ "\tvalid=" ++ bits (pkgs.map PkgSpec.validPkg)
      | _ => model

def handle (line : String) : String :=
  if line.startsWith "h " then
    match hexToChars (line.drop 2).toString.trimAscii.toString with
    | some s => charsToHex (Heck.snake s)
    | none => "bad-request"
  else handlePkg line

def main : IO Unit := lineLoop handle
