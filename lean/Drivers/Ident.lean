import Witverif.Text.Ident
import Drivers.Util
/-! Driver for the identifier model (C09, C31).
Request line: `<hex name>`, optionally TAB `rust=<hex> c=<hex>` (the real `to_rust_ident` / `to_c_ident` outputs)
Answer: `rust=<hex> c=<hex> snake=<hex> camel=<hex> pascal=<hex> shouty=<hex> valid=<0|1>`
        ` rcamel=<hex> rkw=<0|1> ckw=<0|1> rtemp=<0|1> ctemp=<0|1> rckw=<0|1> skw=<0|1> rpre=<0|1> rfn=<0|1> rgp=<0|1>`   (rpre: rcamel is a prelude name the Rust templates use unqualified)
  rcamel = crates/rust `to_upper_camel_case`; rkw/ckw: the model's identifier is a Rust-2024 / C++23 keyword;
  rtemp/ctemp: the model's identifier can be bound by a generator-emitted local;
  rckw: rcamel is a Rust keyword (`Self`); skw: the package-module component `to_rust_ident(name_package_module ..)` of an unversioned package of that name is a Rust keyword.
  With implementation outputs supplied: TAB `spec=ok` | `spec=<rust-keyword>,<c-keyword>`: the spec tables
  (`IdentSpec.notKeyword`) evaluated on the implementation's identifiers. -/
open Witverif.Text Witverif.Text.Ident Drivers

def b01 (b : Bool) : String := if b then "1" else "0"

def kv (fields : List String) (k : String) : Option String :=
  (fields.find? (·.startsWith (k ++ "="))).map fun f => (f.drop (k.length + 1)).toString

def handle (line : String) : String :=
  let parts := line.splitOn "\t"
  match hexToChars (parts.headD "") with
  | none => "bad-request"
  | some n =>
    let r := toRustIdent n
    let c := toCIdent n
    let model := s!"rust={charsToHex r} c={charsToHex c} snake={charsToHex (Heck.snake n)} camel={charsToHex (upperCamel n)} pascal={charsToHex (upperCamel n)} shouty={charsToHex (shouty n)} valid={b01 (PkgSpec.validName n)} rcamel={charsToHex (toUpperCamelRust n)} rkw={b01 (RustKeywords.keywords2024.contains r)} ckw={b01 (CppKeywords.keywords23.contains c)} rtemp={b01 (clashesWithRustLocal r)} ctemp={b01 (clashesWithCppLocal c)} rckw={b01 (RustKeywords.keywords2024.contains (toUpperCamelRust n))} skw={b01 (RustKeywords.keywords2024.contains (toRustIdent (Heck.snake n)))} rpre={b01 (capturesPrelude n)} rfn={b01 (clashesWithGeneratedFn n)} rgp={b01 (capturedByGenericParam n)}"
    match parts with
    | [_, impl] =>
      let fs := impl.splitOn " "
      match (kv fs "rust").bind hexToChars, (kv fs "c").bind hexToChars with
      | some ir, some ic =>
        let bad := (if IdentSpec.notKeyword RustKeywords.keywords2024 ir then [] else ["rust-keyword"]) ++
                   (if IdentSpec.notKeyword CppKeywords.keywords23 ic then [] else ["c-keyword"])
        model ++ "\tspec=" ++ (if bad.isEmpty then "ok" else ",".intercalate bad)
      | _, _ => model ++ "\tspec=malformed"
    | _ => model

def main : IO Unit := lineLoop handle
