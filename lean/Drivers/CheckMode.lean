import Witverif.Text.CheckMode
import Drivers.Util
/-! Driver for the `CheckMode` model (C33).
Request line:  `<file> <file> …` in the CLI's iteration order, `<file>` = `<hex name>:<hex expected bytes>:<hex existing bytes | !>`
               (`!` = the path cannot be read: absent or a directory), optionally TAB `<outcome> <0|1 tree unchanged>`
Answer line:   `<outcome> reads=<n> writes=<n>`  with `<outcome>` = `ok` | `read:<hex name>` | `eol:<hex name>` | `stale:<hex name>`
               and, when the observed outcome was supplied, TAB `spec=<ok|fail>` (`CheckSpec.checkRunOk`). -/
open Witverif.Text Witverif.Text.CheckMode Drivers

def words (s : String) : List String := (s.splitOn " ").filter (· ≠ "")

def decodeBytes (h : String) : Option Bytes :=
  match hexToBytes h with
  | none => none
  | some b => match String.fromUTF8? b with
    | some s => some (.utf8 s.toList)
    | none => some (.binary (b.toList.map (·.toNat)))

def parseFile (t : String) : Option ((Name × Bytes) × Option Bytes) :=
  match t.splitOn ":" with
  | [n, e, x] =>
    match hexToChars n, decodeBytes e with
    | some n, some e =>
      if x == "!" then some ((n, e), none)
      else (decodeBytes x).map fun b => ((n, e), some b)
    | _, _ => none
  | _ => none

def showOutcome : Outcome → String
  | .ok => "ok"
  | .failedRead n => "read:" ++ charsToHex n
  | .lineEndings n => "eol:" ++ charsToHex n
  | .notUpToDate n => "stale:" ++ charsToHex n

def parseOutcome (t : String) : Option Outcome :=
  if t == "ok" then some .ok
  else match t.splitOn ":" with
    | ["read", n] => (hexToChars n).map .failedRead
    | ["eol", n] => (hexToChars n).map .lineEndings
    | ["stale", n] => (hexToChars n).map .notUpToDate
    | _ => none

def handle (line : String) : String :=
  let parts := line.splitOn "\t"
  match (words (parts.headD "")).mapM parseFile with
  | none => "bad-request"
  | some fs0 =>
    let files := fs0.map (·.1)
    let fs : FS := fs0.filterMap fun f => f.2.map fun b => (f.1.1, b)
    let r := runMain true fs files
    let reads := (r.2.1.filter fun e => match e with | .read _ => true | _ => false).length
    let model := showOutcome r.1 ++ " reads=" ++ toString reads ++ " writes=" ++ toString (r.2.1.length - reads)
    match parts with
    | [_, obs] =>
      match words obs with
      | [o, u] =>
        match parseOutcome o with
        | some o => model ++ "\tspec=" ++ (if CheckSpec.checkRunOk fs files o (u == "1") then "ok" else "fail")
        | none => model ++ "\tspec=malformed"
      | _ => model ++ "\tspec=malformed"
    | _ => model

def main : IO Unit := lineLoop handle
