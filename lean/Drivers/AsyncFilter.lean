import Witverif.Text.AsyncFilter
import Drivers.Util
/-! Driver for the `AsyncFilterSet` model (C17).

Request line:  `D <dir>* F <func>* Q <op>*`  optionally followed by a TAB and the implementation's
               outputs `<out> <out> …`
  <dir>   `s:<hex>`                       directive given as text (pushed through `parse`)
          `d:<+|->:<a|f|i|e>:<hex name>`  directive given structurally (pushed as its `display`)
          `A:<+|->`                       only first: start from `AsyncFilterSet::all(b)`
  <func>  `<i|e>:<hex iface | ~>:<hex name>:<kind 0-6>`   world item direction, name_world_key,
                                          func.name, FunctionKind (0 freestanding 1 method 2 static
                                          3 constructor 4 async-freestanding 5 async-method 6 async-static)
  <op>    `q<n>` is_async(func n, its own direction)   `x<n>` … with the direction flag flipped
          `e` ensure_all_used   `a` any_enabled   `d` debug_opts   `p:<dir>` push
Answer line:   `<out> <out> …`   `t`/`f` | `ok` | `err:<hex>` | `o:<hex>,<hex>…` | `u`
               and, when implementation outputs were supplied, `\tspec=<ok|fail|malformed>`:
               the C17 monitor `AsyncFilterSpec.check` evaluated on the implementation's outputs
               (structural directives as given; textual ones read through the unambiguous
               syntax, theorem `directive_syntax_unambiguous`). -/
open Witverif.Text Witverif.Text.AsyncFilter Drivers

def words (s : String) : List String := (s.splitOn " ").filter (· ≠ "")

def parseSign (t : String) : Option Bool :=
  if t == "+" then some true else if t == "-" then some false else none

/-- (text pushed to the model, structural reading for the spec) -/
def parseDir (t : String) : Option (List Char × Async) :=
  match t.splitOn ":" with
  | ["s", h] => (hexToChars h).map fun cs => (cs, parse cs)
  | ["d", sg, k, h] => do
    let en ← parseSign sg
    let n ← hexToChars h
    let fl ← (if k == "a" then some Filter.all else if k == "f" then some (Filter.function n)
              else if k == "i" then some (Filter.import n) else if k == "e" then some (Filter.export n)
              else none)
    let d : Async := ⟨en, fl⟩
    pure (d.display, d)
  | _ => none

def parseKind (t : String) : Option Kind :=
  match t with
  | "0" => some .freestanding | "1" => some .method | "2" => some .static | "3" => some .constructor
  | "4" => some .asyncFreestanding | "5" => some .asyncMethod | "6" => some .asyncStatic
  | _ => none

def parseFunc (t : String) : Option Func :=
  match t.splitOn ":" with
  | [dir, ih, nh, k] => do
    let imp ← (if dir == "i" then some true else if dir == "e" then some false else none)
    let iface ← (if ih == "~" then some none else (hexToChars ih).map some)
    let name ← hexToChars nh
    let kind ← parseKind k
    pure ⟨iface, name, kind, imp⟩
  | _ => none

/-- (model op, structural directive for the spec when the op is a push) -/
def parseOp (fs : Array Func) (t : String) : Option (Set.Op × Option Async) :=
  if t == "e" then some (.ensure, none)
  else if t == "a" then some (.anyEnabled, none)
  else if t == "d" then some (.debugOpts, none)
  else if t.startsWith "p:" then
    (parseDir (t.drop 2).toString).map fun (cs, d) => (.push cs, some d)
  else if t.startsWith "q" then do
    let n ← (t.drop 1).toString.toNat?
    let f ← fs[n]?
    pure (.query f, none)
  else if t.startsWith "x" then do
    let n ← (t.drop 1).toString.toNat?
    let f ← fs[n]?
    pure (.query { f with isImport := !f.isImport }, none)
  else none

def showOut : Set.Out → String
  | .bool true => "t" | .bool false => "f" | .ok => "ok" | .unit => "u"
  | .err m => "err:" ++ charsToHex m
  | .strs l => "o:" ++ ",".intercalate (l.map charsToHex)

def parseOut (t : String) : Option Set.Out :=
  if t == "t" then some (.bool true) else if t == "f" then some (.bool false)
  else if t == "ok" then some .ok else if t == "u" then some .unit
  else if t.startsWith "err:" then (hexToChars (t.drop 4).toString).map .err
  else if t == "o:" then some (.strs [])
  else if t.startsWith "o:" then (((t.drop 2).toString.splitOn ",").mapM hexToChars).map .strs
  else none

/-- split `D … F … Q …` -/
def sections (ws : List String) : Option (List String × List String × List String) :=
  match ws with
  | "D" :: rest =>
    let ds := rest.takeWhile (· ≠ "F")
    match rest.dropWhile (· ≠ "F") with
    | "F" :: rest2 =>
      let fs := rest2.takeWhile (· ≠ "Q")
      match rest2.dropWhile (· ≠ "Q") with
      | "Q" :: ops => some (ds, fs, ops)
      | _ => none
    | _ => none
  | _ => none

def handle (line : String) : String :=
  let parts := line.splitOn "\t"
  match sections (words (parts.headD "")) with
  | none => "bad-request"
  | some (dsS, fsS, opsS) =>
    -- initial set
    let (init, initSpec, dsS) : Set × List Async × List String :=
      match dsS with
      | "A:+" :: r => (Set.all true, [⟨true, .all⟩], r)
      | "A:-" :: r => (Set.all false, [⟨false, .all⟩], r)
      | r => (Set.empty, [], r)
    match dsS.mapM parseDir, fsS.mapM parseFunc with
    | some dirs, some fs =>
      match opsS.mapM (parseOp fs.toArray) with
      | none => "bad-op"
      | some ops =>
        let s0 := dirs.foldl (fun s d => s.push d.1) init
        let specDs := initSpec ++ dirs.map (·.2)
        let outs := (s0.run (ops.map (·.1))).2
        let model := " ".intercalate (outs.map showOut)
        match parts with
        | [_, implS] =>
          match (words implS).mapM parseOut with
          | none => model ++ "\tspec=malformed"
          | some iouts =>
            let ok := AsyncFilterSpec.check specDs [] (ops.filterMap (·.2)) (ops.map (·.1)) iouts
            model ++ "\tspec=" ++ (if ok then "ok" else "fail")
        | _ => model
    | _, _ => "bad-request"

def main : IO Unit := lineLoop handle
