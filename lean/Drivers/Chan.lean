import Witverif.Async.ChanScript
import Witverif.Async.ChanSpec
import Witverif.Async.WaitableSpec
import Drivers.Util
/-! Driver for the stream/future models (C19/C20), executable `m_chan`.
Request line:  a script line of harness/rt-native engine `chan`
                 `<mode> | <channel decls> | <body> | <host directives>`
               optionally followed by a TAB and the implementation's trace line.
Answer line:   the model's predicted trace (`-` for the export mode), and — when an implementation
               trace was supplied — `\tspec=ok` or `\tspec=fail:<class>@<where>[,…]`: the spec side
               (`ChanSpec` monitors per channel, `Host` legality of every recorded answer,
               `WaitableSpec` per end, anomalies, leak / allocator errors) evaluated on the
               IMPLEMENTATION's trace. -/
open Witverif.Async Drivers

def cwords (s : String) : List String := (s.splitOn " ").filter (· ≠ "")

def parseDecl (t : String) : Option ChanDecl :=
  match t.toList with
  | f :: d :: k :: x :: rest =>
    let fut? := if f == 'S' then some false else if f == 'F' then some true else none
    let gw? := if d == 'W' then some true else if d == 'R' then some false else none
    let kind? : Option (PKind × Nat) :=
      if k == 'b' then some (.canon, 1) else if k == 'h' then some (.canon, 2) else if k == 'w' then some (.canon, 4)
      else if k == 'd' then some (.canon, 8) else if k == 't' then some (.canon, 8)
      else if k == 'r' then some (.lifted, 8) else if k == 's' then some (.lists, 16) else none
    let cx? := if '0' ≤ x ∧ x ≤ '4' then some (x.toNat - 48) else none
    match fut?, gw?, kind?, cx?, rest with
    | some fut, some gw, some (kind, esize), some cx, [] => if fut && !kind.lowers then none else some ⟨fut, gw, kind, cx, false, esize⟩
    | some fut, some gw, some (kind, esize), some cx, ['A'] => if fut || gw then none else some ⟨fut, gw, kind, cx, true, esize⟩
    | _, _, _, _, _ => none
  | _ => none

def two (arg : String) : Option (Nat × Nat) :=
  match arg.splitOn ":" with
  | [a, b] => do some (← a.toNat?, ← b.toNat?)
  | _ => none

def parseCInstr (t : String) : Option CInstr :=
  let arg := (t.drop 1).toString
  if t == "z" then some .suspend else if t == "y" then some .yield else
  match t.toList.head? with
  | some 'o' => arg.toNat?.map .opn
  | some 'w' => (two arg).map fun (c, n) => .write c n
  | some 'b' => arg.toNat?.map .resume
  | some 'v' => arg.toNat?.map .intoVec
  | some 'W' => (two arg).map fun (c, n) => .writeAll c n
  | some 'O' => arg.toNat?.map .writeOne
  | some 'r' => (two arg).map fun (c, n) => .read c n
  | some 'n' => arg.toNat?.map .next
  | some 'C' => arg.toNat?.map .collect
  | some 'f' => arg.toNat?.map .fut
  | some 'p' => arg.toNat?.map .poll
  | some 'a' => arg.toNat?.map .await
  | some 'x' => arg.toNat?.map .cancel
  | some 'd' => arg.toNat?.map .dropOp
  | some 'e' => arg.toNat?.map .dropEnd
  | some 't' => arg.toNat?.map .task
  | _ => none

def parseCDir (t : String) : Option CDir :=
  let arg := (t.drop 1).toString
  match t.toList.head? with
  | some 'T' => (two arg).map fun (c, m) => .xfer c m
  | some 'P' => arg.toNat?.map .pdrop
  | some 'D' => arg.toNat?.map .dlv
  | _ => none

def parseCScript (line : String) : Option CScript :=
  match (line.splitOn "|").map (·.trim) with
  | [m, ds, b, d] => do
    let mode ← (if m == "cabi1" then some (CMode.cabi 1) else if m == "cabi2" then some (.cabi 2)
                else if m == "export" then some .export else none)
    let decls ← (cwords ds).mapM parseDecl
    let body ← (cwords b).mapM parseCInstr
    let dirs ← (cwords d).mapM parseCDir
    some ⟨mode, decls, body, dirs⟩
  | _ => none

def chanVerdict (sc : CScript) (impl : List Ev) : List String :=
  let ended := !(impl.any fun e => e == .panic || e == .abort)
  let perChan := (sc.decls.mapIdx fun c d => (c, d)).flatMap fun (c, d) =>
    let k : ChanSpec.CSpec := ⟨c, d.fut, d.gw, d.kind.lowers, d.kind == .lists⟩
    (match ChanSpec.ptrRun k d.esize {} impl with
     | .error cls => [s!"{cls}@c{c}"]
     | .ok _ => []) ++
    match ChanSpec.run k {} impl with
    | .error cls => [s!"{cls}@c{c}"]
    | .ok m =>
      if !ended then [] else
      match ChanSpec.complete k m with
      | .error cls => [s!"{cls}@c{c}"]
      | .ok () => []
  let handles := ChanSpec.handles impl
  let perHandle := handles.flatMap fun w =>
    match WaitableSpec.run w {} impl with
    | .error cls => [s!"waitable:{cls}@h{w}"]
    | .ok m =>
      if !ended then [] else
      match WaitableSpec.complete m with
      | .error cls => [s!"waitable:{cls}@h{w}"]
      | .ok () => []
  let declOf : Nat → Bool × Bool := fun c => match sc.decls[c]? with
    | some d => (d.fut, d.gw)
    | none => (false, false)
  let host := (ChanSpec.followWith declOf impl).map fun r => s!"host:{r}@-"
  let anomalies := impl.filterMap fun e => match e with
    | .other s => some s!"anomaly:{s}@-"
    | .panic => some "panic@-"
    | _ => none
  let endTok := match impl.getLast? with
    | some (.endTok (some l) errs) => (if l != 0 then [s!"leak:{l}@-"] else []) ++ (if errs != 0 then [s!"alloc-errors:{errs}@-"] else [])
    | some (.endTok none errs) => if errs != 0 then [s!"alloc-errors:{errs}@-"] else []
    | _ => ["malformed-end@-"]
  perChan ++ perHandle ++ host ++ anomalies ++ endTok

def handle (line : String) : String :=
  let parts := line.splitOn "\t"
  match parseCScript (parts.headD "") with
  | none => "bad-script"
  | some sc =>
    let model := match sc.predict with
      | some evs => showTrace evs
      | none => "-"
    match parts with
    | _ :: impl :: _ =>
      let v := chanVerdict sc (parseTrace impl)
      model ++ "\t" ++ (if v.isEmpty then "spec=ok" else "spec=fail:" ++ ",".intercalate v)
    | _ => model

def main : IO Unit := lineLoop handle
