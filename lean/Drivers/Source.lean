import Witverif.Text.Source
import Drivers.Util
/-! Driver for the `Source` model (C25) and the `RustStr` primitives.

Request line (history):  `<tok> <tok> …` optionally followed by TAB and the implementation's answer
  tok = `p:<hex>` push_str | `l:<hex>` push_str_literal | `i:<n>` | `d:<n>` | `s:<n>` set_indent
        | `[` … `]`  build a sub-buffer from the enclosed tokens and `append_src` it
Answer: one token per top-level op: `<indent>:<hex s>` (`:<old>` for `s`, `:<hex sub.s>:<sub indent>` for `]`),
  `P` (and stop) at a panic.  With an implementation answer supplied, TAB `spec=` and one verdict per
  observed token: the C25 monitors (`SourceSpec.monitorAll`) evaluated on the implementation's outputs.
Request line (literal, metamorphic):  `lit` TAB `<indent>:<hex s>` TAB `<indent>:<hex s>`  →  `ok`/`fail`
  (`SourceSpec.literalPairOk` on the observations of the original and the neutralised run)
Request line (str glue):  `str` TAB `<fn> <hex> [<hex>]`  →  as `text-run ruststr`. -/
open Witverif.Text Drivers

def words (s : String) : List String := (s.splitOn " ").filter (· ≠ "")

def showState (st : Source) : String := toString st.indent ++ ":" ++ charsToHex st.s

/-- Run the model over the token list with a stack of buffers (as the harness does). -/
def runModel : List String → List Source → List String → Option (List String)
  | [], [_], acc => some acc.reverse
  | [], _, _ => none
  | tok :: rest, stack, acc =>
    match stack with
    | [] => none
    | cur :: below =>
      if tok == "[" then runModel rest (Source.empty :: stack) acc
      else if tok == "]" then
        match below with
        | [] => none
        | parent :: below' =>
          let p' := parent.appendSrc cur
          let acc' := if below'.isEmpty
            then (showState p' ++ ":" ++ charsToHex cur.s ++ ":" ++ toString cur.indent) :: acc else acc
          runModel rest (p' :: below') acc'
      else
        let arg := (tok.drop 2).toString
        let top := below.isEmpty
        let fin (st : Source) (extra : String) :=
          runModel rest (st :: below) (if top then (showState st ++ extra) :: acc else acc)
        if tok.startsWith "p:" then
          match hexToChars arg with | some t => fin (cur.pushStr t) "" | none => none
        else if tok.startsWith "l:" then
          match hexToChars arg with | some t => fin (cur.pushStrLiteral t) "" | none => none
        else if tok.startsWith "i:" then
          match arg.toNat? with | some n => fin (cur.addIndent n) "" | none => none
        else if tok.startsWith "d:" then
          match arg.toNat? with
          | some n => match cur.deindent n with
            | some st => fin st ""
            | none => some ("P" :: acc).reverse
          | none => none
        else if tok.startsWith "s:" then
          match arg.toNat? with
          | some n => let (st, old) := cur.setIndent n; fin st (":" ++ toString old)
          | none => none
        else none

/-- top-level requests of a token list: (token, is it the `]` closing a depth-1 sub-buffer) -/
def topLevel : List String → Nat → List String → List String
  | [], _, acc => acc.reverse
  | tok :: rest, depth, acc =>
    if tok == "[" then topLevel rest (depth + 1) acc
    else if tok == "]" then topLevel rest (depth - 1) (if depth == 1 then tok :: acc else acc)
    else topLevel rest depth (if depth == 0 then tok :: acc else acc)

def parseObs (t : String) : Option (Option SourceSpec.Obs × List String) :=
  if t == "P" then some (none, []) else
  match t.splitOn ":" with
  | ind :: h :: extra =>
    match ind.toNat?, hexToChars h with
    | some n, some s =>
      let old := match extra with | [o] => o.toNat? | _ => none
      some (some { indent := n, s := s, old := old }, extra)
    | _, _ => none
  | _ => none

def mkReq (tok : String) (extra : List String) : Option SourceSpec.Req :=
  let arg := (tok.drop 2).toString
  if tok == "]" then
    match extra with
    | [h, n] => match hexToChars h, n.toNat? with
      | some s, some k => some (.append s k)
      | _, _ => none
    | _ => none
  else if tok.startsWith "p:" then (hexToChars arg).map (.text true)
  else if tok.startsWith "l:" then (hexToChars arg).map (.text false)
  else if tok.startsWith "i:" then arg.toNat?.map .indent
  else if tok.startsWith "d:" then arg.toNat?.map .deindent
  else if tok.startsWith "s:" then arg.toNat?.map .setIndent
  else none

def pairUp : List String → List String → Option (List (SourceSpec.Req × Option SourceSpec.Obs))
  | _, [] => some []
  | [], _ :: _ => none
  | tok :: toks, o :: os =>
    match parseObs o with
    | none => none
    | some (obs, extra) =>
      -- a panicking request reports no extras; an append request needs them
      match (if obs.isNone && tok == "]" then some (SourceSpec.Req.append [] 0) else mkReq tok extra) with
      | none => none
      | some r => (pairUp toks os).map ((r, obs) :: ·)

def showLoss (l : SourceSpec.Loss) : String :=
  "+".intercalate ((if l.cr then ["cr"] else []) ++ (if l.trim then ["trim"] else []) ++ (if l.pop then ["pop"] else []))

def showVerdict (v : SourceSpec.Verdict) : String :=
  let fails :=
    (match v.content with
      | .ok => [] | .known l => ["content:" ++ showLoss l] | .other => ["content:other"]
      | .stale l => ["content:stale" ++ (if l == SourceSpec.Loss.none then "" else "+" ++ showLoss l)]) ++
    (if v.level then [] else ["level"]) ++ (if v.lineIndent then [] else ["lineindent"]) ++
    (if v.literal then [] else ["literal"]) ++ (if v.balanced then [] else ["balanced"]) ++
    (if v.api then [] else ["api"])
  (if fails.isEmpty then "ok" else ",".intercalate fails) ++
    "/" ++ (if v.checkedLevel then "L" else "") ++ (if v.checkedBalanced then "B" else "")

def showVerdictAll (v : SourceSpec.VerdictAll) : String :=
  let b := showVerdict v.base
  match v.bufferLine with
  | .na => b
  | .ok => b ++ "W"                       -- whole-buffer-line reading checked and agreed
  | .knownSplit => (if b.startsWith "ok/" then "bufline:split" ++ (b.drop 2).toString else "bufline:split," ++ b) ++ "W"
  | .other => (if b.startsWith "ok/" then "bufline:other" ++ (b.drop 2).toString else "bufline:other," ++ b) ++ "W"

def handleHistory (line : String) : String :=
  let parts := line.splitOn "\t"
  let toks := words (parts.headD "")
  match runModel toks [Source.empty] [] with
  | none => "bad-op"
  | some outs =>
    let model := " ".intercalate outs
    match parts with
    | [_, implS] =>
      let iouts := words implS
      match pairUp (topLevel toks 0 []) iouts with
      | none => model ++ "\tspec=malformed"
      | some pairs =>
        let vs := SourceSpec.monitorAll SourceSpec.Track.init {} { indent := 0, s := [] } pairs
        -- the implementation must answer every request unless it panicked
        let complete := iouts.length == (topLevel toks 0 []).length || iouts.getLast? == some "P"
        model ++ "\tspec=" ++ (if complete then "" else "short ") ++ " ".intercalate (vs.map showVerdictAll)
    | _ => model

def bit (b : Bool) : String := if b then "1" else "0"
def showList (l : List String) : String := if l.isEmpty then "[]" else ",".intercalate l

def handleStr (req : String) : String :=
  match words req with
  | fn :: h :: rest =>
    match hexToChars h with
    | none => "bad-op"
    | some s =>
      let p := rest.head?.bind hexToChars
      if fn == "lines" then showList ((RustStr.lines s).map charsToHex)
      else if fn == "splitnl" then
        showList ((RustStr.splitNl s).map fun x => charsToHex x.1 ++ (if x.2 then "+" else ""))
      else if fn == "trim" then charsToHex (RustStr.trim s)
      else if fn == "trim_start" then charsToHex (RustStr.trimStart s)
      else if fn == "trim_end" then charsToHex (RustStr.trimEnd s)
      else if fn == "starts_with" || fn == "starts_with_char" then
        match p with | some p => bit (RustStr.startsWith s p) | none => "bad-op"
      else if fn == "ends_with" || fn == "ends_with_char" then
        match p with | some p => bit (RustStr.endsWith s p) | none => "bad-op"
      else if fn == "white" then String.ofList (s.map fun c => if RustStr.isWhite c then '1' else '0')
      else if fn == "control" then String.ofList (s.map fun c => if RustStr.isControl c then '1' else '0')
      else if fn == "pop2" then charsToHex (Source.pop2 s)
      else "bad-op"
  | _ => "bad-op"

def handle (line : String) : String :=
  match line.splitOn "\t" with
  | ["lit", a, b] =>
    match parseObs a, parseObs b with
    | some (some a, _), some (some b, _) => if SourceSpec.literalPairOk a b then "ok" else "fail"
    | some (none, _), some (none, _) => "ok"
    | _, _ => "fail"
  | ["str", req] => handleStr req
  | _ => handleHistory line

def main : IO Unit := lineLoop handle
