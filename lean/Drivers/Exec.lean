import Witverif.Async.ExecScript
import Witverif.Async.TaskSpec
import Drivers.Util
/-! Driver for the executor / wakeup models (C22, C23), executable `m_exec`.
Request line:  `<build>` TAB `<script line of harness/rt-native engine exec>` [TAB `<implementation trace>`]
               build ∈ {default, async-spawn, inter-task-wakeup}
Answer line:   the model's predicted trace, and — when an implementation trace was supplied —
               TAB `spec=ok` | `spec=fail:<class>@<where>[,…]`: the specification side
               (`TaskSpec.lean`: C22 executor monitor per task, C23 wakeup monitor per task, legality of
               the recorded host answers, anomalies, leaks) evaluated on the IMPLEMENTATION's trace. -/
open Witverif.Async Witverif.Async.Exec Drivers

def words (s : String) : List String := (s.splitOn " ").filter (· ≠ "")

def parseCallDecl (k : Nat) (t : String) : Option CallDecl :=
  if !t.startsWith "C" then none else
  match ((t.drop 1).toString.splitOn ":").mapM (·.toNat?) with
  | some [size, _alog, _roff, _nl, _no, _rl, st, cx] => some ⟨⟨k, size != 0⟩, st, cx⟩
  | _ => none

def parseCalls (ts : List String) : Option (List CallDecl) :=
  let rec go (k : Nat) : List String → Option (List CallDecl)
    | [] => some []
    | t :: ts => do
      let c ← parseCallDecl k t
      let rest ← go (k + 1) ts
      some (c :: rest)
  go 0 ts

def parseInstr (t : String) : Option Exec.Instr :=
  let arg := (t.drop 1).toString
  if t == "w" then some .wait else if t == "y" then some .yield else if t == "r" then some .ret else
  match arg.toNat? with
  | none => none
  | some k =>
    if t.startsWith "c" then some (.new k) else if t.startsWith "p" then some (.poll k)
    else if t.startsWith "a" then some (.await k) else if t.startsWith "d" then some (.drop k)
    else if t.startsWith "s" then some (.spawn k) else if t.startsWith "k" then some (.capture k)
    else if t.startsWith "W" then some (.wake k) else if t.startsWith "x" then some (.wdrop k)
    else if t.startsWith "g" then some (.guard k) else if t.startsWith "m" then some (.detach k) else none

def parseDir (t : String) : Option Exec.Dir :=
  let arg := (t.drop 1).toString
  if t == "U" then some .dlvEnd else if t == "P" then some .hold else
  if t.startsWith "A" then
    match arg.splitOn ":" with
    | [k, s] => do some (.adv (← k.toNat?) (← s.toNat?))
    | _ => none
  else match arg.toNat? with
    | none => none
    | some n =>
      if t.startsWith "D" then some (.dlv n) else if t.startsWith "K" then some (.wake n)
      else if t.startsWith "Z" then some (.wdrop n) else if t.startsWith "S" then some (.start n)
      else if t.startsWith "X" then some (.cancel n) else none

def parseScript (line : String) : Option Exec.Script :=
  match (line.splitOn "|").map (·.trim) with
  | [m, cs, b, d] => do
    let driver ← (if m == "start" then some Task.Driver.start else if m == "block" then some Task.Driver.block else none)
    let calls ← parseCalls (words cs)
    let bodies ← (b.splitOn ";").mapM fun x => (words x).mapM parseInstr
    let dirs ← (words d).mapM parseDir
    some ⟨driver, calls, bodies, dirs⟩
  | _ => none

def parseBuild (s : String) : Option Build :=
  if s == "default" then some ⟨false, false⟩ else if s == "async-spawn" then some ⟨true, false⟩
  else if s == "inter-task-wakeup" then some ⟨false, true⟩ else none

def handle (line : String) : String :=
  match line.splitOn "\t" with
  | b :: scl :: rest =>
    match parseBuild b, parseScript scl with
    | some build, some sc =>
      let model := showTrace (sc.predict build)
      match rest with
      | impl :: _ =>
        let v := TaskSpec.verdict build.itw build.spawn (sc.driver == Task.Driver.block) (parseTrace impl)
        model ++ "\t" ++ (if v.isEmpty then "spec=ok" else "spec=fail:" ++ ",".intercalate v)
      | [] => model
    | _, _ => "bad-script"
  | _ => "bad-request"

def main : IO Unit := lineLoop handle
