import Witverif.Abi.Gen
import Drivers.Util
/-! Driver for the ABI generator model (C01–C04, C16).  One request per line, fields separated by `|`
(the KEY printed by the Rust harness `abi-trace`); answer = the model's result in the same text form. -/
open Witverif.Abi Drivers

inductive Sexp where
  | atom (s : String)
  | list (xs : List Sexp)
deriving Repr, Inhabited

/-- tokenise: parentheses and whitespace-separated atoms -/
def tokenize (s : String) : List String :=
  let rec go (cs : List Char) (cur : List Char) (acc : List String) : List String :=
    match cs with
    | [] => (if cur.isEmpty then acc else String.ofList cur.reverse :: acc).reverse
    | c :: rest =>
      let flush := if cur.isEmpty then acc else String.ofList cur.reverse :: acc
      if c == '(' then go rest [] ("(" :: flush)
      else if c == ')' then go rest [] (")" :: flush)
      else if c == ' ' then go rest [] flush
      else go rest (c :: cur) acc
  go s.toList [] []

partial def parseSexps (toks : List String) : List Sexp × List String :=
  match toks with
  | [] => ([], [])
  | ")" :: rest => ([], rest)
  | "(" :: rest =>
    let (inner, rest') := parseSexps rest
    let (more, rest'') := parseSexps rest'
    (Sexp.list inner :: more, rest'')
  | a :: rest =>
    let (more, rest') := parseSexps rest
    (Sexp.atom a :: more, rest')

def parseSexp (s : String) : Option Sexp :=
  match (parseSexps (tokenize s)).1 with
  | [x] => some x
  | _ => none

mutual
partial def toTy : Sexp → Option Ty
  | .atom "bool" => some .bool | .atom "s8" => some .s8 | .atom "u8" => some .u8
  | .atom "s16" => some .s16 | .atom "u16" => some .u16 | .atom "s32" => some .s32
  | .atom "u32" => some .u32 | .atom "s64" => some .s64 | .atom "u64" => some .u64
  | .atom "f32" => some .f32 | .atom "f64" => some .f64 | .atom "char" => some .char
  | .atom "string" => some .string | .atom "errctx" => some .errctx
  | .atom "own" => some .own | .atom "borrow" => some .borrow
  | .list [.atom "list", e] => (toTy e).map .list
  | .list [.atom "flist", e, .atom n] => do pure (.flist (← toTy e) (← n.toNat?))
  | .list [.atom "map", k, v] => do pure (.map (← toTy k) (← toTy v))
  | .list (.atom "record" :: fs) => (fs.mapM toTy).map .record
  | .list (.atom "tuple" :: fs) => (fs.mapM toTy).map .tuple
  | .list [.atom "flags", .atom n] => n.toNat?.map .flags
  | .list [.atom "enum", .atom n] => n.toNat?.map .enum
  | .list (.atom "variant" :: cs) => (cs.mapM toOptTy).map .variant
  | .list [.atom "option", t] => (toTy t).map .option
  | .list [.atom "result", a, b] => do pure (.result (← toOptTy a) (← toOptTy b))
  | .list [.atom "future", p] => (toOptTy p).map .future
  | .list [.atom "stream", p] => (toOptTy p).map .stream
  | _ => none
partial def toOptTy : Sexp → Option (Option Ty)
  | .atom "_" => some none
  | s => (toTy s).map some
end

def toFunc : Sexp → Option Func
  | .list [.atom "fn", .atom kind, .list ps, r] => do
      pure { isMethod := kind == "method", params := ← ps.mapM toTy, result := ← toOptTy r }
  | _ => none

def parseTy (s : String) : Option Ty := (parseSexp s).bind toTy
def parseFunc (s : String) : Option Func := (parseSexp s).bind toFunc
def parseTys (s : String) : Option (List Ty) := ((parseSexps (tokenize s)).1).mapM toTy

def parseCore : String → Option CoreTy
  | "i32" => some .i32 | "i64" => some .i64 | "f32" => some .f32 | "f64" => some .f64
  | "ptr" => some .ptr | "p64" => some .p64 | "len" => some .len | _ => none

def parseVariant : String → Option Variant
  | "GuestImport" => some .guestImport | "GuestExport" => some .guestExport
  | "GuestImportAsync" => some .guestImportAsync | "GuestExportAsync" => some .guestExportAsync
  | "GuestExportAsyncStackful" => some .guestExportAsyncStackful | _ => none

def canonOf : String → (Ty → Bool)
  | "bits" => allBitsValid
  | _ => fun _ => false

def showG (r : G String) : String :=
  match r with
  | .ok s => s
  | .error p => "panic:" ++ p.str

def b01 (b : Bool) : String := if b then "1" else "0"

def handle (line : String) : String :=
  match line.splitOn "|" with
  | ["flat", max, t] =>
      match parseTy t, max.toNat? with
      | some t, some m => match flatTypes t m with | some f => coreTysStr f | none => "none"
      | _, _ => "bad-request"
  | ["sizealign", t] =>
      match parseTy t with
      | some t => (sizeOff t).str ++ " " ++ (alignOff t).str
      | none => "bad-request"
  | ["lowerflat", cn, t] =>
      match parseTy t with
      | some t => showG do
          let (ss, rs) ← lower ⟨canonOf cn, true⟩ 0 t (.inp 0)
          pure (Block.str (ss, rs))
      | none => "bad-request"
  | ["lowermem", cn, t] =>
      match parseTy t with
      | some t => showG do
          let ss ← store ⟨canonOf cn, true⟩ 0 t (.inp 0) (.inp 1) Off.zero
          pure (Block.str (ss, []))
      | none => "bad-request"
  | ["liftmem", cn, t] =>
      match parseTy t with
      | some t => showG do
          let r ← load ⟨canonOf cn, true⟩ 0 t (.inp 0) Off.zero
          pure (Block.str ([], [r]))
      | none => "bad-request"
  | ["dealloc", what, mode, t] =>
      match parseTy t with
      | some t =>
          let indirect := mode == "indirect"
          if !indirect && (flatTypes t 16).isNone then "skip:flat>16" else
          showG do
            let n := if indirect then 1 else (flatten t).length
            let ss ← deallocInTypes (what == "own") indirect [t] ((List.range n).map .inp)
            pure (Block.str (ss, []))
      | none => "bad-request"
  | ["sig", v, f] =>
      match parseVariant v, parseFunc f with
      | some v, some f =>
          let s := wasmSignature v f
          coreTysStr s.params ++ " -> " ++ coreTysStr s.results ++ " indirect=" ++ b01 s.indirectParams
            ++ " retptr=" ++ b01 s.retptr
      | _, _ => "bad-request"
  | ["call", v, ll, as, cn, f] =>
      match parseVariant v, parseFunc f with
      | some v, some f => showG do
          let ss ← call (canonOf cn) v (ll == "lower") (as == "async") f
          pure (Block.str (ss, []))
      | _, _ => "bad-request"
  | ["needs", f] =>
      match parseFunc f with
      | some f => "postreturn=" ++ b01 (needsPostReturn f) ++ " paramallocs=" ++ b01 (paramsHaveAllocations f)
      | none => "bad-request"
  | ["postret", f] =>
      match parseFunc f with
      | some f => showG do
          let ss ← postReturn f
          pure (Block.str (ss, []))
      | none => "bad-request"
  | ["cast", a, b] =>
      match parseCore a, parseCore b with
      | some a, some b => match cast a b with | some c => c.str | none => "panic:unreachable"
      | _, _ => "bad-request"
  | _ => "bad-request"

def main : IO Unit := lineLoop handle
