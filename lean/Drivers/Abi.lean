import Witverif.Abi.Gen
import Witverif.Abi.Validate
import Drivers.Util
import Drivers.AbiParse
/-! Driver for the ABI generator model (C01–C04, C16).  One request per line, fields separated by `|`
(the KEY printed by the Rust harness `abi-trace`); answer = the model's result in the same text form. -/
open Witverif.Abi Drivers

open Drivers.AbiParse

def parseVariant : String → Option Variant
  | "GuestImport" => some .guestImport | "GuestExport" => some .guestExport
  | "GuestImportAsync" => some .guestImportAsync | "GuestExportAsync" => some .guestExportAsync
  | "GuestExportAsyncStackful" => some .guestExportAsyncStackful | _ => none

def canonOf : String → (Ty → Bool)
  | "bits" => allBitsValid
  | _ => fun _ => false

def showG (r : G String) : String :=
  match r with
  | .ok s => s
  | .error p => "panic:" ++ p.str

def b01 (b : Bool) : String := if b then "1" else "0"

def handle (line : String) : String :=
  match line.splitOn "|" with
  | ["flat", max, t] =>
      match parseTy t, max.toNat? with
      | some t, some m => match flatTypes t m with | some f => coreTysStr f | none => "none"
      | _, _ => "bad-request"
  | ["sizealign", t] =>
      match parseTy t with
      | some t => (sizeOff t).str ++ " " ++ (alignOff t).str
      | none => "bad-request"
  | ["lowerflat", cn, t] =>
      match parseTy t with
      | some t => showG do
          let (ss, rs) ← lower ⟨canonOf cn, true⟩ 0 t (.inp 0)
          pure (Block.str (ss, rs))
      | none => "bad-request"
  | ["lowermem", cn, t] =>
      match parseTy t with
      | some t => showG do
          let ss ← store ⟨canonOf cn, true⟩ 0 t (.inp 0) (.inp 1) Off.zero
          pure (Block.str (ss, []))
      | none => "bad-request"
  | ["liftmem", cn, t] =>
      match parseTy t with
      | some t => showG do
          let r ← load ⟨canonOf cn, true⟩ 0 t (.inp 0) Off.zero
          pure (Block.str ([], [r]))
      | none => "bad-request"
  | ["dealloc", what, mode, t] =>
      match parseTy t with
      | some t =>
          let indirect := mode == "indirect"
          if !indirect && (flatTypes t 16).isNone then "skip:flat>16" else
          showG do
            let n := if indirect then 1 else (flatten t).length
            let ss ← deallocInTypes (what == "own") indirect [t] ((List.range n).map .inp)
            pure (Block.str (ss, []))
      | none => "bad-request"
  | ["sig", v, f] =>
      match parseVariant v, parseFunc f with
      | some v, some f =>
          let s := wasmSignature v f
          coreTysStr s.params ++ " -> " ++ coreTysStr s.results ++ " indirect=" ++ b01 s.indirectParams
            ++ " retptr=" ++ b01 s.retptr
      | _, _ => "bad-request"
  | ["call", v, ll, as, cn, f] =>
      match parseVariant v, parseFunc f with
      | some v, some f => showG do
          let ss ← call (canonOf cn) v (ll == "lower") (as == "async") f
          pure (Block.str (ss, []))
      | _, _ => "bad-request"
  | ["needs", f] =>
      match parseFunc f with
      | some f => "postreturn=" ++ b01 (needsPostReturn f) ++ " paramallocs=" ++ b01 (paramsHaveAllocations f)
      | none => "bad-request"
  | ["postret", f] =>
      match parseFunc f with
      | some f => showG do
          let ss ← postReturn f
          pure (Block.str (ss, []))
      | none => "bad-request"
  | ["cast", a, b] =>
      match parseCore a, parseCore b with
      | some a, some b => match cast a b with | some c => c.str | none => "panic:unreachable"
      | _, _ => "bad-request"
  | ["eval", kind, p, t, v, tree] =>
      match p.toNat?, parseTy t, parseVal v, parseBlock tree with
      | some p, some t, some v, some b =>
          if !Spec.hasTy t v then "bad-value" else
          match kind with
          | "lowerflat" => checkLowerFlat p t v b
          | "lowermem" => checkLowerMem p t v b
          | "liftmem" => checkLiftMem p t v b
          | "dealloc-lists-direct" => checkDealloc p false false t v b
          | "dealloc-lists-indirect" => checkDealloc p false true t v b
          | "dealloc-own-direct" => checkDealloc p true false t v b
          | "dealloc-own-indirect" => checkDealloc p true true t v b
          | _ => "bad-request"
      | _, _, _, none => "unparsable-tree"
      | _, _, _, _ => "bad-request"
  | ["evalcall", v, ll, as, p, f, vals, res, tree] =>
      match parseVariant v, p.toNat?, parseFunc f, parseVal vals, parseBlock tree with
      | some v, some p, some f, some (.record vs), some b =>
          let r : Option (Option Val) := if res == "_" then some none else (parseVal res).map some
          match r with
          | none => "bad-request"
          | some r =>
            if !Spec.hasTys f.params vs || !Spec.hasTyOpt f.result r then "bad-value"
            else checkCall p v (ll == "lower") (as == "async") f vs r b
      | _, _, _, _, none => "unparsable-tree"
      | _, _, _, _, _ => "bad-request"
  | ["evalneeds", f, impl] =>
      match parseFunc f with
      | some f => checkNeeds f (impl.startsWith "postreturn=1")
      | none => "bad-request"
  | ["reprint", tree] =>
      match parseBlock tree with
      | some b => Block.str b
      | none => "unparsable-tree"
  | _ => "bad-request"

def main : IO Unit := lineLoop handle
