import Witverif.Text.Realloc
import Drivers.Util
/-! Driver for the allocation entry-point model (C24), executable `m_realloc`.
Request line:  `<op> <op> …` with `<op>` = `r:<slot>:<alog>:<new>` | `d:<slot>` | `n:<size>:<alog>` | `x:<i>` | `f:<i>`
               (the request format of harness/rt-native engine `realloc`), optionally followed by a TAB
               and the implementation's answer line.
Answer line:   the model's observations in the harness's answer format (model run against the lawful
               bump allocator), then — when the implementation's answer was supplied —
               `\tspec=ok` or `\tspec=fail:<class>@<op index>[,…]`: the C24 monitor `ReallocSpec.stepOk`
               evaluated on the IMPLEMENTATION's observations (classes: `shrink-to-zero` = the REQUEST is
               outside the precondition `cabi_realloc` documents — an input error of the caller, not judged; `monitor` = anything else;
               `end` = end-of-history clause; `malformed`). -/
open Witverif.Text.Realloc Witverif.Text.ReallocSpec Drivers

def words (s : String) : List String := (s.splitOn " ").filter (· ≠ "")

def parseOp (t : String) : Option Op :=
  match t.splitOn ":" with
  | ["r", a, b, c] => do some (.r (← a.toNat?) (← b.toNat?) (← c.toNat?))
  | ["d", a] => do some (.d (← a.toNat?))
  | ["n", a, b] => do some (.n (← a.toNat?) (← b.toNat?))
  | ["x", a] => do some (.x (← a.toNat?))
  | ["f", a] => do some (.f (← a.toNat?))
  | _ => none

def opLetter : Op → String
  | .r .. => "r" | .d .. => "d" | .n .. => "n" | .x .. => "x" | .f .. => "f"

def showCall : CallObs → String
  | .A s a => s!"A({s},{a})"
  | .R ok s a n => s!"R({if ok then "ok" else "bad"},{s},{a},{n})"
  | .D ok s a => s!"D({if ok then "ok" else "bad"},{s},{a})"

def showCalls (cs : List CallObs) : String := if cs.isEmpty then "-" else "+".intercalate (cs.map showCall)

def b01 (b : Bool) : String := if b then "1" else "0"

def showObs (op : Op) : Obs → String
  | .r rel al pfx calls live err =>
    let r := match rel with | .align => "align" | .null => "null" | .blk => "blk" | .wild => "wild"
    let p := match pfx with | none => "-" | some b => b01 b
    s!"r={r}:{b01 al}:{p}:{showCalls calls}:{if live then "live" else "notlive"}:{err}"
  | .d calls err => s!"d={showCalls calls}:{err}"
  | .n null hasObj al calls err => s!"n={if null then "null" else "blk"}:{if hasObj then "some" else "none"}:{b01 al}:{showCalls calls}:{err}"
  | .x calls err => s!"x={showCalls calls}:{err}"
  | .f calls err => s!"f={showCalls calls}:{err}"
  | .panic => opLetter op ++ "=panic"

def parseCall (t : String) : Option CallObs :=
  -- A(16,8) | R(ok,16,8,64) | D(ok,8,8)
  if t.length < 3 then none else
  let kind := (t.take 1).toString
  let inner := ((t.drop 2).dropEnd 1).toString
  let parts := inner.splitOn ","
  let okb (s : String) : Option Bool := if s == "ok" then some true else if s == "bad" then some false else none
  match kind, parts with
  | "A", [s, a] => do some (.A (← s.toNat?) (← a.toNat?))
  | "R", [o, s, a, n] => do some (.R (← okb o) (← s.toNat?) (← a.toNat?) (← n.toNat?))
  | "D", [o, s, a] => do some (.D (← okb o) (← s.toNat?) (← a.toNat?))
  | _, _ => none

def parseCalls (t : String) : Option (List CallObs) :=
  if t == "-" then some [] else (t.splitOn "+").mapM parseCall

def parseB (t : String) : Option Bool := if t == "1" then some true else if t == "0" then some false else none

def parseObs (t : String) : Option Obs :=
  match t.splitOn "=" with
  | [_, "panic"] => some .panic
  | ["r", v] =>
    match v.splitOn ":" with
    | [rel, al, pfx, calls, live, err] => do
      let rel ← (match rel with | "align" => some Rel.align | "null" => some .null | "blk" => some .blk | "wild" => some .wild | _ => none)
      let pfx ← (if pfx == "-" then some none else (parseB pfx).map some)
      some (.r rel (← parseB al) pfx (← parseCalls calls) (live == "live") (← err.toNat?))
    | _ => none
  | ["d", v] =>
    match v.splitOn ":" with
    | [calls, err] => do some (.d (← parseCalls calls) (← err.toNat?))
    | _ => none
  | ["n", v] =>
    match v.splitOn ":" with
    | [null, obj, al, calls, err] => do
      let null ← (if null == "null" then some true else if null == "blk" then some false else none)
      let obj ← (if obj == "some" then some true else if obj == "none" then some false else none)
      some (.n null obj (← parseB al) (← parseCalls calls) (← err.toNat?))
    | _ => none
  | ["x", v] =>
    match v.splitOn ":" with
    | [calls, err] => do some (.x (← parseCalls calls) (← err.toNat?))
    | _ => none
  | ["f", v] =>
    match v.splitOn ":" with
    | [calls, err] => do some (.f (← parseCalls calls) (← err.toNat?))
    | _ => none
  | _ => none

/-- model run: observations + end token -/
def modelLine (ops : List Op) : String :=
  let obs := runObs bump (St.init Heap.empty) ops
  let toks := (ops.zip obs).map fun (op, o) => showObs op o
  -- end-of-history: every forgotten non-empty cleanup is still live, no contract errors
  let rec flags (m : Mon) : List Op → List Obs → List Bool
    | op :: ops, o :: os =>
      let here := match op, o with
        | .f i, .f _ _ => if decide (i < m.ncls) && (m.cls i).2.2 && (m.cls i).1 != 0 then [(i, true)] else []
        | _, _ => []
      (here.map (·.2)) ++ flags (stepMon m op o) ops os
    | _, _ => []
  let fl := flags Mon.init ops obs
  let fls := if fl.isEmpty then "-" else String.ofList (fl.map fun b => if b then '1' else '0')
  " ".intercalate (toks ++ [s!"end:{fls}:0"])

def classify (m : Mon) (op : Op) (o : Obs) : String :=
  match op, o with
  | .r slot _ new, .panic => if (m.slots slot).1 != 0 && new == 0 then "shrink-to-zero" else "monitor"
  | _, _ => "monitor"

def specLine (ops : List Op) (impl : String) : String :=
  let toks := words impl
  match toks.reverse with
  | [] => "spec=fail:malformed@0"
  | endTok :: revObs =>
    match (revObs.reverse).mapM parseObs with
    | none => "spec=fail:malformed@0"
    | some obs =>
      if obs.length != ops.length then "spec=fail:malformed@0" else
      let rec go (m : Mon) (i : Nat) : List Op → List Obs → List String
        | op :: ops, o :: os =>
          (if stepOk m op o then [] else [s!"{classify m op o}@{i}"]) ++ go (stepMon m op o) (i + 1) ops os
        | _, _ => []
      let fails := go Mon.init 0 ops obs
      let endFail :=
        match endTok.splitOn ":" with
        | "end" :: fl :: errs :: _ =>
          let flags := if fl == "-" then [] else fl.toList.map (· == '1')
          match errs.toNat? with
          | some e => if endOk flags e then [] else [s!"end@{ops.length}"]
          | none => ["malformed@0"]
        | _ => ["malformed@0"]
      let all := fails ++ endFail
      if all.isEmpty then "spec=ok" else "spec=fail:" ++ ",".intercalate all

def handle (line : String) : String :=
  let parts := line.splitOn "\t"
  match (words (parts.headD "")).mapM parseOp with
  | none => "bad-op"
  | some ops =>
    let model := modelLine ops
    match parts with
    | [_, impl] => model ++ "\t" ++ specLine ops impl
    | _ => model

def main : IO Unit := lineLoop handle
