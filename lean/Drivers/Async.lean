import Witverif.Async.Script
import Witverif.Async.SubtaskSpec
import Witverif.Async.WaitableSpec
import Witverif.Async.Refine
import Drivers.Util
/-! Driver for the async runtime models, executable `m_async`.
Request line:  a script line of harness/rt-native engine `script`
                 `<mode> | <call specs> | <body> | <host directives>`
               optionally followed by a TAB and the implementation's trace line (only the part before
               a second TAB, which carries the panic message, is read).
Answer line:   the model's predicted trace (`-` for modes the model does not predict), and — when an
               implementation trace was supplied — `\tspec=ok` or `\tspec=fail:<class>@<call|h<handle>|->[#<token index>][,…]`:
               the spec side evaluated on the IMPLEMENTATION's trace:
                 * `SubtaskSpec.run/complete` for every call of the script (C21 classes `lists-*`,
                   `owns-*`, `lift-*`, `handle-*`, `cancel-*`, `area-*`, `call-order`),
                 * `WaitableSpec.run/complete` for every waitable handle + clone/drop balance per task
                   (C18 classes `waitable:<clause>`),
                 * `Refine.replayCall` / `Refine.replayOp`: the proved step functions `CallSys.step` (C21) and
                   `GSys.step subtaskOps` (C18) driven along the trace, label by label; their events must be
                   the trace's (classes `callsys:diverges`, `gsys:diverges`; cabi modes),
                 * `Host.follow`: every recorded host answer is legal (classes `host:<rule>`),
                 * ledger anomalies / host traps (`anomaly:<token>`), leak and allocator errors from
                   the end token (`leak`, `alloc-errors`), `panic`. -/
open Witverif.Async Drivers

def words (s : String) : List String := (s.splitOn " ").filter (· ≠ "")

def parseCallDecl (k : Nat) (t : String) : Option CallDecl :=
  if !t.startsWith "C" then none else
  match ((t.drop 1).toString.splitOn ":").mapM (·.toNat?) with
  | some [size, _alog, _roff, _nl, _no, _rl, st, cx] => some ⟨⟨k, size != 0⟩, st, cx⟩
  | _ => none

def parseCalls (ts : List String) : Option (List CallDecl) :=
  let rec go (k : Nat) : List String → Option (List CallDecl)
    | [] => some []
    | t :: ts => do
      let c ← parseCallDecl k t
      let rest ← go (k + 1) ts
      some (c :: rest)
  go 0 ts

def parseInstr (t : String) : Option Instr :=
  let arg := (t.drop 1).toString
  if t == "w" then some .wait else if t == "y" then some .yield else
  match arg.toNat? with
  | none => none
  | some k =>
    if t.startsWith "c" then some (.new k) else if t.startsWith "p" then some (.poll k)
    else if t.startsWith "a" then some (.await k) else if t.startsWith "d" then some (.drop k)
    else if t.startsWith "t" then some (.task k) else none

def parseDir (t : String) : Option Dir :=
  let arg := (t.drop 1).toString
  if t.startsWith "A" then
    match arg.splitOn ":" with
    | [k, s] => do some (.adv (← k.toNat?) (← s.toNat?))
    | _ => none
  else if t.startsWith "D" then arg.toNat?.map .dlv
  else none

def parseScript (line : String) : Option Script :=
  match (line.splitOn "|").map (·.trim) with
  | [m, cs, b, d] => do
    let mode ← (if m == "cabi1" then some (Mode.cabi 1) else if m == "cabi2" then some (.cabi 2)
                else if m == "export" then some .export else none)
    let calls ← parseCalls (words cs)
    let body ← (words b).mapM parseInstr
    let dirs ← (words d).mapM parseDir
    some ⟨mode, calls, body, dirs⟩
  | _ => none

/-- run a monitor step by step; on rejection report the class and the index of the rejected token -/
def runIdx {σ : Type} (step : σ → Ev → Except String σ) (init : σ) (tr : List Ev) : Except (String × Nat) σ :=
  let rec go (m : σ) (i : Nat) : List Ev → Except (String × Nat) σ
    | [] => .ok m
    | e :: es => match step m e with
      | .ok m' => go m' (i + 1) es
      | .error c => .error (c, i)
  go init 0 tr

def specVerdict (sc : Script) (impl : List Ev) : List String :=
  let stopped := impl.any (fun e => e == .panic || e == .abort)
  let perCall := sc.calls.flatMap fun c =>
    match runIdx (SubtaskSpec.step c.spec.k) {} impl with
    | .error (cls, i) => [s!"{cls}@{c.spec.k}#{i}"]
    | .ok m =>
      -- the end-of-life clause applies to traces that ran to their end
      if stopped then [] else
      match SubtaskSpec.complete c.spec.area m with
      | .error cls => [s!"{cls}@{c.spec.k}#{impl.length}"]
      | .ok () => []
  -- C18: registration / delivery / unregistration, per waitable handle
  let perHandle := (WaitableSpec.handles impl).flatMap fun w =>
    match runIdx (WaitableSpec.step w) {} impl with
    | .error (cls, i) => [s!"waitable:{cls}@h{w}#{i}"]
    | .ok m =>
      if stopped then [] else
      match WaitableSpec.complete m with
      | .error cls => [s!"waitable:{cls}@h{w}#{impl.length}"]
      | .ok () => []
  -- refinement replay of the PROVED step functions along the implementation's trace (Async/Refine.lean):
  -- `CallSys.step` (C21) and `GSys.step subtaskOps` (C18), harness-executor modes only
  let refine := match sc.mode with
    | .export => []
    | .cabi v => sc.calls.flatMap fun c =>
      (match Refine.replayCall c.spec v impl with
        | some (i, _) => [s!"callsys:diverges@{c.spec.k}#{i}"]
        | none => []) ++
      (match Refine.replayOp c.spec v impl with
        | some (i, _) => [s!"gsys:diverges@{c.spec.k}#{i}"]
        | none => [])
  let taskRefs := [1, 2].flatMap fun t =>
    if stopped then [] else
    if WaitableSpec.cloneBalance t impl != 0 then [s!"waitable:task-ref-leaked@t{t}"] else []
  let host := (Host.follow impl).map fun r => s!"host:{r}@-"
  let anomalies := impl.filterMap fun e => match e with
    | .other s => some s!"anomaly:{s}@-"
    | .panic => some "panic@-"
    | _ => none
  let endTok := match impl.getLast? with
    | some (.endTok (some l) errs) => (if l != 0 then [s!"leak:{l}@-"] else []) ++ (if errs != 0 then [s!"alloc-errors:{errs}@-"] else [])
    | some (.endTok none errs) => if errs != 0 then [s!"alloc-errors:{errs}@-"] else []
    | _ => ["malformed-end@-"]
  perCall ++ perHandle ++ refine ++ taskRefs ++ host ++ anomalies ++ endTok

def handle (line : String) : String :=
  let parts := line.splitOn "\t"
  match parseScript (parts.headD "") with
  | none => "bad-script"
  | some sc =>
    let model := match sc.predict with
      | some evs => showTrace evs
      | none => "-"
    match parts with
    | _ :: impl :: _ =>
      let v := specVerdict sc (parseTrace impl)
      model ++ "\t" ++ (if v.isEmpty then "spec=ok" else "spec=fail:" ++ ",".intercalate v)
    | _ => model

def main : IO Unit := lineLoop handle
