import Witverif.Text.MdLinks
import Drivers.Util
/-! Driver for the Markdown generator model (C29; Markdown part of C16).

Request line (TAB separated fields, tokens inside a field separated by spaces, strings hex, `~` = none):
    `W <world tokens>` TAB `EV <event tokens>` TAB `<hex real .md>` TAB `<hex real .html>`
  or, when the real generator panicked,  `W <world tokens>`  alone.
The token formats are those of `harness/gen-run/src/md.rs`.

Answer:  `md=<hex model .md>` or `md=panic:<hex message>`
         TAB `ev=<event tokens of Md.rewrite hrefs events>`   (hrefs = the model's table)
         TAB `spec: nest=<ok|fail> safe=<ok|no> evnest=<ok|fail> hrefs=<ok|fail:hex,hex…> docs=<ok|fail:hex,hex…> pdocs=<ok|fail>`
  the `spec:` part is the C29 monitors (`MdSpec`) evaluated on the REAL `.md` / `.html` / parsed events:
    nest   = `tokNoNested 0 (scan html)`           no `<a>` inside an `<a>` in the real HTML
    safe   = `htmlSafe 0 false events`             (classification: input condition of the HTML-level theorem)
    evnest = `noNested 0 events`                   (assumption on pulldown-cmark: no nested markdown links)
    hrefs  = `hrefsDefined (scan html)`            dangling fragments listed
    docs   = `docsVerbatim md world`               missing doc comments listed
    pdocs  = `printedDocsVerbatim md world`        (classification: the doc comments the generator has a `docs` call for)
-/
open Witverif.Text Witverif.Text.Md Drivers

abbrev P := StateT (List String) Option

def tok : P String := fun ts => match ts with | [] => none | t :: r => some (t, r)
def str : P Str := do let t ← tok; match hexToChars t with | some c => pure c | none => failure
def optStr : P (Option Str) := do
  let t ← tok
  if t == "~" then pure none else match hexToChars t with | some c => pure (some c) | none => failure
def nat : P Nat := do let t ← tok; match t.toNat? with | some n => pure n | none => failure
def peek : P String := fun ts => match ts with | [] => none | t :: _ => some (t, ts)

def rep {α} (n : Nat) (p : P α) : P (List α) := do
  let mut acc := #[]
  for _ in [0:n] do acc := acc.push (← p)
  pure acc.toList

partial def ty : P Ty := do
  let t ← tok
  match t with
  | "p" => pure (.prim (← str))
  | "r" => pure (.ref (← str))
  | "al" => pure (.alias (← ty))
  | "tu" => do let n ← nat; let ts ← rep n ty; pure (.tuple (Tys.ofList ts))
  | "op" => pure (.option (← ty))
  | "r2" => do let a ← ty; let b ← ty; pure (.result2 a b)
  | "re" => pure (.resultErr (← ty))
  | "ro" => pure (.resultOk (← ty))
  | "r0" => pure .result0
  | "li" => pure (.list (← ty))
  | "fl" => do let n ← nat; let t ← ty; pure (.flist n t)
  | "ma" => do let a ← ty; let b ← ty; pure (.map a b)
  | "f1" => pure (.future1 (← ty))
  | "f0" => pure .future0
  | "s1" => pure (.stream1 (← ty))
  | "s0" => pure .stream0
  | "ow" => pure (.own (← ty))
  | "bo" => pure (.borrow (← ty))
  | "un" => pure .unknown
  | "bad" => pure .bad
  | _ => failure

def optTy : P (Option Ty) := do
  if (← peek) == "~" then let _ ← tok; pure none else pure (some (← ty))

def defKind : P DefKind := do
  let k ← tok
  match k with
  | "record" => do
    let n ← nat
    pure (.record (← rep n (do let nm ← str; let t ← ty; let d ← optStr; pure ⟨nm, some t, d⟩)))
  | "resource" => pure .resource
  | "flags" => do
    let n ← nat
    pure (.flags (← rep n (do let nm ← str; let d ← optStr; pure ⟨nm, none, d⟩)))
  | "tuple" => do let n ← nat; pure (.tuple (← rep n ty))
  | "variant" => do
    let n ← nat
    pure (.variant (← rep n (do let nm ← str; let t ← optTy; let d ← optStr; pure ⟨nm, t, d⟩)))
  | "enum" => do
    let n ← nat
    pure (.enum (← rep n (do let nm ← str; let d ← optStr; pure ⟨nm, none, d⟩)))
  | "option" => pure (.option (← ty))
  | "result" => do let a ← optTy; let b ← optTy; pure (.result a b)
  | "self" => pure (.self (← ty))
  | "alias" => pure (.alias (← ty))
  | "handle" => pure .handle
  | "unknown" => pure .unknown
  | _ => failure

def typeDef : P TypeDef := do
  let n ← str; let d ← optStr; let k ← defKind
  pure ⟨n, d, k⟩

def func : P Func := do
  let n ← str; let d ← optStr; let np ← nat
  let ps ← rep np (do let pn ← str; let t ← ty; pure (pn, t))
  let r ← optTy
  pure ⟨n, d, ps, r⟩

def iface : P Iface := do
  let d ← optStr
  let nt ← nat; let ts ← rep nt typeDef
  let nf ← nat; let fs ← rep nf func
  pure ⟨d, ts, fs⟩

def item : P Item := do
  let k ← tok
  let key ← str
  match k with
  | "i" => pure (.iface key (← iface))
  | "f" => pure (.func key (← func))
  | "t" => pure (.type key (← typeDef))
  | _ => failure

def world : P World := do
  let n ← str; let d ← optStr
  let ni ← nat; let imps ← rep ni item
  let ne ← nat; let exps ← rep ne item
  pure ⟨n, d, imps, exps⟩

def words (s : String) : List String := (s.splitOn " ").filter (· ≠ "")

def parseWorld (field : String) : Option World :=
  match words field with
  | "W" :: ts => match world ts with
    | some (w, []) => some w
    | _ => none
  | _ => none

/-! events -/

def hx (h : String) : Option Str := hexToChars h

def parseEv (t : String) : Option Ev :=
  match t.splitOn ":" with
  | ["SL", lt, d, ti, i] => do pure (.startLink lt.toList (← hx d) (← hx ti) (← hx i))
  | ["EL"] => some .endLink
  | ["C", c] => (hx c).map .code
  | ["T", c] => (hx c).map .text
  | ["H", c] => (hx c).map .html
  | ["IH", c] => (hx c).map .inlineHtml
  | ["S", tag] => some (.start tag.toList)
  | ["E", tag] => some (.stop tag.toList)
  | [o] => if o == "SB" || o == "HB" || o == "R" then some (.other o.toList) else none
  | _ => none

def showEv : Ev → String
  | .startLink lt d ti i => s!"SL:{String.ofList lt}:{charsToHex d}:{charsToHex ti}:{charsToHex i}"
  | .endLink => "EL"
  | .code c => "C:" ++ charsToHex c
  | .text c => "T:" ++ charsToHex c
  | .html c => "H:" ++ charsToHex c
  | .inlineHtml c => "IH:" ++ charsToHex c
  | .start t => "S:" ++ String.ofList t
  | .stop t => "E:" ++ String.ofList t
  | .other t => String.ofList t

def parseEvs (field : String) : Option (List Ev) :=
  match words field with
  | "EV" :: ts => ts.mapM parseEv
  | _ => none

def hexList (l : List Str) : String := ",".intercalate (l.map charsToHex)

def handle (line : String) : String :=
  match line.splitOn "\t" with
  | [wf] =>
    match parseWorld wf with
    | none => "bad-world"
    | some w => match gen w with
      | .ok st => "md=" ++ charsToHex st.src.s
      | .panic m => "md=panic:" ++ charsToHex m
  | [wf, ef, mdh, htmlh] =>
    match parseWorld wf, parseEvs ef, hexToChars mdh, hexToChars htmlh with
    | some w, some evs, some md, some html =>
      let toks := MdSpec.scan html
      let spec :=
        "spec: nest=" ++ (if MdSpec.tokNoNested 0 toks then "ok" else "fail") ++
        " safe=" ++ (if MdSpec.htmlSafe 0 false evs then "ok" else "no") ++
        " evnest=" ++ (if MdSpec.noNested 0 evs then "ok" else "fail") ++
        " hrefs=" ++ (if MdSpec.hrefsDefined toks then "ok" else "fail:" ++ hexList (MdSpec.dangling toks)) ++
        " docs=" ++ (if MdSpec.docsVerbatim md w then "ok" else "fail:" ++ hexList (MdSpec.missingDocs md w)) ++
        " pdocs=" ++ (if MdSpec.printedDocsVerbatim md w then "ok" else "fail")
      match gen w with
      | .ok st =>
        "md=" ++ charsToHex st.src.s ++ "\tev=" ++ " ".intercalate ((rewrite st.hrefs evs).map showEv) ++ "\t" ++ spec
      | .panic m => "md=panic:" ++ charsToHex m ++ "\tev=\t" ++ spec
    | none, _, _, _ => "bad-world"
    | _, none, _, _ => "bad-events"
    | _, _, _, _ => "bad-hex"
  | _ => "bad-request"

def main : IO Unit := lineLoop handle
