import Witverif.Text.Config
import Drivers.Util
/-! Driver for the test-configuration model (C34).

Requests (one per line; strings hex-encoded, `<list>` = hex strings joined by `,`, `[]` when empty):
  `cfg <hex contents> <hex marker>`          -> `<hex model config_text> <hex spec text>`
                                               (model: `Config.configText`; spec: `unlines (leadingBodies …)`)
  `words s:<hex>` | `words l:<list>` | `words default`   optionally TAB `<list>` (implementation's vector)
                                             -> `<list>` model `StringList.toVec`, and with an
                                                implementation vector `\tspec=<ok|fail|malformed>` (`acceptsArgs`)
  glue: `lines <hex>` | `splitws <hex>` | `join <hex sep> <list>` | `starts <hex s> <hex p>` | `slice <hex s> <hex p>` -/
open Witverif.Text Witverif.Text.Config Drivers

def words (s : String) : List String := (s.splitOn " ").filter (· ≠ "")

def showList (l : List (List Char)) : String :=
  if l.isEmpty then "[]" else ",".intercalate (l.map charsToHex)

def parseList (t : String) : Option (List (List Char)) :=
  if t == "[]" then some [] else (t.splitOn ",").mapM hexToChars

def parseSL (t : String) : Option StringList :=
  if t == "default" then some StringList.default
  else if t.startsWith "s:" then (hexToChars (t.drop 2).toString).map .string
  else if t.startsWith "l:" then (parseList (t.drop 2).toString).map .list
  else none

def handle (line : String) : String :=
  let parts := line.splitOn "\t"
  match words (parts.headD "") with
  | ["cfg", c, m] =>
    match hexToChars c, hexToChars m with
    | some c, some m =>
      charsToHex (configText c m) ++ " " ++
        charsToHex (ConfigSpec.unlines (ConfigSpec.leadingBodies m (RustStr.lines c)))
    | _, _ => "bad-request"
  | ["words", v] =>
    match parseSL v with
    | none => "bad-request"
    | some sl =>
      let model := showList sl.toVec
      match parts with
      | [_, implS] =>
        match parseList implS.trimAscii.toString with
        | none => model ++ "\tspec=malformed"
        | some obs => model ++ "\tspec=" ++ (if ConfigSpec.acceptsArgs sl obs then "ok" else "fail")
      | _ => model
  | ["lines", s] => match hexToChars s with
    | some s => showList (RustStr.lines s)
    | none => "bad-request"
  | ["splitws", s] => match hexToChars s with
    | some s => showList (RustStr2.splitWhitespace s)
    | none => "bad-request"
  | ["join", sep, l] => match hexToChars sep, parseList l with
    | some sep, some l => charsToHex (RustStr2.join sep l)
    | _, _ => "bad-request"
  | ["starts", s, p] => match hexToChars s, hexToChars p with
    | some s, some p => if RustStr.startsWith s p then "1" else "0"
    | _, _ => "bad-request"
  | ["slice", s, p] => match hexToChars s, hexToChars p with
    | some s, some p => if RustStr.startsWith s p then charsToHex (s.drop p.length) else "none"
    | _, _ => "bad-request"
  | _ => "bad-request"

def main : IO Unit := lineLoop handle
