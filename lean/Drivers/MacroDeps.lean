import Witverif.Text.MacroDeps
import Drivers.Util
/-! Driver for the `MacroDeps` model (C32).
Request line (TAB separated fields):
  `root=<hex abs path>`
  `inv=bare` | `inv=bare:<hex path>` | `inv=braces:<opt>;<opt>…`   opt = `p:<hex path>,<hex path>…` | `i1` | `i0`
  `later=1|0`
  `fs=<k>:<hex abs path>,…`        k = d (directory) | w (WIT text) | b (rejected content) | p (wasm-encoded package)
  optionally `D=<hex abs path>,…` (dep-info of the real crate) and `R=<hex abs path>,…` (files opened by the real macro)
Answer: `ok|err tracked=<paths> reads=<paths> listed=<paths>`; with D and R supplied additionally
  TAB `spec=ok` | `spec=fail:<hex path>`: the C32 monitor `readSubsetTracked` on the implementation's observations. -/
open Witverif.Text Witverif.Text.MacroDeps Drivers

def splitPath (s : String) : Bool × List Name :=
  (s.startsWith "/", ((s.splitOn "/").filter (· ≠ "")).map String.toList)

def parseAbs (h : String) : Option RPath := (hexToStr h).map fun s => (splitPath s).2.reverse
def parseArg (h : String) : Option PathArg := (hexToStr h).map fun s => ⟨(splitPath s).1, (splitPath s).2⟩

def parseList {α} (f : String → Option α) (s : String) : Option (List α) :=
  if s == "" || s == "-" then some [] else (s.splitOn ",").mapM f

def parseEnt (t : String) : Option Ent :=
  match t.splitOn ":" with
  | [k, h] =>
    match parseAbs h with
    | some (n :: d) =>
      let kind : Option Kind :=
        if k == "d" then some .dir else if k == "w" then some (.file .wit)
        else if k == "b" then some (.file .bad) else if k == "p" then some (.file .wasmPkg) else none
      kind.map fun kd => ⟨d, n, kd⟩
    | _ => none
  | _ => none

def parseOpt (t : String) : Option SrcOpt :=
  if t == "i1" then some (.inline true) else if t == "i0" then some (.inline false)
  else if t.startsWith "p:" then (parseList parseArg (t.drop 2).toString).map .path
  else none

def parseInv (s : String) : Option Invocation :=
  if s == "bare" then some (.bare none)
  else if s.startsWith "bare:" then (parseArg (s.drop 5).toString).map fun a => .bare (some a)
  else if s.startsWith "braces:" then
    let r := (s.drop 7).toString
    if r == "" then some (.braces []) else ((r.splitOn ";").mapM parseOpt).map .braces
  else none

def showPath (p : RPath) : String := charsToHex (display p)
def showPaths (l : List RPath) : String := if l.isEmpty then "-" else ",".intercalate (l.map showPath)

def field (fs : List String) (k : String) : Option String :=
  (fs.find? (·.startsWith (k ++ "="))).map fun f => (f.drop (k.length + 1)).toString

def handle (line : String) : String :=
  let fields := line.splitOn "\t"
  match field fields "root", field fields "inv", field fields "later", field fields "fs" with
  | some rootS, some invS, some laterS, some fsS =>
    match parseAbs rootS, parseInv invS, parseList parseEnt fsS with
    | some root, some inv, some fs =>
      let r := run fs root inv (laterS == "1")
      let model := (if r.tracked.isSome then "ok" else "err") ++ " tracked=" ++ showPaths (r.tracked.getD [])
        ++ " reads=" ++ showPaths r.reads ++ " listed=" ++ showPaths r.listed
      match field fields "D", field fields "R" with
      | some dS, some rS =>
        match parseList parseAbs dS, parseList parseAbs rS with
        | some d, some rd =>
          let bad := rd.filter (fun p => !d.contains p)
          if MacroDepsSpec.readSubsetTracked rd d then model ++ "\tspec=ok"
          else model ++ "\tspec=fail:" ++ showPaths bad
        | _, _ => model ++ "\tspec=malformed"
      | _, _ => model
    | _, _, _ => "bad-request"
  | _, _, _, _ => "bad-request"

def main : IO Unit := lineLoop handle
