import Witverif.Abi.NamesBackends
import Drivers.AbiParse
import Drivers.Util
/-! Driver for the C13 models (`m_names`).  One request per line, TAB separated fields:

    spec   <desc>                  labelled entries of the spec (same labels as `names-run names`
                                   prints for wit-parser): `label=I:<hexmod>:<hexname>:<params>:<results>`
                                   | `label=E:<hexname>:<params>:<results>`
    sets   <desc>                  `Spec.allImports` / `Spec.allExports` / `Spec.requiredExports`:
                                   `I:…` / `E:…` / `R:…` tokens
    check  <desc> <decl>*          verdict of the spec-side monitor on declarations extracted from a
                                   backend's output: one of `ok` / `bad` per declaration
                                   (`I:<hexmod>:<hexname>:<params>:<results>` ∈ allImports,
                                    `E:<hexname>:<params>:<results>` ∈ allExports)
    model  <backend> <desc>        what the backend model emits: `I:…:<must|opt>` / `E:…` tokens
    sites  <desc>                  `label=fsf…` payload-site kinds per function (find_futures_and_streams)

`<desc>` is the S-expression printed by the harness (strings hex encoded):
    (world (imports ITEM*) (exports ITEM*))
    ITEM := (iface KEY (funcs FN*) (res HEX*)) | (func FN) | (rtype HEX) | (type)
    KEY  := (name HEX) | (id HEXns HEXpkg HEXiface (HEXver | _))
    FN   := (f free|method|static|ctor HEXres HEXitem WITASYNC SEL (fn method|free (PARAMS) RESULT) (tids NAT*)) -/
open Witverif.Abi Witverif.Abi.Names Drivers Drivers.AbiParse

def hx (s : Sx) : Option String :=
  match s with
  | .atom a => hexToStr a
  | _ => none

def toKey : Sx → Option Key
  | .list [.atom "name", n] => (hx n).map .name
  | .list [.atom "id", a, b, c, v] => do
      let ver ← match v with
        | .atom "_" => some none
        | v => (hx v).map some
      pure (.id ⟨← hx a, ← hx b, ← hx c, ver⟩)
  | _ => none

def toKind : String → Option FKind
  | "free" => some .free | "method" => some .method | "static" => some .static | "ctor" => some .ctor
  | _ => none

def toFn : Sx → Option Fn
  | .list [.atom "f", .atom k, r, i, .atom wa, .atom sel, sg, .list (.atom "tids" :: ts)] => do
      let tids ← ts.mapM fun t => match t with | .atom a => a.toNat? | _ => none
      pure ⟨← toKind k, ← hx r, ← hx i, wa == "1", sel == "1", ← toFunc sg, tids⟩
  | _ => none

def toItem : Sx → Option Item
  | .list [.atom "iface", k, .list (.atom "funcs" :: fs), .list (.atom "res" :: rs)] => do
      pure (.iface ⟨← toKey k, ← fs.mapM toFn, ← rs.mapM hx⟩)
  | .list [.atom "func", f] => (toFn f).map .func
  | .list [.atom "rtype", r] => (hx r).map .rtype
  | .list [.atom "type"] => some .other
  | _ => none

def toWorld : Sx → Option World
  | .list [.atom "world", .list (.atom "imports" :: is), .list (.atom "exports" :: es)] => do
      pure ⟨← is.mapM toItem, ← es.mapM toItem⟩
  | _ => none

def parseWorld (s : String) : Option World := (parseOne s).bind toWorld

def tys (ts : List CoreTy) : String := coreTysStr ts

def showImp (d : Imp) : String :=
  "I:" ++ strToHex d.module ++ ":" ++ strToHex d.name ++ ":" ++ tys d.params ++ ":" ++ tys d.results
def showExp (d : Exp) : String :=
  "E:" ++ strToHex d.name ++ ":" ++ tys d.params ++ ":" ++ tys d.results

def parseCoreTys (s : String) : Option (List CoreTy) :=
  if s == "-" then some [] else (s.splitOn ",").mapM parseCore

def parseDecl (t : String) : Option (Sum Imp Exp) :=
  match t.splitOn ":" with
  | ["I", m, n, p, r] => do pure (.inl ⟨← hexToStr m, ← hexToStr n, ← parseCoreTys p, ← parseCoreTys r⟩)
  | ["E", n, p, r] => do pure (.inr ⟨← hexToStr n, ← parseCoreTys p, ← parseCoreTys r⟩)
  | _ => none

def opName : FsOp → String := FsOp.str

/-- labelled spec entries of the payload sites of one function -/
def fsEntries (lbl : String) (k : Key) (f : Fn) (exported : Bool) : List String :=
  (f.sites.zipIdx.flatMap fun (s, i) =>
    Spec.allOps.flatMap fun op =>
      [false, true].flatMap fun a =>
        match Spec.fsIntrinsic k f.name s.stream (.idx i) op exported a with
        | some d => [lbl ++ ".s" ++ toString i ++ "." ++ opName op ++ (if a then ".async" else "") ++ "=" ++ showImp d]
        | none => [])

def importFnEntries (lbl : String) (k : Key) (f : Fn) : List String :=
  [lbl ++ ".func.sync=" ++ showImp (Spec.funcImport .sync k f),
   lbl ++ ".func.async=" ++ showImp (Spec.funcImport .asyncCallback k f)] ++ fsEntries lbl k f false

def optE (lbl : String) : Option Exp → List String
  | some e => [lbl ++ "=" ++ showExp e]
  | none => []
def optI (lbl : String) : Option Imp → List String
  | some e => [lbl ++ "=" ++ showImp e]
  | none => []

def exportFnEntries (lbl : String) (k : Key) (f : Fn) : List String :=
  optE (lbl ++ ".main.sync") (Spec.funcExport .sync k f .normal) ++
  optE (lbl ++ ".post") (Spec.funcExport .sync k f .postReturn) ++
  optE (lbl ++ ".main.acb") (Spec.funcExport .asyncCallback k f .normal) ++
  optE (lbl ++ ".cb") (Spec.funcExport .asyncCallback k f .callback) ++
  optE (lbl ++ ".main.astk") (Spec.funcExport .asyncStackful k f .normal) ++
  [lbl ++ ".taskret=" ++ showImp (Spec.taskReturn k f)] ++ fsEntries lbl k f true

def specEntries (w : World) : List String :=
  (w.imports.zipIdx.flatMap fun (it, n) =>
    let p := "I" ++ toString n
    match it with
    | .iface i =>
        (i.funcs.zipIdx.flatMap fun (f, j) => importFnEntries (p ++ ".f" ++ toString j) i.key f) ++
        (i.res.zipIdx.flatMap fun (r, j) =>
          optI (p ++ ".r" ++ toString j ++ ".drop") (Spec.resourceIntrinsic .sync i.key r .importedDrop))
    | .func f => importFnEntries (p ++ ".f0") .root f
    | .rtype r => optI (p ++ ".r0.drop") (Spec.resourceIntrinsic .sync .root r .importedDrop)
    | .other => []) ++
  (w.exports.zipIdx.flatMap fun (it, n) =>
    let p := "E" ++ toString n
    match it with
    | .iface i =>
        (i.funcs.zipIdx.flatMap fun (f, j) => exportFnEntries (p ++ ".f" ++ toString j) i.key f) ++
        (i.res.zipIdx.flatMap fun (r, j) =>
          let q := p ++ ".r" ++ toString j
          optI (q ++ ".drop") (Spec.resourceIntrinsic .sync i.key r .exportedDrop) ++
          optI (q ++ ".new") (Spec.resourceIntrinsic .sync i.key r .exportedNew) ++
          optI (q ++ ".rep") (Spec.resourceIntrinsic .sync i.key r .exportedRep) ++
          optE (q ++ ".dtor") (Spec.dtor .sync i.key r))
    | .func f => exportFnEntries (p ++ ".f0") .root f
    | _ => []) ++
  ["G.init=" ++ showExp Spec.initExport, "G.realloc=" ++ showExp Spec.realloc]

def siteEntries (w : World) : List String :=
  let one (lbl : String) (f : Fn) : String :=
    lbl ++ "=" ++ String.ofList (f.sites.map fun s => if s.stream then 's' else 'f')
  (w.imports.zipIdx.flatMap fun (it, n) =>
    match it with
    | .iface i => i.funcs.zipIdx.map fun (f, j) => one ("I" ++ toString n ++ ".f" ++ toString j) f
    | .func f => [one ("I" ++ toString n ++ ".f0") f]
    | _ => []) ++
  (w.exports.zipIdx.flatMap fun (it, n) =>
    match it with
    | .iface i => i.funcs.zipIdx.map fun (f, j) => one ("E" ++ toString n ++ ".f" ++ toString j) f
    | .func f => [one ("E" ++ toString n ++ ".f0") f]
    | _ => [])

def showMImp (d : MImp) : String := showImp d.imp ++ ":" ++ (if d.must then "must" else "opt")

def handle (line : String) : String :=
  match line.splitOn "\t" with
  | ["spec", d] =>
    match parseWorld d with
    | some w => " ".intercalate (specEntries w)
    | none => "bad-desc"
  | ["sites", d] =>
    match parseWorld d with
    | some w => " ".intercalate (siteEntries w)
    | none => "bad-desc"
  | ["sets", d] =>
    match parseWorld d with
    | some w =>
      " ".intercalate ((Spec.allImports w).map showImp ++ (Spec.allExports w).map showExp ++
        (Spec.requiredExports w).map fun e => "R" ++ (showExp e).drop 1)
    | none => "bad-desc"
  | "check" :: d :: decls =>
    match parseWorld d with
    | some w =>
      let ai := Spec.allImports w
      let ae := Spec.allExports w
      " ".intercalate (decls.map fun t =>
        match parseDecl t with
        | some (.inl i) => if ai.contains i then "ok" else "bad"
        | some (.inr e) => if ae.contains e then "ok" else "bad"
        | none => "malformed")
    | none => "bad-desc"
  | ["model", b, d] =>
    match parseWorld d, backendOfName b with
    | some w, some be =>
      " ".intercalate ((be.imports w).map showMImp ++ (be.exports w).map showExp)
    | none, _ => "bad-desc"
    | _, none => "bad-backend"
  | _ => "bad-request"

def main : IO Unit := lineLoop handle
