#!/bin/sh
# Build the framework offline from files on disk: Lean models/proofs/drivers + harness workspace.
# A failing module does not abort the set-up: every check rebuilds what it needs and reports a
# broken obligation for its own property, so one broken proof cannot silence the other checks.
cd "$(dirname "$0")"
export CARGO_NET_OFFLINE=true
(cd lean && lake build) || echo "setup: lake build reported errors (the checks of the affected properties will report them)"
(cd harness && cargo build --workspace) || echo "setup: cargo build reported errors (the checks of the affected properties will report them)"
echo setup ok
