#!/bin/sh
# Build the framework offline from files on disk: Lean models/proofs/drivers + harness workspace.
set -e
cd "$(dirname "$0")"
export CARGO_NET_OFFLINE=true
(cd lean && lake build)
(cd harness && cargo build --workspace)
echo setup ok
