"""Shared helpers for the checks built on harness/rt-native (C18–C24): building the harness
(three runtime feature builds; optional mutated copy of the repo for testing the checks themselves),
and the async script generator.  See harness/rt-native/README.md for the protocols."""
import os, shutil
from vlib import sh, HARNESS, BUILD, REPO


def build_rt(c, features=None):
    """Build rt-native and return the path of a private copy of the executable (None + broken obligation on
    failure).

    features: None | "async-spawn" | "inter-task-wakeup" | "futures-stream" (comma separated).
    Same scheme as checks/exec_common.py `build_exec` (several checks and builders build this package
    concurrently, with different features):
      * one cargo target directory per feature build (`.build/target-rt-<build>`, shared with exec_common):
        no rebuild ping-pong, no wrong-feature artefact under a shared name;
      * the artefact is copied to a temporary name, PROBED (`rt-native features` prints the compiled runtime
        features) and only then installed by an atomic rename onto `.build/rt-native[-<features>]` — a process
        still executing the previous copy keeps its inode (no ETXTBSY, no half-written file);
      * a probe mismatch (artefact replaced between `cargo build` and the copy) is retried, then reported as a
        broken obligation, never used.
    If VERIF_REPO names a directory other than /repo (a *copy* with deliberate edits, used to test that the
    checks catch property-breaking changes without touching the shared /repo), the crate `wit-bindgen` is
    overridden by `<VERIF_REPO>/crates/guest-rust`, build.rs extracts from there, and `-mut` directories /
    names are used."""
    import subprocess
    build = features.replace(",", "-") if features else "default"
    want = ",".join(sorted(features.split(","))) if features else ""
    cmd = ["cargo", "build", "-p", "rt-native"]
    if features:
        cmd += ["--features", features]
    env, mut = {}, os.path.realpath(REPO) != "/repo"
    target = os.path.join(BUILD, "target-rt-" + build + ("-mut" if mut else ""))
    cmd += ["--target-dir", target]
    if mut:
        cmd += ["--config", 'paths=["%s/crates/guest-rust"]' % REPO]
        env["VERIF_REPO"] = REPO
        if not any("repo copy" in x for x in c.notes):
            c.notes.append(f"rt-native built against the repo copy {REPO}")
    what = "harness build rt-native" + (f" --features {features}" if features else "")
    dst = os.path.join(BUILD, "rt-native" + ("-" + build if features else "") + ("-mut" if mut else ""))
    last = ""
    for _attempt in range(4):
        rc, out = sh(cmd, cwd=HARNESS, timeout=3000, env=env)
        if rc != 0:
            c.broken.append((what, out[-3000:]))
            return None
        tmp = dst + ".tmp%d" % os.getpid()
        shutil.copy2(os.path.join(target, "debug", "rt-native"), tmp)
        try:
            probe = subprocess.run([tmp, "features"], capture_output=True, text=True, timeout=20).stdout.strip()
        except Exception as e:                      # noqa: BLE001 - a probe that cannot run is a failed probe
            probe = "probe failed: %r" % (e,)
        got = ",".join(sorted(x for x in probe[len("features:"):].split(",") if x)) if probe.startswith("features:") else None
        if got == want:
            os.replace(tmp, dst)
            return dst
        os.remove(tmp)
        last = probe[:200]
    c.broken.append((what, "the built executable does not have the requested features (concurrent builds?): " + last))
    return None


# ---------------------------------------------------------------------------- running scripts

DOCUMENTED_PANICS = (
    ("cannot sleep waiting only on Rust-originating events",
     "export: task sleeps with no waitable registered (documented panic of the default feature build)"),
)


class ScriptRun:
    """One script run on the implementation.
    raw      the harness's answer (trace, TAB, panic message) or `crash`/`timeout`
    prefix   the trace up to the point where a panic started (the whole trace if none): what is judged
    panicked a Rust panic started (`@panic` marker) — what follows in `raw` is unwinding and is NOT judged
    aborted  the process died (a panic inside an `extern "C"` callback cannot unwind); `prefix` was then
             recovered by re-running this one script with RT_NATIVE_STREAM=1
    msg      panic message ("" if none / lost)
    """
    __slots__ = ("raw", "prefix", "panicked", "aborted", "msg")

    def judged(self):
        """what the spec side is evaluated on: the prefix, closed by `panic end:?:0` if a panic started"""
        return self.prefix + (" panic end:?:0" if self.panicked else "")

    def cmp(self):
        """comparison form of the implementation side: prefix + `panic`"""
        return self.prefix + (" panic" if self.panicked else "")


def model_cmp(trace):
    """comparison form of a model trace: up to and including its first `panic` token"""
    toks = trace.split(" ")
    return " ".join(toks[:toks.index("panic") + 1]) if "panic" in toks else trace


ALONE_TIMEOUT = 150          # seconds for ONE request run alone (a request takes milliseconds; >= 10x any batch share)
ALONE_ATTEMPTS = 3
FAILED = ("crash", "timeout", "crash-unisolated", "timeout-unisolated")


def _alone(impl, engine, line, stream=False, timeout=ALONE_TIMEOUT):
    """run one request in its own process; returns (returncode | None on timeout, stdout, stderr)"""
    import subprocess
    env = dict(os.environ, RT_NATIVE_STREAM="1") if stream else None
    try:
        p = subprocess.run([impl, engine], input=line + "\n", capture_output=True, text=True, timeout=timeout, env=env)
        return p.returncode, p.stdout, p.stderr
    except subprocess.TimeoutExpired as e:
        dec = lambda b: b.decode(errors="replace") if isinstance(b, bytes) else (b or "")
        return None, dec(e.stdout), dec(e.stderr)


def run_engine(impl, engine, reqs, timeout=900, stats=None):
    """vlib.run_lines + confirmation.  `run_lines` isolates a failing request by bisection with a time limit that
    halves at every level (down to 5 s): on a loaded machine a perfectly healthy request can be answered `timeout`,
    and a batch can be answered `crash` for reasons outside the request.  A `crash`/`timeout` answer is therefore
    never taken at face value: the request is re-run ALONE with a generous limit, up to ALONE_ATTEMPTS times; the
    first normal answer wins.  Only a failure that reproduces every time is kept (`crash` = the process died every
    time, `timeout` = it never finished)."""
    from vlib import run_lines
    outs = run_lines([impl, engine], reqs, timeout=timeout)
    for i, o in enumerate(outs):
        if o not in FAILED:
            continue
        kinds = []
        for _ in range(ALONE_ATTEMPTS):
            rc, out, _err = _alone(impl, engine, reqs[i])
            lines = out.split("\n")
            if rc == 0 and lines and lines[0]:
                outs[i] = lines[0]
                if stats is not None: stats["batch failure not reproduced alone (%s)" % o.split("-")[0]] += 1
                break
            kinds.append("timeout" if rc is None else "crash")
        else:
            outs[i] = "timeout" if all(k == "timeout" for k in kinds) else "crash"
            if stats is not None: stats["reproduced alone %dx (%s)" % (ALONE_ATTEMPTS, outs[i])] += 1
    return outs


def run_scripts(impl, reqs, timeout=900, stats=None):
    """Run script lines.  A failure of the batch runner is confirmed by re-running the script alone
    (`run_engine`); a script that REPRODUCIBLY kills the process (a panic inside an `extern "C"` callback cannot
    unwind) or hangs is re-run once more in streaming mode so that its trace prefix is not lost."""
    outs = run_engine(impl, "script", reqs, timeout=timeout, stats=stats)
    runs = []
    for r, o in zip(reqs, outs):
        x = ScriptRun()
        x.raw, x.aborted = o, False
        trace, _, msg = o.partition("\t")
        if o in ("crash", "timeout"):
            rc, out, err = _alone(impl, "script", r, stream=True)
            if rc == 0 and out.split("\n")[0]:
                # it finished normally this time after all: take that answer (nothing is judged on a fluke)
                x.raw = out.split("\n")[0]
                trace, _, msg = x.raw.partition("\t")
                if stats is not None: stats["failure not reproduced in streaming mode"] += 1
            else:
                x.aborted = True
                trace = err.split("thread caused non-unwinding panic")[0].strip()
                msg = ("process aborted (panic that cannot unwind), reproduced %dx alone" % (ALONE_ATTEMPTS + 1)) if rc is not None \
                    else ("no answer within %d s, reproduced %dx alone" % (ALONE_TIMEOUT, ALONE_ATTEMPTS + 1))
                if "@panic" not in trace.split(" "):
                    trace = trace + " @panic"          # died / hung without a Rust panic: judged up to here
        toks = trace.split(" ")
        if "@panic" in toks:
            x.prefix, x.panicked = " ".join(toks[:toks.index("@panic")]), True
        else:
            x.prefix, x.panicked = trace.strip(), False
        x.msg = msg
        runs.append(x)
    return runs


def documented_panic(run):
    for needle, what in DOCUMENTED_PANICS:
        if needle in run.msg:
            return what
    return None


# ---------------------------------------------------------------------------- async scripts

def gen_callspec(rng):
    """C<size>:<alog>:<roff>:<nl>:<no>:<rl>:<st>:<cx>  (harness/rt-native/src/subtask.rs)"""
    r = rng.random()
    if r < 0.15:
        size, alog, roff = 0, rng.choice([0, 2, 3]), 0             # nothing in memory
    else:
        alog = rng.choice([0, 2, 3, 3, 4])
        roff = rng.choice([0, 4, 8, 8, 16, 24])
        size = roff + rng.choice([0, 4, 8, 8, 16])
        if size == 0:
            size = 8
    nl = rng.choice([0, 0, 1, 2])
    no = rng.choice([0, 0, 1, 2])
    rl = rng.choice([0, 0, 1, 2])
    st = rng.choice([0, 0, 0, 1, 1, 2])
    cx = rng.choice([0, 1, 2])
    return f"C{size}:{alog}:{roff}:{nl}:{no}:{rl}:{st}:{cx}"


def gen_subtask_script(rng, mode, maxcalls, maxbody, stats=None, tasks=False):
    """Body over {c,p,a,d,w,y} and host directives {A,D} for 1..maxcalls import calls.
    Mostly sensible (create before use, advance before deliver) with a tail of arbitrary orders;
    the harness and the model define every order (skips), so nothing generated is invalid.
    `tasks`: in the cabi modes also switch the current harness task (`t1`/`t2`)."""
    ncalls = rng.randint(1, maxcalls)
    specs = [gen_callspec(rng) for _ in range(ncalls)]
    body, created = [], []
    n = rng.randint(1, maxbody)
    wprob = 0.08 if mode == "export" else 0.20
    tprob = 0.12 if tasks and mode != "export" else 0.0
    for _ in range(n):
        if tprob and rng.random() < tprob:
            body.append(f"t{rng.choice([1, 2])}")      # the body moves to the other harness task (C18)
            continue
        r = rng.random()
        if (r < 0.3 and len(created) < ncalls) or not created:
            k = len(created) if rng.random() < 0.9 else rng.randrange(ncalls)
            if k not in created: created.append(k)
            body.append(f"c{k}")
            if rng.random() < 0.75:          # usually poll it at once so that the call is made
                body.append(f"p{k}" if rng.random() < 0.7 else f"a{k}")
        else:
            k = rng.choice(created) if rng.random() < 0.93 else rng.randrange(ncalls)
            r2 = rng.random()
            if r2 < 0.38: body.append(f"p{k}")
            elif r2 < 0.58: body.append(f"a{k}")
            elif r2 < 0.72: body.append(f"d{k}")
            elif r2 < 0.72 + wprob: body.append("w")
            else: body.append("y" if rng.random() < 0.5 else f"p{k}")
    host = []
    m = rng.randint(0, 2 * maxbody)
    for _ in range(m):
        k = rng.choice(created) if created and rng.random() < 0.95 else rng.randrange(ncalls)
        r = rng.random()
        if r < 0.5:
            host.append(f"A{k}:{rng.choice([1, 1, 2, 2, 2, 0, 3, 4])}")
        else:
            host.append(f"D{k}")
    if stats is not None:
        stats["mode:" + mode] += 1
        stats["calls:%d" % ncalls] += 1
        for t in body: stats["body:" + t[0]] += 1
        for t in host: stats["host:" + t[0]] += 1
    return f"{mode} | {' '.join(specs)} | {' '.join(body)} | {' '.join(host)}"


# ---------------------------------------------------------------------------- stream / future scripts (C19/C20)

def gen_chan_decl(rng, want, adapter_ok):
    """<S|F><W|R><b|h|w|d|t|r|s><cx>[A]   (harness/rt-native/src/chan.rs); `want`: 'S', 'F' or None"""
    fut = (want == "F") if want else rng.random() < 0.35
    gw = rng.random() < 0.5
    # streams: canonical payloads of element size 1, 2, 4, 8 and a tuple of scalars (8 bytes), lowered without / with lists
    kind = rng.choice("rs") if fut else rng.choice("bhwdtwdrsss")
    cx = rng.choice([0, 0, 1, 2, 3, 4])
    ad = "A" if (adapter_ok and not fut and not gw and rng.random() < 0.5) else ""
    return ("F" if fut else "S") + ("W" if gw else "R") + kind + str(cx) + ad


def gen_chan_script(rng, mode, maxbody, stats=None, want=None, adapter_ok=False, tasks=False, only=False):
    """Body over the channel instructions and peer directives {T,P,D} for 1..3 channels.  Mostly sensible
    (open first, start an operation before polling it, transfer before deliver) with a tail of arbitrary
    orders; harness and model define every order (skips), so nothing generated is invalid."""
    nch = rng.choice([1, 1, 1, 2, 2, 3])
    decls = [gen_chan_decl(rng, want if (i == 0 or only) else None, adapter_ok) for i in range(nch)]
    body, opened = [], set()
    n = rng.randint(2, maxbody)
    def start_op(c):
        d = decls[c]
        fut, gw = d[0] == "F", d[1] == "W"
        if fut:
            return f"f{c}"
        if gw:
            r = rng.random()
            if r < 0.4: return f"w{c}:{rng.choice([0, 1, 1, 2, 3, 3, 5])}"
            if r < 0.65: return f"W{c}:{rng.choice([0, 1, 2, 3, 4, 6])}"
            if r < 0.8: return f"O{c}"
            if r < 0.92: return f"b{c}"
            return f"v{c}"
        r = rng.random()
        if d.endswith("A"): return f"n{c}"
        if r < 0.45: return f"r{c}:{rng.choice([0, 1, 2, 2, 3, 4])}"
        if r < 0.8: return f"n{c}"
        return f"C{c}"
    while len(body) < n:
        if tasks and mode == "cabi2" and rng.random() < 0.08:
            # the body moves to the other harness task (v2 ABI only: with the v1 ABI a move leaves a stale
            # registration behind — C18's known finding waitable-v1-cross-task, judged there)
            body.append(f"t{rng.choice([1, 2])}")
            continue
        c = rng.randrange(nch)
        if c not in opened and rng.random() < 0.9:
            opened.add(c); body.append(f"o{c}"); continue
        r = rng.random()
        if r < 0.30:
            body.append(start_op(c))
            if rng.random() < 0.7:
                body.append(f"p{c}" if rng.random() < 0.6 else f"a{c}")
        elif r < 0.52: body.append(f"p{c}")
        elif r < 0.66: body.append(f"a{c}")
        elif r < 0.74: body.append(f"x{c}")
        elif r < 0.82: body.append(f"d{c}")
        elif r < 0.87: body.append(f"e{c}")
        elif r < 0.90: body.append(f"v{c}" if decls[c][:2] == "SW" else f"p{c}")
        elif r < 0.93: body.append(f"b{c}" if decls[c][:2] == "SW" else f"a{c}")
        elif r < 0.96: body.append("z" if mode != "export" else "y")
        elif tasks and mode == "cabi2" and r < 0.98: body.append(f"t{rng.choice([1, 2])}")
        else: body.append("y")
    host = []
    m = rng.randint(0, 2 * maxbody)
    for _ in range(m):
        c = rng.randrange(nch)
        r = rng.random()
        if r < 0.42: host.append(f"T{c}:{rng.choice([1, 1, 1, 2, 2, 3, 5])}")
        elif r < 0.52: host.append(f"P{c}")
        else: host.append(f"D{c}")
        if r < 0.42 and rng.random() < 0.6: host.append(f"D{c}")
    if stats is not None:
        stats["mode:" + mode] += 1
        stats["chans:%d" % nch] += 1
        for d in decls: stats["decl:" + d[:3] + ("A" if d.endswith("A") else "")] += 1
        for t in body: stats["body:" + t[0]] += 1
        for t in host: stats["host:" + t[0]] += 1
    return f"{mode} | {' '.join(decls)} | {' '.join(body)} | {' '.join(host)}"


def gen_move_script(rng, mode, stats=None):
    """Directed schedules for C18 (cabi modes, two harness tasks): on ONE operation combine
      block/register  x  partial progress that keeps it pending (subtask STARTING -> STARTED event; stream and
      future operations have no non-final event code: they stay in progress only on the start intrinsic's
      BLOCKED)  x  re-registration with the same task  x  later poll / drop under the OTHER task (also back and
      forth)  x  completion / cancel (all three host answers) / plain drop / task cancel afterwards.
    Body and host directives are generated in lock step: every `w` gets exactly the directives that end in the
    delivery meant for it, so the schedule really happens (a script from gen_subtask_script reaches such a
    combination only by luck)."""
    ncalls = rng.choice([1, 1, 2])
    specs, body, host = [], [], []
    cur = 1
    st = {}                                   # per created call: status the guest knows (0 starting, 1 started)
    for k in range(ncalls):
        size, alog, roff = rng.choice([(16, 3, 8), (0, 0, 0), (24, 3, 16)])
        start = rng.choice([0, 0, 0, 1])
        specs.append(f"C{size}:{alog}:{roff}:{rng.choice([0,1])}:{rng.choice([0,1])}:{rng.choice([0,1])}:{start}:{rng.choice([0,1,2])}")
    tags = []
    def other(): return 2 if cur == 1 else 1
    for k in range(ncalls):
        body += [f"c{k}", f"p{k}"]
        st[k] = int(specs[k].split(":")[6])
    steps = rng.randint(2, 7)
    for _ in range(steps):
        live = [k for k in st]
        if not live: break
        k = rng.choice(live)
        r = rng.random()
        if r < 0.30 and st[k] == 0:
            # partial progress: STARTED is delivered while the body is suspended; the op stays in progress
            body.append("w"); host += [f"A{k}:1", f"D{k}"]; st[k] = 1; tags.append("progress")
            if rng.random() < 0.8:
                body.append(f"p{k}"); tags.append("re-register-same-task")
        elif r < 0.65:
            cur = other(); body.append(f"t{cur}"); tags.append("move")
            r2 = rng.random()
            if r2 < 0.7: body.append(f"p{k}")
            elif r2 < 0.85:
                body.append(f"d{k}"); del st[k]; tags.append("drop-under-other-task")
        elif r < 0.80:
            body.append("w"); host += [f"A{k}:2", f"D{k}"]; tags.append("complete")
            body.append(rng.choice([f"p{k}", f"a{k}"])); del st[k]
        elif r < 0.90:
            body.append(f"d{k}"); del st[k]; tags.append("drop")
        else:
            body.append(f"p{k}")
    if st and rng.random() < 0.5:
        body.append("w"); tags.append("task-cancel")          # no directive left: the host cancels the task
    if stats is not None:
        stats["mode:" + mode] += 1
        stats["directed"] += 1
        for t in set(tags): stats["directed:" + t] += 1
        if "progress" in tags and "move" in tags and tags.index("progress") < len(tags) - 1 - tags[::-1].index("move"):
            stats["directed:progress-then-move"] += 1
    return f"{mode} | {' '.join(specs)} | {' '.join(body)} | {' '.join(host)}"
