"""Seeded generator of WIT documents covering every value-type constructor (shared by several
checks).  `gen_world(rng, ...)` returns WIT text with one interface `i` (types + functions, incl.
a resource with methods) imported and exported by world `w`."""

PRIMS = ["bool", "s8", "u8", "s16", "u16", "s32", "u32", "s64", "u64", "f32", "f64", "char", "string"]
KEYS = ["bool", "s8", "u8", "s16", "u16", "s32", "u32", "s64", "u64", "char", "string"]


class Gen:
    def __init__(self, rng, max_depth=4, allow_borrow=True, features=None):
        self.rng = rng
        self.defs = []          # (name, text)
        self.n = 0
        self.max_depth = max_depth
        # optional features that some consumers cannot handle
        self.features = features or {"map", "flist", "future", "stream", "errctx", "resource", "bigflags"}
        self.stats = {}

    def fresh(self, p):
        self.n += 1
        return f"{p}{self.n}"

    def count(self, k):
        self.stats[k] = self.stats.get(k, 0) + 1

    def ty(self, depth=0, param=False):
        """returns WIT type expression; may add named definitions"""
        r = self.rng
        if depth >= self.max_depth or r.random() < 0.28:
            k = r.choice(PRIMS + (["error-context"] if "errctx" in self.features and r.random() < 0.3 else []))
            self.count("prim")
            return k
        choices = ["list", "record", "tuple", "flags", "enum", "variant", "option", "result", "own"]
        weights = [3, 4, 3, 2, 2, 5, 3, 3, 1]
        if "flist" in self.features: choices.append("flist"); weights.append(2)
        if "map" in self.features: choices.append("map"); weights.append(1)
        if "future" in self.features: choices.append("future"); weights.append(1)
        if "stream" in self.features: choices.append("stream"); weights.append(1)
        if param and "resource" in self.features: choices.append("borrow"); weights.append(1)
        k = r.choices(choices, weights)[0]
        self.count(k)
        d = depth + 1
        if k == "list":
            return f"list<{self.ty(d, param)}>"
        if k == "flist":
            return f"list<{self.ty(d + 1, param)}, {r.choice([1, 2, 3, 5])}>"
        if k == "map":
            return f"map<{r.choice(KEYS)}, {self.ty(d, param)}>"
        if k == "record":
            n = r.choice([1, 2, 2, 3, 3, 4, 6])
            name = self.fresh("r")
            fields = ", ".join(f"f{i}: {self.ty(d, param)}" for i in range(n))
            self.defs.append((name, f"record {name} {{ {fields} }}"))
            return name
        if k == "tuple":
            n = r.choice([1, 2, 2, 3, 4])
            return "tuple<" + ", ".join(self.ty(d, param) for _ in range(n)) + ">"
        if k == "flags":
            big = [31, 32, 33, 40, 64, 65] if "bigflags" in self.features else [20, 32]
            n = r.choice([1, 2, 3, 7, 8, 9, 15, 16, 17] + big)
            name = self.fresh("fl")
            self.defs.append((name, f"flags {name} {{ " + ", ".join(f"b{i}" for i in range(n)) + " }"))
            return name
        if k == "enum":
            n = r.choice([1, 2, 3, 5, 200, 256, 257, 300])
            name = self.fresh("e")
            self.defs.append((name, f"enum {name} {{ " + ", ".join(f"c{i}" for i in range(n)) + " }"))
            return name
        if k == "variant":
            n = r.choice([1, 2, 2, 3, 3, 4, 5])
            if r.random() < 0.04: n = 257
            name = self.fresh("v")
            cases = []
            for i in range(n):
                if r.random() < 0.25 or (n > 10 and i > 3):
                    cases.append(f"c{i}")
                else:
                    cases.append(f"c{i}({self.ty(d, param)})")
            self.defs.append((name, f"variant {name} {{ " + ", ".join(cases) + " }"))
            return name
        if k == "option":
            return f"option<{self.ty(d, param)}>"
        if k == "result":
            a = self.ty(d, param) if r.random() < 0.75 else None
            b = self.ty(d, param) if r.random() < 0.75 else None
            if a and b: return f"result<{a}, {b}>"
            if a: return f"result<{a}>"
            if b: return f"result<_, {b}>"
            return "result"
        if k == "own":
            if "resource" not in self.features: return "u32"
            return "res"
        if k == "borrow":
            return "borrow<res>"
        if k == "future":
            return f"future<{self.ty(d + 1, False)}>" if r.random() < 0.7 else "future"
        if k == "stream":
            return f"stream<{self.ty(d + 1, False)}>" if r.random() < 0.7 else "stream"
        raise AssertionError(k)


def gen_world(rng, nfuncs=6, max_depth=4, max_params=6, features=None, async_funcs=True):
    g = Gen(rng, max_depth=max_depth, features=features)
    funcs = []
    for i in range(nfuncs):
        r = rng.random()
        if r < 0.15: np = 0
        elif r < 0.75: np = rng.randint(1, max(1, min(3, max_params)))
        else: np = rng.randint(1, max_params)
        params = ", ".join(f"p{j}: {g.ty(rng.choice([0, 1, 2]), True)}" for j in range(np))
        res = f" -> {g.ty(rng.choice([0, 1]), False)}" if rng.random() < 0.8 else ""
        a = "async " if async_funcs and rng.random() < 0.25 else ""
        funcs.append(f"  f{i}: {a}func({params}){res};")
    lines = ["package t:t;", "interface i {"]
    if "resource" in g.features:
        lines.append("  resource res { constructor(x: u32); m0: func(y: u32) -> u32; m1: func(z: string, w: list<u8>) -> string; s0: static func(a: u8) -> u8; }")
    for _, d in g.defs:
        lines.append("  " + d + (";" if d.startswith("type") else ""))
    lines += funcs
    lines += ["}", "world w { import i; export i; }"]
    return "\n".join(lines) + "\n", g.stats


if __name__ == "__main__":
    import random, sys
    rng = random.Random(int(sys.argv[1]) if len(sys.argv) > 1 else 1)
    print(gen_world(rng)[0])
