"""Seeded generator of WIT worlds with adversarial *names* (shared by C09 and C31).

`gen_world(rng, lang)` returns (wit_text, meta).  Types are kept simple (the ABI is not the subject);
what varies is which identifier positions ("slots") carry a name from an adversarial pool:
target-language keywords (lower- and UPPER-case WIT spellings), prelude / standard names, names equal
to the generator's own locals and helper items, and pairs that differ only by case or separator.
Mostly single-fault injection so that a compiler rejection is attributable to one name.

meta = {"scopes": [{"kind": <scope kind>, "of": <owner>, "conv": snake|camel|shouty, "names": [...]}, ...],
        "adversarial": [{"slot": ..., "name": ..., "pool": ...}, ...]}
Scope kinds: params, fields, cases, flags, funcs (functions of one interface / world side), types (types of one
interface), ifaces, methods."""

WIT_KEYWORDS = {
    "use", "type", "func", "u8", "u16", "u32", "u64", "s8", "s16", "s32", "s64", "f32", "f64", "char", "record",
    "flags", "variant", "enum", "bool", "string", "option", "result", "future", "stream", "list", "own", "borrow",
    "resource", "static", "interface", "world", "import", "export", "package", "include", "with", "as", "from",
    "constructor", "async", "map", "error-context", "tuple", "_"}

RUST_KEYWORDS = ["as", "break", "const", "continue", "crate", "else", "enum", "extern", "false", "fn", "for", "if", "impl",
                 "in", "let", "loop", "match", "mod", "move", "mut", "pub", "ref", "return", "self", "static", "struct",
                 "super", "trait", "true", "type", "unsafe", "use", "where", "while", "async", "await", "dyn", "abstract",
                 "become", "box", "do", "final", "macro", "override", "priv", "typeof", "unsized", "virtual", "yield", "try",
                 "gen", "union", "raw", "safe", "auto", "default"]
RUST_PRELUDE = ["option", "some", "none", "ok", "err", "vec", "string", "box", "result", "drop", "clone", "copy", "send",
                "sync", "sized", "default", "into", "from", "iterator", "to-string", "to-owned", "eq", "ord", "debug",
                "fn-once", "as-ref", "partial-eq", "hash", "display", "error", "str", "u8", "i32", "usize", "bool", "char",
                "f32", "unit"]
RUST_LOCALS = ["ptr0", "len0", "vec0", "result0", "ret", "base0", "base", "e", "e0", "handle0", "l0", "l1", "l2", "v0", "t0",
               "t0-0", "array0", "map0", "bytes0", "layout", "arg0", "arg1", "result", "ptr", "len", "ptr1", "len1", "vec1",
               "result1", "cleanup-list", "rt", "this", "val", "key", "value", "i", "element"]
RUST_SPECIAL = ["guest", "exports", "core", "std", "alloc", "wit-bindgen", "rt", "stub", "bindings", "export", "t", "ty",
                "handle", "rep", "new", "take-handle", "from-handle", "into-inner", "get", "as-ptr", "type-guard",
                "lift", "lower", "dealloc", "cabi-post", "cabi-realloc", "run-ctors-once", "link-custom-section"]

CPP_KEYWORDS = ["alignas", "alignof", "and", "and-eq", "asm", "auto", "bitand", "bitor", "bool", "break", "case", "catch", "char",
                "char8-t", "char16-t", "char32-t", "class", "compl", "concept", "const", "consteval", "constexpr", "constinit",
                "const-cast", "continue", "co-await", "co-return", "co-yield", "decltype", "default", "delete", "do", "double",
                "dynamic-cast", "else", "enum", "explicit", "export", "extern", "false", "float", "for", "friend", "goto", "if",
                "inline", "int", "long", "mutable", "namespace", "new", "noexcept", "not", "not-eq", "nullptr", "operator", "or",
                "or-eq", "private", "protected", "public", "register", "reinterpret-cast", "requires", "return", "short",
                "signed", "sizeof", "static", "static-assert", "static-cast", "struct", "switch", "template", "this",
                "thread-local", "throw", "true", "try", "typedef", "typeid", "typename", "union", "unsigned", "using",
                "virtual", "void", "volatile", "wchar-t", "while", "xor", "xor-eq", "final", "override", "import", "module"]
CPP_STD = ["std", "string", "vector", "optional", "expected", "variant", "tuple", "wit", "size-t", "uint8-t", "int32-t",
           "uint32-t", "errno", "null", "assert", "main", "exports", "stdin", "stdout", "stderr", "ret", "err", "max", "min",
           "move", "span", "array", "map", "get", "value", "error", "unexpected", "monostate", "size", "data", "begin", "end"]
CPP_LOCALS = ["ret", "err", "ptr0", "len0", "vec0", "result0", "arg0", "arg1", "l0", "l1", "v0", "e", "base0", "base", "option0",
              "variant0", "retptr", "ret-area", "handle", "rep", "self", "this", "store", "owned", "drop", "leak", "inner"]
CPP_SPECIAL = ["guest", "exports", "wit", "resource-base", "base", "owned", "deleter", "new", "from-handle", "get-handle",
               "into-handle", "resource-drop", "resource-new", "resource-rep", "dtor", "owner", "cabi-post", "cabi-realloc"]

PAIRS = [("foo-bar", "foo-BAR"), ("foo-bar", "FOO-bar"), ("abc", "ABC"), ("a1", "a-1"), ("a-b1", "a-b-1"), ("x-y", "X-Y"),
         ("http2", "http-2"), ("a1b", "a1-b"), ("foo-bar", "foo-bar0"), ("is-ok", "IS-OK")]


def esc(n):
    return "%" + n if n in WIT_KEYWORDS else n


class NameGen:
    WORDS = ["alpha", "beta", "gamma", "delta", "omega", "left", "right", "north", "south", "item", "node", "leaf", "count",
             "label", "color", "shape", "point", "frame", "event", "actor", "token", "chunk", "queue", "table", "field-x",
             "my-thing", "big-one", "get-it", "set-it", "do-work", "x", "y", "z", "q", "w2", "id3"]

    def __init__(self, rng):
        self.rng, self.n, self.used = rng, 0, set()

    def fresh(self):
        while True:
            self.n += 1
            w = self.rng.choice(self.WORDS)
            name = f"{w}-n{self.n}" if self.rng.random() < 0.5 else f"n{self.n}-{w}"
            if name.lower() not in self.used:
                self.used.add(name.lower())
                return name


SLOTS = ["func", "func", "param", "param", "param", "field", "field", "vcase", "ecase", "flag", "rtype", "vtype", "etype",
         "ftype", "alias", "resource", "method", "mparam", "iface", "world", "pkgns", "pkgname", "wfunc", "wparam", "wxfunc",
         "wxparam", "sfunc", "ctorparam"]


def pools(lang):
    if lang == "rust":
        return {"kw": RUST_KEYWORDS, "KW": [k.upper() for k in RUST_KEYWORDS], "prelude": RUST_PRELUDE,
                "locals": RUST_LOCALS, "special": RUST_SPECIAL}
    return {"kw": CPP_KEYWORDS, "KW": [k.upper() for k in CPP_KEYWORDS if k not in ("char8-t", "char16-t", "char32-t")],
            "prelude": CPP_STD, "locals": CPP_LOCALS, "special": CPP_SPECIAL}


def gen_world(rng, lang="rust", n_adv=None, force=None, features=("resource", "flags", "list", "variant"), small=False):
    """force: list of (slot, name, pool) to inject instead of random choices."""
    ng = NameGen(rng)
    P = pools(lang)
    adv = []
    if force is not None:
        inject = list(force)
    else:
        k = n_adv if n_adv is not None else rng.choice([0, 1, 1, 1, 1, 2])
        inject = []
        for _ in range(k):
            r = rng.random()
            pool = "kw" if r < 0.3 else "KW" if r < 0.42 else "prelude" if r < 0.6 else "locals" if r < 0.8 else "special"
            inject.append((rng.choice(SLOTS), rng.choice(P[pool]), pool))
        if force is None and rng.random() < 0.18:
            a, b = rng.choice(PAIRS)
            slot = rng.choice(["func", "param", "field", "vcase", "ecase", "flag", "rtype", "iface", "wfunc"])
            inject.append((slot, a, "pair")); inject.append((slot, b, "pair"))
    by_slot = {}
    for slot, name, pool in inject:
        by_slot.setdefault(slot, []).append((name, pool))
    taken = set()

    def nm(slot):
        """next name for a slot: adversarial if one is pending for it, else benign"""
        lst = by_slot.get(slot)
        if lst:
            name, pool = lst.pop(0)
            if name.lower() in ng.used and pool != "pair":
                return ng.fresh()
            ng.used.add(name.lower())
            adv.append({"slot": slot, "name": name, "pool": pool})
            return name
        return ng.fresh()

    scopes = []
    def scope(kind, of, conv, names):
        scopes.append({"kind": kind, "of": of, "conv": conv, "names": list(names)})

    def take_all(slot, first):
        """first name plus every further pending adversarial name of this slot (pairs land in one scope)"""
        names = [first]
        while by_slot.get(slot):
            names.append(nm(slot))
        return names

    lines = []
    ns, pkg = nm("pkgns"), nm("pkgname")
    lines.append(f"package {esc(ns)}:{esc(pkg)};")
    ifaces = []
    res_ifaces = set()
    n_if = 1 if small else (2 if lang == "cpp" else rng.choice([1, 1, 2]))
    for k in range(n_if):
        names = take_all("iface", nm("iface")) if k == 0 else [nm("iface")]
        for iname in names:
            ifaces.append(iname)
            L = [f"interface {esc(iname)} {{"]
            tnames = []
            # record
            rts = take_all("rtype", nm("rtype"))
            for rt in rts:
                fields = take_all("field", nm("field")) + [nm("field")]
                scope("fields", f"{iname}.{rt}", "snake", fields)
                tys = ["u32", "string", "list<u8>", "f32", "u64"]
                L.append(f"  record {esc(rt)} {{ " + ", ".join(f"{esc(f)}: {tys[i % len(tys)]}" for i, f in enumerate(fields)) + " }")
                tnames.append(rt)
            rt = rts[0]
            # variant
            vt = nm("vtype")
            cases = take_all("vcase", nm("vcase")) + [nm("vcase")]
            scope("cases", f"{iname}.{vt}", "camel", cases)
            L.append(f"  variant {esc(vt)} {{ " + ", ".join(f"{esc(c)}" + ("(string)" if i % 2 == 0 else "") for i, c in enumerate(cases)) + " }")
            tnames.append(vt)
            # enum
            et = nm("etype")
            ecases = take_all("ecase", nm("ecase")) + [nm("ecase")]
            scope("cases", f"{iname}.{et}", "camel", ecases)
            L.append(f"  enum {esc(et)} {{ " + ", ".join(esc(c) for c in ecases) + " }")
            tnames.append(et)
            # flags
            ft = nm("ftype")
            fl = take_all("flag", nm("flag")) + [nm("flag")]
            scope("flags", f"{iname}.{ft}", "shouty", fl)
            L.append(f"  flags {esc(ft)} {{ " + ", ".join(esc(c) for c in fl) + " }")
            tnames.append(ft)
            # alias
            al = nm("alias")
            L.append(f"  type {esc(al)} = {rng.choice(['u32', 'list<string>', 'option<' + esc(rt) + '>', 'tuple<u8, string>'])};")
            tnames.append(al)
            # resource (C++: an exported resource needs a user-written implementation header, so the last
            # interface of a C++ world has none and only resource-free interfaces are exported)
            with_res = "resource" in features and not (lang == "cpp" and (k == n_if - 1) and (n_if > 1 or rng.random() < 0.5))
            if with_res: res_ifaces.add(iname)
            if with_res:
                rs = nm("resource")
                meths = take_all("method", nm("method"))
                sfn = nm("sfunc")
                cp = nm("ctorparam")
                L.append(f"  resource {esc(rs)} {{")
                L.append(f"    constructor({esc(cp)}: u32);")
                scope("params", f"{iname}.{rs}.constructor", "snake", [cp])
                for m in meths:
                    mps = take_all("mparam", nm("mparam")) + [nm("mparam")]
                    scope("params", f"{iname}.{rs}.{m}", "snake", mps)
                    L.append(f"    {esc(m)}: func({esc(mps[0])}: string, " + ", ".join(f"{esc(p)}: u32" for p in mps[1:]) + f") -> {esc(et)};")
                L.append(f"    {esc(sfn)}: static func() -> {esc(rs)};")
                L.append("  }")
                scope("methods", f"{iname}.{rs}", "snake", meths + [sfn])
                tnames.append(rs)
            scope("types", iname, "camel", tnames)
            # functions
            fns = take_all("func", nm("func")) + [nm("func")]
            scope("funcs", iname, "snake", fns)
            for j, fn in enumerate(fns):
                ps = take_all("param", nm("param")) + [nm("param"), nm("param")]
                scope("params", f"{iname}.{fn}", "snake", ps)
                ptys = ["string", "u32", esc(rt), "list<u8>", esc(vt), "option<string>", esc(ft), "list<" + esc(rt) + ">"]
                off = rng.randrange(len(ptys))
                params = ", ".join(f"{esc(p)}: {ptys[(i + off) % len(ptys)]}" for i, p in enumerate(ps))
                res = rng.choice(["", f" -> {esc(vt)}", " -> string", f" -> result<{esc(rt)}, {esc(et)}>", " -> list<string>",
                                  f" -> tuple<u32, {esc(rt)}>"])
                L.append(f"  {esc(fn)}: func({params}){res};")
            # every declared type is used in both directions, so that the generator emits all of them
            ua = ng.fresh()
            L.append(f"  {ua}: func(p1: {esc(rt)}, p2: {esc(vt)}, p3: {esc(et)}, p4: {esc(ft)}, p5: {esc(al)}"
                     + "".join(f", q{k}: {esc(x)}" for k, x in enumerate(rts[1:])) + f") -> tuple<{esc(rt)}, {esc(vt)}, {esc(et)}, {esc(ft)}, {esc(al)}>;")
            L.append("}")
            lines += L
    scope("ifaces", "package", "snake", ifaces)
    w = nm("world")
    L = [f"world {esc(w)} {{"]
    for iname in ifaces:
        L.append(f"  import {esc(iname)};")
    exp_if = [i for i in ifaces if rng.random() < (0.35 if small else 0.7)] or ([] if small else ifaces[:1])
    if lang == "cpp": exp_if = [i for i in ifaces if i not in res_ifaces]
    for iname in exp_if:
        L.append(f"  export {esc(iname)};")
    wf = take_all("wfunc", nm("wfunc"))
    scope("funcs", "world-imports", "snake", wf)
    for fn in wf:
        ps = take_all("wparam", nm("wparam")) + [nm("wparam")]
        scope("params", f"import.{fn}", "snake", ps)
        tys = ["string", "u32", "list<u8>", "option<u32>", "u64"]
        off = rng.randrange(len(tys))
        L.append(f"  import {esc(fn)}: func(" + ", ".join(f"{esc(p)}: {tys[(i + off) % len(tys)]}" for i, p in enumerate(ps)) + ")" + rng.choice(["", " -> string", " -> u32"]) + ";")
    xf = take_all("wxfunc", nm("wxfunc"))
    scope("funcs", "world-exports", "snake", xf)
    for fn in xf:
        ps = take_all("wxparam", nm("wxparam")) + [nm("wxparam")]
        scope("params", f"export.{fn}", "snake", ps)
        tys = ["string", "u32", "list<u8>", "option<u32>"]
        off = rng.randrange(len(tys))
        L.append(f"  export {esc(fn)}: func(" + ", ".join(f"{esc(p)}: {tys[(i + off) % len(tys)]}" for i, p in enumerate(ps)) + ")" + rng.choice(["", " -> string", " -> list<u32>"]) + ";")
    L.append("}")
    lines += L
    meta = {"scopes": scopes, "adversarial": adv, "world": w, "ns": ns, "pkg": pkg, "ifaces": ifaces}
    return "\n".join(lines) + "\n", meta


# ---------------------------------------------------------------------------------------------------------
# multi-package worlds: cross-package type references with deliberately colliding namespace components
NS_POOL = ["wasi", "io", "host", "streams", "my", "exports", "types", "a"]


def multi_pkg_world(rng=None, names=None, export=None, deep=None, sibling=None, resources=True):
    """A world over three packages A:B (user, interfaces C and C2), D:E (interface F) and G:H (interface I):
    C and C2 `use` named types (record, enum, variant, flags, resource) of D:E/F in aliases, fields, payloads,
    parameters and results; F optionally uses a record of G:H/I (3 deep).  `names` = (A,B,C,C2,D,E,F,G,H,I) or drawn
    from the small shared pool NS_POOL so that every shadowing pattern between namespace components occurs.
    `export`: the world also exports C2 (which has no resource); `sibling`: name of an extra interface of A:B."""
    if names is None:
        while True:
            names = tuple(rng.choice(NS_POOL) for _ in range(10))
            A, B, C, C2, D, E, F, G, H, I = names
            if len({(A, B), (D, E), (G, H)}) == 3 and C != C2: break
    A, B, C, C2, D, E, F, G, H, I = names
    if export is None: export = rng.random() < 0.6
    if deep is None: deep = rng.random() < 0.5
    if sibling is None and rng is not None and rng.random() < 0.4:
        sibling = rng.choice([x for x in NS_POOL if x not in (C, C2)] or [None])
    e = esc
    use3 = f"    use {e(G)}:{e(H)}/{e(I)}.{{t3}};\n" if deep else ""
    fld3 = ", b: t3" if deep else ""
    res = "    resource res { m: func() -> u32; }\n" if resources else ""
    L = [f"package {e(A)}:{e(B)};", ""]
    def user_iface(name, with_res):
        names_used = "rec, en, va, fl" + (", res" if with_res else "")
        out = [f"interface {e(name)} {{", f"  use {e(D)}:{e(E)}/{e(F)}.{{{names_used}}};",
               "  type al = rec;", "  record r2 { x: rec, y: option<en>, z: list<al> }",
               "  variant v2 { one(va), two(fl), three }",
               "  f1: func(p: rec, q: list<en>) -> va;", "  f2: func(p: r2, q: fl) -> result<v2, en>;",
               "  f3: func(p: al) -> tuple<rec, en>;"]
        if with_res: out.append("  f4: func(p: borrow<res>, q: own<res>) -> own<res>;")
        out.append("}")
        return out
    L += user_iface(C, resources)
    L += user_iface(C2, False)
    if sibling: L += [f"interface {e(sibling)} {{ record sib {{ s: u32 }} g: func(p: sib) -> sib; }}"]
    L += [f"world w {{", f"  import {e(C)};"] + ([f"  import {e(sibling)};"] if sibling else []) + \
         ([f"  export {e(C2)};"] if export else [f"  import {e(C2)};"]) + ["}", ""]
    L += [f"package {e(D)}:{e(E)} {{", f"  interface {e(F)} {{", use3.rstrip("\n") if use3 else "",
          f"    record rec {{ a: u32{fld3} }}", "    enum en { x, y }", "    variant va { n, s(string) }",
          "    flags fl { p, q }", res.rstrip("\n"), "  }", "}"]
    if deep:
        L += [f"package {e(G)}:{e(H)} {{", f"  interface {e(I)} {{ record t3 {{ z: u8 }} }}", "}"]
    wit = "\n".join(x for x in L if x != "") + "\n"
    return wit, {"adversarial": [{"slot": "namespaces", "name": "/".join(names), "pool": "ns-pool"}], "names": names,
                 "export": export, "deep": deep, "sibling": sibling}


def shadow_patterns():
    """the must-run namespace-shadowing patterns (names = A,B,C,C2,D,E,F,G,H,I)"""
    P = {
        "dep-ns = user package name": ("my", "wasi", "host", "host2", "wasi", "io", "streams", "x", "y", "z"),
        "dep-ns = user interface name": ("my", "pkg", "wasi", "host2", "wasi", "io", "streams", "x", "y", "z"),
        "dep-ns = user namespace (same ns, other package)": ("wasi", "host", "api", "api2", "wasi", "io", "streams", "x", "y", "z"),
        "user-ns = dep package name": ("io", "host", "api", "api2", "wasi", "io", "streams", "x", "y", "z"),
        "user package name = dep interface name": ("my", "streams", "api", "api2", "wasi", "io", "streams", "x", "y", "z"),
        "dep-ns = exports": ("my", "pkg", "api", "api2", "exports", "io", "streams", "x", "y", "z"),
        "user interface = exports": ("my", "pkg", "exports", "api2", "wasi", "io", "streams", "x", "y", "z"),
        "3-deep: third ns = second package name": ("my", "pkg", "api", "api2", "wasi", "io", "streams", "io", "deep", "types"),
        "3-deep: third ns = user package name": ("my", "deep", "api", "api2", "wasi", "io", "streams", "deep", "x", "types"),
        "all distinct (control)": ("aa", "bb", "cc", "cc2", "dd", "ee", "ff", "gg", "hh", "ii"),
    }
    out = []
    for note, names in P.items():
        for export in (False, True):
            out.append((note + (", exported" if export else ", imported"),
                        multi_pkg_world(names=names, export=export, deep=True, sibling=None)))
    # a sibling interface of the user's package named like the dependency's namespace
    out.append(("sibling interface named like the dependency namespace",
                multi_pkg_world(names=("my", "pkg", "host", "host2", "wasi", "io", "streams", "x", "y", "z"), export=False, deep=False, sibling="wasi")))
    return out
