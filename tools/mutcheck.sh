#!/bin/bash
# tools/mutcheck.sh <ID> <patch.diff> [tier]   — run a check against a scratch copy of /repo with the patch
# applied (never touches /repo; evidence/replays of the mutant run go to /tmp/mutcheck/<ID>/).
set -u
ID=$1; PATCH=$(realpath "$2"); TIER=${3:-quick}
W=/tmp/mutcheck/$ID; rm -rf "$W"; mkdir -p "$W"
git -C /repo worktree add --detach "$W/repo" >/dev/null 2>&1 || { echo "worktree failed"; exit 2; }
if ! git -C "$W/repo" apply "$PATCH"; then echo "patch does not apply"; git -C /repo worktree remove --force "$W/repo"; exit 2; fi
cd /verif
VERIF_REPO="$W/repo" VERIF_EVIDENCE_DIR="$W/evidence" VERIF_REPLAY_DIR="$W/replays" ./check "$ID" "$TIER" > "$W/out.txt" 2> "$W/err.txt"
rc=$?
grep -E "^VIOLATION" "$W/out.txt" | cut -c1-200 | head -12
echo "known-finding lines: $(grep -c "^KNOWN-FINDING" "$W/out.txt")"
tail -1 "$W/out.txt"
echo "exit=$rc"
git -C /repo worktree remove --force "$W/repo"
exit $rc
