#!/usr/bin/env python3
"""tools/mutprep.py <ID>... — prepare a scratch worktree /tmp/mut/<ID> of /repo and the prompt
/tmp/mut/<ID>.prompt.txt (property text only; nothing from /verif) for a mutation sub-agent."""
import json, os, subprocess, sys
props = {json.loads(l)["id"]: json.loads(l) for l in open("/verif/properties.jsonl")}
tmpl = open("/verif/tools/mutation_prompt.txt").read()
os.makedirs("/tmp/mut", exist_ok=True)
for pid in sys.argv[1:]:
    wt = f"/tmp/mut/{pid}"
    if not os.path.isdir(wt):
        subprocess.run(["git", "-C", "/repo", "worktree", "add", "--detach", wt], check=True, capture_output=True)
    p = props[pid]
    text = (f"{p['id']} — {p['title']}\n\nStatement: {p['statement']}\n\nQuantified over: {p['quantifier']['text']}\n\n"
            f"Anchored in: " + "; ".join(f"{m['name']} ({m['where']})" for m in p["anchors"]["mechanism"]))
    open(f"/tmp/mut/{pid}.prompt.txt", "w").write(tmpl.replace("{WT}", wt).replace("{ID}", pid).replace("{PROP}", text).replace("{{", "{").replace("}}", "}"))
    print(pid, wt)
