"""Seeded generator of multi-interface WIT worlds as *blocks* (lists of lines that can be deleted
independently by a shrinker), on top of tools/witgen.py.  Used by C29 (doc comments everywhere) and by the
backend half of C16 (every type constructor in every position).

    blocks, stats = gen_world2(rng, features=..., docgen=..., ...)
    text = render(blocks)

Positions covered: function parameters / results, record fields, variant payloads, named type aliases
(`type t = <any anonymous type>;`, incl. future/stream/own/borrow when enabled), world-level types and
functions, `use` of interface types in the world, resources with constructor / methods / statics, async
functions, interfaces that are imported only, exported only, or both, names shared between interfaces.

`features_of(text)`: the optional WIT features a text uses (by syntax), for attributing a backend panic to a
declared-unsupported feature after shrinking.
"""
import re
import witgen

ALL_FEATURES = {"map", "flist", "future", "stream", "errctx", "resource", "bigflags",
                "async", "typedef-future", "typedef-stream", "typedef-handle", "world-items"}


def split_members(body):
    """split the text between the outer braces of a one-line record/variant/enum/flags at top-level commas"""
    out, depth, cur = [], 0, ""
    for ch in body:
        if ch in "<(":
            depth += 1
        elif ch in ">)":
            depth -= 1
        if ch == "," and depth == 0:
            out.append(cur.strip()); cur = ""
        else:
            cur += ch
    if cur.strip():
        out.append(cur.strip())
    return out


def def_block(text, docgen, ind="  "):
    """one-line definition of witgen -> block of lines, members on their own lines, with docs"""
    lines = []
    if docgen:
        lines += [ind + "/// " + d if d else ind + "///" for d in docgen("type")]
    m = re.match(r"(record|variant|enum|flags) (\S+) \{ (.*) \}$", text)
    if not m or len(text) > 4000:
        return lines + [ind + text + (";" if text.startswith("type") else "")]
    kind, name, body = m.groups()
    lines.append(f"{ind}{kind} {name} {{")
    for k, mem in enumerate(split_members(body)):
        if docgen and k < 8:
            lines += [ind + "  /// " + d if d else ind + "  ///" for d in docgen("member")]
        lines.append(f"{ind}  {mem},")
    lines.append(ind + "}")
    return lines


def gen_iface(rng, name, features, docgen, nfuncs, max_depth, with_resource, typedefs=3, direct_result=False):
    g = witgen.Gen(rng, max_depth=max_depth, features=(set(features) & {"map", "flist", "future", "stream", "errctx", "resource", "bigflags"}) | {"_"})
    if not with_resource:
        g.features = g.features - {"resource"}
    blocks = []
    funcs = []
    for i in range(nfuncs):
        r = rng.random()
        np = 0 if r < 0.15 else rng.randint(1, 3) if r < 0.8 else rng.randint(1, 6)
        params = ", ".join(f"p{j}: {g.ty(rng.choice([0, 1, 2]), True)}" for j in range(np))
        res = f" -> {g.ty(rng.choice([0, 1]), False)}" if rng.random() < 0.8 else ""
        a = "async " if "async" in features and rng.random() < 0.25 else ""
        funcs.append(f"  f{i}: {a}func({params}){res};")
    if direct_result:
        # a function whose result is DIRECTLY a result without error payload (`result<T>` / bare `result`):
        # the flattened-return special cases of the backends (e.g. C's Scalar::ResultBool)
        r = rng.random()
        res = "result" if r < 0.35 else f"result<{g.ty(rng.choice([1, 2, 3]), False)}>" if r < 0.85 else f"result<_, {g.ty(2, False)}>"
        p = "" if rng.random() < 0.5 else f"x: {g.ty(2, True)}"
        funcs.append(f"  fr: func({p}) -> {res};")
        g.count("direct-result")
    # named aliases of anonymous types: every `type_*` callback of define_type
    aliases = []
    for i in range(typedefs):
        k = rng.choice(["option", "result", "list", "tuple", "prim", "ref", "map", "flist", "future", "stream", "own", "borrow"])
        t = None
        if k == "option": t = f"option<{g.ty(2)}>"
        elif k == "result": t = rng.choice([f"result<{g.ty(2)}, {g.ty(2)}>", f"result<_, {g.ty(2)}>", f"result<{g.ty(2)}>", "result"])
        elif k == "list": t = f"list<{g.ty(2)}>"
        elif k == "tuple": t = f"tuple<{g.ty(2)}, {g.ty(2)}>"
        elif k == "prim": t = rng.choice(witgen.PRIMS + (["error-context"] if "errctx" in features else []))
        elif k == "ref" and g.defs: t = rng.choice(g.defs)[0]
        elif k == "map" and "map" in features: t = f"map<{rng.choice(witgen.KEYS)}, {g.ty(2)}>"
        elif k == "flist" and "flist" in features: t = f"list<{g.ty(3)}, {rng.choice([1, 2, 4])}>"
        elif k == "future" and "typedef-future" in features: t = rng.choice([f"future<{g.ty(3)}>", "future"])
        elif k == "stream" and "typedef-stream" in features: t = rng.choice([f"stream<{g.ty(3)}>", "stream"])
        elif k == "own" and "typedef-handle" in features and with_resource and "resource" in features: t = "own<res>"
        elif k == "borrow" and "typedef-handle" in features and with_resource and "resource" in features: t = "borrow<res>"
        if t:
            aliases.append((f"t{i}", f"type t{i} = {t}"))
            g.count("typedef-" + k)
    if docgen:
        blocks.append(["/// " + d if d else "///" for d in docgen("iface")])
    blocks.append([f"interface {name} {{"])
    if with_resource and "resource" in g.features:
        b = []
        if docgen:
            b += ["  /// " + d if d else "  ///" for d in docgen("type")]
        b.append("  resource res {")
        for l in ["constructor(x: u32);", "m0: func(y: u32) -> u32;", "m1: func(z: string, w: list<u8>) -> string;",
                  "s0: static func(a: u8) -> u8;"] + (["am: async func(q: u8) -> u8;"] if "async" in features and rng.random() < 0.5 else []):
            if docgen and rng.random() < 0.5:
                b += ["    /// " + d if d else "    ///" for d in docgen("func")]
            b.append("    " + l)
        b.append("  }")
        blocks.append(b)
    for _, d in g.defs:
        blocks.append(def_block(d, docgen))
    for _, d in aliases:
        blocks.append(def_block(d, docgen))
    for f in funcs:
        b = []
        if docgen:
            b += ["  /// " + d if d else "  ///" for d in docgen("func")]
        b.append(f)
        blocks.append(b)
    blocks.append(["}"])
    names = [n for n, _ in g.defs] + [n for n, _ in aliases]
    return blocks, g.stats, names


def gen_world2(rng, features=None, docgen=None, max_ifaces=3, nfuncs=4, max_depth=3, direct_result=False):
    features = ALL_FEATURES if features is None else set(features)
    blocks = [["package t:t;"]]
    stats = {}
    n = rng.randint(1, max_ifaces)
    ifaces = []
    for k in range(n):
        b, st, names = gen_iface(rng, f"i{k}", features, docgen, rng.randint(0 if k else 1, nfuncs), max_depth,
                                 with_resource=(k == 0 or rng.random() < 0.3), direct_result=direct_result and k == 0)
        blocks += b
        ifaces.append((f"i{k}", names))
        for key, v in st.items():
            stats[key] = stats.get(key, 0) + v
    if docgen:
        blocks.append(["/// " + d if d else "///" for d in docgen("world")])
    blocks.append(["world w {"])
    for name, names in ifaces:
        mode = rng.choice(["import", "export", "both", "both"])
        stats["iface-" + mode] = stats.get("iface-" + mode, 0) + 1
        if mode in ("import", "both"): blocks.append([f"  import {name};"])
        if mode in ("export", "both"): blocks.append([f"  export {name};"])
    if "world-items" in features:
        g = witgen.Gen(rng, max_depth=2, features=(features & {"map", "flist", "future", "stream", "errctx", "bigflags"}) | {"_"})
        g.n = 100           # world-level names r101… do not clash with names brought in by `use`
        items, used = [], set()
        for j in range(rng.randint(0, 3)):
            kind = rng.choice(["ifunc", "efunc", "type", "use"])
            b = []
            if docgen and rng.random() < 0.7:
                b += ["  /// " + d if d else "  ///" for d in docgen("func")]
            if kind == "ifunc":
                b.append(f"  import wf{j}: func(a: {g.ty(1, False)}) -> {g.ty(1, False)};")
            elif kind == "efunc":
                a = "async " if "async" in features and rng.random() < 0.3 else ""
                b.append(f"  export wg{j}: {a}func(a: {g.ty(1, False)});")
            elif kind == "type":
                b.append(f"  type wt{j} = {g.ty(1, False)};")
            else:
                name, names = rng.choice(ifaces)
                cand = [x for x in names if x not in used]
                if not cand: continue
                pick = rng.choice(cand)
                used.add(pick)
                b.append(f"  use {name}.{{{pick}}};")
            stats["world-" + kind] = stats.get("world-" + kind, 0) + 1
            items.append(b)
        for _, d in g.defs:
            blocks.append(def_block(d, docgen))
        blocks += items
        for key, v in g.stats.items():
            stats[key] = stats.get(key, 0) + v
    blocks.append(["}"])
    return blocks, stats


def render(blocks):
    return "\n".join(l for b in blocks for l in b) + "\n"


def features_of(text):
    """optional features used by a WIT text (syntactic)"""
    t = re.sub(r"///[^\n]*", "", text)
    f = set()
    if re.search(r"\bmap<", t): f.add("map")
    if re.search(r"\blist<[^;{}]*,\s*\d+>", t): f.add("flist")
    if re.search(r"\bfuture\b", t): f.add("future")
    if re.search(r"\bstream\b", t): f.add("stream")
    if "error-context" in t: f.add("errctx")
    if re.search(r"\bresource\b", t): f.add("resource")
    if re.search(r"\basync\b", t): f.add("async")
    if re.search(r"\btype\s+\S+\s*=\s*future\b", t): f.add("typedef-future")
    if re.search(r"\btype\s+\S+\s*=\s*stream\b", t): f.add("typedef-stream")
    if re.search(r"\btype\s+\S+\s*=\s*(own|borrow)<", t): f.add("typedef-handle")
    for m in re.finditer(r"\bflags\s+\S+\s*\{([^}]*)\}", t):
        if m.group(1).count(",") + 1 > 32: f.add("bigflags")
    return f


def ddmin(items, test, budget):
    """greedy chunked deletion: returns (smaller list on which `test` still holds, evaluations used)"""
    cur, n_eval = list(items), 0
    chunk = max(1, len(cur) // 2)
    while n_eval < budget and cur:
        i, changed = 0, False
        while i < len(cur) and n_eval < budget:
            cand = cur[:i] + cur[i + chunk:]
            n_eval += 1
            if test(cand):
                cur, changed = cand, True
            else:
                i += chunk
        if chunk > 1:
            chunk //= 2
        elif not changed:
            break
    return cur, n_eval


def shrink_blocks(blocks, failing, budget=250):
    """delta debugging over blocks, then over the lines inside each remaining block (doc lines, members);
    `failing(blocks)` -> bool.  Returns (shrunk blocks, number of evaluations)."""
    cur, used = ddmin([list(b) for b in blocks], lambda cand: bool(cand) and failing(cand), budget)
    for bi in sorted(range(len(cur)), key=lambda k: -len(cur[k])):
        if used >= budget: break
        if len(cur[bi]) < 2: continue
        def test(lines, bi=bi):
            if not lines: return False
            cand = [list(b) for b in cur]; cand[bi] = lines
            return failing(cand)
        cur[bi], n = ddmin(cur[bi], test, budget - used)
        used += n
    return [b for b in cur if b], used


if __name__ == "__main__":
    import random, sys
    rng = random.Random(int(sys.argv[1]) if len(sys.argv) > 1 else 1)
    b, st = gen_world2(rng, docgen=(lambda where: ["doc of " + where]) if len(sys.argv) > 2 else None)
    print(render(b)); print(st, file=sys.stderr)
