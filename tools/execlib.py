"""Script generator for harness/rt-native engine `exec` (C22, C23).  See harness/rt-native/README.md
(section "Engine exec") for the script language.  One PRNG (the check's `c.rng`)."""
import rtlib

BUILDS = {"default": None, "async-spawn": "async-spawn", "inter-task-wakeup": "inter-task-wakeup"}


def gen_body(rng, build, mine, nbodies, j, maxbody, stats, root, can_spawn, first_task, block=False):
    """one body program; `mine` = the calls this body uses (mostly), `can_spawn` = children it may spawn"""
    itw = build == "inter-task-wakeup"
    body, created, pending = [], [], False
    n = rng.randint(1, maxbody)
    spawn_left = list(can_spawn)
    if block and j == 0 and mine and rng.random() < 0.85:
        # block_on: register something first (the waitable set exists from then on; known finding otherwise)
        k = mine[0]
        created.append(k)
        body += [f"c{k}", f"p{k}"]
        pending = True
    for _ in range(n):
        r = rng.random()
        if spawn_left and r < 0.25:
            body.append(f"s{spawn_left.pop(0)}")
        elif r < 0.50 and mine:
            fresh = [k for k in mine if k not in created]
            r2 = rng.random()
            if fresh and (r2 < 0.45 or not created):
                k = fresh[0]
                created.append(k)
                body.append(f"c{k}")
                if rng.random() < 0.8:
                    body.append(f"p{k}" if rng.random() < 0.6 else f"a{k}")
                    pending = True
            else:
                k = rng.choice(created) if created and rng.random() < 0.95 else rng.choice(mine)
                op = rng.choice(["p", "p", "a", "a", "d", "m"])
                body.append(f"{op}{k}")
        elif r < 0.62:
            body.append("y")
        elif r < 0.80:
            # going to sleep on a Rust-only event: usually with a captured waker, so that somebody can wake
            if not itw and (not pending or rng.random() < 0.5) and rng.random() < 0.9:
                body.append("y")          # (documented panic otherwise)
            else:
                if rng.random() < 0.75:
                    body.append(f"k{rng.randrange(4) if rng.random() < 0.3 else j % 4}")
                body.append("w")
        elif r < 0.86:
            body.append(f"W{rng.randrange(4) if rng.random() < 0.4 else (j + 1) % 4}")
        elif r < 0.90:
            body.append(f"g{rng.randrange(4) if rng.random() < 0.3 else j % 4}")
        elif r < 0.93:
            body.append(f"x{rng.randrange(4)}")
        elif r < 0.96 and root:
            body.append("r")
        else:
            body.append(f"k{rng.randrange(4)}")
    if stats is not None:
        for t in body: stats["body:" + t[0]] += 1
    return body


def gen_exec_script(rng, build, maxcalls, maxbody, stats=None):
    driver = "start" if rng.random() < 0.8 else "block"
    ncalls = rng.randint(0, maxcalls) if driver == "start" or rng.random() < 0.15 else rng.randint(1, maxcalls)
    specs = [rtlib.gen_callspec(rng) for _ in range(ncalls)]
    spawn = build == "async-spawn"
    nchildren = rng.choice([0, 1, 1, 2, 3]) if spawn else rng.choice([0, 0, 0, 1])
    second = driver == "start" and rng.random() < (0.45 if build == "inter-task-wakeup" else 0.2)
    nbodies = 1 + nchildren + (1 if second else 0)
    # partition the calls among the bodies
    owner = [rng.randrange(nbodies) for _ in range(ncalls)]
    children = list(range(1, 1 + nchildren))
    bodies = []
    for j in range(nbodies):
        mine = [k for k in range(ncalls) if owner[k] == j]
        if rng.random() < 0.05 and ncalls:
            mine = mine + [rng.randrange(ncalls)]
        if j == 0:
            cs = children[:]
        elif j in children:
            cs = [c for c in children if c > j and rng.random() < 0.3]
        else:
            cs = []
        root = j == 0 or (second and j == nbodies - 1)
        bodies.append(gen_body(rng, build, mine, nbodies, j, maxbody, stats, root, cs, j == 0, driver == "block"))
    host = []
    m = rng.randint(0, 2 * maxbody)
    started2 = False
    for _ in range(m):
        if driver == "start" and rng.random() < 0.12:
            # the window between a YIELD answer and the callback that resumes the task: the host holds the yielded
            # task back for one directive — mostly a wake from outside or another task starting (its body wakes)
            host.append("P")
            r0 = rng.random()
            if r0 < 0.45:
                host.append(f"K{rng.randrange(4) if rng.random() < 0.5 else 0}")
                continue
            if r0 < 0.75 and second and not started2:
                host.append(f"S{nbodies - 1}")
                started2 = True
                continue
        r = rng.random()
        if r < 0.30 and ncalls:
            k = rng.randrange(ncalls)
            host.append(f"A{k}:{rng.choice([1, 1, 2, 2, 2, 0, 3, 4])}")
        elif r < 0.55 and ncalls:
            host.append(f"D{rng.randrange(ncalls)}")
        elif r < 0.68:
            host.append("U")
        elif r < 0.82:
            host.append(f"K{rng.randrange(4) if rng.random() < 0.5 else 0}")
        elif r < 0.86:
            host.append(f"Z{rng.randrange(4)}")
        elif r < 0.93 and second and not started2:
            host.append(f"S{nbodies - 1}")
            started2 = True
        elif r < 0.97:
            host.append(f"X{rng.choice([1, 1, 2])}")
        elif nbodies > 1:
            host.append(f"S{rng.randrange(1, nbodies)}")
    if second and not started2 and rng.random() < 0.8:
        host.insert(rng.randrange(len(host) + 1), f"S{nbodies - 1}")
    # wakes after everything is over (wake_after_exit)
    if rng.random() < 0.25:
        host += [f"X{rng.choice([1, 2])}"] if rng.random() < 0.5 else []
        host += [f"K{rng.randrange(4)}" for _ in range(rng.randint(1, 2))]
    if stats is not None:
        stats["driver:" + driver] += 1
        stats["calls:%d" % ncalls] += 1
        stats["bodies:%d" % nbodies] += 1
        if second: stats["second-task"] += 1
        for t in host: stats["host:" + t[0]] += 1
    return f"{driver} | {' '.join(specs)} | {' ; '.join(' '.join(b) for b in bodies)} | {' '.join(host)}"
