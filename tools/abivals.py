"""Type-term parser and seeded value generator for the ABI checks (C01–C03, C05, C10).
Type terms are the S-expressions printed by harness/abi-trace; value terms are what
lean/Drivers/AbiParse.lean `toVal` reads."""


def parse(s):
    toks = s.replace("(", " ( ").replace(")", " ) ").split()
    pos = 0

    def rd():
        nonlocal pos
        t = toks[pos]; pos += 1
        if t == "(":
            out = []
            while toks[pos] != ")":
                out.append(rd())
            pos += 1
            return out
        return t
    return rd()


INT = {"s8": (-2**7, 2**7 - 1), "u8": (0, 2**8 - 1), "s16": (-2**15, 2**15 - 1), "u16": (0, 2**16 - 1),
       "s32": (-2**31, 2**31 - 1), "u32": (0, 2**32 - 1), "s64": (-2**63, 2**63 - 1), "u64": (0, 2**64 - 1)}
F32_EDGE = [0, 0x80000000, 0x7fc00000, 0x7fc00001, 0xffc12345, 0x7f800000, 0x3f800000, 1, 0xffffffff]
F64_EDGE = [0, 1 << 63, 0x7ff8000000000000, 0x7ff8000000000001, 0xfff0000000000000, 0x3ff0000000000000, 2**64 - 1]
CHARS = [0, 0x41, 0x7f, 0x80, 0x7ff, 0x800, 0xd7ff, 0xe000, 0xffff, 0x10000, 0x10ffff]


def gen(rng, t, depth=0, edge=False):
    """value term (string) of type term t"""
    if isinstance(t, str):
        if t == "bool": return f"(b {rng.randint(0, 1)})"
        if t in INT:
            lo, hi = INT[t]
            if edge or rng.random() < 0.4:
                return f"(i {rng.choice([lo, hi, 0, -1 if lo < 0 else 1, hi // 2 + 1, lo // 2])})"
            return f"(i {rng.randint(lo, hi)})"
        if t == "f32": return f"(f32 {rng.choice(F32_EDGE) if edge or rng.random() < 0.5 else rng.getrandbits(32)})"
        if t == "f64": return f"(f64 {rng.choice(F64_EDGE) if edge or rng.random() < 0.5 else rng.getrandbits(64)})"
        if t == "char": return f"(c {rng.choice(CHARS)})"
        if t == "string":
            n = rng.choice([0, 0, 1, 2, 5, 17]) if depth < 3 else rng.choice([0, 1])
            s = "".join(rng.choice("aZ é€😀") for _ in range(n)).encode()
            return "(s" + "".join(f" {b}" for b in s) + ")"
        if t in ("own", "borrow", "errctx"): return f"(h {rng.choice([0, 1, 7, 2**32 - 1, rng.getrandbits(20)])})"
        raise ValueError(t)
    k = t[0]
    d = depth + 1
    if k == "list":
        n = rng.choice([0, 1, 2, 3, 17]) if depth < 2 else rng.choice([0, 1, 2])
        return "(l" + "".join(" " + gen(rng, t[1], d, edge) for _ in range(n)) + ")"
    if k == "flist":
        return "(l" + "".join(" " + gen(rng, t[1], d, edge) for _ in range(int(t[2]))) + ")"
    if k == "map":
        n = rng.choice([0, 1, 2, 4]) if depth < 2 else rng.choice([0, 1])
        return "(l" + "".join(f" (r {gen(rng, t[1], d, edge)} {gen(rng, t[2], d, edge)})" for _ in range(n)) + ")"
    if k in ("record", "tuple"):
        return "(r" + "".join(" " + gen(rng, f, d, edge) for f in t[1:]) + ")"
    if k == "flags":
        n = int(t[1])
        if n == 0: return "(fl)"
        mode = rng.choice(["rand", "ones", "zeros", "last"])
        bits = {"rand": [rng.randint(0, 1) for _ in range(n)], "ones": [1] * n, "zeros": [0] * n,
                "last": [0] * (n - 1) + [1]}[mode]
        return "(fl " + "".join(map(str, bits)) + ")"
    if k == "enum":
        n = int(t[1])
        return f"(e {rng.choice([0, n - 1, rng.randrange(n)])})"
    if k == "variant":
        cs = t[1:]
        i = rng.choice([0, len(cs) - 1, rng.randrange(len(cs))])
        return f"(var {i})" if cs[i] == "_" else f"(var {i} {gen(rng, cs[i], d, edge)})"
    if k == "option":
        return "(var 0)" if rng.random() < 0.35 else f"(var 1 {gen(rng, t[1], d, edge)})"
    if k == "result":
        i = rng.randint(0, 1)
        c = t[1 + i]
        return f"(var {i})" if c == "_" else f"(var {i} {gen(rng, c, d, edge)})"
    if k in ("future", "stream"):
        return f"(h {rng.choice([1, 3, 2**31, rng.getrandbits(16)])})"
    raise ValueError(t)


def kinds(t, acc=None):
    """set of constructor names occurring in a type term"""
    acc = set() if acc is None else acc
    if isinstance(t, str):
        if t != "_": acc.add(t)
    else:
        acc.add(t[0])
        for x in t[1:]:
            if not (isinstance(x, str) and x.isdigit()): kinds(x, acc)
    return acc
