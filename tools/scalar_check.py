"""Shared steps of the C14 check and of the backend half of the C04 check (checks/C14.py, checks/c04_backends.py).

  step_translate(c)   run the real generators on the probe worlds, regenerate Generated/{ScalarExprs,CastExprs}.lean,
                      report translator problems (broken correspondence) and not-well-formed emitted text (finding)
  step_proofs(c, ..)  lake build + axiom audit of the fixed theorem files against the regenerated tables
  sweep_scalars(c,..) search (DESIGN §4): evaluate every extracted expression against Spec (Lean driver m_scalar) on all
                      2^8 (thorough: 2^16) inputs + boundary / random 32- and 64-bit inputs, both debug settings
  sweep_casts(c, ..)  same for the Bitcast expressions and their round trips
  native_langs(c,..)  validate Scalar/Langs.lean for Rust, C, C++: compile the extracted snippets natively, run them on
                      boundary + random inputs, compare bit-for-bit with the Lean evaluation of the parsed expression
"""
import os, re, json, hashlib, subprocess, shutil
from vlib import run_lines, sh, VERIF, LEAN, BUILD
import scalar_translate as T

CAP = {"rust": "Rust", "c": "C", "cpp": "Cpp", "csharp": "CSharp", "go": "Go", "moonbit": "MoonBit", "d": "D"}

B32 = [0, 1, 2, 3, 0x7f, 0x80, 0x81, 0xfe, 0xff, 0x100, 0x101, 0x17f, 0x180, 0x1ff, 0x200, 0x7fff, 0x8000, 0x8001, 0xffff,
       0x10000, 0x10001, 0x18000, 0x1ffff, 0xd7ff, 0xd800, 0xdbff, 0xdfff, 0xe000, 0xfffd, 0x10ffff, 0x110000,
       0x7fffffff, 0x80000000, 0x80000001, 0xffffff00, 0xffffff7f, 0xffffff80, 0xffffffff, 0xfffffffe, 0xffff0000,
       0xffff7fff, 0xffff8000, 0x12345678, 0x7fc00000, 0xffc00001, 0x7f800001, 0x00000100, 0x01000000]
B64 = B32 + [0x100000000, 0x100000001, 0x7fffffffffffffff, 0x8000000000000000, 0xffffffffffffffff, 0xffffffff00000000,
             0x0123456789abcdef, 0xffffffff80000000, 0xffffffff7fffffff, 0x7ff8000000000001, 0xfff0000000000000,
             0x00000000ffffffff, 0xdeadbeef00000005, 0xdeadbeefffffff80, 0xdeadbeef00000100]


def read_corpus(name):
    p = os.path.join(VERIF, "corpus", name)
    if not os.path.exists(p):
        return []
    return [l.split() for l in open(p) if l.strip() and not l.startswith("#")]


def fp(text):
    return hashlib.sha1(text.encode()).hexdigest()[:8]


def step_translate(c, want_casts=True, want_scalars=True):
    gen = c.cargo_build("gen-run")
    if not gen:
        return None
    rep = T.translate(gen)
    c.cov["translator"] = {
        "probe_worlds": rep["probes"], "sites_extracted": len(rep["sites"]),
        "sites_with_problems": len(rep["problems"]), "generator_failures": len(rep["gen_failures"]),
        "generated_files_rewritten": rep["files_changed"],
        "scalar_lists": len(rep["lists"]), "scalar_entries_after_merging_sides": sum(rep["lists"].values()),
        "cast_lists": len(rep["cast_lists"]), "cast_entries": sum(rep["cast_lists"].values()),
        "round_trip_guard": "every snippet parsed by tools/scalar_parse.py, pretty-printed and compared modulo whitespace",
        "declared_types_found": {
            "operand": sum(1 for s in rep["sites"] if s["opTy"]), "destination": sum(1 for s in rep["sites"] if s["dstTy"]),
            "of": len(rep["sites"])},
    }
    for g in rep["gen_failures"]:
        c.broken.append((f"generator {g['backend']} on probe {g['probe']}", g["error"]))
    for p in rep["problems"]:
        is_scalar = "wty" in p
        if (is_scalar and not want_scalars) or (not is_scalar and not want_casts):
            continue
        if p["problem_kind"] == "malformed":
            instr = p["list"].split("_", 1)[1]
            c.spec_violation(f"not-well-formed:{p['backend']}:{instr}",
                             f"{p['backend']} emits an expression that is not well-formed in the target language for {instr}",
                             {"site": p["key"], "snippet": p["snippet"], "file": p["file"], "detail": p["problem"]})
        else:
            c.broken.append((f"translator:{p['key']}", p["problem"]))
    if want_scalars:
        fl = rep["flags"]
        c.cov["flags_probes"] = {"probes": fl["probes"], "generation_refused": fl["generation_refused"],
                                 "statements_not_well_formed": len(fl["malformed"]),
                                 "note": "FlagsLower/FlagsLift pieces are only checked for bracket balance, not modelled"}
        seen_m = set()
        for m in fl["malformed"]:
            k = (m["backend"], m["flags"])
            if k in seen_m:
                continue
            seen_m.add(k)
            width = "u64" if m["flags"] > 32 else ("u32" if m["flags"] > 16 else ("u16" if m["flags"] > 8 else "u8"))
            c.spec_violation(f"not-well-formed:{m['backend']}:FlagsLower-{width}",
                             f"{m['backend']} emits a statement with unbalanced parentheses when lowering flags with {m['flags']} members ({width} representation)",
                             {"backend": m["backend"], "flags_members": m["flags"], "file": m["file"],
                              "statements": [x["statement"] for x in fl["malformed"] if (x["backend"], x["flags"]) == k][:4],
                              "probe_wit": T.wit_flags(m["flags"])})
    # coverage of sites: 8 per (backend, scalar type), 2 per (backend, cast probe)
    if want_scalars:
        seen = {(s["backend"], s["wty"], s["dir"], s["pos"], s["side"]) for s in rep["sites"] if "wty" in s and "probe" not in s}
        missing = [(b, t, d, p, sd) for b in T.BACKENDS for t in T.WTYS for d in ("lower", "lift") for p in ("flat", "mem")
                   for sd in ("import", "export") if (b, t, d, p, sd) not in seen]
        if missing:
            c.broken.append(("translator: sites missing", json.dumps(missing[:10])))
    return rep


def step_proofs(c, modules):
    ok = c.lake_build(modules[:1])          # the top-level module imports the per-backend ones
    if ok:
        for m in modules:
            c.audit(m, allow_bv_decide=True)
        if c.tier == "thorough":
            c.leanchecker(modules[0])
    bv = sorted(n for n, axs in c.theorems.items() if any("bv_decide" in a for a in axs))
    c.cov["theorems_depending_on_bv_decide_axioms"] = {"count": len(bv), "of": len(c.theorems), "names": bv}
    c.cov["theorems_with_core_axioms_only"] = sorted(n for n, axs in c.theorems.items() if not any("bv_decide" in a for a in axs))
    return ok


def driver(c):
    return c.model_exe("m_scalar")


def sweep_scalars(c, rep, model):
    """every extracted scalar expression vs Spec; returns per-entry failure table"""
    wide = c.tier == "thorough"
    reqs, meta = [], []
    by_list = {}
    for s in rep["sites"]:
        if "wty" in s and "probe" not in s and s.get("index") is not None:
            by_list.setdefault((s["list"], s["index"]), s)
    for (lname, idx), s in sorted(by_list.items()):
        narrow = T.CORE_OF.get(s["wty"], "i32") == "i32" and s["wty"] in ("bool", "s8", "u8", "s16", "u16")
        ins = list(range(1 << 16)) if (wide and narrow) else list(range(1 << 8))
        if wide and not narrow:
            ins += list(range(0, 1 << 16, 7))
        ins += B64 + [c.rng.getrandbits(64) for _ in range(200 if wide else 40)] + [c.rng.getrandbits(32) for _ in range(100 if wide else 20)]
        if s["pos"] == "mem" and s["dir"] == "lift":
            # the bytes after the cell are arbitrary: vary them
            ins += [(c.rng.getrandbits(56) << 8) | b for b in range(256)]
            ins += [(c.rng.getrandbits(32) << 32) | v for v in B32]
        for x in ins:
            for d in ((0, 1) if s["backend"] == "rust" else (0,)):
                reqs.append(f"s {lname} {idx} {x:x} {d}")
                meta.append((s, x, d))
    # corpus first in spirit: witnesses of repaired defects must keep passing (corpus/C14.txt: `<list> <hex input> <dbg>`)
    corpus = read_corpus("C14.txt")
    ncorp = 0
    for (lname, idx), s in sorted(by_list.items()):
        for row in corpus:
            if row[0] == lname and len(row) >= 3:
                reqs.append(f"s {lname} {idx} {row[1]} {row[2]}"); meta.append((s, int(row[1], 16), int(row[2]))); ncorp += 1
    c.cov["corpus_cases"] = ncorp
    out = run_lines([model], reqs, timeout=1200)
    fails = {}
    for (s, x, d), o in zip(meta, out):
        c.evaluations += 1
        c.nontrivial.add(f"{s['list']}#{s['index']}")
        if not o.startswith("1\t"):
            fails.setdefault((s["list"], s["index"]), []).append((x, d, o))
    c.cov.setdefault("spec_search", {})["scalar-exprs-vs-Spec"] = {"inputs_evaluated": len(reqs), "inputs_failing_spec": sum(len(v) for v in fails.values()),
                                            "entries": len(by_list), "entries_failing": len(fails)}
    for (lname, idx), fl in sorted(fails.items()):
        s = by_list[(lname, idx)]
        x, d, o = fl[0]
        parts = o.split("\t")
        instr = lname.split("_", 1)[1]
        c.spec_violation(f"scalar:{s['backend']}:{instr}:{s['pos']}:{fp(s['lean'])}",
                         f"{s['backend']} {instr} ({s['pos']} position) `{T.one_line(s['snippet'])}` is not the canonical ABI mapping",
                         {"list": lname, "index": idx, "site": s["key"], "snippet": s["snippet"], "expr": s["lean"],
                          "input_hex": f"{x:x}", "debug_assertions": bool(d),
                          "actual": parts[1] if len(parts) > 1 else o, "expected": parts[2] if len(parts) > 2 else "?",
                          "failing_inputs_in_this_run": len(fl), "first_failing_inputs_hex": [f"{a:x}" for a, _, _ in fl[:8]],
                          "replay": f"printf 's {lname} {idx} {x:x} {d}\\n' | lean/.lake/build/bin/m_scalar"})
    return fails


def sweep_casts(c, rep, model):
    reqs, meta = [], []
    by_list = {}
    for s in rep["sites"]:
        if "probe" in s and s.get("index") is not None:
            by_list.setdefault((s["list"], s["index"]), s)
    n = 400 if c.tier == "thorough" else 60
    for (lname, idx), s in sorted(by_list.items()):
        for x in B64 + [c.rng.getrandbits(64) for _ in range(n)] + [c.rng.getrandbits(32) for _ in range(n // 2)]:
            reqs.append(f"c {lname} {idx} {x:x} {c.rng.getrandbits(64):x}")
            meta.append((s, x))
        for row in read_corpus("C04_backends.txt"):       # `<list> <hex input>`: witnesses of repaired defects
            if row[0] == lname and len(row) >= 2:
                reqs.append(f"c {lname} {idx} {row[1]} 0"); meta.append((s, int(row[1], 16)))
    out = run_lines([model], reqs, timeout=1200)
    fails = {}
    for (s, x), o in zip(meta, out):
        c.evaluations += 1
        c.nontrivial.add(f"{s['list']}#{s['index']}")
        if not o.startswith("1\t"):
            fails.setdefault((s["list"], s["index"]), []).append((x, o))
    c.cov.setdefault("spec_search", {})["cast-exprs-vs-Spec.joinConv"] = {"inputs_evaluated": len(reqs), "inputs_failing_spec": sum(len(v) for v in fails.values()),
                                                   "entries": len(by_list), "entries_failing": len(fails)}
    for (lname, idx), fl in sorted(fails.items()):
        s = by_list[(lname, idx)]
        x, o = fl[0]
        parts = o.split("\t")
        sign = all(len(p[1].split("\t")) > 2 and p[1].split("\t")[1].startswith("ok:") and p[1].split("\t")[2].startswith("ok:")
                   and int(p[1].split("\t")[1].split(":")[2], 16) == (int(p[1].split("\t")[2].split(":")[2], 16) | 0xffffffff00000000)
                   for p in fl)
        shape = "sign-extends" if sign else fp(s["lean"])
        c.spec_violation(f"cast:{s['backend']}:{s['kind']}:{shape}",
                         f"{s['backend']} Bitcast::{s['kind']} `{T.one_line(s['snippet'])}` is not the canonical ABI conversion"
                         + (" (sign-extends where the spec zero-extends; lossless)" if sign else ""),
                         {"list": lname, "index": idx, "site": s["key"], "snippet": s["snippet"], "expr": s["lean"],
                          "input_hex": f"{x:x}", "actual": parts[1] if len(parts) > 1 else o,
                          "expected": parts[2] if len(parts) > 2 else "?", "failing_inputs_in_this_run": len(fl),
                          "replay": f"printf 'c {lname} {idx} {x:x} 0\\n' | lean/.lake/build/bin/m_scalar"})
    # round trips
    reqs, meta = [], []
    lens = {}
    for (lname, idx) in by_list:
        lens[lname] = max(lens.get(lname, 0), idx + 1)
    for b in T.BACKENDS:
        for pr in T.CAST_PROBES:
            if pr[5] == "None":
                continue
            f, k = f"{b}_{pr[5]}_{pr[0]}", f"{b}_{pr[6]}_{pr[0]}"
            for i in range(lens.get(f, 0)):
                for j in range(lens.get(k, 0)):
                    for x in B64 + [c.rng.getrandbits(64) for _ in range(n)]:
                        reqs.append(f"r {f} {i} {k} {j} {x:x} {c.rng.getrandbits(64):x} {c.rng.getrandbits(64):x}")
                        meta.append((b, pr, x))
    out = run_lines([model], reqs, timeout=1200)
    bad = 0
    reported = set()
    for (b, pr, x), o, r in zip(meta, out, reqs):
        c.evaluations += 1
        if not o.startswith("1\t"):
            bad += 1
            shape = "ill-typed" if "err:" in o else "lossy"
            if (b, pr[0], shape) in reported:
                continue
            reported.add((b, pr[0], shape))
            c.spec_violation(f"cast-roundtrip:{b}:{pr[5]}:{shape}",
                             f"{b}: {pr[6]} ∘ {pr[5]} does not recover the payload" + (" (an emitted expression is ill-typed)" if shape == "ill-typed" else " (bits are lost)"),
                             {"request": r, "answer": o, "payload_hex": f"{x:x}", "probe": pr[0]})
    c.cov.setdefault("spec_search", {})["cast-round-trips"] = {"inputs_evaluated": len(reqs), "inputs_failing_spec": bad}
    return fails


# ------------------------------------------------------------------ native validation of Langs.lean (Rust, C, C++)

C_TY = {"i8": "int8_t", "u8": "uint8_t", "i16": "int16_t", "u16": "uint16_t", "i32": "int32_t", "u32": "uint32_t",
        "i64": "int64_t", "u64": "uint64_t", "f32": "float", "f64": "double", "bool": "bool"}
R_TY = {"i8": "i8", "u8": "u8", "i16": "i16", "u16": "u16", "i32": "i32", "u32": "u32", "i64": "i64", "u64": "u64",
        "f32": "f32", "f64": "f64", "bool": "bool", "ch": "char"}
WIDTH = {"i8": 8, "u8": 8, "i16": 16, "u16": 16, "i32": 32, "u32": 32, "i64": 64, "u64": 64, "f32": 32, "f64": 64,
         "bool": 1, "ch": 32}
REPR = {  # (backend kind) WIT type -> model type name of the representation (mirrors Claims.reprTy for rust/c/cpp)
    "rust": {"bool": "bool", "s8": "i8", "u8": "u8", "s16": "i16", "u16": "u16", "s32": "i32", "u32": "u32", "s64": "i64",
             "u64": "u64", "f32": "f32", "f64": "f64", "char": "ch"},
}
REPR["c"] = dict(REPR["rust"], char="u32")
REPR["cpp"] = REPR["c"]
SIGNED_W = {"s8": 8, "s16": 16, "s32": 32, "s64": 64}


def flex(opkey):
    """regex matching the operand text (given whitespace-stripped) with arbitrary whitespace between tokens"""
    return r"\s*".join(re.escape(ch) for ch in opkey)


def c_bits_in(ty, var, src):
    if ty in ("f32", "f64"):
        it = "uint32_t" if ty == "f32" else "uint64_t"
        return f"{C_TY[ty]} {var}; {{ {it} t_ = ({it}) {src}; memcpy(&{var}, &t_, sizeof t_); }}"
    if ty == "bool":
        return f"bool {var} = ({src} & 1) != 0;"
    return f"{C_TY[ty]} {var} = ({C_TY[ty]}) {src};"


def c_bits_out(ty, expr):
    if ty in ("f32", "f64"):
        it = "uint32_t" if ty == "f32" else "uint64_t"
        return f"{{ {C_TY[ty]} r_ = {expr}; {it} t_; memcpy(&t_, &r_, sizeof t_); printf(\"ok:%llx\\n\", (unsigned long long) t_); }}"
    ut = {8: "uint8_t", 16: "uint16_t", 32: "uint32_t", 64: "uint64_t", 1: "uint8_t"}[WIDTH[ty]]
    return f"{{ {C_TY[ty]} r_ = {expr}; printf(\"ok:%llx\\n\", (unsigned long long) ({ut}) r_); }}"


def native_cases(c, rep, lang, scalars=True, casts=True):
    """entries of `lang` that can be compiled natively -> list of dicts(name, site, body builder)"""
    res = []
    seen = set()
    for s in rep["sites"]:
        if s["backend"] != lang or s.get("index") is None:
            continue
        is_cast = "probe" in s
        if (is_cast and not casts) or (not is_cast and not scalars):
            continue
        if is_cast and s.get("slot_kind") != "num":
            continue      # pointer-typed slots: the wasm32 data model does not hold natively
        k = (s["list"], s["index"])
        if k in seen:
            continue
        seen.add(k)
        res.append(s)
    return res


def site_types(lang, s):
    """(operand model type | None for memory operand, result model type | 'cell')"""
    if "probe" in s:
        core = {"i32": "i32", "i64": "i64", "f32": "f32", "f64": "f64"}
        payload_ty = REPR[lang][s["payload"]]
        slot = s["dst"] if s["side"] == "import" else s["src"]
        return (payload_ty, core[slot]) if s["side"] == "import" else (core[slot], payload_ty)
    core = T.CORE_OF.get(s["wty"], "i32")
    r = REPR[lang][s["wty"]]
    if s["pos"] == "flat":
        return (r, core) if s["dir"] == "lower" else (core, r)
    return (r, "cell") if s["dir"] == "lower" else (None, r)


def inputs_for(c, s, n):
    xs = list(B64) + [c.rng.getrandbits(64) for _ in range(n)] + [c.rng.getrandbits(32) for _ in range(n // 2)] + list(range(0, 256, 5))
    return xs


def gen_c_program(c, rep, lang, cases, files_for):
    """one C / C++ translation unit evaluating every case on its inputs; returns (source, plan)"""
    cpp = lang == "cpp"
    src = ["#include <stdint.h>", "#include <stdbool.h>" if not cpp else "#include <bit>", "#include <stdio.h>", "#include <string.h>",
           "#include <tuple>\n#include <utility>" if cpp else ""]
    plan = []
    unions = set()
    body = []
    for ci, s in enumerate(cases):
        opt, rt = site_types(lang, s)
        snippet = s["snippet"]
        for m in re.finditer(r"union (\w+)", snippet):
            unions.add(m.group(1))
        xs = inputs_for(c, s, 30 if c.tier == "quick" else 200)
        arr = ", ".join(f"0x{x:x}ull" for x in xs)
        pre = []
        expr = snippet
        if s["operands"]:
            expr = re.sub(flex(s["operands"][0]), " OPX ", expr)
        # local bindings the snippet refers to (two-statement loads)
        for (bn, brhs) in s.get("bindings", []):
            pre.append(f"int64_t {bn} = 0; (void) {bn};")
        fn = [f"static void case_{ci}(void) {{", f"  static const unsigned long long in_[] = {{ {arr} }};",
              f"  for (unsigned i_ = 0; i_ < {len(xs)}; i_++) {{", "    unsigned long long x_ = in_[i_];"]
        is_store = (not "probe" in s) and s["pos"] == "mem" and s["dir"] == "lower"
        is_load = (not "probe" in s) and s["pos"] == "mem" and s["dir"] == "lift"
        if opt is not None:
            fn.append("    " + c_bits_in(opt, "OPX", "x_"))
        if is_load or is_store:
            fn.append("    unsigned char buf_[16]; memset(buf_, 0xA5, sizeof buf_); memcpy(buf_, &x_, 8);" if is_load else
                      "    unsigned char buf_[16]; memset(buf_, 0xA5, sizeof buf_);")
            expr = re.sub(r"\b(ptr\d*|arg\d*)\b(?=\s*\+\s*0\))", "buf_", expr)
        if is_store:
            fn.append(f"    {expr};")
            fn.append("    { unsigned long long o_ = 0; memcpy(&o_, buf_, 8); printf(\"mem:%llx\\n\", o_); }")
        else:
            if is_load and s.get("bindings"):
                # C++: `int32_t l2 = *((int32_t const*)(ptr1 + 0));` then `(uint32_t(l2))`
                for (bn, brhs) in s["bindings"]:
                    b2 = re.sub(r"\b(ptr\d*|arg\d*)\b(?=\s*\+\s*0\))", "buf_", brhs)
                    ty = "int64_t" if T.CORE_OF.get(s["wty"]) == "i64" else ("float" if s["wty"] == "f32" else ("double" if s["wty"] == "f64" else "int32_t"))
                    fn.append(f"    {ty} {bn} = {b2};")
            fn.append("    " + c_bits_out(rt, expr))
        fn += ["  }", "}"]
        body.append("\n".join(fn))
        plan.append((s, xs))
    # union definitions from the generated output
    for u in sorted(unions):
        for files in files_for.values():
            m = None
            for t in files.values():
                m = re.search(r"union " + re.escape(u) + r"\s*\{[^}]*\};", t)
                if m: break
            if m:
                src.append(m.group(0)); break
    src += body
    src.append("int main(void) {\n" + "\n".join(f"  printf(\"case {i}\\n\"); case_{i}();" for i in range(len(cases))) + "\n  return 0;\n}")
    return "\n".join(src), plan


def gen_rust_program(c, rep, cases, rt_module):
    src = ["#![allow(unused, unused_unsafe, unused_parens, non_snake_case, clippy::all)]", "extern crate alloc;",
           "use std::panic::{catch_unwind, AssertUnwindSafe};", rt_module]
    plan = []
    for ci, s in enumerate(cases):
        opt, rt = site_types("rust", s)
        snippet = s["snippet"]
        xs = inputs_for(c, s, 30 if c.tier == "quick" else 200)
        arr = ", ".join(f"0x{x:x}u64" for x in xs)
        expr = snippet
        if s["operands"]:
            expr = re.sub(flex(s["operands"][0]), " OPX ", expr)
        is_store = (not "probe" in s) and s["pos"] == "mem" and s["dir"] == "lower"
        is_load = (not "probe" in s) and s["pos"] == "mem" and s["dir"] == "lift"
        fn = [f"fn case_{ci}() {{", f"  let in_: [u64; {len(xs)}] = [{arr}];", "  for &x_ in in_.iter() {",
              "    let r_ = catch_unwind(AssertUnwindSafe(|| -> String { unsafe {"]
        if opt is not None:
            if opt in ("f32", "f64"):
                fn.append(f"      let OPX: {R_TY[opt]} = {R_TY[opt]}::from_bits(x_ as u{WIDTH[opt]});")
            elif opt == "bool":
                fn.append("      let OPX: bool = (x_ & 1) != 0;")
            elif opt == "ch":
                fn.append("      let OPX: char = match char::from_u32(x_ as u32) { Some(c_) => c_, None => return String::from(\"skip\") };")
            else:
                fn.append(f"      let OPX: {R_TY[opt]} = x_ as {R_TY[opt]};")
        if is_load or is_store:
            fn.append("      let mut buf_ = [0xA5u8; 16];")
            if is_load:
                fn.append("      buf_[..8].copy_from_slice(&x_.to_le_bytes());")
            fn.append("      let bp_: *mut u8 = buf_.as_mut_ptr();")
            expr = re.sub(r"\b(ptr\d+|arg\d+)\b(?=\.add\(0\))", "bp_", expr)
        if is_store:
            fn.append(f"      {expr};")
            fn.append("      let mut o_ = [0u8; 8]; o_.copy_from_slice(&buf_[..8]); format!(\"mem:{:x}\", u64::from_le_bytes(o_))")
        else:
            for (bn, brhs) in s.get("bindings", []):
                b2 = re.sub(r"\b(ptr\d+|arg\d+)\b(?=\.add\(0\))", "bp_", brhs)
                fn.append(f"      let {bn} = {b2};")
            if rt in ("f32", "f64"):
                fn.append(f"      let v_: {R_TY[rt]} = {expr}; format!(\"ok:{{:x}}\", v_.to_bits())")
            elif rt == "bool":
                fn.append(f"      let v_: bool = {expr}; format!(\"ok:{{:x}}\", v_ as u8)")
            elif rt == "ch":
                fn.append(f"      let v_: char = {expr}; format!(\"ok:{{:x}}\", v_ as u32)")
            else:
                fn.append(f"      let v_: {R_TY[rt]} = {expr}; format!(\"ok:{{:x}}\", v_ as u{WIDTH[rt]})")
        fn += ["    } }));", "    match r_ { Ok(s_) => println!(\"{}\", s_), Err(_) => println!(\"trap\") }", "  }", "}"]
        src.append("\n".join(fn))
        plan.append((s, xs))
    src.append("fn main() {\n  std::panic::set_hook(Box::new(|_| {}));\n" +
               "\n".join(f"  println!(\"case {i}\"); case_{i}();" for i in range(len(cases))) + "\n}")
    return "\n".join(src), plan


def native_support(rep):
    """the Rust `_rt` helper module (union of the items emitted over all Rust probes) and the C/C++ outputs
    (for union definitions), taken from the generated files"""
    items, seen = [], set()
    cfiles = {}
    for (kind, b, arg), files in rep.get("_raw", []):
        if "__err__" in files:
            continue
        if b in ("c", "cpp"):
            cfiles[(b, str(arg))] = {n: t for n, t in files.items() if not n.endswith(".o")}
        if b != "rust":
            continue
        for t in files.values():
            m = re.search(r"\nmod _rt \{", t)
            if not m:
                continue
            op = m.end() - 1
            cl = T.match_close(t, op)
            body = t[op + 1:cl]
            body = re.sub(r"#!\[allow\([^\]]*\)\]", "", body)
            depth, start = 0, 0
            for i, ch in enumerate(body):
                if ch == "{": depth += 1
                elif ch == "}":
                    depth -= 1
                    if depth == 0:
                        it = body[start:i + 1].strip(); start = i + 1
                        k = T.strip_ws(it)
                        if it and k not in seen: seen.add(k); items.append(it)
                elif ch == ";" and depth == 0:
                    it = body[start:i + 1].strip(); start = i + 1
                    k = T.strip_ws(it)
                    if it and k not in seen: seen.add(k); items.append(it)
    rt = "mod _rt {\n  #![allow(dead_code, unused_imports, clippy::all)]\n" + "\n".join(items) + "\n}\n"
    return {"rust_rt": rt, "c_union_files": cfiles}


def compile_cached(c, name, source, cmd_for):
    d = os.path.join(BUILD, "scalar-native")
    os.makedirs(d, exist_ok=True)
    h = hashlib.sha1(source.encode()).hexdigest()[:16]
    exe = os.path.join(d, f"{name}-{h}")
    if os.path.exists(exe):
        return exe, None
    ext = {"c": ".c", "cpp": ".cpp"}.get(name.split("-")[0], ".rs")
    srcp = exe + ext
    open(srcp, "w").write(source)
    rc, out = sh(cmd_for(srcp, exe), timeout=600)
    if rc != 0:
        return None, out
    # keep the cache small
    for f in os.listdir(d):
        if f.startswith(name + "-") and not f.startswith(f"{name}-{h}"):
            try: os.remove(os.path.join(d, f))
            except OSError: pass
    return exe, None


def native_langs(c, rep, model, gen_files, scalars=True, casts=True):
    """gen_files: dict lang -> {probe: files} only needed for C unions and the Rust _rt module"""
    total, mism = 0, []
    per_lang = {}
    for lang in ("rust", "c", "cpp"):
        cases = native_cases(c, rep, lang, scalars, casts)
        if not cases:
            continue
        variants = []
        if lang == "rust":
            rtm = gen_files["rust_rt"]
            srcs, plan = gen_rust_program(c, rep, cases, rtm)
            for dbg in (0, 1):
                exe, err = compile_cached(c, f"rust-dbg{dbg}", srcs, lambda s_, e_, dbg=dbg: [
                    "rustc", "--edition", "2021", "-O", "-C", f"debug-assertions={'on' if dbg else 'off'}",
                    "-C", "overflow-checks=off", "-A", "warnings", s_, "-o", e_])
                variants.append((dbg, exe, err))
        else:
            srcs, plan = gen_c_program(c, rep, lang, cases, gen_files.get("c_union_files", {}))
            cc = ["gcc", "-std=gnu11", "-O1", "-w"] if lang == "c" else ["g++", "-std=c++20", "-O1", "-w"]
            exe, err = compile_cached(c, lang, srcs, lambda s_, e_: cc + [s_, "-o", e_])
            variants.append((0, exe, err))
        for dbg, exe, err in variants:
            if exe is None:
                c.broken.append((f"langs-native:{lang}: extracted snippets do not compile natively", (err or "")[-1500:]))
                continue
            rc, out = sh([exe], timeout=300)
            lines = out.split("\n")
            # split by case
            chunks, cur = {}, None
            for l in lines:
                if l.startswith("case "):
                    cur = int(l.split()[1]); chunks[cur] = []
                elif cur is not None and l:
                    chunks[cur].append(l)
            reqs, meta = [], []
            for ci, (s, xs) in enumerate(plan):
                got = chunks.get(ci, [])
                for x, g in zip(xs, got):
                    if g == "skip":
                        continue
                    if "probe" in s:
                        reqs.append(f"c {s['list']} {s['index']} {x:x} 0")
                    else:
                        reqs.append(f"s {s['list']} {s['index']} {x:x} {dbg}")
                    meta.append((s, x, g))
                if len(got) != len(xs):
                    c.broken.append((f"langs-native:{lang}: case {s['key']}", f"native program printed {len(got)} of {len(xs)} results"))
            ans = run_lines([model], reqs, timeout=600)
            for (s, x, g), a in zip(meta, ans):
                total += 1
                per_lang[lang] = per_lang.get(lang, 0) + 1
                parts = a.split("\t")
                actual = parts[1] if len(parts) > 1 else a
                if g == "trap":
                    ok = actual == "trap"
                elif g.startswith("mem:"):
                    # compare the cell bits only
                    if actual.startswith("ok:"):
                        _, ty, bits = actual.split(":")
                        w = {"i8": 8, "u8": 8, "bool": 8, "i16": 16, "u16": 16, "i32": 32, "u32": 32, "f32": 32, "ch": 32}.get(ty, 64)
                        ok = (int(g[4:], 16) & ((1 << w) - 1)) == int(bits, 16) and (w == 64 or (int(g[4:], 16) >> w) & 0xff == 0xA5)
                    else:
                        ok = False
                else:
                    ok = actual.startswith("ok:") and int(actual.split(":")[2], 16) == int(g[3:], 16)
                if not ok:
                    mism.append({"lang": lang, "site": s["key"], "snippet": s["snippet"], "input_hex": f"{x:x}",
                                 "debug_assertions": bool(dbg), "native": g, "lean_eval": actual})
    c.corr["glue:langs-native (Rust/C/C++ snippets compiled with rustc/gcc/g++ vs Lean eval)"] = {
        "cases": total, "mismatches": len(mism), "first_mismatches": mism[:5], "per_language": per_lang}
    if mism:
        c.broken.append(("corr:langs-native", json.dumps(mism[:3])))
    return mism


def native_search_untranslatable(c, rep, model):
    """DESIGN §4 step 2 for sites whose snippet the translator could not translate (broken correspondence): for Rust, C
    and C++ the snippet is still compiled and run natively, and compared with what Spec prescribes; a differing input
    is a concrete failing input (VIOLATION with replay), otherwise the run ends `no-failing-input-found`."""
    probs = [p for p in rep["problems"] if p["backend"] in ("rust", "c", "cpp") and p["problem_kind"] == "translator"
             and "wty" in p and "probe" not in p and p.get("snippet")]
    if not probs:
        return
    sup = native_support(rep)
    searched, found = 0, 0
    for lang in ("rust", "c", "cpp"):
        cases = [dict(p, index=None, bindings=[], operands=p.get("operands") or []) for p in probs if p["backend"] == lang]
        cases = [p for p in cases if p["pos"] == "flat" and p["operands"]]
        if not cases:
            continue
        try:
            if lang == "rust":
                src, plan = gen_rust_program(c, rep, cases, sup["rust_rt"])
                exe, err = compile_cached(c, "rust-search", src, lambda s_, e_: ["rustc", "--edition", "2021", "-O", "-C", "debug-assertions=off",
                                                                                   "-C", "overflow-checks=off", "-A", "warnings", s_, "-o", e_])
            else:
                src, plan = gen_c_program(c, rep, lang, cases, sup["c_union_files"])
                cc = ["gcc", "-std=gnu11", "-O1", "-w"] if lang == "c" else ["g++", "-std=c++20", "-O1", "-w"]
                exe, err = compile_cached(c, lang + "-search", src, lambda s_, e_: cc + [s_, "-o", e_])
        except Exception as ex:  # noqa
            c.notes.append(f"native search for untranslatable {lang} sites could not be set up: {ex}")
            continue
        if exe is None:
            c.notes.append(f"native search: untranslatable {lang} snippets do not compile natively either: {(err or '')[-300:]}")
            continue
        rc, out = sh([exe], timeout=300)
        chunks, cur = {}, None
        for l in out.split("\n"):
            if l.startswith("case "):
                cur = int(l.split()[1]); chunks[cur] = []
            elif cur is not None and l:
                chunks[cur].append(l)
        for ci, (p, xs) in enumerate(plan):
            got = chunks.get(ci, [])
            reqs = [f"spec {lang} {p['wty']} {p['dir']} {p['pos']} {x:x}" for x in xs]
            want = run_lines([model], reqs, timeout=120)
            for x, g, w in zip(xs, got, want):
                searched += 1
                if w == "undefined" or g == "skip":
                    continue
                ok = w.startswith("ok:") and g.startswith("ok:") and int(w.split(":")[2], 16) == int(g[3:], 16)
                if not ok:
                    found += 1
                    instr = p["list"].split("_", 1)[1]
                    c.spec_violation(f"scalar:{lang}:{instr}:{p['pos']}:native:{fp(p['snippet'])}",
                                     f"{lang} {instr} `{T.one_line(p['snippet'])}` (not translatable, run natively) is not the canonical ABI mapping",
                                     {"site": p["key"], "snippet": p["snippet"], "input_hex": f"{x:x}", "native": g, "expected": w,
                                      "translator_problem": p["problem"]})
                    break
    c.cov["native_search_for_untranslatable_sites"] = {"inputs_run": searched, "failing_inputs": found, "sites": len(probs)}
