"""C13 / C15: seeded generator of WIT worlds that stress *naming*: kebab-case and multi-word
identifiers, versioned packages, several interfaces (imported, exported, both, inline), world-level
functions, resources with constructors / methods / statics, sync and async functions, futures and
streams nested in payloads (and repeated, so that one type occupies several payload sites).
Value types: a small generator (`TyGen`) restricted by a feature set."""
PRIMS = ["bool", "s8", "u8", "s16", "u16", "s32", "u32", "s64", "u64", "f32", "f64", "char", "string"]


class TyGen:
    """small value types (the subject here is naming and signatures, not layout corner cases)"""
    def __init__(self, rng, max_depth, features):
        self.rng, self.max_depth, self.features = rng, max_depth, features
        self.defs, self.n, self.stats = [], 0, {}

    def fresh(self, p):
        self.n += 1
        return f"{p}{self.n}"

    def ty(self, depth=0, param=False):
        r = self.rng
        if depth >= self.max_depth or r.random() < 0.35:
            self.stats["prim"] = self.stats.get("prim", 0) + 1
            if "errctx" in self.features and r.random() < 0.05:
                return "error-context"
            return r.choice(PRIMS)
        ch = ["list", "option", "result", "tuple", "record", "variant", "enum", "flags"]
        wt = [3, 3, 3, 2, 3, 3, 1, 1]
        for f, w_ in (("map", 1), ("flist", 0.4), ("future", 1), ("stream", 1)):
            if f in self.features:
                ch.append(f); wt.append(w_)
        k = r.choices(ch, wt)[0]
        self.stats[k] = self.stats.get(k, 0) + 1
        d = depth + 1
        if k == "list": return f"list<{self.ty(d)}>"
        if k == "flist": return f"list<{self.ty(d + 1)}, {r.choice([1, 2, 3])}>"
        if k == "map": return f"map<{r.choice(['u32', 'string', 'char', 's64'])}, {self.ty(d)}>"
        if k == "option": return f"option<{self.ty(d)}>"
        if k == "tuple": return "tuple<" + ", ".join(self.ty(d) for _ in range(r.choice([1, 2, 3]))) + ">"
        if k == "result":
            a = self.ty(d) if r.random() < 0.7 else None
            b = self.ty(d) if r.random() < 0.7 else None
            return f"result<{a}, {b}>" if a and b else f"result<{a}>" if a else f"result<_, {b}>" if b else "result"
        if k == "record":
            n = self.fresh("rec")
            fs = ", ".join(f"f{i}: {self.ty(d)}" for i in range(r.choice([1, 2, 3, 5])))
            self.defs.append((n, f"record {n} {{ {fs} }}")); return n
        if k == "variant":
            n = self.fresh("var")
            cs = ", ".join((f"c{i}({self.ty(d)})" if r.random() < 0.7 else f"c{i}") for i in range(r.choice([1, 2, 3, 4])))
            self.defs.append((n, f"variant {n} {{ {cs} }}")); return n
        if k == "enum":
            n = self.fresh("enm")
            self.defs.append((n, f"enum {n} {{ " + ", ".join(f"c{i}" for i in range(r.choice([1, 2, 5]))) + " }")); return n
        if k == "flags":
            n = self.fresh("flg")
            # (the component type encoding rejects more than 32 flags)
            self.defs.append((n, f"flags {n} {{ " + ", ".join(f"b{i}" for i in range(r.choice([1, 3, 9, 17, 32]))) + " }")); return n
        if k == "future": return f"future<{self.ty(d + 1)}>" if r.random() < 0.7 else "future"
        if k == "stream":
            if r.random() >= 0.7: return "stream"
            p = self.ty(d + 1)
            return f"stream<{'u8' if p == 'char' else p}>"      # wit-component: `stream<char>` is not valid at this time
        raise AssertionError(k)

WORDS = ["a", "b2", "get", "set", "it", "thing", "res", "my", "http", "request", "x", "data", "v1",
         "foo", "bar", "baz", "read", "write", "next", "item", "poll", "run", "one", "two", "kind"]
# identifiers every target language tolerates badly are not the subject of C13 (C09/C12/C31 are)
AVOID = {"type", "func", "use", "new", "drop", "self", "static", "import", "export", "interface",
         "world", "package", "resource", "record", "enum", "flags", "variant", "option", "result",
         "list", "string", "bool", "char", "own", "borrow", "future", "stream", "async", "include",
         "constructor", "tuple", "map", "from", "as", "with", "error", "to-string", "get-type"}

FEATURES = {
    "full": {"map", "flist", "future", "stream", "errctx", "resource", "bigflags", "async"},
    "noerr": {"map", "future", "stream", "resource", "bigflags", "async"},
    "sync": {"map", "resource"},
    "syncnomap": {"resource"},
}
CLASS_OF = {"rust": "full", "c": "noerr", "go": "noerr", "moonbit": "noerr", "csharp": "noerr",
            "cpp": "sync", "d": "syncnomap", "markdown": "sync"}


class NameGen:
    def __init__(self, rng, multi=0.6):
        self.rng, self.used, self.multi = rng, set(), multi

    def name(self, single=False):
        r = self.rng
        for _ in range(100):
            n = 1 if (single or r.random() > self.multi) else r.choice([2, 2, 3])
            ws = [r.choice(WORDS) for _ in range(n)]
            if ws[0][0].isdigit():
                continue
            s = "-".join(ws)
            if s in self.used or s in AVOID:
                continue
            self.used.add(s)
            return s
        self.used.add("n%d" % len(self.used))
        return "n%d" % len(self.used)


def gen_iface_body(rng, ng, feats, nfuncs, stats, allow_resource=True, depth=3):
    """returns (lines, resource names)"""
    tg = TyGen(rng, depth, {f for f in feats if f in ("map", "flist", "future", "stream", "errctx", "bigflags")})
    lines, resources = [], []
    rn = None
    if allow_resource and "resource" in feats and rng.random() < 0.6:
        rn = ng.name(single=rng.random() < 0.35)
        resources.append(rn)
        stats["resources"] = stats.get("resources", 0) + 1
        if "-" in rn: stats["kebab_resources"] = stats.get("kebab_resources", 0) + 1
    def ty(param):
        r = rng.random()
        if rn and r < 0.12:
            return rn if (not param or rng.random() < 0.5) else f"borrow<{rn}>"
        if "future" in feats and r < 0.22:
            stats["fs_top"] = stats.get("fs_top", 0) + 1
            inner = tg.ty(2, False) if rng.random() < 0.8 else None
            k = rng.choice(["future", "stream"])
            if inner and rng.random() < 0.2:
                inner = f"{rng.choice(['future', 'stream'])}<{inner}>"
            if k == "stream" and inner == "char": inner = "u8"
            return f"{k}<{inner}>" if inner else k
        return tg.ty(rng.choice([0, 1, 2]), param)
    funcs = []
    def sig(is_method=False):
        np = rng.choice([0, 1, 1, 2, 3, 5]) if rng.random() < 0.93 else rng.choice([17, 18])
        if np >= 17:
            params = ", ".join(f"p{j}: {rng.choice(['u64', 'f32', 'u8', 'string'])}" for j in range(np))
        else:
            params = ", ".join(f"p{j}: {ty(True)}" for j in range(np))
        res = f" -> {ty(False)}" if rng.random() < 0.8 else ""
        a = "async " if "async" in feats and rng.random() < 0.3 else ""
        if a: stats["async_funcs"] = stats.get("async_funcs", 0) + 1
        return a, params, res
    for _ in range(nfuncs):
        a, params, res = sig()
        fn = ng.name()
        if "-" in fn: stats["kebab_funcs"] = stats.get("kebab_funcs", 0) + 1
        funcs.append(f"  {fn}: {a}func({params}){res};")
        stats["funcs"] = stats.get("funcs", 0) + 1
    if rn:
        body = []
        if rng.random() < 0.7:
            body.append(f"constructor({', '.join(f'p{j}: {tg.ty(1, True)}' for j in range(rng.choice([0, 1, 2])))});")
        for _ in range(rng.choice([0, 1, 2])):
            a, params, res = sig()
            body.append(f"{ng.name()}: {a}func({params}){res};")
            stats["methods"] = stats.get("methods", 0) + 1
        for _ in range(rng.choice([0, 0, 1])):
            a, params, res = sig()
            body.append(f"{ng.name()}: static {a}func({params}){res};")
            stats["statics"] = stats.get("statics", 0) + 1
        lines.append(f"  resource {rn} {{ " + " ".join(body) + " }" if body else f"  resource {rn};")
    for _, d in tg.defs:
        lines.append("  " + d)
    lines += funcs
    for k, v in tg.stats.items():
        stats["ty_" + k] = stats.get("ty_" + k, 0) + v
    return lines, resources


def gen_world(rng, klass="full", size=2):
    """returns (wit text, stats).  `size` scales the number of functions per interface."""
    feats = FEATURES[klass]
    stats = {}
    ng = NameGen(rng)
    ns, pkg = ng.name(single=rng.random() < 0.5), ng.name(single=rng.random() < 0.4)
    ver = rng.choice([None, None, "1.0.0", "0.2.3", "1.2.3-rc.1", "2.0.0"])
    if ver: stats["versioned"] = 1
    out = [f"package {ns}:{pkg}" + (f"@{ver}" if ver else "") + ";"]
    ifaces = []
    for _ in range(rng.choice([1, 2, 2, 3])):
        n = ng.name()
        body, res = gen_iface_body(rng, ng, feats, rng.randint(1, 1 + size), stats)
        out += [f"interface {n} {{"] + body + ["}"]
        ifaces.append(n)
    w = ng.name()
    out.append(f"world {w} {{")
    imported = set()
    for n in ifaces:
        r = rng.random()
        if r < 0.45:
            out.append(f"  import {n};"); imported.add(n)
        elif r < 0.75:
            out.append(f"  export {n};")
        else:
            out.append(f"  import {n};"); out.append(f"  export {n};"); imported.add(n)
            stats["import_and_export"] = stats.get("import_and_export", 0) + 1
    def flat_sig():
        np = rng.choice([0, 1, 2])
        params = ", ".join(f"p{j}: {rng.choice(['u32', 'string', 'list<u8>', 'f64', 'list<string>', 'option<string>'])}" for j in range(np))
        res = rng.choice(["", " -> string", " -> u32", " -> list<u8>", " -> list<string>", " -> result<string, u32>"])
        if "future" in feats and rng.random() < 0.25:
            res = rng.choice([" -> future<u32>", " -> stream<u8>", " -> stream", " -> future<string>"])
        a = "async " if "async" in feats and rng.random() < 0.3 else ""
        return f"{a}func({params}){res}"
    for _ in range(rng.choice([0, 1, 1, 2])):
        out.append(f"  import {ng.name()}: {flat_sig()};"); stats["world_imports"] = stats.get("world_imports", 0) + 1
    for _ in range(rng.choice([0, 1, 1, 2])):
        out.append(f"  export {ng.name()}: {flat_sig()};"); stats["world_exports"] = stats.get("world_exports", 0) + 1
    if rng.random() < 0.4:
        body, _ = gen_iface_body(rng, ng, feats, rng.randint(1, 2), stats, allow_resource=rng.random() < 0.5, depth=2)
        d = rng.choice(["import", "export"])
        out.append(f"  {d} {ng.name()}: interface {{")
        out += ["  " + l for l in body] + ["  }"]
        stats["inline_ifaces"] = stats.get("inline_ifaces", 0) + 1
    out.append("}")
    # wit-component: "`stream<char>` is not valid at this time"
    return ("\n".join(out) + "\n").replace("stream<char>", "stream<u8>"), stats


if __name__ == "__main__":
    import random, sys
    rng = random.Random(int(sys.argv[1]) if len(sys.argv) > 1 else 1)
    print(gen_world(rng, sys.argv[2] if len(sys.argv) > 2 else "full")[0])
