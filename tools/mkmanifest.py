#!/usr/bin/env python3
"""Assemble /verif/MANIFEST.json from manifest.d/*.json (one fragment per claimed property)
and manifest.d/_not_applicable.json (explicit reasons); validates against the schema."""
import json, os, glob, sys
V = os.path.dirname(os.path.dirname(os.path.abspath(__file__)))
props = [json.loads(l)["id"] for l in open(os.path.join(V, "properties.jsonl"))]
checks = {}
for f in sorted(glob.glob(os.path.join(V, "manifest.d", "C*.json"))):
    d = json.load(open(f)); checks[d["property_id"]] = d
na_file = os.path.join(V, "manifest.d", "_not_applicable.json")
na = json.load(open(na_file)) if os.path.exists(na_file) else {}
base = json.load(open(os.path.join(V, "manifest.d", "_base.json")))
base["checks"] = [checks[p] for p in props if p in checks]
base["not_applicable"] = [
    {"property_id": p, "reason": na.get(p, "not claimed yet: the check for this property is not built in this commit (design in DESIGN.md section 7); listed here so the manifest stays truthful")}
    for p in props if p not in checks]
json.dump(base, open(os.path.join(V, "MANIFEST.json"), "w"), indent=1)
try:
    import jsonschema
    jsonschema.validate(base, json.load(open("/root/.vp/MANIFEST.schema.json")))
    print("MANIFEST.json valid;", len(base["checks"]), "claimed,", len(base["not_applicable"]), "not claimed")
except ImportError:
    print("MANIFEST.json written (jsonschema not available)")
