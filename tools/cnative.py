"""Native-run machinery for the C backend checks (C10, C11, C12); see harness/c-native/README.md.

Pipeline per (world, configuration):
  1. `c-native gen`     REAL generator in-process  → w.h, w.c, w_component_type.o + function inventory
  2. plan               seeded values per function and direction (this file, `gen_val`)
  3. `m_chost`          the Lean canonical ABI as host: `lower` (value → core values + memory image),
                        `sig`, `csig`, `layout`, `cfree`
  4. emit               stubs.c (C user code: export implementations that print what they received
                        and return scripted values; import drivers) and host.c (raw canonical-ABI calls of
                        `__wasm_export_*`, definitions of the `__wasm_import_*` symbols, ledger reports)
  5. gcc + run          natively (pointer width 8), log parsed
  6. `m_chost lift`     the host lifts what the guest produced; compare with the scripted values
"""
import os, re, json, subprocess, hashlib, shutil
import abivals, witgen

VERIF = os.path.dirname(os.path.dirname(os.path.abspath(__file__)))
RT = os.path.join(VERIF, "harness", "c-native", "rt")

# ---------------------------------------------------------------------------------------------
# S-expressions

parse = abivals.parse

def show(x):
    return x if isinstance(x, str) else "(" + " ".join(show(y) for y in x) + ")"

def hx(s): return s.encode().hex() if s else "-"
def unhx(h): return "" if h == "-" else bytes.fromhex(h).decode(errors="replace")

# ---------------------------------------------------------------------------------------------
# worlds

C_FEATURES = {"map", "resource"}          # no flist / errctx (C backend: todo!), flags <= 32 (component model limit)

def gen_world(rng, nfuncs=5, max_depth=3, kebab_res=False, futures=False, max_params=5):
    """WIT text: imported interface `a` (resource r), interface `i` (types, resource, functions using
    own/borrow of both resources) imported and exported by world `w`."""
    feats = set(C_FEATURES)
    if futures: feats |= {"future", "stream"}
    g = witgen.Gen(rng, max_depth=max_depth, features=feats)
    res = "my-res" if kebab_res else "res"
    # witgen spells the local resource `res`; borrows are produced by us at the top level only
    # (a borrow of an *exported* resource is a C pointer: 8 bytes natively, 4 in the canonical ABI)
    g.features.discard("resource")       # `own` -> handled below
    def ty(depth, param):
        r = rng.random()
        if r < 0.07: return res
        if r < 0.11: return "r"
        if param and r < 0.15: return f"borrow<{rng.choice(['r', res])}>"
        if r < 0.17: return f"list<{rng.choice([res, 'r'])}>"
        if r < 0.19: return f"option<{rng.choice([res, 'r'])}>"
        return g.ty(depth, False)
    funcs = []
    for i in range(nfuncs):
        r = rng.random()
        if r < 0.12: np = 0
        elif r < 0.8: np = rng.randint(1, 3)
        else: np = rng.randint(1, max_params)
        params = ", ".join(f"p{j}: {ty(rng.choice([0, 1, 2]), True)}" for j in range(np))
        rr = rng.random()
        result = f" -> {ty(rng.choice([0, 1]), False)}" if rr < 0.85 else ""
        funcs.append(f"  f{i}: func({params}){result};")
    if rng.random() < 0.35:     # > 16 flat parameters: indirect parameter record
        n = rng.randint(9, 12)
        params = ", ".join(f"p{j}: {rng.choice(['u64', 'string', 'f32', 'option<u32>', 'tuple<u8, u16>', 'list<u8>'])}" for j in range(n))
        result = rng.choice(["", " -> string", " -> result<u32, string>", " -> option<list<string>>"])
        funcs.append(f"  big: func({params}){result};")
    lines = ["package t:t;",
             "interface a {",
             "  resource r { constructor(x: u32); m: func(y: u32) -> u32; }",
             "}",
             "interface i {",
             "  use a.{r};",
             f"  resource {res} {{ constructor(x: u32); m0: func(y: u32) -> u32; m1: func(z: string, w: list<u8>) -> string; s0: static func(a: u8) -> {res}; }}"]
    for _, d in g.defs:
        lines.append("  " + d)
    lines += funcs
    lines += ["}", "world w { import a; import i; export i; }"]
    return "\n".join(lines) + "\n", g.stats

def gen_async_world(rng, nfuncs=4, max_depth=3):
    """a world whose functions are ALL `async func` (no resources: constructors cannot be async), imported and
    exported: under --async=all every binding is async-lifted/lowered at an async function type"""
    g = witgen.Gen(rng, max_depth=max_depth, features={"map"})
    funcs = []
    for i in range(nfuncs):
        np = rng.choice([0, 1, 1, 2, 3])
        params = ", ".join(f"p{j}: {g.ty(rng.choice([0, 1, 2]), False)}" for j in range(np))
        result = f" -> {g.ty(rng.choice([0, 1]), False)}" if rng.random() < 0.8 else ""
        funcs.append(f"  f{i}: async func({params}){result};")
    lines = ["package t:t;", "interface i {"] + ["  " + d for _, d in g.defs] + funcs + ["}", "world w { import i; export i; }"]
    return "\n".join(lines) + "\n", g.stats

# versions a package may carry: plain, pre-release, build metadata, both (semver grammar)
PRE = ["rc.1", "alpha-2", "0.3.7", "beta", "x-y-z", "rc.1.2"]
BUILD = ["build.5", "a-b", "exp.sha-5114f85", "001"]

def gen_version(rng, major):
    v = f"{major}.{rng.choice([0, 1, 2, 10])}.{rng.choice([0, 3, 7])}"
    r = rng.random()
    if r < 0.25: return v
    if r < 0.55: return v + "-" + rng.choice(PRE)
    if r < 0.75: return v + "+" + rng.choice(BUILD)
    return v + "-" + rng.choice(PRE) + "+" + rng.choice(BUILD)

def gen_multiversion_world(rng, nver=None):
    """several versions of package `my:dep` (different major numbers, so that the component encoder's
    semver merging leaves them apart), each with an interface `a` (types, a resource, functions) and
    possibly `b-c`; the world imports every version and exports one or two of them"""
    nver = nver or rng.choice([2, 2, 3])
    majors = rng.sample([0, 1, 2, 3, 7], nver)
    vers = [gen_version(rng, m) for m in majors]
    g = witgen.Gen(rng, max_depth=2, features={"map"})
    pkgs = []
    for k, v in enumerate(vers):
        t1 = g.ty(1, False); t2 = g.ty(1, False)
        defs = "".join("    " + d + "\n" for _, d in g.defs); g.defs = []
        pkgs.append(f"package my:dep@{v} {{\n  interface a {{\n{defs}    record point {{ x: u32, y: {t1} }}\n"
                    f"    resource r {{ constructor(p: point); get: func() -> point; s: static func(a: u8) -> r; }}\n"
                    f"    get: func(p: point, q: {t2}) -> list<point>;\n    mk: func() -> r;\n    take: func(x: borrow<r>) -> option<{t1}>;\n  }}\n"
                    f"  interface b-c {{ use a.{{point}}; f: func(p: point) -> result<point, string>; }}\n}}\n")
    imports = "".join(f" import my:dep/a@{v}; import my:dep/b-c@{v};" for v in vers)
    exports = "".join(f" export my:dep/a@{v};" for v in rng.sample(vers, rng.choice([1, 2])))
    return "package t:t;\n" + "".join(pkgs) + f"world w {{{imports}{exports} }}\n", vers

# ---------------------------------------------------------------------------------------------
# values over detailed type terms

INT = abivals.INT
HANDLES = [1, 7, 2**31 - 1, 2**31, 2**32 - 1]

def plain(dt):
    """detailed term -> plain type term (string)"""
    if isinstance(dt, str): return dt
    k = dt[0]
    if k == "record": return "(record" + "".join(" " + plain(f[1]) for f in dt[1:]) + ")"
    if k == "variant": return "(variant" + "".join(" " + plain(c[1]) for c in dt[1:]) + ")"
    if k in ("enum", "flags"): return f"({k} {len(dt) - 1})"
    if k in ("own", "borrow"): return k
    return "(" + k + "".join(" " + plain(x) for x in dt[1:]) + ")"

def gen_val(rng, dt, depth=0):
    """value term (parsed form) of detailed type term dt"""
    if isinstance(dt, str):
        if dt == "bool": return ["b", str(rng.randint(0, 1))]
        if dt in INT:
            lo, hi = INT[dt]
            if rng.random() < 0.45:
                return ["i", str(rng.choice([lo, hi, 0, -1 if lo < 0 else 1, hi // 2 + 1, lo // 2]))]
            return ["i", str(rng.randint(lo, hi))]
        if dt == "f32": return ["f32", str(rng.choice(abivals.F32_EDGE) if rng.random() < 0.5 else rng.getrandbits(32))]
        if dt == "f64": return ["f64", str(rng.choice(abivals.F64_EDGE) if rng.random() < 0.5 else rng.getrandbits(64))]
        if dt == "char": return ["c", str(rng.choice(abivals.CHARS))]
        if dt == "string":
            n = rng.choice([0, 0, 1, 2, 5, 17]) if depth < 3 else rng.choice([0, 1])
            s = "".join(rng.choice("aZ é€😀") for _ in range(n)).encode()
            return ["s"] + [str(b) for b in s]
        raise ValueError(dt)
    k, d = dt[0], depth + 1
    if k == "list":
        n = rng.choice([0, 1, 2, 3, 9]) if depth < 2 else rng.choice([0, 1, 2])
        return ["l"] + [gen_val(rng, dt[1], d) for _ in range(n)]
    if k == "map":
        n = rng.choice([0, 1, 2, 4]) if depth < 2 else rng.choice([0, 1])
        return ["l"] + [["r", gen_val(rng, dt[1], d), gen_val(rng, dt[2], d)] for _ in range(n)]
    if k == "record": return ["r"] + [gen_val(rng, f[1], d) for f in dt[1:]]
    if k == "tuple": return ["r"] + [gen_val(rng, f, d) for f in dt[1:]]
    if k == "flags":
        n = len(dt) - 1
        mode = rng.choice(["rand", "ones", "zeros", "last"])
        bits = {"rand": [rng.randint(0, 1) for _ in range(n)], "ones": [1] * n, "zeros": [0] * n,
                "last": [0] * (n - 1) + [1]}[mode]
        return ["fl", "".join(map(str, bits))]
    if k == "enum":
        n = len(dt) - 1
        return ["e", str(rng.choice([0, n - 1, rng.randrange(n)]))]
    if k == "variant":
        cs = dt[1:]
        i = rng.choice([0, len(cs) - 1, rng.randrange(len(cs))])
        return ["var", str(i)] if cs[i][1] == "_" else ["var", str(i), gen_val(rng, cs[i][1], d)]
    if k == "option":
        return ["var", "0"] if rng.random() < 0.35 else ["var", "1", gen_val(rng, dt[1], d)]
    if k == "result":
        i = rng.randint(0, 1)
        c = dt[1 + i]
        return ["var", str(i)] if c == "_" else ["var", str(i), gen_val(rng, c, d)]
    if k in ("own", "borrow", "future", "stream"):
        return ["h", str(rng.choice(HANDLES + [rng.getrandbits(20) + 1]))]
    raise ValueError(k)

# --- UTF-16: a string is ptr + code-unit count with 2-byte alignment = the layout of list<u16>;
#     the Lean host therefore sees `string` as `(list u16)` when the bindings use utf16.

def t16(t):
    if isinstance(t, str): return ["list", "u16"] if t == "string" else t
    return [t[0]] + [t16(x) for x in t[1:]]

def v16(dt, v):
    """convert a value of detailed type dt: every (s utf8 bytes) becomes (l (i code unit) …)"""
    if isinstance(dt, str):
        if dt == "string":
            s = bytes(int(b) for b in v[1:]).decode("utf-8")
            u = s.encode("utf-16-le")
            return ["l"] + [["i", str(u[i] | (u[i + 1] << 8))] for i in range(0, len(u), 2)]
        return v
    k = dt[0]
    if k == "list": return ["l"] + [v16(dt[1], x) for x in v[1:]]
    if k == "map": return ["l"] + [["r", v16(dt[1], e[1]), v16(dt[2], e[2])] for e in v[1:]]
    if k == "record": return ["r"] + [v16(f[1], x) for f, x in zip(dt[1:], v[1:])]
    if k == "tuple": return ["r"] + [v16(f, x) for f, x in zip(dt[1:], v[1:])]
    if k == "variant":
        return v if len(v) == 2 else ["var", v[1], v16(dt[1 + int(v[1])][1], v[2])]
    if k == "option":
        return v if len(v) == 2 else ["var", v[1], v16(dt[1], v[2])]
    if k == "result":
        return v if len(v) == 2 else ["var", v[1], v16(dt[1 + int(v[1])], v[2])]
    return v

def v16b(dt, v):
    """for free-size questions under utf16: keep `string` a string whose bytes are the UTF-16LE bytes
    (block size = 2 * code units; `string` members always have a free helper, a `list<u16>` of a later
    pass would not)"""
    if isinstance(dt, str):
        if dt == "string":
            u = bytes(int(b) for b in v[1:]).decode("utf-8").encode("utf-16-le")
            return ["s"] + [str(b) for b in u]
        return v
    k = dt[0]
    if k == "list": return ["l"] + [v16b(dt[1], x) for x in v[1:]]
    if k == "map": return ["l"] + [["r", v16b(dt[1], e[1]), v16b(dt[2], e[2])] for e in v[1:]]
    if k == "record": return ["r"] + [v16b(f[1], x) for f, x in zip(dt[1:], v[1:])]
    if k == "tuple": return ["r"] + [v16b(f, x) for f, x in zip(dt[1:], v[1:])]
    if k == "variant": return v if len(v) == 2 else ["var", v[1], v16b(dt[1 + int(v[1])][1], v[2])]
    if k == "option": return v if len(v) == 2 else ["var", v[1], v16b(dt[1], v[2])]
    if k == "result": return v if len(v) == 2 else ["var", v[1], v16b(dt[1 + int(v[1])], v[2])]
    return v

def kinds(dt, acc):
    if isinstance(dt, str):
        if dt != "_": acc.add(dt)
        return acc
    acc.add(dt[0])
    if dt[0] in ("record", "variant"):
        for f in dt[1:]: kinds(f[1], acc)
    elif dt[0] in ("enum", "flags", "own", "borrow"):
        pass
    else:
        for x in dt[1:]: kinds(x, acc)
    return acc

# ---------------------------------------------------------------------------------------------
# C emitters (type-name free: `__typeof__`-less too — only member accesses and sizeof(*ptr))

CT = {"s8": "int8_t", "u8": "uint8_t", "s16": "int16_t", "u16": "uint16_t", "s32": "int32_t", "u32": "uint32_t",
      "s64": "int64_t", "u64": "uint64_t"}

class Emit:
    def __init__(self, enc, cident, exported_res):
        self.enc, self.cident, self.exported_res = enc, cident, exported_res
        self.n = 0

    def fresh(self, p):
        self.n += 1
        return f"{p}{self.n}"

    # -- print the C value `e` of detailed type dt as a value term
    def pr(self, dt, e, side):
        if isinstance(dt, str):
            if dt == "bool": return [f'out("(b %d)", ({e}) ? 1 : 0);']
            if dt in ("s8", "s16", "s32", "s64"): return [f'out("(i %lld)", (long long) ({e}));']
            if dt in ("u8", "u16", "u32", "u64"): return [f'out("(i %llu)", (unsigned long long) ({e}));']
            if dt == "f32": return [f"out_f32({e});"]
            if dt == "f64": return [f"out_f64({e});"]
            if dt == "char": return [f'out("(c %u)", (unsigned) ({e}));']
            if dt == "string":
                if self.enc == "utf16": return [f"out_u16_term(({e}).ptr, ({e}).len);"]
                return [f"out_bytes_term(({e}).ptr, ({e}).len);"]
            raise ValueError(dt)
        k = dt[0]
        if k == "list":
            i = self.fresh("i")
            return ['out("(l");', f"for (size_t {i} = 0; {i} < ({e}).len; {i}++) {{", 'out(" ");',
                    *self.pr(dt[1], f"({e}).ptr[{i}]", side), "}", 'out(")");']
        if k == "map":
            i = self.fresh("i")
            return ['out("(l");', f"for (size_t {i} = 0; {i} < ({e}).len; {i}++) {{", 'out(" (r ");',
                    *self.pr(dt[1], f"({e}).ptr[{i}].key", side), 'out(" ");',
                    *self.pr(dt[2], f"({e}).ptr[{i}].value", side), 'out(")");', "}", 'out(")");']
        if k == "record":
            out = ['out("(r");']
            for f in dt[1:]:
                out += ['out(" ");'] + self.pr(f[1], f"({e}).{self.cident(f[0])}", side)
            return out + ['out(")");']
        if k == "tuple":
            out = ['out("(r");']
            for j, f in enumerate(dt[1:]):
                out += ['out(" ");'] + self.pr(f, f"({e}).f{j}", side)
            return out + ['out(")");']
        if k == "flags": return [f"out_flags_term((uint64_t) ({e}), {len(dt) - 1});"]
        if k == "enum": return [f'out("(e %u)", (unsigned) ({e}));']
        if k == "variant":
            out = [f"switch ((int32_t) ({e}).tag) {{"]
            for j, c in enumerate(dt[1:]):
                out.append(f"case {j}: {{")
                if c[1] == "_":
                    out.append(f'out("(var {j})");')
                else:
                    out += [f'out("(var {j} ");'] + self.pr(c[1], f"({e}).val.{self.cident(c[0])}", side) + ['out(")");']
                out += ["break;", "}"]
            return out + [f'default: out("(var-out-of-range %u)", (unsigned) ({e}).tag);', "}"]
        if k == "option":
            return [f"if (({e}).is_some) {{", 'out("(var 1 ");', *self.pr(dt[1], f"({e}).val", side), 'out(")");',
                    "} else {", 'out("(var 0)");', "}"]
        if k == "result":
            def arm(i, c, m):
                if c == "_": return [f'out("(var {i})");']
                return [f'out("(var {i} ");'] + self.pr(c, f"({e}).val.{m}", side) + ['out(")");']
            return [f"if (({e}).is_err) {{", *arm(1, dt[2], "err"), "} else {", *arm(0, dt[1], "ok"), "}"]
        if k == "own": return [f'out("(h %u)", (unsigned) ({e}).__handle);']
        if k == "borrow":
            if side == "export" and dt[1] in self.exported_res:
                return [f'out("(h %u)", (unsigned) (uintptr_t) ({e}));']
            return [f'out("(h %u)", (unsigned) ({e}).__handle);']
        if k in ("future", "stream"): return [f'out("(h %u)", (unsigned) ({e}));']
        raise ValueError(k)

    # -- assign the constant value v (parsed value term) of detailed type dt to the lvalue e
    def bd(self, dt, v, e, side):
        if isinstance(dt, str):
            if dt == "bool": return [f"{e} = {v[1]};"]
            if dt in CT:
                n = int(v[1]) % (1 << 64)
                return [f"{e} = ({CT[dt]}) {n}ULL;"]
            if dt == "f32": return [f"{e} = u2f({int(v[1])}u);"]
            if dt == "f64": return [f"{e} = u2d({int(v[1])}ULL);"]
            if dt == "char": return [f"{e} = {int(v[1])}u;"]
            if dt == "string":
                bs = bytes(int(b) for b in v[1:])
                if self.enc == "utf16":
                    u = bs.decode("utf-8").encode("utf-16-le")
                    units = [u[i] | (u[i + 1] << 8) for i in range(0, len(u), 2)]
                    if not units: return [f"({e}).len = 0; ({e}).ptr = NULL;"]
                    arr = ", ".join(map(str, units))
                    return [f"({e}).len = {len(units)}; ({e}).ptr = (uint16_t *) dup_bytes((const uint16_t[]){{{arr}}}, {2 * len(units)});"]
                if not bs: return [f"({e}).len = 0; ({e}).ptr = NULL;"]
                arr = ", ".join(map(str, bs))
                return [f"({e}).len = {len(bs)}; ({e}).ptr = (uint8_t *) dup_bytes((const uint8_t[]){{{arr}}}, {len(bs)});"]
            raise ValueError(dt)
        k = dt[0]
        if k in ("list", "map"):
            n = len(v) - 1
            if n == 0: return [f"({e}).len = 0; ({e}).ptr = NULL;"]
            out = [f"({e}).len = {n}; ({e}).ptr = malloc({n} * sizeof(*({e}).ptr)); memset(({e}).ptr, 0, {n} * sizeof(*({e}).ptr));"]
            for j, x in enumerate(v[1:]):
                if k == "list":
                    out += self.bd(dt[1], x, f"({e}).ptr[{j}]", side)
                else:
                    out += self.bd(dt[1], x[1], f"({e}).ptr[{j}].key", side)
                    out += self.bd(dt[2], x[2], f"({e}).ptr[{j}].value", side)
            return out
        if k == "record":
            out = []
            for f, x in zip(dt[1:], v[1:]): out += self.bd(f[1], x, f"({e}).{self.cident(f[0])}", side)
            return out
        if k == "tuple":
            out = []
            for j, (f, x) in enumerate(zip(dt[1:], v[1:])): out += self.bd(f, x, f"({e}).f{j}", side)
            return out
        if k == "flags":
            n = sum(1 << j for j, b in enumerate(v[1] if len(v) > 1 else "") if b == "1")
            return [f"{e} = {n}u;"]
        if k == "enum": return [f"{e} = {int(v[1])};"]
        if k == "variant":
            j = int(v[1]); c = dt[1 + j]
            out = [f"({e}).tag = {j};"]
            if c[1] != "_": out += self.bd(c[1], v[2], f"({e}).val.{self.cident(c[0])}", side)
            return out
        if k == "option":
            if v[1] == "0": return [f"({e}).is_some = 0;"]
            return [f"({e}).is_some = 1;"] + self.bd(dt[1], v[2], f"({e}).val", side)
        if k == "result":
            j = int(v[1]); c = dt[1 + j]
            out = [f"({e}).is_err = {j};"]
            if c != "_": out += self.bd(c, v[2], f"({e}).val.{'err' if j else 'ok'}", side)
            return out
        if k == "own": return [f"({e}).__handle = (int32_t) {int(v[1])}u;"]
        if k == "borrow":
            if side == "export" and dt[1] in self.exported_res:
                return [f"{e} = (void *) (uintptr_t) {int(v[1])}u;"]
            return [f"({e}).__handle = (int32_t) {int(v[1])}u;"]
        if k in ("future", "stream"): return [f"{e} = {int(v[1])}u;"]
        raise ValueError(k)

# ---------------------------------------------------------------------------------------------
# header / source parsing

def parse_protos(h):
    """C prototypes of the header: name -> (return type, [(type, is_pointer, name)], text)"""
    protos = {}
    for line in h.split("\n"):
        m = re.match(r"^(?:extern )?([A-Za-z_][\w ]*?[\w\*]) ?\b(\w+)\(([^()]*)\);$", line.strip())
        if not m: continue
        ret, name, ps = m.group(1).strip(), m.group(2), m.group(3).strip()
        params = []
        if ps and ps != "void":
            for p in ps.split(","):
                p = p.strip()
                mm = re.match(r"^(.*?)(\*?)\s*(\w+)$", p)
                ty, star, pn = mm.group(1).strip(), mm.group(2), mm.group(3)
                while ty.endswith("*"):          # `T* name` spelling
                    ty, star = ty[:-1].strip(), star + "*"
                params.append((ty, star != "", pn))
        protos[name] = (ret, params, line.strip().rstrip(";"))
    return protos

def parse_wasm_imports(c):
    """every `__attribute__((__import_module__("M"), __import_name__("N")))` declaration of the .c file"""
    out = []
    for m in re.finditer(r'__attribute__\(\(\s*__import_module__\("([^"]*)"\),\s*__import_name__\("([^"]*)"\)\)\)\s*\n\s*(?:extern )?([^;]*?)\b(\w+)\(([^()]*)\);', c):
        out.append({"module": m.group(1), "name": m.group(2), "ret": m.group(3).strip(), "sym": m.group(4), "params": m.group(5).strip()})
    return out

def parse_wasm_exports(c):
    """every `__attribute__((__export_name__("N")))` definition: export name -> C symbol"""
    out = {}
    for m in re.finditer(r'__attribute__\(\((?:__weak__,\s*)?__export_name__\("([^"]*)"\)\)\)\s*\n\s*([^;{]*?)\b(\w+)\(([^()]*)\)\s*\{', c):
        out[m.group(1)] = {"sym": m.group(3), "ret": m.group(2).strip(), "params": m.group(4).strip()}
    return out

C_TYPE_WORDS = {"int32_t", "int64_t", "uint32_t", "uint64_t", "uint8_t", "uint16_t", "float", "double", "size_t", "void", "const", "unsigned", "int", "char"}
WT_C = {"i32": "int32_t", "i64": "int64_t", "f32": "float", "f64": "double", "ptr": "uint8_t *", "p64": "int64_t", "len": "size_t"}

def flat_arg(wt, bits, target):
    """C expression of one flat core value (wasm type wt) with bit pattern `bits`; target = C name of the
    block it points to (None = plain number)"""
    if wt == "i32": return f"(int32_t) {bits % (1 << 32)}u"
    if wt == "i64": return f"(int64_t) {bits % (1 << 64)}ULL"
    if wt == "f32": return f"u2f({bits % (1 << 32)}u)"
    if wt == "f64": return f"u2d({bits % (1 << 64)}ULL)"
    if wt == "ptr": return f"(uint8_t *) {target}" if target else f"(uint8_t *) (uintptr_t) {bits % (1 << 64)}ULL"
    if wt == "len": return f"(size_t) {bits % (1 << 64)}ULL"
    if wt == "p64": return f"(int64_t) (intptr_t) {target}" if target else f"(int64_t) {bits % (1 << 64)}ULL"
    raise ValueError(wt)

def flat_bits_expr(wt, e):
    """C expression (unsigned long long) of the bit pattern of flat value e"""
    if wt == "i32": return f"(unsigned long long) (uint32_t) ({e})"
    if wt in ("i64", "p64"): return f"(unsigned long long) ({e})"
    if wt == "f32": return f"(unsigned long long) f2u({e})"
    if wt == "f64": return f"(unsigned long long) d2u({e})"
    if wt == "ptr": return f"(unsigned long long) (uintptr_t) ({e})"
    if wt == "len": return f"(unsigned long long) ({e})"
    raise ValueError(wt)

def parse_image(ans):
    """answer of `m_chost lower` -> dict(flat, ptrs, blocks[(addr,size,align,bytes)], slots)"""
    if not ans.startswith("ok "): return None
    d = dict(kv.split("=", 1) for kv in ans[3:].split(" "))
    flat = [] if d["flat"] == "-" else [int(x) for x in d["flat"].split(",")]
    ptrs = "" if d["ptrs"] == "-" else d["ptrs"]
    blocks = []
    if d["blocks"] != "-":
        for b in d["blocks"].split(";"):
            a, s, al, h = b.split(":")
            blocks.append((int(a), int(s), int(al), b"" if h == "-" else bytes.fromhex(h)))
    slots = [] if d["slots"] == "-" else [int(x) for x in d["slots"].split(",")]
    return {"flat": flat, "ptrs": ptrs, "blocks": blocks, "slots": slots}

def emit_image(img, pfx, first_is=None, alloc="cabi_realloc"):
    """C statements materialising the image: one allocation per block through the guest's
    cabi_realloc (as a host does), bytes copied, pointer slots relocated.  first_is = C expression of
    an existing area to use for block 0 (return pointer handed in by the guest).
    Returns (lines, resolve) with resolve(model address) -> C block name or None."""
    lines, names = [], []
    for k, (a, s, al, bs) in enumerate(img["blocks"]):
        nm = f"{pfx}b{k}"
        names.append(nm)
        if k == 0 and first_is is not None:
            lines.append(f"uint8_t *{nm} = (uint8_t *) ({first_is});")
        else:
            lines.append(f"uint8_t *{nm} = (uint8_t *) {alloc}(NULL, 0, {max(al, 1)}, {s});")
        if s > 0:
            arr = ", ".join(map(str, bs))
            lines.append(f"memcpy({nm}, (const uint8_t[]){{{arr}}}, {s});")
    def resolve(addr):
        best = None
        for k, (a, s, al, bs) in enumerate(img["blocks"]):
            if a == addr and s > 0: return names[k]
            if a == addr and best is None: best = names[k]
        return best
    for slot in img["slots"]:
        for k, (a, s, al, bs) in enumerate(img["blocks"]):
            if a <= slot and slot + 8 <= a + s:
                val = int.from_bytes(bs[slot - a: slot - a + 8], "little")
                tgt = resolve(val)
                if tgt: lines.append(f"*(uint8_t **) ({names[k]} + {slot - a}) = {tgt};")
                break
    return lines, resolve

# ---------------------------------------------------------------------------------------------
# model answers

def parse_csig(ans):
    d = dict(kv.split("=", 1) for kv in ans.split(" "))
    return {"params": [] if d["params"] == "-" else d["params"].split(","), "ret": d["ret"],
            "names": [] if d["names"] == "-" else d["names"].split(",")}

def parse_sig(ans):
    m = re.match(r"^(\S+) -> (\S+) indirect=(\d) retptr=(\d)$", ans)
    lst = lambda s: [] if s == "-" else s.split(",")
    return {"params": lst(m.group(1)), "results": lst(m.group(2)), "indirect": m.group(3) == "1", "retptr": m.group(4) == "1"}

# ---------------------------------------------------------------------------------------------
# one (world, configuration) run

class Case:
    """one call of one function in one direction with scripted values"""
    def __init__(self, cid, fn, params, result):
        self.cid, self.fn, self.params, self.result = cid, fn, params, result   # parsed value terms
        self.pfree, self.rfree = {}, None

class WorldRun:
    def __init__(self, name, wit, opts, enc, workdir):
        self.name, self.wit, self.opts, self.enc = name, wit, opts, enc
        self.dir = os.path.join(workdir, name)
        self.errors = []          # (class, detail) machinery / correspondence problems
        self.cases = []
        self.gen = None

    # ---- 1. generator output
    def gen_request(self):
        return f"{self.opts} {self.enc} {hx(self.wit)} w"

    def take_gen(self, ans):
        if not ans.startswith("ok "):
            kind = ans.split(" ")[0]
            self.errors.append(("generator-" + kind, unhx(ans.split(" ", 1)[1]) if " " in ans else ans))
            return False
        self.gen = json.loads(ans[3:])
        self.h = self.gen["files"]["w.h"]
        self.c = self.gen["files"]["w.c"]
        self.protos = parse_protos(self.h)
        self.helpers = set(re.findall(r"^void (\w+_free)\(", self.h, re.M))
        self.funcs = [f for f in self.gen["funcs"]]
        self.exported_res = {r["id"] for r in self.gen["resources"] if r["dir"] == "export"}
        for f in self.funcs:
            f["dparams"] = [parse(p["dterm"]) for p in f["params"]]
            f["dresult"] = parse(f["result"]["dterm"]) if f["result"] else None
            f["key"] = f["dir"] + ":" + f["c_name"]
        return True

    def names_needed(self):
        acc = set()
        def walk(dt):
            if isinstance(dt, str): return
            if dt[0] in ("record", "variant"):
                for f in dt[1:]:
                    acc.add(f[0]); walk(f[1])
            elif dt[0] in ("enum", "flags", "own", "borrow"): pass
            else:
                for x in dt[1:]: walk(x)
        for f in self.funcs:
            for d in f["dparams"]: walk(d)
            if f["dresult"] is not None: walk(f["dresult"])
            for p in f["params"]: acc.add(p["name"])
        return acc

    # ---- 2. plan
    def plan(self, rng, ncases):
        cid = 0
        for f in self.funcs:
            for _ in range(ncases):
                params = [gen_val(rng, d) for d in f["dparams"]]
                result = gen_val(rng, f["dresult"]) if f["dresult"] is not None else None
                self.cases.append(Case(cid, f, params, result))
                cid += 1

    # type / value terms as the Lean host sees them
    def tterm(self, dt):
        t = parse(plain(dt))
        return show(t16(t)) if self.enc == "utf16" else show(t)

    def vterm(self, dt, v):
        return show(v16(dt, v)) if self.enc == "utf16" else show(v)

    def free_req(self, late, dt, v):
        vv = show(v16b(dt, v)) if self.enc == "utf16" else show(v)
        return f"cfree|8|{late}|{plain(dt)}|{vv}"

    def params_t(self, f): return "(record" + "".join(" " + self.tterm(d) for d in f["dparams"]) + ")"
    def params_v(self, f, vs): return "(r" + "".join(" " + self.vterm(d, v) for d, v in zip(f["dparams"], vs)) + ")"

    def fn_term(self, f):
        if self.enc != "utf16": return f["term"]
        t = parse(f["term"])
        return show([t[0], t[1], [t16(x) for x in t[2]], t16(t[3])])

    def model_requests_static(self):
        """per function: sig, csig, layout of the parameter record and of the result"""
        reqs = []
        for f in self.funcs:
            variant = "GuestImport" if f["dir"] == "import" else "GuestExport"
            reqs.append(("sig", f["key"], f"sig|{variant}|{self.fn_term(f)}"))
            shapes = "(" + " ".join(p["shape"] for p in f["params"]) + ")"
            rs = f["result"]["shape"] if f["result"] else "_"
            flat = "0" if "nosig" in self.opts else "1"
            reqs.append(("csig", f["key"], f"csig|{flat}|{shapes}|{rs}"))
            reqs.append(("playout", f["key"], f"layout|8|{self.params_t(f)}"))
            if f["dresult"] is not None:
                reqs.append(("rlayout", f["key"], f"layout|8|{self.tterm(f['dresult'])}"))
        return reqs

    def take_static(self, kind, key, ans):
        f = next(x for x in self.funcs if x["key"] == key)
        if kind == "sig":
            f["msig"] = parse_sig(ans)
        elif kind == "csig":
            f["mcsig"] = parse_csig(ans)
        else:
            m = re.match(r"size=(\d+) align=(\d+) csize=(\d+) calign=(\d+)", ans)
            f[kind] = tuple(int(x) for x in m.groups()) if m else None

    def model_requests_layout(self):
        items = []
        for f in self.funcs:
            proto = self.protos.get(f["c_name"])
            if proto is None: continue
            for (ty, isptr, pn), kind in zip(proto[1], f["mcsig"]["params"]):
                if not isptr: continue
                if kind[0] == "p": dt = f["dparams"][int(kind[1:])]
                elif kind[0] == "m": dt = f["dparams"][int(kind[1:])][1]
                elif kind == "o:whole": dt = f["dresult"]
                elif kind in ("o:some", "o:ok"): dt = f["dresult"][1]
                elif kind == "o:err": dt = f["dresult"][2]
                else: continue
                items.append(((f["key"], pn), f"layout|8|{self.tterm(dt)}"))
        return items

    def model_requests_cases(self):
        reqs = []
        for c in self.cases:
            f = c.fn
            sg = f["msig"]
            if f["dir"] == "export":
                mode = "mem" if sg["indirect"] else "flat"
                reqs.append(("args", c.cid, f"lower|8|{mode}|{self.params_t(f)}|{self.params_v(f, c.params)}"))
                if c.result is not None:   # what the model expects the guest-built result to occupy (C11)
                    reqs.append(("resimg", c.cid, f"lower|8|mem|{self.tterm(f['dresult'])}|{self.vterm(f['dresult'], c.result)}"))
            else:
                if c.result is not None:
                    mode = "mem" if sg["retptr"] else "flat"
                    reqs.append(("res", c.cid, f"lower|8|{mode}|{self.tterm(f['dresult'])}|{self.vterm(f['dresult'], c.result)}"))
                    reqs.append(("rfree", c.cid, self.free_req("0", f["dresult"], c.result)))
                reqs.append(("argimg", c.cid, f"lower|8|mem|{self.params_t(f)}|{self.params_v(f, c.params)}"))
            # what the generated free helpers free for each argument (model of define_dtor):
            # complete registry (0) and the registry of a later pass (1)
            for k, (d, v) in enumerate(zip(f["dparams"], c.params)):
                for late in ("0", "1"):
                    reqs.append((f"pfree{late}_{k}", c.cid, self.free_req(late, d, v)))
        return reqs

    # ---- 4. emit C
    def take_case(self, kind, cid, ans):
        c = self.cases[cid]
        if kind.startswith("pfree") or kind == "rfree":
            m = re.match(r"ok sizes=(\S+)$", ans)
            if not m: self.errors.append(("model-cfree", f"case {cid} {kind}: {ans}")); return
            sizes = [] if m.group(1) == "-" else [int(x) for x in m.group(1).split(",")]
            if kind == "rfree": c.rfree = sizes
            else:
                late, k = kind[5], int(kind.split("_")[1])
                c.pfree.setdefault(late, {})[k] = sizes
            return
        img = parse_image(ans)
        if img is None:
            self.errors.append(("model-lower", f"case {cid} {kind}: {ans}"))
        setattr(c, kind, img)

    def check_csig(self):
        """CSig model vs. the prototype printed into the header (structure + out-pointer names)"""
        mism = []
        for f in self.funcs:
            proto = self.protos.get(f["c_name"])
            mc = f["mcsig"]
            if proto is None:
                mism.append((f["key"], "no prototype in header")); continue
            ret, ps, _ = proto
            want_ret = {"void": "void", "bool-option": "bool", "bool-result": "bool"}.get(mc["ret"])
            ok = (len(ps) == len(mc["params"])) and (want_ret is None or ret == want_ret) and \
                 (mc["ret"] != "value" or ret != "void")
            names = iter(mc["names"])
            if ok:
                for (ty, isptr, pn), k in zip(ps, mc["params"]):
                    if k[0] == "v": ok &= not isptr
                    elif k[0] == "p": ok &= isptr
                    elif k[0] == "m": ok &= isptr and pn.startswith("maybe_")
                    elif k[0] == "o": ok &= isptr and pn == next(names, None)
            if not ok: mism.append((f["key"], f"model {mc} header {proto[2]}"))
        return mism

    def helper_for(self, ctype):
        h = ctype[:-2] + "_free" if ctype.endswith("_t") else None
        return h if h in self.helpers else None

    def emit(self, cident):
        E = Emit(self.enc, cident, self.exported_res)
        S = ['#include "w.h"', '#include "rt.h"', ""]          # stubs.c : the C user's side
        H = ['#include "rt.h"', "extern void *cabi_realloc(void *ptr, size_t old_size, size_t align, size_t new_size);", ""]
        main = []
        # the user must define exported resource representations and destructors
        for r in self.gen["resources"]:
            if r["dir"] == "export":
                snake = r["name"].replace("-", "_").lower()      # `name.to_snake_case()`
                S.append(f"struct {r['ns']}_{snake}_t {{ int32_t id; }};")
                S.append(f"void {r['ns']}_{snake}_destructor({r['ns']}_{snake}_t *rep) {{ out(\"DTOR {r['ns']}_{snake} %u\\n\", (unsigned) (uintptr_t) rep); }}")
        m = re.search(r"extern void (\w+)\(void\);\s*__attribute__\(\(used\)\)", self.c)
        if m: H.append(f"void {m.group(1)}(void) {{}}")
        by_fn = {}
        for c in self.cases: by_fn.setdefault(c.fn["key"], []).append(c)
        # sizeof/_Alignof of every C type passed by pointer (tie of the C layout model, C10)
        self.layout_items = []
        for f in self.funcs:
            proto = self.protos.get(f["c_name"])
            if proto is None or "mcsig" not in f: continue
            for (ty, isptr, pn), kind in zip(proto[1], f["mcsig"]["params"]):
                if not isptr: continue
                if kind[0] == "p": dt = f["dparams"][int(kind[1:])]
                elif kind[0] == "m": dt = f["dparams"][int(kind[1:])][1]
                elif kind == "o:whole": dt = f["dresult"]
                elif kind == "o:some": dt = f["dresult"][1]
                elif kind == "o:ok": dt = f["dresult"][1]
                elif kind == "o:err": dt = f["dresult"][2]
                else: continue
                self.layout_items.append((f["key"], pn, ty, dt))
        S.append("void layout_report(void) {")
        for key, pn, ty, dt in self.layout_items:
            S.append(f'out("SIZEOF {key} {pn} %u %u\\n", (unsigned) sizeof({ty}), (unsigned) _Alignof({ty}));')
        S.append("}")
        H.append("extern void layout_report(void);")
        main.append("layout_report();")
        wasm_imports = parse_wasm_imports(self.c)
        defined = set()
        for f in self.funcs:
            cs = by_fn.get(f["key"], [])
            proto = self.protos.get(f["c_name"])
            if proto is None:
                self.errors.append(("no-prototype", f["key"])); continue
            ret_t, ps, ptext = proto
            mc, sg = f["mcsig"], f["msig"]
            nparams = len(f["params"])
            cps = ps[:nparams]
            outs = ps[nparams:]
            # ---------------------------------------------------------------- exports
            if f["dir"] == "export":
                S.append(f"{ptext} {{")
                S.append("switch (cur_case) {")
                for c in cs:
                    S.append(f"case {c.cid}: {{")
                    S.append("led_phase('u');")
                    for k, ((ty, isptr, pn), kind, dt) in enumerate(zip(cps, mc["params"], f["dparams"])):
                        S.append(f'out("GUEST-RECV {c.cid} {k} ");')
                        if kind[0] == "v": S += E.pr(dt, pn, "export")
                        elif kind[0] == "p": S += E.pr(dt, f"(*{pn})", "export")
                        else:
                            S += [f"if ({pn}) {{", 'out("(var 1 ");', *E.pr(dt[1], f"(*{pn})", "export"), 'out(")");', "} else {", 'out("(var 0)");', "}"]
                        S.append('out("\\n");')
                    # the callee owns its parameters: release them with the generated helpers
                    S.append("led_phase('F');")
                    for (ty, isptr, pn), kind in zip(cps, mc["params"]):
                        h = self.helper_for(ty)
                        if h and kind[0] == "p": S.append(f"{h}({pn});")
                        if h and kind[0] == "m": S.append(f"if ({pn}) {h}({pn});")
                    S.append("led_phase('u');")
                    if "autodrop" not in self.opts:
                        for (ty, isptr, pn), dt in zip(cps, f["dparams"]):
                            if isinstance(dt, list) and dt[0] == "borrow" and dt[1] not in self.exported_res:
                                r = next(x for x in self.gen["resources"] if x["dir"] == "import" and x["id"] == dt[1])
                                S.append(f"{r['ns']}_{r['name'].replace('-', '_').lower()}_drop_borrow({pn});")
                    S.append("led_owner('G');")
                    S += self.emit_result_build(E, f, c, outs, ret_t, "export")
                    S.append("}")
                S.append("}")
                S.append(f'out("UNEXPECTED-EXPORT {f["c_name"]} %d\\n", cur_case);')
                if ret_t != "void":
                    S.append(f"{ret_t} dflt; memset(&dflt, 0, sizeof dflt); return dflt;")
                S.append("}")
                S.append("")
                # host side: raw canonical-ABI call
                sym = "__wasm_export_" + f["c_name"]
                rett = WT_C[sg["results"][0]] if sg["results"] else "void"
                ptys = ", ".join(WT_C[t] for t in sg["params"]) or "void"
                H.append(f"extern {rett} {sym}({ptys});")
                if f["needs_post_return"]:
                    H.append(f"extern void {sym}_post_return({rett});")
                for c in cs:
                    H.append(f"static void case_{c.cid}(void) {{")
                    H += [f"cur_case = {c.cid};", f'out("CASE {c.cid}\\n");', "led_mark(); led_owner('H'); led_phase('h');"]
                    img = c.args
                    if img is None:
                        H += ["}"]; continue
                    lines, resolve = emit_image(img, "a")
                    H += lines
                    args = []
                    for wt_, bits, isp in zip(sg["params"], img["flat"], img["ptrs"]):
                        args.append(flat_arg(wt_, bits, resolve(bits) if isp == "1" else None))
                    if len(args) != len(sg["params"]):
                        self.errors.append(("flat-arity", f"{f['key']} case {c.cid}: model gave {len(img['flat'])} flat values for {sg['params']}"))
                    H.append("led_owner('G'); led_phase('c');")
                    call = f"{sym}({', '.join(args)})"
                    if rett == "void":
                        H += [f"{call};", "led_phase('h');", f'out("HOST-RECV {c.cid} flat=-\\n");']
                    else:
                        H += [f"{rett} r = {call};", "led_phase('h');",
                              f'out("HOST-RECV {c.cid} flat=%llu\\n", {flat_bits_expr(sg["results"][0], "r")});']
                        if sg["retptr"] and f.get("rlayout"):
                            H.append(f"dump_mem(r, {f['rlayout'][0]});")
                    H.append("led_dump_live();")
                    if f["needs_post_return"]:
                        H += ["led_phase('P');", f"{sym}_post_return({'r' if rett != 'void' else ''});", "led_phase('h');"]
                    H += ["led_report();", f'out("END {c.cid}\\n");', "}"]
                    main.append(f"case_{c.cid}();")
            # ---------------------------------------------------------------- imports
            else:
                for c in cs:
                    S.append(f"void drive_{c.cid}(void) {{")
                    S.append("led_owner('G'); led_phase('u');")
                    call_args = []
                    frees = []
                    for k, ((ty, isptr, pn), kind, dt, v) in enumerate(zip(cps, mc["params"], f["dparams"], c.params)):
                        lv = f"a{k}"
                        if kind[0] == "m":
                            S.append(f"{ty} {lv}; memset(&{lv}, 0, sizeof {lv});")
                            if v[1] == "1":
                                S += E.bd(dt[1], v[2], lv, "import")
                                call_args.append(f"&{lv}")
                                h = self.helper_for(ty)
                                if h: frees.append(f"{h}(&{lv});")
                            else:
                                call_args.append("NULL")
                        else:
                            S.append(f"{ty} {lv}; memset(&{lv}, 0, sizeof {lv});")
                            S += E.bd(dt, v, lv, "import")
                            call_args.append(f"&{lv}" if kind[0] == "p" else lv)
                            h = self.helper_for(ty)
                            if h and kind[0] == "p": frees.append(f"{h}(&{lv});")
                    for (ty, isptr, pn) in outs:
                        S.append(f"{ty} o_{pn}; memset(&o_{pn}, 0, sizeof o_{pn});")
                        call_args.append(f"&o_{pn}")
                    S.append("led_snapshot();")
                    S.append("led_phase('c');")
                    call = f"{f['c_name']}({', '.join(call_args)})"
                    if ret_t == "void": S.append(f"{call};")
                    else: S.append(f"{ret_t} rv = {call};")
                    S.append("led_phase('u');")
                    S.append("led_snapshot_check();")
                    S += self.emit_result_print(E, f, c, outs, "import")
                    S.append("led_phase('D');")
                    S += frees
                    S.append("led_phase('u');")
                    S.append("}")
                    S.append("")
                    H.append(f"extern void drive_{c.cid}(void);")
                    main += [f"cur_case = {c.cid};", f'out("CASE {c.cid}\\n");', "led_mark();", f"drive_{c.cid}();",
                             "led_report();", f'out("END {c.cid}\\n");']
                # host side: definition of the imported symbol
                wi = next((w for w in wasm_imports if w["module"] == (f["iface"] or "$root") and w["name"] == f["name"]), None)
                if wi is None:
                    self.errors.append(("no-wasm-import-decl", f["key"])); continue
                defined.add(wi["sym"])
                rett = WT_C[sg["results"][0]] if sg["results"] else "void"
                pnames = [f"x{k}" for k in range(len(sg["params"]))]
                ptys = ", ".join(f"{WT_C[t]} {n}" for t, n in zip(sg["params"], pnames)) or "void"
                H.append(f"{rett} {wi['sym']}({ptys}) {{")
                H.append("switch (cur_case) {")
                nargs = len(sg["params"]) - (1 if sg["retptr"] else 0)
                for c in cs:
                    H.append(f"case {c.cid}: {{")
                    H.append("led_owner('H');")
                    fmt = ",".join(["%llu"] * nargs) or "-"
                    vals = "".join(", " + flat_bits_expr(t, n) for t, n in list(zip(sg["params"], pnames))[:nargs])
                    H.append(f'out("HOST-RECV {c.cid} flat={fmt}\\n"{vals});')
                    if sg["indirect"] and f.get("playout"):
                        H.append(f"dump_mem(x0, {f['playout'][0]});")
                    H.append("led_dump_live();")
                    img = getattr(c, "res", None)
                    if c.result is not None and img is not None:
                        if sg["retptr"]:
                            lines, resolve = emit_image(img, "r", first_is=pnames[-1])
                            H += lines
                            H += ["led_owner('G');", "return;" if rett == "void" else "return 0;"]
                        else:
                            lines, resolve = emit_image(img, "r")
                            H += lines
                            tgt = resolve(img["flat"][0]) if img["ptrs"][:1] == "1" else None
                            H += ["led_owner('G');", f"return {flat_arg(sg['results'][0], img['flat'][0], tgt)};"]
                    else:
                        H += ["led_owner('G');", "return;" if rett == "void" else "return 0;"]
                    H.append("}")
                H.append("}")
                H.append(f'out("UNEXPECTED-IMPORT {wi["sym"]} %d\\n", cur_case);')
                if rett != "void": H.append(f"return ({rett}) 0;")
                H.append("}")
        # every other imported symbol (resource intrinsics, async built-ins): counters / traps
        for wi in wasm_imports:
            if wi["sym"] in defined: continue
            defined.add(wi["sym"])
            ps = wi["params"]
            if ps in ("", "void"): plist, pn = "void", []
            else:
                parts = [p.strip() for p in ps.split(",")]
                named = []
                for k, p in enumerate(parts):
                    toks = p.replace("*", " * ").split()
                    if toks[-1] != "*" and toks[-1] not in C_TYPE_WORDS: toks = toks[:-1]   # drop a parameter name
                    named.append(" ".join(toks) + f" q{k}")
                plist = ", ".join(named)
                pn = [re.search(r"(\w+)$", n).group(1) for n in named]
            body = f'out("INTRINSIC {wi["sym"]}'
            body += "".join(" %lld" for _ in pn) + '\\n"' + "".join(f", (long long) {n}" for n in pn) + ");"
            if wi["name"].startswith("[resource-new]"):
                body += f" return (int32_t) {pn[0]};"      # handle = rep (the mock host's table is the identity)
            elif wi["name"].startswith("[resource-rep]"):
                body += f" return (int32_t) {pn[0]};"
            elif wi["ret"] != "void":
                body += f" return ({wi['ret']}) 0;"
            H.append(f"{wi['ret']} {wi['sym']}({plist}) {{ {body} }}")
        # exported resources: new / rep / drop through the intrinsics, destructor through the export
        wasm_exports = parse_wasm_exports(self.c)
        self.dtor_exports = {}
        for k, r in enumerate(x for x in self.gen["resources"] if x["dir"] == "export"):
            snake = r["name"].replace("-", "_").lower()
            pre = f"{r['ns']}_{snake}"
            dsym = f"__wasm_export_{pre}_dtor"
            self.dtor_exports[r["name"]] = next((n for n, e in wasm_exports.items() if e["sym"] == dsym), None)
            S += [f"static struct {pre}_t reps_{k}[2];",
                  f"void res_scenario_{k}(void) {{",
                  f"for (int j = 0; j < 2; j++) {{",
                  f"{r['ns']}_own_{snake}_t h = {pre}_new(&reps_{k}[j]);",
                  f"{pre}_t *back = {pre}_rep(h);",
                  f'out("REP %s %u\\n", back == &reps_{k}[j] ? "ok" : "BAD", (unsigned) (uintptr_t) &reps_{k}[j]);',
                  f"{pre}_drop_own(h);",
                  "}", "}",
                  f"void *res_rep_{k}(int j) {{ return &reps_{k}[j]; }}"]
            H += [f"extern void res_scenario_{k}(void);", f"extern void *res_rep_{k}(int j);", f"extern void {dsym}(void *);"]
            main += [f'out("RES {r["name"]} {pre}\\n");', f"res_scenario_{k}();",
                     f"{dsym}(res_rep_{k}(0));", f"{dsym}(res_rep_{k}(1));", f'out("RES-END\\n");']
        H.append("int main(void) {")
        H.append("rt_init();")
        H += main
        H += ['out("DONE\\n");', "rt_flush();", "return 0;", "}"]
        return "\n".join(S) + "\n", "\n".join(H) + "\n"

    def emit_result_build(self, E, f, c, outs, ret_t, side):
        """export stub: produce the scripted result through the C return convention"""
        mc = f["mcsig"]
        v, dt = c.result, f["dresult"]
        L = []
        for (ty, isptr, pn) in outs:
            L.append(f"memset({pn}, 0, sizeof *{pn});")
        if mc["ret"] == "void":
            if outs:
                L += E.bd(dt, v, f"(*{outs[0][2]})", side)
            L.append("return;")
        elif mc["ret"] == "value":
            L.append(f"{ret_t} rv; memset(&rv, 0, sizeof rv);")
            L += E.bd(dt, v, "rv", side)
            L.append("return rv;")
        elif mc["ret"] == "bool-option":
            if v[1] == "1":
                L += E.bd(dt[1], v[2], f"(*{outs[0][2]})", side)
                L.append("return 1;")
            else:
                # `none`: the payload is indeterminate — poison it so that bindings which copy it anyway are
                # caught by UBSan when it is a bool (0x64 is not a valid _Bool)
                L.append(f"memset({outs[0][2]}, 0x64, sizeof *{outs[0][2]});")
                L.append("return 0;")
        elif mc["ret"] == "bool-result":
            j = int(v[1])
            payload_t = dt[1 + j]
            if payload_t != "_":
                want = "ret" if j == 0 else "err"
                o = next(o for o in outs if o[2] == want)
                L += E.bd(payload_t, v[2], f"(*{o[2]})", side)
            L.append(f"return {1 if j == 0 else 0};")
        return L

    def emit_result_print(self, E, f, c, outs, side):
        """import driver: reassemble the WIT result from the C return convention, print it, free it"""
        mc = f["mcsig"]
        dt = f["dresult"]
        L = []
        if dt is None: return L
        L.append(f'out("GUEST-RECV {c.cid} r ");')
        fr = []
        if mc["ret"] == "void":
            ty, _, pn = outs[0]
            L += E.pr(dt, f"o_{pn}", side)
            h = self.helper_for(ty)
            if h: fr.append(f"{h}(&o_{pn});")
        elif mc["ret"] == "value":
            L += E.pr(dt, "rv", side)
        elif mc["ret"] == "bool-option":
            ty, _, pn = outs[0]
            L += ["if (rv) {", 'out("(var 1 ");', *E.pr(dt[1], f"o_{pn}", side), 'out(")");', "} else {", 'out("(var 0)");', "}"]
            h = self.helper_for(ty)
            if h: fr.append(f"if (rv) {h}(&o_{pn});")
        elif mc["ret"] == "bool-result":
            def arm(j):
                t = dt[1 + j]
                if t == "_": return [f'out("(var {j})");']
                want = "ret" if j == 0 else "err"
                o = next(o for o in outs if o[2] == want)
                h = self.helper_for(o[0])
                if h: fr.append(f"if ({'rv' if j == 0 else '!rv'}) {h}(&o_{o[2]});")
                return [f'out("(var {j} ");', *E.pr(t, f"o_{o[2]}", side), 'out(")");']
            L += ["if (rv) {", *arm(0), "} else {", *arm(1), "}"]
        L.append('out("\\n");')
        L.append("led_phase('F');")
        L += fr
        return L

    # ---- 5. build and run
    def write_and_build(self, cident, sanitize=True, cc="gcc"):
        shutil.rmtree(self.dir, ignore_errors=True)
        os.makedirs(self.dir)
        stubs, host = self.emit(cident)
        for n, t in (("w.h", self.h), ("w.c", self.c), ("stubs.c", stubs), ("host.c", host), ("w.wit", self.wit)):
            open(os.path.join(self.dir, n), "w").write(t)
        cmd = [cc, "-O0", "-g", "-w", "-std=gnu17", "-no-pie", "-fno-pie", "-I", self.dir, "-I", RT]
        if sanitize: cmd += ["-fsanitize=address,undefined", "-fno-omit-frame-pointer"]
        cmd += ["w.c", "stubs.c", "host.c", os.path.join(RT, "rt.c"),
                "-Wl,--wrap=malloc,--wrap=free,--wrap=realloc,--wrap=calloc", "-o", "t"]
        p = subprocess.run(cmd, cwd=self.dir, stdout=subprocess.PIPE, stderr=subprocess.STDOUT, text=True)
        if p.returncode != 0:
            self.errors.append(("native-compile", p.stdout[-3000:]))
            return False
        return True

    def run(self, timeout=120, retry_timeout=1800):
        """a timeout is only reported after the binary also exceeded `retry_timeout` running ALONE
        (see run_batch: first attempts run in parallel and may starve on a loaded machine)"""
        env = dict(os.environ, ASAN_OPTIONS="detect_leaks=0:abort_on_error=0:halt_on_error=1", UBSAN_OPTIONS="print_stacktrace=0")
        try:
            p = subprocess.run(["./t"], cwd=self.dir, stdout=subprocess.PIPE, stderr=subprocess.PIPE, text=True,
                               timeout=timeout, env=env, errors="replace")
        except subprocess.TimeoutExpired:
            self.timed_out = True
            self.log, self.stderr, self.obs, self.res_obs, self.sizeof, self.rc = "", "", {}, {}, {}, None
            if retry_timeout is None:
                self.errors.append(("native-run", f"timeout: no answer within {timeout} s running alone")); return
            return
        self.timed_out = False
        self.log, self.stderr, self.rc = p.stdout, p.stderr, p.returncode
        self.parse_log()

    def parse_log(self):
        cur = None
        self.obs = {}
        self.res_obs = {}
        self.sizeof = {}
        for line in self.log.split("\n"):
            if line.startswith("SIZEOF "):
                _, key, pn, sz, al = line.split(" ")
                self.sizeof[(key, pn)] = (int(sz), int(al))
            elif line.startswith("RES "):
                _, name, pre = line.split(" ")
                cur = {"notes": [], "pre": pre, "ended": False}
                self.res_obs[name] = cur
            elif line.startswith("RES-END"):
                cur["ended"] = True; cur = None
            elif line.startswith("CASE "):
                cur = {"guest": {}, "flat": None, "mem": [], "ledger": None, "untouched": None, "notes": [], "ended": False}
                self.obs[int(line[5:])] = cur
            elif cur is None: continue
            elif "guest" not in cur:
                cur["notes"].append(line)
            elif line.startswith("GUEST-RECV "):
                _, cid, k, term = line.split(" ", 3)
                cur["guest"][k] = term
            elif line.startswith("HOST-RECV "):
                cur["flat"] = line.split("flat=", 1)[1]
            elif line.startswith("MEM "):
                _, a, h = line.split(" ")
                cur["mem"].append((a, h))
            elif line.startswith("LEDGER "):
                m = re.match(r"LEDGER live=(-?\d+) events=(\S+)", line)
                evs = [] if m.group(2) == "-" else [tuple(e.split(":")) for e in m.group(2).split(",")]
                cur["ledger"] = {"live": int(m.group(1)), "events": evs}
            elif line.startswith("UNTOUCHED "):
                cur["untouched"] = dict(kv.split("=") for kv in line.split(" ")[1:])
            elif line.startswith("END "):
                cur["ended"] = True; cur = None
            elif line:
                cur["notes"].append(line)

    # ---- 6. the host lifts what the guest produced
    def lift_requests(self):
        reqs = []
        for c in self.cases:
            o = self.obs.get(c.cid)
            if not o or o["flat"] is None: continue
            f, sg = c.fn, c.fn["msig"]
            mem = ";".join(f"{a}:{h}" for a, h in o["mem"]) or "-"
            if f["dir"] == "export":
                if c.result is None: continue
                mode = "mem" if sg["retptr"] else "flat"
                reqs.append((c.cid, f"lift|8|{mode}|{self.tterm(f['dresult'])}|{o['flat']}|{mem}"))
            else:
                mode = "mem" if sg["indirect"] else "flat"
                reqs.append((c.cid, f"lift|8|{mode}|{self.params_t(f)}|{o['flat']}|{mem}"))
        return reqs

    def evaluate(self, lifted):
        """-> (value findings, ownership findings, stats); a finding = (class, what, witness)"""
        vf, of = [], []
        st = {"cases": 0, "values": 0, "frees_checked": 0}
        def wit(c, extra):
            return {"wit": self.wit, "opts": self.opts, "enc": self.enc, "function": c.fn["key"], "func_term": c.fn["term"],
                    "params": [show(v) for v in c.params], "result": show(c.result) if c.result is not None else None, **extra}
        if self.stderr and ("ERROR: AddressSanitizer" in self.stderr or "runtime error" in self.stderr):
            of.append(("sanitizer-report", "AddressSanitizer / UBSan reported an error while running the generated bindings",
                       {"wit": self.wit, "opts": self.opts, "enc": self.enc, "stderr": self.stderr[:3000]}))
        for c in self.cases:
            o = self.obs.get(c.cid)
            f, sg = c.fn, c.fn["msig"]
            if not o or not o["ended"]:
                vf.append(("native-run-incomplete", "the native run did not complete this call", wit(c, {"stderr": (self.stderr or "")[:1500]})))
                continue
            st["cases"] += 1
            for n in o["notes"]:
                if n.startswith("UNEXPECTED") or n.startswith("FATAL"):
                    vf.append(("unexpected-call", n, wit(c, {})))
            exp_params = [self.vterm(d, v) for d, v in zip(f["dparams"], c.params)]
            exp_res = self.vterm(f["dresult"], c.result) if c.result is not None else None
            if f["dir"] == "export":
                for k, e in enumerate(exp_params):
                    st["values"] += 1
                    got = o["guest"].get(str(k))
                    if got != e:
                        vf.append(("export-param-value", "an exported function's C implementation received a different value than the host sent",
                                   wit(c, {"param": k, "sent": e, "received": got})))
                if exp_res is not None:
                    st["values"] += 1
                    got = lifted.get(c.cid)
                    if got != "ok " + exp_res:
                        vf.append(("export-result-value", "the host lifted a different result than the C implementation returned",
                                   wit(c, {"returned": exp_res, "lifted": got})))
            else:
                st["values"] += 1
                got = lifted.get(c.cid)
                want = "ok (r" + "".join(" " + e for e in exp_params) + ")"
                if got != want:
                    vf.append(("import-param-value", "the host lifted different arguments than the C caller passed",
                               wit(c, {"passed": want, "lifted": got})))
                if exp_res is not None:
                    st["values"] += 1
                    got = o["guest"].get("r")
                    if got != exp_res:
                        vf.append(("import-result-value", "the C caller received a different result than the host returned",
                                   wit(c, {"returned": exp_res, "received": got})))
            # ---- handles (C11): a borrow of an imported resource received by an export is dropped exactly
            # once — by the bindings (autodrop) or by the user's `*_drop_borrow` — and nothing else is dropped
            drops = sorted(int(n.split(" ")[2]) % (1 << 32) for n in o["notes"] if n.startswith("INTRINSIC ") and n.split(" ")[1].endswith("_drop"))
            want = []
            if f["dir"] == "export":
                want = sorted(int(v[1]) for d, v in zip(f["dparams"], c.params)
                              if isinstance(d, list) and d[0] == "borrow" and d[1] not in self.exported_res)
            st["drops_checked"] = st.get("drops_checked", 0) + len(want)
            if drops != want:
                of.append(("borrow-drop-count", "borrowed handles of imported resources are not dropped exactly once per call",
                           wit(c, {"dropped": drops, "expected": want})))
            # ---- ownership (C11)
            led = o["ledger"]
            if led is None:
                of.append(("no-ledger", "no ledger report", wit(c, {}))); continue
            evs = led["events"]
            bad = [e for e in evs if e[0] == "x"]
            if bad:
                of.append(("free-of-non-live-block", "the bindings or helpers freed a pointer that is not a live allocation (double free / bad free)",
                           wit(c, {"events": evs})))
            allocs = lambda owner: sorted(int(e[2]) for e in evs if e[0] == "a" and e[1] == owner and int(e[2]) > 0)
            frees = lambda owner, phases: [int(e[2]) for e in evs if e[0] == "f" and e[1] == owner and e[3] in phases and int(e[2]) > 0]
            pf = lambda late: [x for k in range(len(c.params)) for x in c.pfree.get(late, {}).get(k, [])]
            expected_live = 0
            if f["dir"] == "export":
                # host-allocated argument buffers: released by the callee through the generated helpers
                # (the parameter record of an indirect call by the bindings themselves)
                if frees("H", "P"):
                    of.append(("post-return-frees-argument", "post-return freed an argument buffer", wit(c, {"events": evs})))
                rec = [f["playout"][0]] if sg["indirect"] and f.get("playout") else []
                if frees("H", "uc") != rec:
                    of.append(("param-record-free", "the bindings did not free exactly the caller-allocated parameter record",
                               wit(c, {"freed": frees("H", "uc"), "expected": rec, "events": evs})))
                st["frees_checked"] += 1
                obs = frees("H", "F")
                if obs == pf("0"): pass
                elif obs == pf("1"):
                    expected_live = len(pf("0")) - len(pf("1"))
                    of.append(("c-free-helper-skips-shared-anon-type",
                               "a generated *_free helper does not free a member whose anonymous type (list/option/tuple of primitives) was already defined by an earlier pass",
                               wit(c, {"freed_sizes": obs, "model_full": pf("0"), "model_as_generated": pf("1")})))
                else:
                    of.append(("free-helper-args", "the generated free helpers do not free exactly the argument's buffers",
                               wit(c, {"freed_sizes": obs, "model_full": pf("0"), "model_as_generated": pf("1"), "events": evs})))
                # guest-built result buffers: released by post-return only, and exactly those
                if frees("G", "cuF"):
                    of.append(("result-freed-before-post-return", "a result buffer was freed before post-return", wit(c, {"events": evs})))
                img = getattr(c, "resimg", None)
                if img is not None:
                    model_sizes = sorted(s for (a, s, al, bs) in img["blocks"][1:] if s > 0)
                    st["frees_checked"] += 1
                    if sorted(frees("G", "P")) != model_sizes or allocs("G") != model_sizes:
                        of.append(("post-return-frees", "post-return does not free exactly the buffers of the returned value",
                                   wit(c, {"freed_sizes": frees("G", "P"), "alloc_sizes": allocs("G"), "model_sizes": model_sizes, "events": evs})))
            else:
                u = o["untouched"]
                if u is None or u.get("changed") != "0" or u.get("snap") != u.get("checked"):
                    of.append(("import-args-touched", "an import call modified or freed its arguments' memory", wit(c, {"untouched": u, "events": evs})))
                if frees("G", "c"):
                    of.append(("import-args-freed", "an import call freed caller-owned memory", wit(c, {"events": evs})))
                if c.result is not None and c.rfree is not None:
                    st["frees_checked"] += 1
                    if frees("H", "F") != c.rfree or sorted(c.rfree) != allocs("H"):
                        of.append(("free-helper-result", "the generated free helper does not free exactly the buffers of the received result",
                                   wit(c, {"freed_sizes": frees("H", "F"), "model_sizes": c.rfree, "host_allocs": allocs("H"), "events": evs})))
                st["frees_checked"] += 1
                if frees("G", "D") != pf("0") or allocs("G") != sorted(pf("0")):
                    of.append(("free-helper-args", "the generated free helpers do not free exactly the caller's argument buffers (or the C layout differs from the canonical one)",
                               wit(c, {"freed_sizes": frees("G", "D"), "alloc_sizes": allocs("G"), "model_sizes": pf("0"), "events": evs})))
            if led["live"] != expected_live:
                of.append(("leak" if led["live"] > expected_live else "over-free",
                           f"{led['live']} allocation(s) of this call are still live after all owners released them (expected {expected_live})",
                           wit(c, {"events": evs})))
        return vf, of, st

    def evaluate_resources(self):
        """exported resources: new/rep/drop intrinsics and exactly-once destructor per host drop"""
        of, n = [], 0
        for r in self.gen["resources"]:
            if r["dir"] != "export": continue
            o = self.res_obs.get(r["name"])
            w = {"wit": self.wit, "opts": self.opts, "enc": self.enc, "resource": r["name"]}
            if not o or not o["ended"]:
                of.append(("resource-scenario-incomplete", "the resource scenario did not run", w)); continue
            n += 1
            pre = o["pre"]
            reps = [int(l.split(" ")[2]) for l in o["notes"] if l.startswith("REP ")]
            bad = [l for l in o["notes"] if l.startswith("REP BAD")]
            news = [int(l.split(" ")[2]) % (1 << 32) for l in o["notes"] if l.startswith(f"INTRINSIC __wasm_import_{pre}_new ")]
            drops = [int(l.split(" ")[2]) % (1 << 32) for l in o["notes"] if l.startswith(f"INTRINSIC __wasm_import_{pre}_drop ")]
            dtors = [int(l.split(" ")[2]) for l in o["notes"] if l.startswith(f"DTOR {pre} ")]
            if bad or news != reps or drops != reps:
                of.append(("resource-intrinsics", "new/rep/drop of an exported resource do not reach the intrinsics with the representation / handle",
                           dict(w, notes=o["notes"])))
            if dtors != reps:
                of.append(("dtor-not-exactly-once", "the user destructor did not run exactly once per host drop", dict(w, notes=o["notes"])))
        return of, n


def run_batch(worlds, gen_bin, chost_bin, rng, ncases, jobs=16, sanitize=True, timeout=600):
    """all phases for a list of WorldRun; returns (results, corr) where results[i] = dict per world"""
    from vlib import run_lines
    from concurrent.futures import ThreadPoolExecutor
    gans = par_lines([gen_bin, "gen"], [w.gen_request() for w in worlds], jobs, timeout)
    live = [w for w, a in zip(worlds, gans) if w.take_gen(a)]
    names = sorted({n for w in live for n in w.names_needed()})
    ids = retry_timeouts([gen_bin, "ident"], [hx(n) for n in names], run_lines([gen_bin, "ident"], [hx(n) for n in names], timeout=timeout))
    idmap = {n: unhx(i) for n, i in zip(names, ids)}
    cident = lambda n: idmap[n]
    for w in live: w.plan(rng, ncases)
    reqs = [(w, r) for w in live for r in w.model_requests_static()]
    ans = retry_timeouts([chost_bin], [r[2] for _, r in reqs], run_lines([chost_bin], [r[2] for _, r in reqs], timeout=timeout))
    for (w, (kind, key, _)), a in zip(reqs, ans): w.take_static(kind, key, a)
    reqs = [(w, r) for w in live for r in w.model_requests_cases()]
    ans = retry_timeouts([chost_bin], [r[2] for _, r in reqs], run_lines([chost_bin], [r[2] for _, r in reqs], timeout=timeout))
    for (w, (kind, cid, _)), a in zip(reqs, ans): w.take_case(kind, cid, a)
    reqs = [(w, r) for w in live for r in w.model_requests_layout()]
    ans = retry_timeouts([chost_bin], [r[1] for _, r in reqs], run_lines([chost_bin], [r[1] for _, r in reqs], timeout=timeout))
    for w in live: w.mlayout = {}
    for (w, (key, _)), a in zip(reqs, ans):
        m = re.match(r"size=(\d+) align=(\d+) csize=(\d+) calign=(\d+)", a)
        w.mlayout[key] = tuple(int(x) for x in m.groups()) if m else None
    def build_run(w):
        try:
            if w.write_and_build(cident, sanitize=sanitize): w.run()
            else: w.log, w.stderr, w.obs, w.res_obs, w.sizeof = "", "", {}, {}, {}
        except Exception as e:
            import traceback
            w.errors.append(("machinery", traceback.format_exc()[-2000:]))
            w.log, w.stderr, w.obs, w.res_obs, w.sizeof = "", "", {}, {}, {}
    with ThreadPoolExecutor(max_workers=jobs) as ex:
        list(ex.map(build_run, live))
    for w in live:          # binaries that timed out in the parallel phase: once more, alone, long limit
        if getattr(w, "timed_out", False):
            w.run(timeout=1800, retry_timeout=None)
    reqs = [(w, r) for w in live for r in w.lift_requests()]
    ans = retry_timeouts([chost_bin], [r[1] for _, r in reqs], run_lines([chost_bin], [r[1] for _, r in reqs], timeout=timeout))
    lifted = {}
    for (w, (cid, _)), a in zip(reqs, ans): lifted.setdefault(id(w), {})[cid] = a
    for w in live:
        w.vf, w.of, w.st = w.evaluate(lifted.get(id(w), {}))
        rof, w.nres = w.evaluate_resources()
        w.of += rof
    return live


# ---------------------------------------------------------------------------------------------
# C12: wasm32 build + componentization

STUB = os.path.join(VERIF, "harness", "c-native", "wasm32-stub")
CLANG = ["clang", "--target=wasm32-unknown-unknown", "-nostdlibinc", "-isystem", STUB, "-O1"]
WARN = ["-Wall", "-Wextra", "-Werror", "-Wno-unused-parameter"]

class WasmRun:
    """one (world, configuration): generate, compile for wasm32, link, componentize, compare worlds"""
    def __init__(self, name, witarg, opts, enc, workdir, origin, world="-"):
        self.name, self.witarg, self.opts, self.enc, self.origin, self.world = name, witarg, opts, enc, origin, world
        self.dir = os.path.join(workdir, name)
        self.stage, self.msg = "gen", ""
        self.ok = False

    def gen_request(self): return f"{self.opts} {self.enc} {hx(self.witarg)} {self.world}"

    def take_gen(self, ans):
        if not ans.startswith("ok "):
            self.stage = "gen-" + ans.split(" ")[0]
            self.msg = unhx(ans.split(" ", 1)[1]) if " " in ans else ans
            return False
        self.gen = json.loads(ans[3:])
        return True

    def build(self, libc_o):
        shutil.rmtree(self.dir, ignore_errors=True)
        os.makedirs(self.dir)
        snake = None
        for n, t in self.gen["files"].items():
            p = os.path.join(self.dir, n)
            if isinstance(t, str): open(p, "w").write(t)
            else: open(p, "wb").write(bytes.fromhex(t["hex"]))
            if n.endswith(".h"): snake = n[:-2]
        self.snake = snake
        def sh(cmd):
            p = subprocess.run(cmd, cwd=self.dir, stdout=subprocess.PIPE, stderr=subprocess.STDOUT, text=True)
            return p.returncode, p.stdout
        # 1. the generated bindings, with the warning set of crates/test/src/c.rs
        self.stage = "clang-bindings"
        rc, out = sh(CLANG + WARN + ["-I", ".", "-c", f"{snake}.c", "-o", "bindings.o"])
        if rc != 0: self.msg = out[-2500:]; return
        # 2. what must the user define?  (undefined, non-import symbols)
        self.stage = "link-probe"
        objs = ["bindings.o", libc_o, f"{snake}_component_type.o"]
        rc, out = sh(["wasm-ld", "--no-entry", "--export-dynamic", "--no-gc-sections", "--error-limit=0"] + objs + ["-o", "probe.wasm"])
        undef = re.findall(r"undefined symbol: (\w+)", out)
        other = [l for l in out.split("\n") if "error" in l and "undefined symbol" not in l]
        if other: self.msg = "\n".join(other)[:2500]; return
        protos = parse_protos(self.gen["files"][f"{snake}.h"])
        self.stage = "user-stubs"
        U = [f'#include "{snake}.h"']
        for s in dict.fromkeys(undef):
            if s not in protos:
                self.msg = f"undefined symbol {s} has no prototype in the header"; return
            text = protos[s][2]
            if text.startswith("extern "): text = text[len("extern "):]
            U.append(f"{text} {{ __builtin_trap(); }}")
        open(os.path.join(self.dir, "user.c"), "w").write("\n".join(U) + "\n")
        self.stage = "clang-user"
        rc, out = sh(CLANG + WARN + ["-Wc++-compat", "-I", ".", "-c", "user.c", "-o", "user.o"])
        if rc != 0: self.msg = out[-2500:]; return
        self.stage = "wasm-ld"
        rc, out = sh(["wasm-ld", "--no-entry", "--export-dynamic", "--no-gc-sections", "--error-limit=0"] + objs + ["user.o", "-o", "module.wasm"])
        if rc != 0: self.msg = out[-2500:]; return
        self.stage = "componentize"
        self.wasm = os.path.join(self.dir, "module.wasm")

    def comp_request(self):
        return f"{hx(self.wasm)} {hx(self.witarg)} {self.world} {self.enc}"

    def take_comp(self, ans):
        if not ans.startswith("ok "):
            self.stage = "componentize-" + ans.split(" ")[0]
            self.msg = unhx(ans.split(" ", 1)[1]) if " " in ans else ans
            return
        d = json.loads(ans[3:])
        self.want, self.got = d["want"], d["got"]
        self.stage = "world-compare"
        def canon(w):
            out = {}
            for side in ("imports", "exports"):
                items = []
                for it in w[side]:
                    if "iface" in it: items.append(("iface", it["iface"], tuple(it["funcs"])))
                    elif "func" in it: items.append(("func", it["func"], it["sig"]))
                    else: items.append(("type", it["type"], it["def"]))
                out[side] = sorted(items)
            return out
        cw, cg = canon(self.want), canon(self.got)
        # a component may import *less* than the world offers (unused imports are dropped); exports must be exact
        missing_exports = [x for x in cw["exports"] if x not in cg["exports"]]
        extra_exports = [x for x in cg["exports"] if x not in cw["exports"]]
        extra_imports = [x for x in cg["imports"] if x not in cw["imports"] and x[0] != "type"]
        # (an imported interface without functions only offers types: nothing to import)
        missing_imports = [x for x in cw["imports"] if x not in cg["imports"] and x[0] != "type" and not (x[0] == "iface" and not x[2])]
        self.diff = {"missing_exports": missing_exports, "extra_exports": extra_exports,
                     "extra_imports": extra_imports, "missing_imports": missing_imports}
        if missing_exports or extra_exports or extra_imports or missing_imports:
            self.msg = json.dumps(self.diff)[:2500]
            return
        self.stage, self.ok = "done", True


def wasm_batch(runs, gen_bin, workdir, jobs=16, timeout=900):
    from vlib import run_lines
    from concurrent.futures import ThreadPoolExecutor
    os.makedirs(workdir, exist_ok=True)
    libc_o = os.path.join(workdir, "libc.o")
    p = subprocess.run(CLANG + ["-c", os.path.join(STUB, "libc.c"), "-o", libc_o], stdout=subprocess.PIPE, stderr=subprocess.STDOUT, text=True)
    if p.returncode != 0: raise RuntimeError("stub libc does not compile: " + p.stdout)
    ans = par_lines([gen_bin, "gen"], [r.gen_request() for r in runs], jobs, timeout)
    live = [r for r, a in zip(runs, ans) if r.take_gen(a)]
    with ThreadPoolExecutor(max_workers=jobs) as ex:
        list(ex.map(lambda r: r.build(libc_o), live))
    ready = [r for r in live if r.stage == "componentize"]
    ans = par_lines([gen_bin, "componentize"], [r.comp_request() for r in ready], jobs, timeout)
    for r, a in zip(ready, ans): r.take_comp(a)
    return runs


def retry_timeouts(cmd, lines, answers, long_timeout=1800):
    """a `timeout` answer on a loaded machine is not a verdict: ask again, alone, with a long limit"""
    from vlib import run_lines
    out = list(answers)
    for i, a in enumerate(out):
        if a == "timeout":
            out[i] = run_lines(cmd, [lines[i]], timeout=long_timeout)[0]
    return out


def par_lines(cmd, lines, jobs, timeout):
    """run_lines over `jobs` server processes (order preserved)"""
    from vlib import run_lines
    from concurrent.futures import ThreadPoolExecutor
    if not lines: return []
    k = max(1, min(jobs, len(lines) // 8 or 1))
    chunks = [lines[i::k] for i in range(k)]
    with ThreadPoolExecutor(max_workers=k) as ex:
        outs = list(ex.map(lambda ch: run_lines(cmd, ch, timeout=timeout), chunks))
    res = [None] * len(lines)
    for i, out in enumerate(outs):
        for j, a in enumerate(out): res[i + j * k] = a
    return retry_timeouts(cmd, lines, res)


# ---------------------------------------------------------------------------------------------
# C12: adversarial names.  Each world carries ONE adversarial feature; `expect` = the finding class
# it exposes on the current tree (None = must build), `sig` = regex the failure message must match
# for the failure to count as that class.

C_KEYWORDS_IN_TABLE = ["auto", "break", "case", "char", "const", "continue", "default", "do", "double", "else", "enum", "extern",
                       "float", "for", "goto", "if", "inline", "int", "long", "register", "return", "short", "signed", "sizeof",
                       "static", "struct", "switch", "typedef", "union", "unsigned", "void", "volatile", "while", "asm"]
WIT_KEYWORDS = {"use", "type", "func", "resource", "record", "flags", "variant", "enum", "bool", "string", "option", "result",
                "future", "stream", "list", "tuple", "char", "static", "interface", "world", "import", "export", "package",
                "include", "as", "from", "constructor", "async", "borrow", "own", "with", "map", "u8", "u16", "u32", "u64",
                "s8", "s16", "s32", "s64", "f32", "f64", "error-context"}

def wid(n): return "%" + n if n.lower() in WIT_KEYWORDS else n

def adversarial_worlds(rng, n_random):
    W = []
    def add(name, cls, sig, body, why):
        W.append({"name": name, "expect": cls, "sig": sig, "wit": "package t:t;\n" + body, "why": why})
    def positions(nm):
        """the same adversarial identifier in each position a WIT name reaches a C identifier"""
        n = wid(nm)
        return {
            "field": f"interface i {{ record r {{ {n}: u32, x: string }} f: func(a: r) -> r; }}\nworld w {{ import i; export i; }}\n",
            "param": f"interface i {{ f: func({n}: u32, y: string) -> u32; }}\nworld w {{ import i; export i; }}\n",
            "case": f"interface i {{ variant v {{ {n}(u32), other(string) }} f: func(a: v) -> v; }}\nworld w {{ import i; export i; }}\n",
            "func": f"interface i {{ {n}: func(a: u32) -> string; }}\nworld w {{ import i; export i; }}\n",
            "type": f"interface i {{ record {n} {{ a: string }} f: func(a: {n}) -> {n}; }}\nworld w {{ import i; export i; }}\n",
            "enum-case": f"interface i {{ enum e {{ {n}, other }} f: func(a: e) -> e; }}\nworld w {{ import i; export i; }}\n",
            "flag": f"interface i {{ flags fl {{ {n}, other }} f: func(a: fl) -> fl; }}\nworld w {{ import i; export i; }}\n",
            "resource": f"interface i {{ resource {n} {{ constructor(); m: func() -> u32; }} }}\nworld w {{ import i; export i; }}\n",
            "interface": f"interface {n} {{ f: func(a: string) -> u32; }}\nworld w {{ import {n}; export {n}; }}\n",
        }
    # 1. keywords the table knows: must build in every position
    for kw in rng.sample(C_KEYWORDS_IN_TABLE, 3) + ["ret", "err", "new", "bool"]:
        for pos, body in positions(kw).items():
            add(f"kw-{kw}-{pos}", None, None, body, f"escaped keyword `{kw}` as {pos}")
    # 2. keywords the table used to miss (repaired in /repo 89692d8): must build in every position
    for kw in ("restrict", "typeof"):
        for pos, body in positions(kw).items():
            add(f"kwmiss-{kw}-{pos}", None, None, body, f"C keyword `{kw}` as {pos}")
    # 3. upper-case spellings (the table is consulted with the snake-cased name since 89692d8): must build
    for kw in rng.sample(["int", "char", "static", "const", "void", "if", "for", "struct", "return", "default"], 3):
        for pos, body in positions(kw.upper()).items():
            add(f"kwupper-{kw}-{pos}", None, None, body, f"upper-case `{kw.upper()}` as {pos}")
    # 4. typedef names of <stdint.h>/<stddef.h> as parameter names
    for nm, ty in (("int8-t", "s8"), ("uint8-t", "u8"), ("uint32-t", "u32"), ("int64-t", "s64"), ("size-t", "list<u8>")):
        add(f"typedef-{nm}", "c-typedef-name-as-parameter", r"unknown type name|expected|not a function|redefinition|called object",
            f"interface i {{ f: func({nm}: u32, b: {ty}) -> {ty}; }}\nworld w {{ import i; export i; }}\n",
            f"parameter named `{nm}` shadows the typedef used by the next parameter")
    # 5. fixed local names that are not allocated through Ns
    add("fixed-ret-area", "c-fixed-local-name-collision", r"redefinition of 'ret_area'",
        "interface i { f: func(ret-area: u32) -> string; }\nworld w { import i; }\n", "parameter `ret-area` vs the import wrapper's `ret_area`")
    add("fixed-maybe", "c-fixed-local-name-collision", r"redefinition of parameter 'maybe_x'",
        "interface i { f: func(x: option<u32>, maybe-x: u32); }\nworld w { import i; }\n", "`maybe-x` next to the flattened option `x`")
    # names of Ns-allocated temporaries and out-pointers: must build
    add("tmp-names", None, None,
        "interface i { f: func(ptr: string, len: u32, ret: u32, err: u32, %result: option<string>, %variant: u8, %option: u8, payload: u8, arg: u8, arg0: u8, base: u8, e: u8, i: u8, ret0: u8, ptr0: u8, val: u8, ok: u8) -> result<string, string>; g: func(ret: string, err: string) -> option<string>; }\nworld w { import i; export i; }\n",
        "names of generated temporaries and out-pointers as parameter names")
    add("member-names", None, None,
        "interface i { record r { ptr: string, len: u32, tag: u8, val: u8, is-some: bool, is-err: bool, f0: u8, ok: u8, err: u8 } variant v { tag(u8), val(string), ok, err(r) } f: func(a: r, b: v) -> tuple<r, v>; }\nworld w { import i; export i; }\n",
        "names of generated struct members as field / case names")
    # 6. collisions after mangling across kinds
    add("coll-free", "c-name-collision-function-vs-helper", r"redefinition of 't_t_i_foo_free'|conflicting types for 't_t_i_foo_free'",
        "interface i { record foo { s: string } foo-free: func(a: foo); }\nworld w { import i; }\n", "function `foo-free` vs free helper of `foo`")
    add("coll-drop", "c-name-collision-function-vs-helper", r"conflicting types for 't_t_i_r_drop_own'|redefinition of 't_t_i_r_drop_own'",
        "interface i { resource r { constructor(); } r-drop-own: func(a: u32); }\nworld w { import i; }\n", "function `r-drop-own` vs drop function of resource `r`")
    add("coll-func-type", "c-name-collision-type", r"redefinition of 't_t_i_foo_t'",
        "interface i { record foo { a: u32 } foo-t: func(a: foo); }\nworld w { import i; }\n", "function `foo-t` vs typedef of `foo`")
    add("coll-anon", "c-name-collision-type", r"typedef redefinition|redefinition of",
        "interface i { record r { a: u32 } record list-r { x: string } f: func(a: list<r>, b: list-r); }\nworld w { import i; }\n",
        "named `list-r` vs the anonymous `list<r>`")
    add("coll-world-anon", "c-name-collision-type", r"typedef redefinition|redefinition of",
        "world w { record option-string { a: u32 } import f: func(a: option-string, b: option<string>); }\n",
        "world-level `option-string` vs the shared anonymous `option<string>`")
    add("coll-macro-enum", "c-name-collision-macro", r"macro redefined",
        "interface i { enum foo { bar-baz, x } enum foo-bar { y, baz } f: func(a: foo, b: foo-bar); }\nworld w { import i; }\n",
        "`foo`.`bar-baz` and `foo-bar`.`baz` define the same macro")
    add("coll-macro-flags", "c-name-collision-macro", r"macro redefined",
        "interface i { flags p { q-r, z } flags p-q { y, r } f: func(a: p, b: p-q); }\nworld w { import i; }\n",
        "flags members define the same macro")
    # same snake form in different namespaces / kinds that must NOT collide
    add("coll-ns-boundary", "c-name-collision-type", r"redefinition of 't_t_a_b_c_t'|typedef redefinition",
        "interface a-b { record c { x: string } f: func(a: c); }\ninterface a { record b-c { y: u32 } f: func(a: b-c); }\nworld w { import a-b; import a; export a-b; }\n",
        "interface `a-b` type `c` vs interface `a` type `b-c`: the namespace/name boundary is lost")
    rng.shuffle(W)
    return W
