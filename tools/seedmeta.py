#!/usr/bin/env python3
"""tools/seedmeta.py <name> <property> <detected:0|1> <missed_at_first:0|1> <detected_how> [strengthening]
writes seeded/<name>/meta.json from the agent's meta (seeded/<name>/agent-meta.json) and the coordinator's findings."""
import json, sys, os
name, pid, det, missed, how = sys.argv[1:6]
strength = sys.argv[6] if len(sys.argv) > 6 else None
a = json.load(open(f"/verif/seeded/{name}/agent-meta.json"))
m = {"property": pid, "summary": a["summary"], "needs_to_manifest": a.get("needs"), "why_existing_tests_pass": a.get("why_tests_pass"),
     "produced_by": "fresh sub-agent given only the property text and a scratch worktree (tools/mutation_prompt.txt)",
     "confirmed_by_coordinator": {"how": "tools/confirm_seed.sh in a scratch worktree of /repo HEAD: patch applies; demo/run.sh exits 0 on the pristine tree and non-zero with the patch; cargo test --workspace --offline --no-fail-fast passes with the patch (61 passed = 46 tests + 15 doctests, 0 failed)", "log": "confirm.log"},
     "checks_run": [f"tools/mutcheck.sh {pid} seeded/{name}/patch.diff quick"],
     "detected": det == "1", "missed_at_first": missed == "1", "detected_how": how}
if strength: m["strengthening"] = strength
json.dump(m, open(f"/verif/seeded/{name}/meta.json", "w"), indent=1)
print("wrote", name)
