#!/bin/bash
# tools/confirm_seed.sh <ID> <dir with patch.diff + demo/run.sh> [name]
# Coordinator's own confirmation of a seeded change, in a scratch worktree (never /repo's working tree):
#   1. patch applies to /repo HEAD   2. demo passes on pristine, fails with the patch
#   3. workspace builds and the existing test suite passes with the patch
# then stores patch.diff, demo/ (sources only) and confirm.log under /verif/seeded/<name>/.
set -u
ID=$1; SRC=$(realpath "$2"); NAME=${3:-$ID}
W=/tmp/confirm/$NAME; rm -rf "$W"; mkdir -p "$W"
DST=/verif/seeded/$NAME; mkdir -p "$DST"
LOG=$DST/confirm.log; : > "$LOG"
say() { echo "$@" | tee -a "$LOG"; }
git -C /repo worktree add --detach "$W/repo" >/dev/null 2>&1 || { say "worktree failed"; exit 2; }
trap 'git -C /repo worktree remove --force "$W/repo" >/dev/null 2>&1; rm -rf "$W"' EXIT
say "repo HEAD: $(git -C /repo rev-parse --short HEAD)"
git -C "$W/repo" apply --check "$SRC/patch.diff" && say "patch applies: yes" || { say "patch applies: NO"; exit 1; }
export CARGO_NET_OFFLINE=true
"$SRC/demo/run.sh" "$W/repo" > "$W/demo-pristine.txt" 2>&1; r0=$?
say "demo on pristine: exit $r0"; tail -3 "$W/demo-pristine.txt" >> "$LOG"
git -C "$W/repo" apply "$SRC/patch.diff"
"$SRC/demo/run.sh" "$W/repo" > "$W/demo-patched.txt" 2>&1; r1=$?
say "demo with patch: exit $r1"; tail -12 "$W/demo-patched.txt" >> "$LOG"
(cd "$W/repo" && CARGO_TARGET_DIR=/tmp/confirm/target cargo test --workspace --offline --no-fail-fast > "$W/suite.txt" 2>&1); r2=$?
pass=$(grep -E "^test result: ok" "$W/suite.txt" | sed -E 's/.* ([0-9]+) passed.*/\1/' | paste -sd+ | bc)
fail=$(grep -cE "^test .* FAILED" "$W/suite.txt")
say "test suite with patch: exit $r2, passed $pass, failed $fail"
cp "$SRC/patch.diff" "$DST/patch.diff"
rm -rf "$DST/demo"; mkdir -p "$DST/demo"
rsync -a --max-size=200k --exclude 'target*' --exclude '.build' --exclude 'build' --exclude '.work*' --exclude 'Cargo.lock' "$SRC/demo/" "$DST/demo/"
[ -f "$SRC/meta.json" ] && cp "$SRC/meta.json" "$DST/agent-meta.json"
[ $r0 -eq 0 ] && [ $r1 -ne 0 ] && [ $r2 -eq 0 ] && say "CONFIRMED" || say "NOT CONFIRMED"
