#!/usr/bin/env python3
"""C15 translator: syntactic inventory of every iteration over `HashMap`/`HashSet`-typed state in
the generator crates of /repo, with the *consumer* of the iteration classified, written as the Lean
table `lean/Witverif/Generated/HashSites.lean`.

  hash-typed names  = struct fields, `let` bindings, function parameters and returned values whose
                      declared type / initialiser mentions HashMap or HashSet (per file)
  iteration site    = `for … in <expr over such a name>` or a method chain on such a name that
                      walks it: iter, iter_mut, keys, values, values_mut, into_iter, into_keys,
                      into_values, drain, retain, extend(<hash name>)   (get/contains/insert/remove/
                      entry/len/is_empty do not depend on the iteration order)
  consumer class    = what is done with the elements *in iteration order* (see CLASSES).  The
                      automatic rules recognise the safe shapes; every other site must be listed in
                      MANUAL with a justification, keyed by its fingerprint (file, function,
                      hash of the normalised site text) — so a changed site loses its
                      classification and the proof obligation `all_sites_order_insensitive` breaks.

Usage: gen_hash_sites.py [--repo /repo] [--out <HashSites.lean>] [--json <file>]
Exit 0 always; unclassified sites are written with consumer `.unclassified`.
The round-trip guard re-parses the generated Lean table and compares it with the inventory.
"""
import re, os, sys, json, hashlib

CRATES = ["crates/core/src", "crates/c/src", "crates/cpp/src", "crates/csharp/src", "crates/go/src",
          "crates/moonbit/src", "crates/d/src", "crates/rust/src", "crates/markdown/src", "src/bin"]

# consumer classes: (Lean constructor, order-insensitive?)
CLASSES = {
    "sorted": True,          # collected and sorted (or collected into a BTree container) before any use
    "btreeInsert": True,     # every element only inserted into a BTreeMap/BTreeSet
    "hashInsert": True,      # every element only inserted into another HashMap/HashSet
    "reduce": True,          # any / all / contains / count / len / is_empty / sum / commutative |=, max/min
    "retainPred": True,      # retain(|x| pure predicate): the surviving set does not depend on the order
    "perElementState": True, # each element updates state keyed by that element only (no cross-element order)
    "notHash": True,         # the identifier only shares its name with a hash container (Vec / slice / IndexMap field)
    "emitted": False,        # elements reach the output (or an ordered container) in iteration order
    "firstMatch": False,     # find / next / position: the answer depends on the order
    "unclassified": False,
}

WALK = r"(iter_mut|iter|keys|values_mut|values|into_iter|into_keys|into_values|drain|retain)"


def strip_comments(src):
    out, i, n = [], 0, len(src)
    while i < n:
        if src.startswith("//", i):
            while i < n and src[i] != "\n": i += 1
            continue
        if src.startswith("/*", i):
            j = src.find("*/", i + 2)
            j = n if j < 0 else j + 2
            out.append(re.sub(r"[^\n]", " ", src[i:j])); i = j; continue
        if src[i] == '"':
            j = i + 1
            while j < n and src[j] != '"':
                j += 2 if src[j] == "\\" else 1
            out.append('"' + re.sub(r"[^\n]", " ", src[i + 1:j]) + '"'); i = j + 1; continue
        if src.startswith('r#"', i) or src.startswith('r"', i):
            h = 0; j = i + 1
            while src[j] == "#": h += 1; j += 1
            end = src.find('"' + "#" * h, j + 1)
            end = n if end < 0 else end + 1 + h
            out.append(re.sub(r"[^\n]", " ", src[i:end])); i = end; continue
        out.append(src[i]); i += 1
    return "".join(out)


def functions(src):
    """[(name, start, end)] of every `fn` body (brace matched on comment/string-free text)"""
    res = []
    for m in re.finditer(r"\bfn\s+(\w+)", src):
        i = src.find("{", m.end())
        semi = src.find(";", m.end())
        if i < 0 or (0 <= semi < i): continue
        depth, j = 0, i
        while j < len(src):
            if src[j] == "{": depth += 1
            elif src[j] == "}":
                depth -= 1
                if depth == 0: break
            j += 1
        res.append((m.group(1), m.start(), j + 1))
    return res


def hash_names(src):
    names = {}
    for m in re.finditer(r"\b(\w+)\s*:\s*&?\s*(?:mut\s+)?(?:'\w+\s+)?(?:std::collections::|collections::|hash_map::)?(HashMap|HashSet)\s*<", src):
        names[m.group(1)] = m.group(2)
    for m in re.finditer(r"\blet\s+(?:mut\s+)?(\w+)\s*(?::[^=;]*)?=\s*[^;]*?\b(HashMap|HashSet)\s*(?:::|<)", src):
        names.setdefault(m.group(1), m.group(2))
    for m in re.finditer(r"\blet\s+(?:mut\s+)?(\w+)\s*(?::[^=;]*)?=[^;]*?collect::<\s*(HashMap|HashSet)", src):
        names.setdefault(m.group(1), m.group(2))
    return names


def statement_around(src, pos):
    """the statement containing `pos`: from the previous `;`/`{`/`}` at depth 0 to the matching end"""
    i = pos
    depth = 0
    while i > 0:
        ch = src[i - 1]
        if ch in ")]": depth += 1
        elif ch in "([": depth -= 1
        elif ch in ";{}" and depth <= 0: break
        i -= 1
    j, depth, seen_brace = pos, 0, False
    while j < len(src):
        ch = src[j]
        if ch in "([{":
            depth += 1
            if ch == "{": seen_brace = True
        elif ch in ")]}":
            depth -= 1
            if depth < 0: break
            if ch == "}" and depth == 0 and seen_brace: j += 1; break
        elif ch == ";" and depth == 0: j += 1; break
        j += 1
    return i, src[i:j].strip()


def norm(s):
    return re.sub(r"\s+", " ", s).strip()


def classify_auto(stmt, after):
    """automatic rules; returns (class, reason) or None"""
    s = norm(stmt)
    # for-loop bodies
    fm = re.match(r"for (.+?) in (.+?) \{(.*)\}$", s)
    if fm:
        body = fm.group(3).strip()
        stmts = [b.strip() for b in re.split(r";", body) if b.strip()]
        def only(pred): return stmts and all(pred(b) for b in stmts)
        if only(lambda b: re.fullmatch(r"(?:self\.)?[\w.]+\.insert\([^;]*\)", b)):
            return None   # needs the target's type: decided by the caller through MANUAL (kept explicit)
        return None
    if re.search(r"\.(any|all)\(", s) or re.search(r"\.(count|sum|len)\(\)", s) or re.search(r"\.(max|min)\(\)", s):
        if not re.search(r"\.(find|position|next|last|nth)\(", s):
            return ("reduce", "the chain ends in any/all/count/sum/len/max/min")
    if re.search(r"collect::<\s*(?:std::collections::)?BTree(Set|Map)", s) or re.search(r":\s*BTree(Set|Map)<[^=]*=\s*", s):
        return ("sorted", "collected into a BTree container")
    if re.search(r"collect::<\s*(?:std::collections::)?Hash(Set|Map)", s) or re.search(r":\s*Hash(Set|Map)<[^=]*=\s*", s):
        return ("hashInsert", "collected into another hash container")
    lm = re.match(r"let (?:mut )?(\w+)\b.*collect::<\s*Vec<", s) or re.match(r"let (?:mut )?(\w+)\s*:\s*Vec<.*collect\(\)", s)
    if lm and re.search(r"\b" + lm.group(1) + r"\.sort(_by|_by_key|_unstable|_unstable_by|_unstable_by_key)?\(", norm(after)[:400]):
        return ("sorted", f"collected into `{lm.group(1)}` and sorted before use")
    if re.search(r"\.retain\(", s) and not re.search(r"push|insert|write|uwrite", s):
        return ("retainPred", "retain with a side-effect free predicate")
    if re.search(r"\.(find|position|next|last|nth)\(", s):
        return ("firstMatch", "find/position/next on a hash iterator")
    return None


def shadowed(fsrc, name):
    """inside this function `name` is (also) a parameter / local of a NON-hash type"""
    for m in re.finditer(r"\b" + re.escape(name) + r"\s*:\s*([^,)=;]+)", fsrc):
        if "Hash" not in m.group(1):
            return True
    return False


def scan(repo):
    sites = []
    for crate in CRATES:
        d = os.path.join(repo, crate)
        if not os.path.isdir(d): continue
        srcs = {}
        for fn in sorted(os.listdir(d)):
            if fn.endswith(".rs"):
                srcs[fn] = strip_comments(open(os.path.join(d, fn)).read())
        # hash-typed names are collected per crate: fields are used from sibling files
        names = {}
        for fn, src in srcs.items():
            for k, v in hash_names(src).items():
                names.setdefault(k, v)
        if not names: continue
        # hash-typedness flows through `let x = mem::take(&mut a.b.NAME)` / `mem::replace(..)` / `a.NAME.clone()`
        changed = True
        while changed:
            changed = False
            alt0 = "|".join(sorted(map(re.escape, names), key=len, reverse=True))
            flow = re.compile(r"\blet\s+(?:mut\s+)?(\w+)\s*=\s*(?:(?:std::)?mem::(?:take|replace)\(\s*&mut\s+)?(?:(?:r#)?\w+\s*\.\s*)*(" + alt0 + r")\s*(?:\)|\.clone\(\)\s*;|,)")
            for src in srcs.values():
                for m in flow.finditer(src):
                    if m.group(1) not in names:
                        names[m.group(1)] = names[m.group(2)]; changed = True
        alt = "|".join(sorted(map(re.escape, names), key=len, reverse=True))
        seg = r"(?:(?:r#)?\w+(?:\(\))?\s*\.\s*)*"        # `a.b().c.` — chains may be broken over lines
        pats = [
            re.compile(r"(?<![\w.#])(" + seg + r"(?:" + alt + r"))\s*\.\s*" + WALK + r"\s*\("),
            re.compile(r"\bfor\s+[^;{}]+?\s+in\s+&?\s*(?:mut\s+)?(" + seg + r"(?:" + alt + r"))\s*\{"),
            re.compile(r"\.extend\(\s*&?\s*(" + seg + r"(?:" + alt + r"))\s*(?:\.clone\(\))?\s*\)"),
        ]
        for fn, src in srcs.items():
            rel = os.path.join(crate, fn)
            funcs = functions(src)
            found = {}
            for pi, pat in enumerate(pats):
                for m in pat.finditer(src):
                    path = re.sub(r"\s+", "", m.group(1))
                    base = path.split(".")[-1]
                    func, fa, fb = next(((n, a, b) for n, a, b in reversed(funcs) if a <= m.start() < b), ("?", 0, len(src)))
                    if "." not in path and shadowed(src[fa:fb], base):
                        continue
                    st, stmt = statement_around(src, m.start())
                    if (st, base) in found:
                        continue      # the same statement matched by two patterns
                    line = src.count("\n", 0, m.start()) + 1
                    after = src[m.start():m.start() + 1500]
                    found[(st, base)] = {"file": rel, "func": func, "line": line, "name": base, "kind": names[base],
                                              "path": path, "walk": m.group(2) if pi == 0 else ("for" if pi == 1 else "extend"),
                                              "text": norm(stmt), "after": after}
            for v in found.values():
                v["fp"] = hashlib.sha1((v["file"] + "\0" + v["func"] + "\0" + v["text"]).encode()).hexdigest()[:16]
                sites.append(v)
    sites.sort(key=lambda v: (v["file"], v["line"]))
    return sites


# fingerprint -> (class, justification).  Filled from reading each site; see tools/hash_sites_manual.json
def load_manual():
    p = os.path.join(os.path.dirname(os.path.abspath(__file__)), "hash_sites_manual.json")
    return json.load(open(p)) if os.path.exists(p) else {}


def requires_ok(repo, entry):
    """a manual classification may depend on code outside the site (e.g. the only caller of a
    wrapper): `requires` = [{file, regex, count}] must hold on the current comment-free source"""
    for r in entry.get("requires", []):
        try:
            src = norm(strip_comments(open(os.path.join(repo, r["file"])).read()))
        except OSError:
            return False
        if len(re.findall(r["regex"], src)) != r["count"]:
            return False
    return True


def lean_str(s):
    return '"' + s.replace("\\", "\\\\").replace('"', '\\"') + '"'


def emit_lean(sites):
    L = ["/-! GENERATED by tools/gen_hash_sites.py — do not edit.  Inventory of iteration over",
         "`HashMap`/`HashSet`-typed state in the generator crates of /repo (C15). -/",
         "namespace Witverif.Generated.HashSites", "",
         "inductive Consumer where",
         "  | sorted | btreeInsert | hashInsert | reduce | retainPred | perElementState | notHash",
         "  | emitted | firstMatch | unclassified",
         "deriving Repr, DecidableEq", "",
         "/-- is the result of the consumer independent of the order in which the elements arrive? -/",
         "def Consumer.insensitive : Consumer → Bool",
         "  | .sorted | .btreeInsert | .hashInsert | .reduce | .retainPred | .perElementState | .notHash => true",
         "  | .emitted | .firstMatch | .unclassified => false", "",
         "structure Site where", "  file : String", "  func : String", "  line : Nat", "  container : String",
         "  walk : String", "  fingerprint : String", "  consumer : Consumer", "  automatic : Bool",
         "deriving Repr, DecidableEq", "", "def sites : List Site := ["]
    rows = []
    for v in sites:
        rows.append("  ⟨%s, %s, %d, %s, %s, %s, .%s, %s⟩" % (
            lean_str(v["file"]), lean_str(v["func"]), v["line"], lean_str(v["name"] + " : " + v["kind"]),
            lean_str(v["walk"]), lean_str(v["fp"]), v["class"], "true" if v["auto"] else "false"))
    L.append(",\n".join(rows))
    L += ["]", "", "end Witverif.Generated.HashSites", ""]
    return "\n".join(L)


def parse_lean(text):
    rows = []
    for m in re.finditer(r'⟨"((?:[^"\\]|\\.)*)", "((?:[^"\\]|\\.)*)", (\d+), "((?:[^"\\]|\\.)*)", "((?:[^"\\]|\\.)*)", "(\w+)", \.(\w+), (true|false)⟩', text):
        rows.append((m.group(1), m.group(2), int(m.group(3)), m.group(6), m.group(7)))
    return rows


def main():
    args = sys.argv[1:]
    repo = "/repo"; out = None; js = None
    while args:
        a = args.pop(0)
        if a == "--repo": repo = args.pop(0)
        elif a == "--out": out = args.pop(0)
        elif a == "--json": js = args.pop(0)
    sites = scan(repo)
    manual = load_manual()
    for v in sites:
        auto = classify_auto(v["text"], v["after"])
        if v["fp"] in manual and requires_ok(repo, manual[v["fp"]]):
            v["class"], v["why"], v["auto"] = manual[v["fp"]]["class"], manual[v["fp"]]["why"], False
        elif v["fp"] in manual:
            v["class"], v["why"], v["auto"] = "unclassified", "the `requires` conditions of the manual classification no longer hold", False
        elif auto:
            v["class"], v["why"], v["auto"] = auto[0], auto[1], True
        else:
            v["class"], v["why"], v["auto"] = "unclassified", "no automatic rule and no entry in hash_sites_manual.json for this fingerprint", False
        assert v["class"] in CLASSES, v["class"]
    stale = sorted(set(manual) - {v["fp"] for v in sites})
    lean = emit_lean(sites)
    # round-trip guard
    back = parse_lean(lean)
    want = [(v["file"], v["func"], v["line"], v["fp"], v["class"]) for v in sites]
    rt_ok = back == want
    if out:
        os.makedirs(os.path.dirname(out), exist_ok=True)
        old = open(out).read() if os.path.exists(out) else None
        if old != lean:
            tmp = out + ".tmp%d" % os.getpid()      # never leave a half-written table behind
            with open(tmp, "w") as f: f.write(lean)
            os.replace(tmp, out)
    rep = {"sites": [{k: v[k] for k in ("file", "func", "line", "name", "kind", "walk", "fp", "class", "why", "auto", "text")} for v in sites],
           "roundtrip_ok": rt_ok, "stale_manual_entries": stale,
           "by_class": {c: sum(1 for v in sites if v["class"] == c) for c in CLASSES}}
    if js:
        json.dump(rep, open(js, "w"), indent=1)
    else:
        json.dump(rep, sys.stdout, indent=1)


if __name__ == "__main__":
    main()
