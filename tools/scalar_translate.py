"""Translator for C14 / C04 (backend half), DESIGN.md section 3.1.

Runs every backend's real generator (harness/gen-run, engine `files`) on one-function probe worlds,
cuts the conversion expressions out of the GENERATED OUTPUT, parses them (scalar_parse, round-trip
guarded), lowers them to `Witverif.Scalar.Expr` and writes
    lean/Witverif/Generated/ScalarExprs.lean   (C14)
    lean/Witverif/Generated/CastExprs.lean     (C04 backends)
(only when the content changes).  Returns a report with every extracted site, every problem
(unparsable / not round-tripping / unknown construct = broken correspondence; unbalanced emitted
text = finding class `not-well-formed`).
"""
import os, re, json, subprocess, sys
sys.path.insert(0, os.path.dirname(os.path.abspath(__file__)))
from scalar_parse import parse, show, strip_ws, roundtrips, ParseError, balanced

BACKENDS = ["rust", "c", "cpp", "csharp", "go", "moonbit", "d"]
WTYS = ["bool", "s8", "u8", "s16", "u16", "s32", "u32", "s64", "u64", "f32", "f64", "char"]
LOWER_INSTR = {"bool": "I32FromBool", "s8": "I32FromS8", "u8": "I32FromU8", "s16": "I32FromS16", "u16": "I32FromU16",
               "s32": "I32FromS32", "u32": "I32FromU32", "s64": "I64FromS64", "u64": "I64FromU64",
               "f32": "CoreF32FromF32", "f64": "CoreF64FromF64", "char": "I32FromChar"}
LIFT_INSTR = {"bool": "BoolFromI32", "s8": "S8FromI32", "u8": "U8FromI32", "s16": "S16FromI32", "u16": "U16FromI32",
              "s32": "S32FromI32", "u32": "U32FromI32", "s64": "S64FromI64", "u64": "U64FromI64",
              "f32": "F32FromCoreF32", "f64": "F64FromCoreF64", "char": "CharFromI32"}
STORE_INSTR = {"bool": "I32Store8", "s8": "I32Store8", "u8": "I32Store8", "s16": "I32Store16", "u16": "I32Store16",
               "s32": "I32Store", "u32": "I32Store", "s64": "I64Store", "u64": "I64Store", "f32": "F32Store",
               "f64": "F64Store", "char": "I32Store"}
LOAD_INSTR = {"bool": "I32Load8U", "s8": "I32Load8S", "u8": "I32Load8U", "s16": "I32Load16S", "u16": "I32Load16U",
              "s32": "I32Load", "u32": "I32Load", "s64": "I64Load", "u64": "I64Load", "f32": "F32Load",
              "f64": "F64Load", "char": "I32Load"}
CORE_OF = {"s64": "i64", "u64": "i64", "f32": "f32", "f64": "f64"}

# ------------------------------------------------------------------ probes

def wit_scalar(T):
    ps = ", ".join(f"a{i}: {T}" for i in range(17))
    return (f"package probe:scalar;\ninterface zi {{\n  flat: func(zqx: {T}) -> {T};\n"
            f"  mem: func({ps}) -> tuple<{T}, {T}>;\n}}\nworld zw {{ import zi; export zi; }}\n")

# variant probes: case `ca` carries A, case `cb` carries B; slot 1 has type join(flat A, flat B).
CAST_PROBES = [
    # (id, A, B, core of A, joined core, Bitcast lowering A, Bitcast lifting A, slot kind)
    ("f32_s32", "f32", "s32", "f32", "i32", "F32ToI32", "I32ToF32", "num"),
    ("f64_s64", "f64", "s64", "f64", "i64", "F64ToI64", "I64ToF64", "num"),
    ("s32_s64", "s32", "s64", "i32", "i64", "I32ToI64", "I64ToI32", "num"),
    ("f32_s64", "f32", "s64", "f32", "i64", "F32ToI64", "I64ToF32", "num"),
    ("s32_f32", "s32", "f32", "i32", "i32", "None", "None", "num"),
    ("u32_f64", "u32", "f64", "i32", "i64", "I32ToI64", "I64ToI32", "num"),
    ("f32_f64", "f32", "f64", "f32", "i64", "F32ToI64", "I64ToF32", "num"),
    ("f64_f32", "f64", "f32", "f64", "i64", "F64ToI64", "I64ToF64", "num"),
    # second case carries a string: slot 1 is a Pointer (with i32/f32) or a PointerOrI64 (with i64/f64)
    ("s64_string", "s64", "string", "i64", "i64", "I64ToP64", "P64ToI64", "p64"),
    ("s32_string", "s32", "string", "i32", "i32", "I32ToP", "PToI32", "ptr"),
    ("f32_string", "f32", "string", "f32", "i32", "F32ToI32_I32ToP", "PToI32_I32ToF32", "ptr"),
    ("f64_string", "f64", "string", "f64", "i64", "F64ToI64_I64ToP64", "P64ToI64_I64ToF64", "p64"),
]

def wit_cast(A, B):
    return (f"package probe:cast;\ninterface zi {{\n  variant zv {{ ca({A}), cb({B}) }}\n"
            f"  vf: func(zqx: zv);\n}}\nworld zw {{ import zi; export zi; }}\n")

def wit_flags(n):
    fl = ", ".join(f"g{i}" for i in range(n))
    return (f"package probe:flg;\ninterface zi {{\n  flags zf {{ {fl} }}\n  flat: func(zqx: zf) -> zf;\n}}\n"
            f"world zw {{ import zi; export zi; }}\n")

FLAG_SIZES = [8, 16, 32, 40]

def hx(s):
    return s.encode().hex() if s else "-"

def run_gen(gen_bin, reqs):
    """reqs: list of (backend, wit) -> list of dict name->text | {'__err__': msg}"""
    data = "".join(f"{b} {hx(w)} -\n" for b, w in reqs)
    p = subprocess.run([gen_bin, "files"], input=data, capture_output=True, text=True, timeout=600)
    out = p.stdout.split("\n")
    res = []
    for i in range(len(reqs)):
        a = out[i] if i < len(out) else "crash"
        if not a.startswith("ok"):
            t = a.split(" ")
            msg = t[0]
            if len(t) > 1 and t[1] != "-":
                try: msg += " " + bytes.fromhex(t[1]).decode()
                except Exception: pass
            res.append({"__err__": msg})
            continue
        d = {}
        for tok in a.split(" ")[1:]:
            n, c = tok.split(":")
            d[bytes.fromhex(n).decode()] = "" if c == "-" else bytes.fromhex(c).decode()
        res.append(d)
    return res

# ------------------------------------------------------------------ per-backend configuration

TYMAP = {
    "rust": {"i8": "i8", "u8": "u8", "i16": "i16", "u16": "u16", "i32": "i32", "u32": "u32", "i64": "i64", "u64": "u64",
             "f32": "f32", "f64": "f64", "bool": "bool", "char": "ch", "usize": "usize", "*mut u8": "ptr",
             "::core::mem::MaybeUninit::<u64>": "mu64"},
    "c": {"int8_t": "i8", "uint8_t": "u8", "int16_t": "i16", "uint16_t": "u16", "int32_t": "i32", "uint32_t": "u32",
          "int64_t": "i64", "uint64_t": "u64", "float": "f32", "double": "f64", "bool": "bool", "size_t": "usize",
          "uintptr_t": "usize", "uint8_t*": "ptr", "uint8_t *": "ptr"},
    "csharp": {"sbyte": "i8", "byte": "u8", "short": "i16", "ushort": "u16", "int": "i32", "uint": "u32", "long": "i64",
               "ulong": "u64", "float": "f32", "double": "f64", "bool": "bool", "nint": "isize"},
    "go": {"int8": "i8", "uint8": "u8", "int16": "i16", "uint16": "u16", "int32": "i32", "uint32": "u32", "int64": "i64",
           "uint64": "u64", "float32": "f32", "float64": "f64", "bool": "bool", "rune": "i32", "uintptr": "usize"},
    "moonbit": {"Int": "i32", "UInt": "u32", "Int64": "i64", "UInt64": "u64", "Byte": "u8", "Bool": "bool", "Char": "ch",
                "Float": "f32", "Double": "f64"},
    "d": {"byte": "i8", "ubyte": "u8", "short": "i16", "ushort": "u16", "int": "i32", "uint": "u32", "long": "i64",
          "ulong": "u64", "float": "f32", "double": "f64", "bool": "bool", "dchar": "ch", "size_t": "usize", "void*": "ptr"},
}
TYMAP["cpp"] = dict(TYMAP["c"])

def ty_of(lang, text):
    if text is None:
        return None
    t = text.strip()
    t = re.sub(r"^(const|in|inout|ref|scope)\s+", "", t)
    t = re.sub(r"\s+const\b", "", t)
    t = re.sub(r"\s*\*\s*", "*", t) if lang in ("c", "cpp", "d") else t
    m = TYMAP[lang]
    if t in m:
        return m[t]
    t2 = t.replace("*", " *") if t.endswith("*") else t
    return m.get(t2)

CFG = {
    "rust": dict(import_call=r"wit_import\d+", user_call=r"T_::{fn}", newline_stmt=False),
    "c": dict(import_call=r"__wasm_import_\w+_{fn}", user_call=r"exports_\w+_{fn}", newline_stmt=False),
    "cpp": dict(import_call=r"__wasm_import_\w+{fn}", user_call=r"exports::[\w:]+::{Fn}", newline_stmt=False),
    "csharp": dict(import_call=r"[\w\.]*wasmImport{Fn}", user_call=r"\w+Impl\.{Fn}", newline_stmt=False),
    "go": dict(import_call=r"wasm_import_{fn}", user_call=r"export_\w+\.{Fn}", newline_stmt=True),
    "moonbit": dict(import_call=r"wasmImport{Fn}", user_call=r"(?<![\w\.@:]){fn}", newline_stmt=True),
    "d": dict(import_call=r"__import_{fn}", user_call=r"{fn}_Impl", newline_stmt=False),
}

# address of the cell at offset 0 of a (return/param) area, per backend
ADDR0 = {
    "rust": r"\b\w+\.add\(0\)",
    "c": r"\(\w+ \+ 0\)",
    "cpp": r"\(\w+ \+ 0\)",
    "csharp": r"\(byte\*\)\w+ \+ 0|\(\w+ \+ 0\)",
    "go": r"unsafe\.Add\(unsafe\.Pointer\(\w+\), 0\)",
    "moonbit": r"\(\w+\) \+ 0",
    "d": r"\([\w\.]+ \+ 0\)",
}


class Problem(Exception):
    def __init__(self, kind, msg):
        super().__init__(msg)
        self.kind = kind      # 'translator' (broken correspondence) | 'malformed' (finding class)


# ------------------------------------------------------------------ text utilities

OPEN, CLOSE = "([{", ")]}"

def skip_string(text, i):
    j = i + 1
    while j < len(text) and text[j] != '"':
        j += 2 if text[j] == "\\" else 1
    return j + 1

def match_close(text, i):
    """i at an opening bracket -> index of matching closer (or None)"""
    depth, j = 0, i
    while j < len(text):
        ch = text[j]
        if ch == '"':
            j = skip_string(text, j); continue
        if ch in OPEN: depth += 1
        elif ch in CLOSE:
            depth -= 1
            if depth == 0: return j
        j += 1
    return None

def is_assign_eq(text, j):
    """text[j] == '=' : is it an assignment (not ==, !=, <=, >=, =>)?"""
    prev = text[j - 1] if j > 0 else ""
    nxt = text[j + 1] if j + 1 < len(text) else ""
    if nxt in "=>" or prev in "=!<>":
        return False
    return True

def expr_right(text, pos, lang):
    depth, j = 0, pos
    nl = True
    while j < len(text):
        ch = text[j]
        if ch == '"':
            j = skip_string(text, j); continue
        if ch in OPEN: depth += 1
        elif ch in CLOSE:
            if depth == 0: break
            depth -= 1
        elif depth == 0 and (ch in ";," or (ch == "\n" and nl)):
            break
        elif depth == 0 and ch == "=" and is_assign_eq(text, j):
            break
        j += 1
    return j

def expr_left(text, pos, lang):
    """scan left from pos; returns index of first char of the expression"""
    depth, j = 0, pos - 1
    while j >= 0:
        ch = text[j]
        if ch == '"':
            k = j - 1
            while k >= 0 and not (text[k] == '"' and (k == 0 or text[k - 1] != "\\")): k -= 1
            j = k - 1; continue
        if ch in CLOSE: depth += 1
        elif ch in OPEN:
            if depth == 0: break
            depth -= 1
        elif depth == 0 and (ch in ";,\n"):
            break
        elif depth == 0 and ch == "=" and is_assign_eq(text, j):
            break
        elif depth == 0 and ch == ":" and lang == "go" and text[j + 1:j + 2] != "=":
            break
        elif depth == 0 and ch == ">" and text[j - 1] == "=":       # `=>` of a match arm
            break
        j -= 1
    return j + 1

WRAP_CALLEE = {
    "rust": r"(?:_rt::\w+|[iuf]\d+::from(?:_bits)?|(?:::)?core::char::from_u32(?:_unchecked)?|::core::mem::MaybeUninit::new)$",
    "c": r"$^",
    "cpp": r"(?:u?int\d+_t|float|double|bool|size_t|std::bit_cast<[\w, ]+>)$",
    "csharp": r"(?:unchecked|global::System\.BitConverter\.\w+)$",
    "go": r"(?:u?int\d+|float\d+|rune|uintptr|math\.Float\d+(?:from)?bits)$",
    "moonbit": r"(?:Int::unsafe_to_char|Int::to_int64|Int64::to_int|mbt_ffi_extend\d+|mbt_ffi_load\w*)$",
    "d": r"$^",
}
CAST_PREFIX = {
    "c": r"\(\s*(?:const\s+)?[\w ]+?\**\s*\)\s*$", "cpp": r"\(\s*(?:const\s+)?[\w ]+?\**\s*\)\s*$",
    "csharp": r"\(\s*\w+\s*\**\s*\)\s*$", "d": r"cast\(\s*[\w\*]+\s*\)\s*$",
}

def max_expr(text, pos, lang):
    l, r = expr_left(text, pos, lang), expr_right(text, pos, lang)
    while True:
        if lang == "csharp" and l > 0 and text[l - 1] == "(":
            # new global::System.Span<T>(ADDR, 1)[0]
            pre = text[max(0, l - 1 - 80):l - 1]
            msp = re.search(r"new global::System\.Span<\w+>$", pre)
            if msp:
                cl = match_close(text, l - 1)
                start = l - 1 - (len(pre) - msp.start())
                l, r = expr_left(text, start, lang), expr_right(text, cl + 1, lang)
                continue
        # C compound literal  (union U){ expr }
        if lang in ("c", "cpp"):
            lb = text[:l].rstrip()
            rb = text[r:].lstrip()
            if lb.endswith("{") and rb.startswith("}"):
                mu = re.search(r"\(union \w+\)\s*\{$", lb)
                if mu:
                    l2 = mu.start()
                    r2 = r + (len(text[r:]) - len(rb)) + 1
                    l, r = expr_left(text, l2, lang), expr_right(text, r2, lang)
                    continue
        # grow through an enclosing conversion wrapper:  callee( ... )  /  (T)( ... )  /  cast(T)( ... )
        if l > 0 and text[l - 1] == "(" and r < len(text) and text[r] == ")" and not text[l:r].strip().startswith(","):
            pre = text[max(0, l - 1 - 80):l - 1]
            m = re.search(r"[\w:\.<>, ]*$", pre)
            callee = m.group(0).lstrip() if m else ""
            mc = re.search(WRAP_CALLEE[lang], callee.strip()) if callee.strip() else None
            only_arg = len(split_args(text, l, r)) == 1
            if mc and only_arg:
                start = l - 1 - (len(callee.strip()) - mc.start()) - (len(callee) - len(callee.rstrip()))
                l2 = expr_left(text, start, lang)
                r2 = expr_right(text, r + 1, lang)
                l, r = l2, r2
                continue
            cp = CAST_PREFIX.get(lang)
            mp = re.search(cp, pre) if cp else None
            if mp and only_arg and is_type_text(lang, mp.group(0)):
                start = l - 1 - (len(pre) - mp.start())
                l2 = expr_left(text, start, lang)
                r2 = expr_right(text, r + 1, lang)
                l, r = l2, r2
                continue
            # C#: new global::System.Span<T>(ADDR, 1)[0]
            msp = re.search(r"new global::System\.Span<\w+>$", pre) if lang == "csharp" else None
            if msp:
                start = l - 1 - (len(pre) - msp.start())
                l, r = expr_left(text, start, lang), expr_right(text, r + 1, lang)
                continue
            # Go pointer conversion (*T)(ADDR)
            mgo = re.search(r"\(\*\w+\)$", pre) if lang == "go" else None
            if mgo and only_arg:
                start = l - 1 - (len(pre) - mgo.start())
                l, r = expr_left(text, start, lang), expr_right(text, r + 1, lang)
                continue
            # a grouping parenthesis that is the operand of a prefix dereference:  *( expr )
            if only_arg and pre.rstrip().endswith("*") and not re.search(r"[\w\]]\s*\*$", pre.rstrip()):
                start = l - 1 - (len(pre) - len(pre.rstrip())) - 1
                l, r = expr_left(text, start, lang), expr_right(text, r + 1, lang)
                continue
            # a grouping parenthesis followed by a postfix:  ( expr ).method()
            if only_arg and not callee.strip() and not mp:
                l, r = expr_left(text, l - 1, lang), expr_right(text, r + 1, lang)
                continue
        break
    s = text[l:r]
    lead = len(s) - len(s.lstrip())
    l += lead
    m = re.match(r"return\b\s*", text[l:r])
    ret = False
    if m:
        l += m.end(); ret = True
    while r > l and text[r - 1].isspace(): r -= 1
    return l, r, ret

def is_type_text(lang, t):
    t = t.strip()
    if lang == "d":
        m = re.fullmatch(r"cast\(\s*([\w\*]+)\s*\)", t)
        return bool(m)
    inner = t.strip("() ").replace("const ", "").strip()
    base = inner.rstrip("* ").strip()
    from scalar_parse import TYPE_NAMES
    return base in TYPE_NAMES[lang]

def split_args(text, lo, hi):
    """top-level comma split of text[lo:hi] -> [(s,e)]"""
    res, depth, j, start = [], 0, lo, lo
    while j < hi:
        ch = text[j]
        if ch == '"':
            j = skip_string(text, j); continue
        if ch in OPEN: depth += 1
        elif ch in CLOSE: depth -= 1
        elif ch == "," and depth == 0:
            res.append((start, j)); start = j + 1
        j += 1
    if text[start:hi].strip():
        res.append((start, hi))
    return res

def line_start(text, pos):
    return text.rfind("\n", 0, pos) + 1

def find_calls(text, callee_re):
    """all call sites (not declarations) of callee_re: [(callee_start, open, close)]"""
    res = []
    for m in re.finditer(r"(?<![\w])(" + callee_re + r")\s*\(", text):
        before = text[line_start(text, m.start()):m.start()]
        if before.strip() and "=" not in before and not re.search(r"\breturn\b", before) \
                and re.fullmatch(r"[\w\s\*:<>,\.\(\)\"!@#\[\]]*", before) and not before.rstrip().endswith(("(", ",")):
            continue   # declaration / prototype
        op = m.end() - 1
        cl = match_close(text, op)
        if cl is not None:
            res.append((m.start(1), op, cl))
    return res

def func_end(text, pos):
    """end of the function body enclosing pos"""
    _, brace = func_start(text, pos)
    if brace and text[brace:brace + 1] == "{":
        cl = match_close(text, brace)
        if cl is not None and cl > pos:
            return cl
    depth, j = 0, pos
    while j < len(text):
        ch = text[j]
        if ch == '"':
            j = skip_string(text, j); continue
        if ch == "{": depth += 1
        elif ch == "}":
            if depth == 0: return j
            depth -= 1
        j += 1
    return len(text)

def func_start(text, pos):
    """start of the outermost-but-function-level block containing pos: we walk left over unmatched `{`
    and stop at the one whose header line looks like a function header."""
    depth, j, cand = 0, pos - 1, None
    while j >= 0:
        ch = text[j]
        if ch == "}": depth += 1
        elif ch == "{":
            if depth == 0:
                ls = line_start(text, j)
                header = text[ls:j]
                # walk further up when the header is on previous lines (C++/D style `)\n{`)
                k = ls
                while not header.strip() and k > 0:
                    k2 = line_start(text, k - 1)
                    header = text[k2:k] + header
                    k = k2
                cand = (k if not text[ls:j].strip() else ls, j)
                if re.search(r"\b(fn|func|function)\b|\)\s*(->[^{]*)?(@trusted\s*|nothrow\s*)*$", header) and \
                        not re.match(r"\s*(if|else|switch|match|case|for|while|unsafe|let)\b", header.strip() or "x"):
                    return cand
            else:
                depth -= 1
        j -= 1
    return cand or (0, 0)

BINDER_RE = re.compile(r"(?:^|[\s;{(])(?P<decl>[^;{}=\n]*?)(?P<name>[A-Za-z_]\w*)\s*(?P<par>\))?\s*(?::\s*(?P<ann>\(?[^=;{}]*?\)?))?\s*(?P<op>:=|=)\s*[\s{(]*$")

def binder_before(text, pos, lang):
    """the variable (and declared type text) that the expression starting at pos initialises / is assigned to"""
    ls = max(line_start(text, pos), pos - 300)
    # allow the binder to sit on an earlier line when only `{`/whitespace intervenes (Rust `let x = {\n call(...)`)
    seg = text[max(0, pos - 300):pos]
    m = BINDER_RE.search(seg)
    if not m:
        return None
    name, decl, ann = m.group("name"), (m.group("decl") or "").strip(), m.group("ann")
    ty = None
    if ann:
        ty = ann.strip().strip("()").strip()
    elif decl:
        d = re.sub(r"^(let|auto&?|var|const|mut|let mut)\b\s*", "", decl).strip().rstrip("(").strip()
        d = re.sub(r"\b(let|mut|auto|var)\b", "", d).strip()
        if d and d not in ("&",):
            ty = d
    return name, ty

def first_use(text, name, lo, hi):
    m = re.search(r"(?<![\w\.])" + re.escape(name) + r"(?![\w])", text[lo:hi])
    return lo + m.start() if m else None


# ------------------------------------------------------------------ prototypes / declared types

def find_proto(lang, files, callee_text):
    """-> (ret type text | None, [param type texts]) for the last path segment of callee_text"""
    name = re.split(r"::|\.", callee_text)[-1]
    for fname, text in files.items():
        if lang == "rust":
            it = re.finditer(r"\bfn\s+" + re.escape(name) + r"\s*(?:<[^>]*>)?\s*\(([^)]*)\)\s*(?:->\s*([^;{]+))?", text)
        elif lang == "go":
            it = re.finditer(r"\bfunc\s+" + re.escape(name) + r"\(([^)]*)\)[ \t]*([^\n{]*)", text)
        elif lang == "moonbit":
            it = re.finditer(r"\bfn\s+" + re.escape(name) + r"\(([^)]*)\)\s*(?:->\s*([^={\n]+))?", text)
        else:
            it = re.finditer(r"(?m)^[ \t]*((?:[\w:\*<>,!]|\((?:C|\"C\")\)|[ \t])+?)[ \t\*]+" + re.escape(name) + r"\s*\(([^()]*)\)\s*(?:nothrow|@\w+|\s)*[;{]", text)
        for m in it:
            if lang in ("rust", "go", "moonbit"):
                params, ret = m.group(1), m.group(2)
            else:
                ret, params = m.group(1), m.group(2)
                pre = text[line_start(text, m.start()):m.start()]
                if "=" in ret or "return" in ret:
                    continue
                ret = re.sub(r"\b(extern|static|public|private|abstract|unsafe|inline|package|internal)\b|\(C\)|\(\"C\"\)", "", ret).strip()
            ptys = []
            for p in split_top(params):
                p = p.strip()
                if not p: continue
                if lang in ("rust", "moonbit"):
                    ptys.append(p.split(":", 1)[1].strip() if ":" in p else p)
                elif lang == "go":
                    ptys.append(p.split(None, 1)[1].strip() if len(p.split(None, 1)) > 1 else p)
                else:
                    mm = re.match(r"(.*?[\s\*])(\w+)$", p)
                    ptys.append((mm.group(1).strip() if mm and mm.group(1).strip() and ty_of(lang, p) is None else p))
            return (ret.strip() if ret and ret.strip() else None), ptys
    return None, []

def split_top(s):
    return [s[a:b] for a, b in split_args(s, 0, len(s))]

def header_of(text, pos):
    s, brace = func_start(text, pos)
    return text[s:brace]

def param_type(lang, header, name):
    if lang in ("rust", "moonbit"):
        m = re.search(r"(?<![\w])" + re.escape(name) + r"\s*:\s*([^,)]+)", header)
    elif lang == "go":
        m = re.search(r"(?<![\w])" + re.escape(name) + r"\s+([\w\.\*]+)\s*[,)]", header)
    else:
        m = re.search(r"[(,]\s*((?:const\s+|in\s+)?[\w:<>! ]+?[\s\*]*)(?<![\w])" + re.escape(name) + r"\s*[,)]", header)
    return m.group(1).strip() if m else None

def return_type(lang, header):
    h = header.strip()
    if lang in ("rust", "moonbit"):
        m = re.search(r"\)\s*->\s*([^{]+?)\s*$", h)
        return m.group(1).strip() if m else None
    if lang == "go":
        m = re.search(r"\)\s*([\w\.\*]+)\s*$", h)
        return m.group(1) if m else None
    m = re.search(r"(?s)^(.*?)[\s\*]+[\w:]+\s*\([^()]*\)[^()]*$", h.split("\n")[-1] if "(" in h.split("\n")[-1] else h)
    if not m:
        return None
    ret = re.sub(r"\b(extern|static|public|private|abstract|unsafe|inline|package)\b|\(C\)|\"C\"|__attribute__\(\([^)]*\)\)", "", m.group(1)).strip()
    return ret.split("\n")[-1].strip() or None


# ------------------------------------------------------------------ lowering to Witverif.Scalar.Expr

X = ("x",)

class Ctx:
    def __init__(self, lang, files, fname, text, pos, operand_names=(), helpers=None):
        self.lang, self.files, self.fname, self.text, self.pos = lang, files, fname, text, pos
        self.operand_names = set(operand_names)
        self.operands_seen = {}
        self.helpers = helpers
        self.depth = 0

def parse_int(tok):
    t = tok.replace("_", "")
    m = re.fullmatch(r"(0[xX][0-9a-fA-F]+|\d+)(i8|u8|i16|u16|i32|u32|i64|u64|usize|[uUlL]*)?", t)
    if not m:
        raise Problem("translator", f"unsupported literal {tok!r}")
    v = int(m.group(1), 0)
    suf = m.group(2) or ""
    return v, (suf if suf in ("i8", "u8", "i16", "u16", "i32", "u32", "i64", "u64", "usize") else None)

BINOPS = {"+": "add", "-": "sub", "&": "band", "|": "bor", "<<": "shl", ">>": "shr", "==": "eq", "!=": "ne"}
FUNC_CAST_LANGS = ("cpp", "go")

def callee_text(e):
    return strip_ws(show(e))

def operand(ctx, e):
    key = strip_ws(show(e))
    ctx.operands_seen[key] = True
    return X

def is_opaque_path(ctx, e):
    """(ret).f0 | ret.Item1 | std::get<0>(r) | _ret[0] | (result).0 | *payload  with an unknown base variable"""
    k = e[0]
    if k == "var":
        return True
    if k == "paren":
        return is_opaque_path(ctx, e[1])
    if k == "field" and (e[2].isdigit() or re.fullmatch(r"f\d+|F\d+|Item\d+|value|ptr|len", e[2])):
        return is_opaque_path(ctx, e[1])
    if k == "index" and e[2][0] == "num":
        return is_opaque_path(ctx, e[1])
    if k == "un" and e[1] in "*&":
        return is_opaque_path(ctx, e[2])
    if k == "call" and e[1][0] == "generic" and callee_text(e[1][1]) == "std::get" and len(e[2]) == 1:
        return is_opaque_path(ctx, e[2][0])
    return False

def base_var(e):
    while e[0] != "var":
        e = e[2][0] if e[0] == "call" else (e[2] if e[0] == "un" else e[1])
    return e[1]

def find_local_binding(ctx, name):
    """`let NAME = EXPR;` / `T NAME = EXPR;` / `NAME := EXPR` before ctx.pos in the same function -> (type text|None, expr text)"""
    fs, _ = func_start(ctx.text, ctx.pos)
    seg = ctx.text[fs:ctx.pos]
    best = None
    for m in re.finditer(r"(?<![\w\.])" + re.escape(name) + r"\s*(?::\s*([^=;\n]+?))?\s*(:=|=)(?![=>])", seg):
        rhs_start = fs + m.end()
        rhs_end = expr_right(ctx.text, rhs_start, ctx.lang)
        before = ctx.text[line_start(ctx.text, fs + m.start()):fs + m.start()]
        decl = re.sub(r"\b(let|mut|auto|var|const)\b|&", "", before).strip()
        ty = (m.group(1) or "").strip() or (decl if decl and re.fullmatch(r"[\w:\*<> ]+", decl) else None)
        best = (ty, ctx.text[rhs_start:rhs_end].strip(), rhs_start)
    return best

def sem(ctx, e):
    lang = ctx.lang
    k = e[0]
    if k == "paren" or k == "unchecked":
        if is_opaque_path(ctx, e) and base_var(e) in ctx.operand_names:
            return operand(ctx, e)
        return sem(ctx, e[1])
    if k == "num":
        v, suf = parse_int(e[1])
        return ("tlit", suf, v) if suf else ("lit", v)
    if k == "var":
        n = e[1]
        if n in ("true", "false"):
            return ("tlit", "bool", 1 if n == "true" else 0)
        if n in ctx.operand_names:
            return operand(ctx, e)
        if lang == "go":
            g = go_bool_if(ctx, n)
            if g is not None:
                return g
        b = find_local_binding(ctx, n)
        if b is not None and ctx.depth < 4:
            ty, rhs, rpos = b
            ast, err = roundtrips(lang, rhs)
            if err is None and not is_opaque_path(ctx, ast):
                sub = Ctx(lang, ctx.files, ctx.fname, ctx.text, rpos, ctx.operand_names, ctx.helpers)
                sub.depth = ctx.depth + 1
                sub.mode = getattr(ctx, "mode", "named")
                sub.rust_operand_type = getattr(ctx, "rust_operand_type", None)
                try:
                    inner = sem(sub, ast)
                except Problem:
                    # the binding only fetches the operand (payload getter): the variable itself is the operand
                    if getattr(ctx, "allow_unknown_operand", False):
                        ctx.operand_decl = ty
                        return operand(ctx, e)
                    raise
                ctx.operands_seen.update(sub.operands_seen)
                t = ty_of(lang, ty) if ty else None
                ctx.bindings = getattr(ctx, "bindings", []) + [(n, rhs)]
                return ("impl", t, inner) if t else inner
        if not ctx.operand_names or getattr(ctx, "allow_unknown_operand", False):
            return operand(ctx, e)
        raise Problem("translator", f"unknown variable {n!r} in {lang} expression")
    if k in ("ccast", "dcast", "as"):
        ty_text, inner = (e[1], e[2]) if k != "as" else (e[2], e[1])
        t = ty_of(lang, ty_text)
        if t is None:
            raise Problem("translator", f"unknown {lang} type {ty_text!r} in cast")
        return ("cast", t, sem(ctx, inner))
    if k == "un":
        op, inner = e[1], e[2]
        if op == "*":
            ld = as_load(ctx, inner)
            if ld is not None:
                return ld
            if is_opaque_path(ctx, e):
                return operand(ctx, e)
        if op == "&" and lang == "rust":
            return sem(ctx, inner)
        if op == "*" and lang == "rust":
            return sem(ctx, inner)
        raise Problem("translator", f"unsupported unary {op!r} in {lang} expression {show(e)!r}")
    if k == "index":
        if lang == "csharp" and e[1][0] == "new" and e[2] == ("num", "0"):
            m = re.fullmatch(r"global::System\.Span<(\w+)>", strip_ws(e[1][1]))
            if m and ty_of(lang, m.group(1)):
                return ("load", ty_of(lang, m.group(1)))
        if is_opaque_path(ctx, e):
            return operand(ctx, e)
        raise Problem("translator", f"unsupported index expression {show(e)!r}")
    if k == "bin":
        if e[1] not in BINOPS:
            raise Problem("translator", f"unsupported operator {e[1]!r}")
        return ("bin", BINOPS[e[1]], sem(ctx, e[2]), sem(ctx, e[3]))
    if k == "tern":
        return ("ite", sem(ctx, e[1]), sem(ctx, e[2]), sem(ctx, e[3]))
    if k == "if":
        return ("ite", sem(ctx, e[1]), sem(ctx, e[2]), sem(ctx, e[3]))
    if k == "match":
        scrut = sem(ctx, e[1])
        arms = e[2]
        pats = [p for p, _ in arms]
        if set(pats) == {"true", "false"}:
            d = dict(arms)
            return ("ite", scrut, sem(ctx, d["true"]), sem(ctx, d["false"]))
        res = None
        for p, b in reversed(arms):
            if p == "_":
                res = sem(ctx, b)
            elif re.fullmatch(r"\d+", p) and res is not None:
                res = ("ite", ("bin", "eq", scrut, ("lit", int(p))), sem(ctx, b), res)
            else:
                raise Problem("translator", f"unsupported match pattern {p!r}")
        return res
    if k == "macro":
        name = callee_text(e[1])
        if name == "cfg" and e[2].strip() == "debug_assertions":
            return ("dbg",)
        if name == "panic":
            return ("trap",)
        raise Problem("translator", f"unsupported macro {name}!")
    if k == "block":
        if not e[2]:
            return sem(ctx, e[3])
        txt = strip_ws(show(e))
        m = re.fullmatch(r"\{letmutt=::core::mem::MaybeUninit::<u64>::uninit\(\);t\.as_mut_ptr\(\)\.cast::<\*mutu8>\(\)\.write\((.+)\);t\}", txt)
        if m:
            inner = e[2][1][1][2][0]      # the argument of .write(..)
            return ("app", "rust_mu_write_ptr", sem(ctx, inner))
        raise Problem("translator", f"unsupported block expression {show(e)!r}")
    if k == "complit":
        raise Problem("translator", f"compound literal outside a union pun: {show(e)!r}")
    if k == "field":
        # union pun  ((union U){ x }).b
        if lang in ("c", "cpp") and e[1][0] == "paren" and e[1][1][0] == "complit":
            cl = e[1][1]
            m = re.fullmatch(r"union (\w+)", cl[1].strip())
            if m and len(cl[2]) == 1:
                u = ctx.helpers.c_union(m.group(1))
                if u is None:
                    raise Problem("translator", f"union {m.group(1)} not defined in generated output")
                (n1, t1), (n2, t2) = u
                if e[2] != n2:
                    raise Problem("translator", f"union pun reads member {e[2]!r}, expected the second member {n2!r}")
                return ("app", f"c_union_pun .{t1} .{t2}", sem(ctx, cl[2][0]))
        if is_opaque_path(ctx, e):
            return operand(ctx, e)
        raise Problem("translator", f"unsupported field access {show(e)!r}")
    if k == "bang":
        if lang == "d" and e[1][0] == "field" and e[1][2] == "reinterpretCast":
            t = ty_of(lang, e[2])
            if t is None:
                raise Problem("translator", f"unknown D type {e[2]!r}")
            ctx.helpers.d_reinterpret_ok()
            return ("app", f"d_reinterpretCast .{t}", sem(ctx, e[1][1]))
        raise Problem("translator", f"unsupported template instantiation {show(e)!r}")
    if k == "call":
        return sem_call(ctx, e)
    if k == "new" or k == "goptr" or k == "generic" or k == "turbo" or k == "path" or k == "str":
        raise Problem("translator", f"unsupported expression {show(e)!r}")
    raise Problem("translator", f"unsupported node {k}")

def as_load(ctx, inner):
    """inner of a `*inner` dereference: typed pointer to the cell?"""
    lang = ctx.lang
    e = inner
    while e[0] == "paren":
        e = e[1]
    if lang in ("c", "cpp", "csharp") and e[0] == "ccast" and e[1].rstrip().endswith("*"):
        t = ty_of(lang, e[1].rstrip()[:-1])
        if t: return ("load", t)
    if lang == "d" and e[0] == "dcast" and e[1].rstrip().endswith("*"):
        t = ty_of(lang, e[1].rstrip()[:-1])
        if t: return ("load", t)
    if lang == "go" and e[0] == "goptr":
        t = ty_of(lang, e[1])
        if t: return ("load", t)
    if lang == "rust" and e[0] == "call" and e[1][0] == "turbo" and e[1][1][0] == "field" and e[1][1][2] == "cast":
        recv = e[1][1][1]
        if recv[0] == "call" and recv[1][0] == "field" and recv[1][2] == "add":
            t = ty_of(lang, e[1][2])
            if t: return ("load", t)
    return None

RUST_FROM = {"i32::from": "i32", "i64::from": "i64", "u32::from": "u32", "u64::from": "u64"}
CS_FN = {"global::System.BitConverter.Int32BitsToSingle": "cs_Int32BitsToSingle",
         "global::System.BitConverter.SingleToInt32Bits": "cs_SingleToInt32Bits",
         "global::System.BitConverter.Int64BitsToDouble": "cs_Int64BitsToDouble",
         "global::System.BitConverter.DoubleToInt64Bits": "cs_DoubleToInt64Bits"}
GO_FN = {"math.Float32bits": "go_Float32bits", "math.Float32frombits": "go_Float32frombits",
         "math.Float64bits": "go_Float64bits", "math.Float64frombits": "go_Float64frombits"}
MBT_METHODS = {"to_int", "to_byte", "to_int64", "reinterpret_as_int", "reinterpret_as_uint", "reinterpret_as_int64",
               "reinterpret_as_uint64", "reinterpret_as_float", "reinterpret_as_double"}
MBT_FN = {"Int::unsafe_to_char": "mbt_unsafe_to_char", "Int::to_int64": "mbt_Int_to_int64", "Int64::to_int": "mbt_Int64_to_int"}

def sem_call(ctx, e):
    lang, f, args = ctx.lang, e[1], e[2]
    name = callee_text(f)
    # function-style cast  int32_t(x) / int8(x) / rune(x)
    if f[0] == "var" and lang in FUNC_CAST_LANGS and ty_of(lang, f[1]) and len(args) == 1:
        return ("cast", ty_of(lang, f[1]), sem(ctx, args[0]))
    if lang == "cpp":
        if name == "std::move" and len(args) == 1:
            return sem(ctx, args[0])
        if f[0] == "generic" and callee_text(f[1]) == "std::bit_cast" and len(args) == 1:
            ts = [ty_of(lang, t) for t in f[2].split(",")]
            if len(ts) == 2 and all(ts):
                return ("app", f"cpp_bit_cast .{ts[0]} .{ts[1]}", sem(ctx, args[0]))
        if is_opaque_path(ctx, e):
            return operand(ctx, e)
    if lang == "rust":
        if name in RUST_FROM and len(args) == 1:
            return ("app", f"rust_from .{RUST_FROM[name]}", sem(ctx, args[0]))
        if name in ("f32::from_bits", "f64::from_bits") and len(args) == 1:
            return ("app", f"rust_from_bits .{name[:3]}", sem(ctx, args[0]))
        if f[0] == "field" and f[2] == "to_bits" and not args:
            return ("app", "rust_to_bits", sem(ctx, f[1]))
        if f[0] == "field" and f[2] == "unwrap" and not args and f[1][0] == "call" \
                and callee_text(f[1][1]) in ("core::char::from_u32", "::core::char::from_u32") and len(f[1][2]) == 1:
            return ("app", "rust_char_from_u32_unwrap", sem(ctx, f[1][2][0]))
        if name in ("core::char::from_u32_unchecked", "::core::char::from_u32_unchecked") and len(args) == 1:
            return ("app", "rust_char_from_u32_unchecked", sem(ctx, args[0]))
        if name == "::core::mem::MaybeUninit::new" and len(args) == 1:
            return ("app", "rust_mu_new", sem(ctx, args[0]))
        if f[0] == "field" and f[2] == "assume_init" and not args:
            return ("app", "rust_mu_assume_init", sem(ctx, f[1]))
        if strip_ws(show(e)).endswith(".as_ptr().cast::<*mutu8>().read()"):
            base = e[1][1][1][1][1][1]     # E in E.as_ptr().cast::<*mut u8>().read()
            return ("app", "rust_mu_read_ptr", sem(ctx, base))
        m = re.fullmatch(r"_rt::(as_i32|as_i64|as_f32|as_f64|bool_lift|char_lift)", name)
        if m and len(args) == 1:
            return ctx.helpers.rust_rt(ctx, m.group(1), args[0])
    if lang == "csharp" and name in CS_FN and len(args) == 1:
        return ("app", CS_FN[name], sem(ctx, args[0]))
    if lang == "go" and name in GO_FN and len(args) == 1:
        return ("app", GO_FN[name], sem(ctx, args[0]))
    if lang == "moonbit":
        if f[0] == "field" and f[2] in MBT_METHODS and not args:
            return ("app", "mbt_" + f[2], sem(ctx, f[1]))
        if f[0] == "field" and f[2] == "land" and len(args) == 1:
            return ("bin", "band", sem(ctx, f[1]), sem(ctx, args[0]))
        if name in MBT_FN and len(args) == 1:
            return ("app", MBT_FN[name], sem(ctx, args[0]))
        if f[0] == "var" and f[1].startswith("mbt_ffi_"):
            return ctx.helpers.mbt_ffi(ctx, f[1], args)
    raise Problem("translator", f"unknown {lang} function {name!r} in {show(e)!r}")

def go_bool_if(ctx, name):
    """Go I32FromBool: `var N int32\nif V {\nN = 1\n} else {\nN = 0\n}` before the use of N"""
    fs, _ = func_start(ctx.text, ctx.pos)
    seg = ctx.text[fs:ctx.pos]
    m = None
    for m in re.finditer(r"var " + re.escape(name) + r" (\w+)\s*\n\s*if (.+?) \{\s*\n\s*" + re.escape(name) + r" = (.+?)\s*\n\s*\} else \{\s*\n\s*" + re.escape(name) + r" = (.+?)\s*\n\s*\}", seg):
        pass
    if m is None:
        return None
    t = ty_of("go", m.group(1))
    parts = []
    for g in (2, 3, 4):
        ast, err = roundtrips("go", m.group(g))
        if err:
            raise Problem("translator", f"go bool lowering statement: {err}")
        parts.append(ast)
    sub = Ctx("go", ctx.files, ctx.fname, ctx.text, fs + m.start(), ctx.operand_names, ctx.helpers)
    sub.allow_unknown_operand = not ctx.operand_names
    c, a, b = (sem(sub, p) for p in parts)
    ctx.operands_seen.update(sub.operands_seen)
    ctx.bindings = getattr(ctx, "bindings", []) + [(name, m.group(0))]
    return ("impl", t, ("ite", c, a, b))


class Helpers:
    """definitions found in the generated output that the conversion expressions refer to"""
    def __init__(self, lang, files):
        self.lang, self.files = lang, files
        self.notes = []

    def alltext(self):
        return "\n".join(t for n, t in self.files.items() if not n.endswith(".o"))

    def c_union(self, name):
        m = re.search(r"union " + re.escape(name) + r"\s*\{\s*([\w ]+?)\s+(\w+);\s*([\w ]+?)\s+(\w+);\s*\}", self.alltext())
        if not m:
            return None
        t1, t2 = ty_of(self.lang, m.group(1)), ty_of(self.lang, m.group(3))
        if not (t1 and t2):
            return None
        return (m.group(2), t1), (m.group(4), t2)

    def d_reinterpret_ok(self):
        want = "autorefTreinterpretCast(T,U)(autorefUfrom)@trustedif(T.sizeof==U.sizeof){uniontmp{Ufrom;Tto;}returntmp(from).to;}"
        if want not in strip_ws(self.alltext()):
            raise Problem("translator", "D helper reinterpretCast is not the expected union pun template")

    def rust_fn_body(self, header_re):
        t = self.alltext()
        m = re.search(header_re, t)
        if not m:
            return None
        op = t.index("{", m.end() - 1)
        cl = match_close(t, op)
        return t[op + 1:cl].strip()

    def rust_rt(self, ctx, fn, arg):
        t = self.alltext()
        if fn.startswith("as_"):
            core = fn[3:]
            tr = "As" + core.upper()[0] + core[1:]           # AsI32, AsF32
            tramp = strip_ws(f"pub fn {fn}<T: {tr}>(t: T) -> {core} {{ t.{fn}() }}")
            refimpl = strip_ws(f"impl<'a, T: Copy + {tr}> {tr} for &'a T {{ fn {fn}(self) -> {core} {{ (*self).{fn}() }} }}")
            st = strip_ws(t)
            if tramp not in st or refimpl not in st:
                raise Problem("translator", f"rust _rt::{fn} trampoline / reference impl has an unexpected shape")
            rty = getattr(ctx, "rust_operand_type", None)
            if rty is None:
                raise Problem("translator", f"rust _rt::{fn}: operand type unknown")
            body = self.rust_fn_body(r"impl " + tr + r" for " + re.escape(rty) + r"\s*\{\s*(?:#\[inline\]\s*)?fn " + fn + r"\(self\) -> " + core + r"\s*\{")
            if body is None:
                raise Problem("translator", f"rust: no `impl {tr} for {rty}` in generated _rt")
            ast, err = roundtrips("rust", body)
            if err:
                raise Problem("translator", f"rust impl {tr} for {rty} body {body!r}: {err}")
            sub = Ctx("rust", ctx.files, ctx.fname, "", 0, {"self"}, self)
            inner = sem(sub, ast)
            ctx.inlined = getattr(ctx, "inlined", []) + [(f"impl {tr} for {rty}", body)]
            return subst(inner, sem(ctx, arg))
        # bool_lift / char_lift
        m = re.search(r"pub unsafe fn " + fn + r"\((\w+): (\w+)\) -> (\w+)\s*\{", t)
        if not m:
            raise Problem("translator", f"rust _rt::{fn} not found in generated output")
        pname, pty, rty = m.group(1), ty_of("rust", m.group(2)), ty_of("rust", m.group(3))
        op = m.end() - 1
        body = t[op + 1:match_close(t, op)].strip()
        ast, err = roundtrips("rust", body)
        if err:
            raise Problem("translator", f"rust _rt::{fn} body: {err}")
        sub = Ctx("rust", ctx.files, ctx.fname, "", 0, {pname}, self)
        inner = sem(sub, ast)
        ctx.inlined = getattr(ctx, "inlined", []) + [(f"_rt::{fn}", body)]
        return ("impl", rty, subst(inner, ("impl", pty, sem(ctx, arg))))

    def mbt_ffi(self, ctx, name, args):
        t = self.alltext()
        m = re.search(r'extern "wasm" fn ' + re.escape(name) + r"\(([^)]*)\)\s*(?:->\s*(\w+))?\s*=\s*\n#\|\(func((?: \(param \w+\))*)(?: \(result (\w+)\))? ([^\n]*)\)\s*\n", t)
        if not m:
            raise Problem("translator", f"moonbit: no single-line extern \"wasm\" definition of {name}")
        body = m.group(5).strip()
        ret = ty_of("moonbit", m.group(2)) if m.group(2) else None
        nparams = len(re.findall(r"\(param", m.group(3)))
        ctx.inlined = getattr(ctx, "inlined", []) + [(name, body)]
        mm = re.fullmatch(r"local\.get 0 i(32|64)\.extend(8|16|32)_s", body)
        if mm and nparams == 1 and len(args) == 1:
            return ("app", f"wasm_extend {mm.group(2)}", sem(ctx, args[0]))
        mm = re.fullmatch(r"local\.get 0 ([if])(32|64)\.load(?:(8|16|32)_([su]))?", body)
        if mm and nparams == 1 and len(args) == 1 and ret:
            n = int(mm.group(3) or mm.group(2))
            return ("wload", n, mm.group(4) == "s", ret)
        mm = re.fullmatch(r"local\.get 0 local\.get 1 ([if])(32|64)\.store(8|16|32)?", body)
        if mm and nparams == 2 and len(args) == 2:
            n = int(mm.group(3) or mm.group(2))
            return ("wstore", n, sem(ctx, args[1]))
        raise Problem("translator", f"moonbit: unsupported wasm body of {name}: {body!r}")


def subst(tree, repl):
    if tree == X:
        return repl
    if isinstance(tree, tuple):
        return tuple(subst(t, repl) if isinstance(t, tuple) else t for t in tree)
    return tree

def lean_expr(t):
    k = t[0]
    if k == "x": return ".x"
    if k == "dbg": return ".dbg"
    if k == "trap": return ".trap"
    if k == "lit": return f".lit ({t[1]})"
    if k == "tlit": return f".tlit .{t[1]} ({t[2]})"
    if k in ("cast", "impl", "store"): return f".{k} .{t[1]} ({lean_expr(t[2])})"
    if k == "bin": return f".bin .{t[1]} ({lean_expr(t[2])}) ({lean_expr(t[3])})"
    if k == "app": return f".app (.{t[1]}) ({lean_expr(t[2])})"
    if k == "ite": return f".ite ({lean_expr(t[1])}) ({lean_expr(t[2])}) ({lean_expr(t[3])})"
    if k == "load": return f".load .{t[1]}"
    if k == "wload": return f".wload {t[1]} {'true' if t[2] else 'false'} .{t[3]}"
    if k == "wstore": return f".wstore {t[1]} ({lean_expr(t[2])})"
    raise ValueError(k)

def lean_str(s):
    return '"' + s.replace("\\", "\\\\").replace('"', '\\"').replace("\n", "\\n").replace("\t", " ") + '"'

def lean_opt_ty(t):
    return f"(some .{t})" if t else "none"


# ------------------------------------------------------------------ locating the sites

def text_files(files):
    return {n: t for n, t in files.items() if not n.endswith((".o", ".json", ".wit", ".s", ".mod")) and n != "wit/common.d"}

def the_call(lang, files, which, fn):
    pat = CFG[lang][which].format(fn=fn, Fn=fn.capitalize())
    fallback = None
    for fname, text in text_files(files).items():
        for (cs, op, cl) in find_calls(text, pat):
            hdr = header_of(text, cs)
            if fallback is None:
                fallback = (fname, text, cs, op, cl)
            if re.search(fn, hdr, re.I):
                return fname, text, cs, op, cl
    if fallback is None:
        raise Problem("translator", f"{lang}: no call matching {pat!r} in generated output")
    return fallback

def stmt_bounds(text, pos, lang):
    """the statement containing pos: delimited by `;`, braces, and newlines in newline-terminated languages"""
    nl = CFG[lang]["newline_stmt"]
    j = pos - 1
    while j >= 0:
        ch = text[j]
        if ch in ";{}" or (ch == "\n" and nl): break
        j -= 1
    l = j + 1
    j = pos
    depth = 0
    while j < len(text):
        ch = text[j]
        if ch == '"':
            j = skip_string(text, j); continue
        if ch == "{": depth += 1
        elif ch == "}":
            if depth == 0: break
            depth -= 1
        elif depth == 0 and (ch == ";" or (ch == "\n" and nl)): break
        j += 1
    r = j
    while l < r and text[l].isspace(): l += 1
    while r > l and text[r - 1].isspace(): r -= 1
    return l, r

def stmt_value(text, pos, lang):
    """the value expression of the statement containing pos: `return E;` / `let x = E` / `T x = E;` / tail `E`"""
    l, r = stmt_bounds(text, pos, lang)
    stmt = text[l:r]
    m = re.match(r"return\b\s*", stmt)
    if m:
        return l + m.end(), r, True
    sp = split_assign(stmt)
    if sp and pos >= l + stmt.index(sp[1], len(sp[0])):
        off = stmt.index(sp[1], len(sp[0]))
        return l + off, r, False
    return l, r, False

def split_assign(s):
    depth, j = 0, 0
    while j < len(s):
        ch = s[j]
        if ch == '"':
            j = skip_string(s, j); continue
        if ch in OPEN: depth += 1
        elif ch in CLOSE: depth -= 1
        elif ch == "=" and depth == 0 and is_assign_eq(s, j) and s[j - 1:j] != ":":
            return s[:j].strip(), s[j + 1:].strip()
        j += 1
    return None

def param_names(lang, header):
    m = re.search(r"\(([^()]*(?:\([^()]*\)[^()]*)*)\)[^()]*$", header.strip())
    if not m:
        return []
    names = []
    for p in split_top(m.group(1)):
        p = p.strip()
        if not p: continue
        if lang in ("rust", "moonbit"):
            names.append(p.split(":")[0].strip())
        elif lang == "go":
            names.append(p.split()[0])
        else:
            names.append(re.split(r"[\s\*]+", p)[-1])
    return names

RUST_NAME = {"bool": "bool", "s8": "i8", "u8": "u8", "s16": "i16", "u16": "u16", "s32": "i32", "u32": "u32",
             "s64": "i64", "u64": "u64", "f32": "f32", "f64": "f64", "char": "char"}


class Site:
    def __init__(self, **kw):
        self.problem = None
        self.problem_kind = None
        self.expr = None
        self.opTy = self.dstTy = None
        self.opTy_text = self.dstTy_text = None
        self.inlined = []
        self.bindings = []
        self.__dict__.update(kw)

    def key(self):
        return f"{self.lang}.{self.wty}.{self.dir}.{self.pos}.{self.side}"


def build(site, ctx, snippet, store_lhs=None):
    """parse + round-trip + lower one snippet; fills site.expr or site.problem"""
    lang = ctx.lang
    site.snippet = snippet
    site.operands = sorted(ctx.operand_names)        # hint, replaced by what the lowering actually found
    try:
        if not balanced(snippet):
            raise Problem("malformed", f"emitted expression is not well-formed (unbalanced brackets): {snippet!r}")
        ast, err = roundtrips(lang, snippet)
        if err:
            raise Problem("translator", f"{err} for {snippet!r}")
        tree = sem(ctx, ast)
        if store_lhs is not None:
            last, lerr = roundtrips(lang, store_lhs)
            if lerr:
                raise Problem("translator", f"store target {store_lhs!r}: {lerr}")
            lctx = Ctx(lang, ctx.files, ctx.fname, ctx.text, ctx.pos, (), ctx.helpers)
            lctx.mode = "none"
            lt = sem_lhs(lctx, last)
            tree = ("store", lt, tree)
        site.expr = tree
        site.operands = sorted(ctx.operands_seen)
        site.inlined = getattr(ctx, "inlined", [])
        site.bindings = getattr(ctx, "bindings", [])
        mode = getattr(ctx, "mode", "named")
        if mode == "none" and site.operands:
            raise Problem("translator", f"unexpected free variable(s) {site.operands} in {snippet!r}")
        if mode != "none" and len(site.operands) != 1:
            raise Problem("translator", f"expected exactly one operand, found {site.operands} in {snippet!r}")
    except Problem as p:
        site.problem, site.problem_kind = str(p), p.kind
    except (IndexError, KeyError, TypeError) as ex:
        site.problem, site.problem_kind = f"translator crashed on {snippet!r}: {type(ex).__name__} {ex}", "translator"
    return site

def sem_lhs(ctx, ast):
    e = ast
    while e[0] == "paren":
        e = e[1]
    if e[0] == "un" and e[1] == "*":
        ld = as_load(ctx, e[2])
        if ld: return ld[1]
    if e[0] == "index":
        r = sem(ctx, e)
        if r[0] == "load": return r[1]
    raise Problem("translator", f"store target is not a typed cell: {show(ast)!r}")

def mk_ctx(lang, files, helpers, fname, text, pos, names, mode, T=None):
    ctx = Ctx(lang, files, fname, text, pos, names, helpers)
    ctx.mode = mode
    ctx.allow_unknown_operand = (mode == "single_unknown")
    if mode == "single_unknown":
        ctx.operand_names = set()
    if T is not None:
        ctx.rust_operand_type = RUST_NAME.get(T)
    return ctx

# in mode "none" an unknown variable is an error; patch sem's fallback through ctx.operand_names sentinel
_NONE_SENTINEL = "\0none"

def go_follow(text, pos, lang, hi):
    """Go I32FromBool is a statement: `if V {\n N = 1\n} else {\n N = 0\n}`; continue at the next use of N"""
    if lang != "go":
        return pos
    ls = line_start(text, pos)
    m = re.match(r"[ \t]*if [^\n{]+ \{\s*\n\s*(\w+) = [^\n]+\n\s*\} else \{\s*\n\s*\1 = [^\n]+\n\s*\}", text[ls:])
    if not m:
        return pos
    p2 = first_use(text, m.group(1), ls + m.end(), hi)
    return p2 if p2 is not None else pos

def extract_scalar(lang, T, files):
    """-> [Site]  (8 sites: {import,export} x {flat,mem} x {lower,lift})"""
    helpers = Helpers(lang, files)
    sites = []
    core = CORE_OF.get(T, "i32")

    def new(dir_, pos, side, instr):
        s = Site(lang=lang, wty=T, dir=dir_, pos=pos, side=side, instr=instr, snippet="", fname="")
        sites.append(s)
        return s

    def guarded(s, fn):
        try:
            fn(s)
        except Problem as p:
            s.problem, s.problem_kind = str(p), p.kind
        except Exception as ex:  # noqa
            s.problem, s.problem_kind = f"translator crashed: {type(ex).__name__} {ex}", "translator"

    # ---- import, flat
    def imp_flat_lower(s):
        fname, text, cs, op, cl = the_call(lang, files, "import_call", "flat")
        args = split_args(text, op + 1, cl)
        if len(args) != 1:
            raise Problem("translator", f"import call of flat has {len(args)} arguments")
        a, b = args[0]
        snippet = text[a:b].strip()
        s.fname = fname
        hdr = header_of(text, cs)
        s.opTy_text = param_type(lang, hdr, "zqx")
        s.dstTy_text = (find_proto(lang, files, text[cs:op].strip())[1] or [None])[0]
        ctx = mk_ctx(lang, files, helpers, fname, text, a, {"zqx"}, "named", T)
        build(s, ctx, snippet)
    guarded(new("lower", "flat", "import", LOWER_INSTR[T]), imp_flat_lower)

    def imp_flat_lift(s):
        fname, text, cs, op, cl = the_call(lang, files, "import_call", "flat")
        s.fname = fname
        b = binder_before(text, cs, lang)
        if not b:
            raise Problem("translator", "result of the flat import call is not bound to a variable")
        name, ty = b
        s.opTy_text = ty or find_proto(lang, files, text[cs:op].strip())[0]
        fe = func_end(text, cl)
        pos = first_use(text, name, cl, fe)
        if pos is None:
            raise Problem("translator", f"no use of {name} after the flat import call")
        l, r, ret = stmt_value(text, pos, lang)
        if ret:
            s.dstTy_text = return_type(lang, header_of(text, cs))
        ctx = mk_ctx(lang, files, helpers, fname, text, l, {name}, "named", T)
        build(s, ctx, text[l:r].strip())
    guarded(new("lift", "flat", "import", LIFT_INSTR[T]), imp_flat_lift)

    # ---- export, flat
    def exp_flat_lift(s):
        fname, text, cs, op, cl = the_call(lang, files, "user_call", "flat")
        s.fname = fname
        args = split_args(text, op + 1, cl)
        if len(args) != 1:
            raise Problem("translator", f"user call of flat has {len(args)} arguments")
        a, b = args[0]
        hdr = header_of(text, cs)
        pn = param_names(lang, hdr)
        if len(pn) != 1:
            raise Problem("translator", f"export wrapper of flat has parameters {pn}")
        s.opTy_text = param_type(lang, hdr, pn[0])
        s.dstTy_text = (find_proto(lang, files, text[cs:op].strip())[1] or [None])[0]
        ctx = mk_ctx(lang, files, helpers, fname, text, a, {pn[0]}, "named", T)
        build(s, ctx, text[a:b].strip())
    guarded(new("lift", "flat", "export", LIFT_INSTR[T]), exp_flat_lift)

    def exp_flat_lower(s):
        fname, text, cs, op, cl = the_call(lang, files, "user_call", "flat")
        s.fname = fname
        b = binder_before(text, cs, lang)
        if not b:
            raise Problem("translator", "result of the user call of flat is not bound to a variable")
        name, ty = b
        if ty is None:
            # C#: `sbyte ret;` declared earlier
            fs, _ = func_start(text, cs)
            m = re.search(r"([\w\(\), ]+?)\s+" + re.escape(name) + r"\s*;", text[fs:cs])
            ty = m.group(1).strip() if m else None
        s.opTy_text = ty or find_proto(lang, files, text[cs:op].strip())[0]
        fe = func_end(text, cl)
        # skip to the end of the statement containing the call
        _, stmt_r = stmt_bounds(text, cl, lang)
        pos = first_use(text, name, stmt_r, fe)
        if pos is None:
            raise Problem("translator", f"no use of {name} after the user call of flat")
        pos = go_follow(text, pos, lang, fe)
        l, r, ret = stmt_value(text, pos, lang)
        if ret:
            s.dstTy_text = return_type(lang, header_of(text, cs))
        ctx = mk_ctx(lang, files, helpers, fname, text, l, {name}, "named", T)
        build(s, ctx, text[l:r].strip())
    guarded(new("lower", "flat", "export", LOWER_INSTR[T]), exp_flat_lower)

    # ---- import, mem
    def store_site(s, fname, text, pos, names, mode):
        l, r = stmt_bounds(text, pos, lang)
        stmt = text[l:r]
        sp = split_assign(stmt)
        ctx = mk_ctx(lang, files, helpers, fname, text, l, names, mode, T)
        if sp:
            build(s, ctx, sp[1], store_lhs=sp[0])
            s.snippet = stmt
        else:
            build(s, ctx, stmt)
            if s.expr is not None and s.expr[0] != "wstore":
                s.problem, s.problem_kind = f"statement {stmt!r} is not a store", "translator"

    def imp_mem_lower(s):
        fname, text, cs, op, cl = the_call(lang, files, "import_call", "mem")
        s.fname = fname
        fs, brace = func_start(text, cs)
        hdr = text[fs:brace]
        s.opTy_text = param_type(lang, hdr, "a0")
        pos = first_use(text, "a0", brace, cs)
        if pos is None:
            raise Problem("translator", "parameter a0 is not used before the mem import call")
        pos = go_follow(text, pos, lang, cs)
        store_site(s, fname, text, pos, {"a0"}, "named")
    guarded(new("lower", "mem", "import", LOWER_INSTR[T] + ";" + STORE_INSTR[T]), imp_mem_lower)

    def follow_load(s, fname, text, lo, hi):
        m = re.search(ADDR0[lang], text[lo:hi])
        if not m:
            raise Problem("translator", f"no cell address matching {ADDR0[lang]!r} after the call")
        pos = lo + m.start()
        l, r, ret = max_expr(text, pos, lang)
        b = binder_before(text, l, lang) if text[:l].rstrip().endswith("=") else None
        if b:
            name = b[0]
            _, sr = stmt_bounds(text, r, lang)
            p2 = first_use(text, name, sr, hi)
            if p2 is None:
                raise Problem("translator", f"loaded value {name} is never used")
            l, r, ret = max_expr(text, p2, lang)
        ctx = mk_ctx(lang, files, helpers, fname, text, l, (), "none", T)
        build(s, ctx, text[l:r])

    def imp_mem_lift(s):
        fname, text, cs, op, cl = the_call(lang, files, "import_call", "mem")
        s.fname = fname
        follow_load(s, fname, text, cl, func_end(text, cl))
    guarded(new("lift", "mem", "import", LOAD_INSTR[T] + ";" + LIFT_INSTR[T]), imp_mem_lift)

    # ---- export, mem
    def exp_mem_lift(s):
        fname, text, cs, op, cl = the_call(lang, files, "user_call", "mem")
        s.fname = fname
        args = split_args(text, op + 1, cl)
        a, b = args[0]
        s.dstTy_text = (find_proto(lang, files, text[cs:op].strip())[1] or [None])[0]
        ctx = mk_ctx(lang, files, helpers, fname, text, a, (), "none", T)
        build(s, ctx, text[a:b].strip())
    guarded(new("lift", "mem", "export", LOAD_INSTR[T] + ";" + LIFT_INSTR[T]), exp_mem_lift)

    def exp_mem_lower(s):
        fname, text, cs, op, cl = the_call(lang, files, "user_call", "mem")
        s.fname = fname
        _, stmt_r = stmt_bounds(text, cl, lang)
        fe = func_end(text, cl)
        for m in re.finditer(ADDR0[lang], text[stmt_r:fe]):
            pos = stmt_r + m.start()
            l, r = stmt_bounds(text, pos, lang)
            stmt = text[l:r]
            if split_assign(stmt) or re.match(r"\s*mbt_ffi_store", stmt):
                store_site(s, fname, text, pos, (), "single_unknown")
                return
        raise Problem("translator", "no store after the user call of mem")
    guarded(new("lower", "mem", "export", LOWER_INSTR[T] + ";" + STORE_INSTR[T]), exp_mem_lower)

    for s in sites:
        s.opTy = ty_of(lang, strip_tuple(s.opTy_text)) if s.opTy_text else None
        s.dstTy = ty_of(lang, strip_tuple(s.dstTy_text)) if s.dstTy_text else None
    return sites

def strip_tuple(t):
    t = t.strip()
    while t.startswith("(") and t.endswith(")"):
        t = t[1:-1].strip()
    return t


# ------------------------------------------------------------------ cast sites

def extract_casts(lang, probe, files):
    pid, A, B, src, dst, kfwd, kback, skind = probe
    helpers = Helpers(lang, files)
    sites = []

    def new(kind, s_, d_, side):
        s = Site(lang=lang, probe=pid, kind=kind, src=s_, dst=d_, side=side, snippet="", fname="", wty=A, dir=kind, pos=pid, skind=skind)
        sites.append(s)
        return s

    def guarded(s, fn):
        try:
            fn(s)
        except Problem as p:
            s.problem, s.problem_kind = str(p), p.kind
        except Exception as ex:  # noqa
            s.problem, s.problem_kind = f"translator crashed: {type(ex).__name__} {ex}", "translator"

    def lower_cast(s):
        fname, text, cs, op, cl = the_call(lang, files, "import_call", "vf")
        s.fname = fname
        args = split_args(text, op + 1, cl)
        if len(args) < 2:
            raise Problem("translator", f"import call of vf has {len(args)} arguments")
        a, b = args[1]
        slot = re.sub(r"^std::move\((.*)\)$", r"\1", text[a:b].strip())
        if not re.fullmatch(r"\w+", slot):
            raise Problem("translator", f"slot argument {slot!r} is not a variable")
        fs, brace = func_start(text, cs)
        body = text[brace:cs]
        s.dstTy_text = (find_proto(lang, files, text[cs:op].strip())[1] or [None, None])[1]
        # (1) assignment `slot = EXPR` (first = arm of case 0)
        m = re.search(r"(?<![\w\.])" + re.escape(slot) + r"\s*=(?!=)\s*", body)
        decl = re.search(r"(?m)^\s*(?:var\s+)?(?:([\w\*]+)\s+" + re.escape(slot) + r"|" + re.escape(slot) + r"\s+([\w\*]+))\s*(?:=\s*void)?\s*;?\s*$", body)
        if decl:
            s.dstTy_text = decl.group(1) or decl.group(2)
        if m and not re.search(r"\blet\s*\(", body[:m.start()].split("\n")[-1]):
            # skip a declaration-with-initialiser like `ulong x = void;`
            cands = [mm for mm in re.finditer(r"(?<![\w\.])" + re.escape(slot) + r"\s*=(?!=)\s*", body)
                     if not body[mm.end():].startswith("void")]
            if not cands:
                raise Problem("translator", f"no assignment to slot variable {slot}")
            m = cands[0]
            pos = brace + m.end()
            r = stmt_bounds(text, pos, lang)[1]
            ctx = mk_ctx(lang, files, helpers, fname, text, pos, (), "single_unknown", A)
            build(s, ctx, text[pos:r].strip())
            return
        # (2) tuple-valued match arms:  let (a, slot,) = match zqx { P(e) => (x, EXPR), ...
        m = re.search(r"let\s*\(([^)]*)\)\s*=\s*match\b", body)
        if not m:
            raise Problem("translator", f"cannot find where slot variable {slot} is computed")
        names = [n.strip() for n in m.group(1).split(",") if n.strip()]
        idx = names.index(slot)
        arrow = text.index("=>", brace + m.end())
        p = arrow + 2
        while text[p] in " \t\n{":
            p += 1
        if text[p] != "(":
            raise Problem("translator", "match arm of case 0 is not a tuple")
        close = match_close(text, p)
        elems = split_args(text, p + 1, close)
        ea, eb = elems[idx]
        ctx = mk_ctx(lang, files, helpers, fname, text, ea, (), "single_unknown", A)
        build(s, ctx, text[ea:eb].strip())
    guarded(new(kfwd, src, dst, "import"), lower_cast)

    def lift_cast(s):
        fname, text, cs, op, cl = the_call(lang, files, "user_call", "vf")
        s.fname = fname
        fs, brace = func_start(text, cs)
        hdr = text[fs:brace]
        pn = param_names(lang, hdr)
        if len(pn) < 2:
            raise Problem("translator", f"export wrapper of vf has parameters {pn}")
        name = pn[1]
        s.opTy_text = param_type(lang, hdr, name)
        pos = first_use(text, name, brace, cs)
        if pos is None:
            raise Problem("translator", f"slot parameter {name} unused")
        l, r, ret = max_expr(text, pos, lang)
        b = binder_before(text, l, lang) if text[:l].rstrip().endswith("=") else None
        if b and b[1]:
            s.dstTy_text = b[1]
        ctx = mk_ctx(lang, files, helpers, fname, text, l, {name}, "named", A)
        build(s, ctx, text[l:r])
    guarded(new(kback, dst, src, "export"), lift_cast)

    for s in sites:
        s.opTy = ty_of(lang, strip_tuple(s.opTy_text)) if s.opTy_text else None
        s.dstTy = ty_of(lang, strip_tuple(s.dstTy_text)) if s.dstTy_text else None
    return sites


# ------------------------------------------------------------------ flags probes: well-formedness of the emitted statements

def scan_flags(lang, n, files):
    """FlagsLower / FlagsLift pieces are core-value conversions too; they are not modelled, but every single-line
    statement that mentions them must at least be bracket-balanced (DESIGN F11).  -> [offending line]"""
    bad = []
    for fname, text in text_files(files).items():
        if balanced(text):
            continue
        for line in text.split("\n"):
            st = line.strip()
            if not st or st.startswith(("//", "#|", "///")):
                continue
            single = re.match(r"[A-Za-z_\*@]", st) and st.endswith((")", ";")) and not st.endswith(("{", "(", ","))
            if single and not balanced(st) and st.count(")") > st.count("("):
                bad.append((fname, st))
    return bad

# ------------------------------------------------------------------ emitting the Lean tables

VERIF = os.path.dirname(os.path.dirname(os.path.abspath(__file__)))
GEN_DIR = os.path.join(VERIF, "lean", "Witverif", "Generated")

def write_if_changed(path, content):
    os.makedirs(os.path.dirname(path), exist_ok=True)
    if os.path.exists(path) and open(path).read() == content:
        return False
    # write to a temp file in the same directory and rename: a concurrent `lake build` (or a run with another
    # VERIF_REPO) never sees a half-written table
    tmp = f"{path}.tmp.{os.getpid()}"
    with open(tmp, "w") as f:
        f.write(content)
    os.replace(tmp, path)
    return True

def one_line(s):
    return re.sub(r"\s+", " ", s).strip()

def scalar_entry_lean(s, sides):
    return ("{ lang := ." + s.lang + ", wty := ." + s.wty + ", dir := ." + s.dir + ", pos := ." + s.pos +
            ", side := " + lean_str(",".join(sides)) + ", instr := " + lean_str(s.instr) +
            ", opTy := " + lean_opt_ty(s.opTy) + ", dstTy := " + lean_opt_ty(s.dstTy) +
            ", expr := " + lean_expr(s.expr) + ", src := " + lean_str(one_line(s.snippet)) + " }")

def cast_entry_lean(s, sides):
    lowering = s.side == "import"
    slot = s.dst if lowering else s.src
    return ("{ lang := ." + s.lang + ", kind := " + lean_str(s.kind) + ", payload := ." + s.wty + ", slot := ." + slot + ", slotKind := ." + s.skind +
            ", lowering := " + ("true" if lowering else "false") +
            ", side := " + lean_str(",".join(sides)) + ", opTy := " + lean_opt_ty(s.opTy) + ", dstTy := " + lean_opt_ty(s.dstTy) +
            ", expr := " + lean_expr(s.expr) + ", text := " + lean_str(one_line(s.snippet)) + " }")

HEADER = ("/-! GENERATED by tools/scalar_translate.py on every check run from the OUTPUT of the real wit-bindgen\n"
          "generators (harness/gen-run, engine `files`) on one-function probe worlds.  Do not edit.\n"
          "Every entry's `{field}` is the emitted snippet; `expr` is its parse (round-trip guarded). -/\n")

def translate(gen_bin, write=True):
    """-> report dict; writes Generated/ScalarExprs.lean and Generated/CastExprs.lean"""
    reqs, meta = [], []
    for b in BACKENDS:
        for T in WTYS:
            reqs.append((b, wit_scalar(T))); meta.append(("scalar", b, T))
        for pr in CAST_PROBES:
            reqs.append((b, wit_cast(pr[1], pr[2]))); meta.append(("cast", b, pr))
    for b in BACKENDS:
        for n in FLAG_SIZES:
            reqs.append((b, wit_flags(n))); meta.append(("flags", b, n))
    outs = run_gen(gen_bin, reqs)
    report = {"sites": [], "problems": [], "gen_failures": [], "lists": {}, "cast_lists": {}, "files_changed": [],
              "flags": {"probes": 0, "generation_refused": [], "malformed": []}}
    scalar_lists, cast_lists = {}, {}
    report["_raw"] = [(m, f) for m, f in zip(meta, outs)]       # not JSON: generated files per probe
    for (kind, b, arg), files in zip(meta, outs):
        if kind == "flags":
            report["flags"]["probes"] += 1
            if "__err__" in files:
                report["flags"]["generation_refused"].append({"backend": b, "flags": arg, "error": files["__err__"]})
            else:
                for fname, st in scan_flags(b, arg, files):
                    report["flags"]["malformed"].append({"backend": b, "flags": arg, "file": fname, "statement": st})
            continue
        if "__err__" in files:
            report["gen_failures"].append({"backend": b, "probe": arg if kind == "scalar" else arg[0], "error": files["__err__"]})
            continue
        sites = extract_scalar(b, arg, files) if kind == "scalar" else extract_casts(b, arg, files)
        for s in sites:
            if kind == "scalar":
                lname = f"{b}_{LOWER_INSTR[s.wty] if s.dir == 'lower' else LIFT_INSTR[s.wty]}"
                d = {"list": lname, "key": s.key(), "backend": b, "wty": s.wty, "dir": s.dir, "pos": s.pos, "side": s.side}
            else:
                lname = f"{b}_{s.kind}_{s.probe}"
                d = {"list": lname, "key": f"{b}.{s.probe}.{s.kind}.{s.side}", "backend": b, "kind": s.kind, "probe": s.probe,
                     "src": s.src, "dst": s.dst, "side": s.side, "payload": arg[1], "slot_kind": arg[7]}
            d.update({"snippet": s.snippet, "file": s.fname, "opTy_text": s.opTy_text, "dstTy_text": s.dstTy_text,
                      "opTy": s.opTy, "dstTy": s.dstTy, "inlined": s.inlined, "bindings": s.bindings,
                      "operands": getattr(s, "operands", []),
                      "lean": lean_expr(s.expr) if s.expr is not None else None,
                      "problem": s.problem, "problem_kind": s.problem_kind})
            report["sites"].append(d)
            tgt = scalar_lists if kind == "scalar" else cast_lists
            tgt.setdefault(lname, [])
            if s.problem:
                report["problems"].append(d)
                continue
            # merge sides with identical expression and declared types
            for ent in tgt[lname]:
                e0 = ent[0]
                if (lean_expr(e0.expr), e0.opTy, e0.dstTy, e0.pos, e0.dir) == (lean_expr(s.expr), s.opTy, s.dstTy, s.pos, s.dir):
                    ent[1].append(s.side); d["index"] = tgt[lname].index(ent); break
            else:
                tgt[lname].append((s, [s.side])); d["index"] = len(tgt[lname]) - 1
    # ---- Generated/ScalarExprs/<Backend>.lean + ScalarExprs.lean (table); same for CastExprs.
    # One file per backend: a changed template only invalidates that backend's proofs.
    CAPS = {"rust": "Rust", "c": "C", "cpp": "Cpp", "csharp": "CSharp", "go": "Go", "moonbit": "MoonBit", "d": "D"}
    outputs = {}
    names = []
    for b in BACKENDS:
        out = ["import Witverif.Scalar.Claims", HEADER.format(field="src"),
               "namespace Witverif.Generated.ScalarExprs", "open Witverif.Scalar Witverif.Scalar.Spec", ""]
        for T in WTYS:
            for instr in (LOWER_INSTR[T], LIFT_INSTR[T]):
                n = f"{b}_{instr}"
                names.append(n)
                ents = scalar_lists.get(n, [])
                out.append(f"def {n} : List Entry := [")
                out.append(",\n".join("  " + scalar_entry_lean(s, sides) for s, sides in ents))
                out.append("]\n")
                report["lists"][n] = len(ents)
        out.append("end Witverif.Generated.ScalarExprs\n")
        outputs[os.path.join("ScalarExprs", CAPS[b] + ".lean")] = "\n".join(out)
    out = [f"import Witverif.Generated.ScalarExprs.{CAPS[b]}" for b in BACKENDS]
    out += [HEADER.format(field="src"), "namespace Witverif.Generated.ScalarExprs", "open Witverif.Scalar", "",
            "def table : List (String × List Entry) := [", ",\n".join(f'  ("{n}", {n})' for n in names), "]\n",
            "end Witverif.Generated.ScalarExprs\n"]
    outputs["ScalarExprs.lean"] = "\n".join(out)
    cnames = []
    for b in BACKENDS:
        out = ["import Witverif.Scalar.Claims", HEADER.format(field="text"),
               "namespace Witverif.Generated.CastExprs", "open Witverif.Scalar Witverif.Scalar.Spec", ""]
        for pr in CAST_PROBES:
            for kind in (pr[5], pr[6]):
                n = f"{b}_{kind}_{pr[0]}"
                if n in cnames:
                    continue
                cnames.append(n)
                ents = cast_lists.get(n, [])
                out.append(f"def {n} : List CastEntry := [")
                out.append(",\n".join("  " + cast_entry_lean(s, sides) for s, sides in ents))
                out.append("]\n")
                report["cast_lists"][n] = len(ents)
        out.append("end Witverif.Generated.CastExprs\n")
        outputs[os.path.join("CastExprs", CAPS[b] + ".lean")] = "\n".join(out)
    out = [f"import Witverif.Generated.CastExprs.{CAPS[b]}" for b in BACKENDS]
    out += [HEADER.format(field="text"), "namespace Witverif.Generated.CastExprs", "open Witverif.Scalar", "",
            "def table : List (String × List CastEntry) := [", ",\n".join(f'  ("{n}", {n})' for n in cnames), "]\n",
            "end Witverif.Generated.CastExprs\n"]
    outputs["CastExprs.lean"] = "\n".join(out)
    if write:
        for rel, text in outputs.items():
            if write_if_changed(os.path.join(GEN_DIR, rel), text):
                report["files_changed"].append(rel)
    report["probes"] = len(reqs)
    return report


if __name__ == "__main__":
    gen = sys.argv[1] if len(sys.argv) > 1 else os.path.join(VERIF, ".build", "target", "debug", "gen-run")
    rep = translate(gen, write="--dry" not in sys.argv)
    print(json.dumps({k: (v if k not in ("sites",) else len(v)) for k, v in rep.items() if k != "_raw"}, indent=1))
