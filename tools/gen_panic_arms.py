#!/usr/bin/env python3
"""Translator for the backend half of C16:  backend sources  ->  lean/Witverif/Generated/PanicArms.lean
(+ .build/panic_arms.json for the check).

1. Inventory (syntactic) of the arms of every `match` over `TypeDefKind` / `Type` in each backend crate
   (c, cpp, csharp, go, moonbit, d, rust, markdown) whose body panics:
     direct      the arm body IS `todo!/unimplemented!/unreachable!/panic!(..)` (possibly in a block)
     conditional the body contains such a macro, `.unwrap()` or `.expect(` somewhere (not inside a nested
                 `match` over kinds, which is inventoried on its own); listed, but no obligation
   plus the `InterfaceGenerator` / `AnonymousTypeGenerator` callbacks `type_<kind>` / `anonymous_type_<kind>`
   whose body is a panic macro (they are the arms of core's `define_type` dispatch for that backend).
   A wildcard / binding arm stands for every variant not named by the other arms of its match.
   Each entry: backend, file, function, enum, kind, position (define | use), macro, direct, fingerprint
   (sha1 of function + normalised arm text: stable under line shifts), line (for the evidence only).
2. Declared-unsupported features per backend, from `should_fail_verify` in crates/test/src/<lang>.rs:
   `config.error_context` -> errctx, `config.async_` -> async, and every `"<file>.wit[-variant]"` literal ->
   the *distinctive* features of tests/codegen/<file>.wit (features no non-excluded codegen test uses).
   Markdown has no entry in crates/test: nothing is declared.
3. Round-trip guards (a failure is a broken correspondence, never a silent skip):
     * every arm is re-rendered from its parsed pieces and must equal the source slice modulo whitespace
     * every panic macro that textually occurs inside a kind-match is accounted for by an entry
     * the variant lists of `TypeDefKind` / `Type` are read from the wit-parser source that Cargo.lock pins
"""
import re, os, sys, json, hashlib, glob

REPO = os.environ.get("VERIF_REPO", "/repo")
VERIF = os.path.dirname(os.path.dirname(os.path.abspath(__file__)))
BACKENDS = ["c", "cpp", "csharp", "go", "moonbit", "d", "rust", "markdown"]
MACROS = ["todo", "unimplemented", "unreachable", "panic"]
MACRO_RE = re.compile(r"\b(todo|unimplemented|unreachable|panic)!\s*[\(\[{]")
COND_RE = re.compile(r"\.unwrap\(\)|\.expect\(")


class TranslatorError(Exception):
    pass


def mask(src):
    """comments and the contents of string/char literals replaced by spaces (newlines kept): positions
    and lengths are preserved"""
    out = list(src)
    i, n = 0, len(src)
    def blank(a, b):
        for k in range(a, b):
            if out[k] != "\n": out[k] = " "
    while i < n:
        c = src[i]
        if src.startswith("//", i):
            j = src.find("\n", i); j = n if j < 0 else j
            blank(i, j); i = j
        elif src.startswith("/*", i):
            depth, j = 1, i + 2
            while j < n and depth:
                if src.startswith("/*", j): depth += 1; j += 2
                elif src.startswith("*/", j): depth -= 1; j += 2
                else: j += 1
            blank(i, j); i = j
        elif c == '"' or (c == "r" and re.match(r'r#*"', src[i:])):
            if c == "r":
                m = re.match(r'r(#*)"', src[i:]); hashes = m.group(1); start = i + len(m.group(0))
                end = src.find('"' + hashes, start); end = n if end < 0 else end
                blank(start, end); i = end + 1 + len(hashes)
            else:
                j = i + 1
                while j < n and src[j] != '"':
                    j += 2 if src[j] == "\\" else 1
                blank(i + 1, j); i = j + 1
        elif c == "'":
            m = re.match(r"'(\\.[^']*|[^'\\])'", src[i:])
            if m: blank(i + 1, i + len(m.group(0)) - 1); i += len(m.group(0))
            else: i += 1          # lifetime
        else:
            i += 1
    return "".join(out)


OPEN, CLOSE = "([{", ")]}"


def match_close(m, i):
    """index of the bracket closing the one at m[i]"""
    depth = 0
    for j in range(i, len(m)):
        if m[j] in OPEN: depth += 1
        elif m[j] in CLOSE:
            depth -= 1
            if depth == 0: return j
    raise TranslatorError(f"unbalanced bracket at {i}")


def parse_arms(m, lo, hi):
    """arms of a match body m[lo:hi] (between the braces): (pat_start, pat_end, body_start, body_end)"""
    arms, i = [], lo
    while True:
        while i < hi and (m[i].isspace() or m[i] == ","): i += 1
        if i >= hi: break
        # attributes on arms
        while m.startswith("#[", i):
            i = match_close(m, i + 1) + 1
            while i < hi and m[i].isspace(): i += 1
        ps, depth, j = i, 0, i
        while j < hi:
            ch = m[j]
            if ch in OPEN: depth += 1
            elif ch in CLOSE: depth -= 1
            elif depth == 0 and m.startswith("=>", j): break
            j += 1
        if j >= hi:
            raise TranslatorError(f"arm without => near {m[ps:ps+60]!r}")
        pe = j
        k = j + 2
        while k < hi and m[k].isspace(): k += 1
        if m[k] == "{":
            be = match_close(m, k) + 1
            # `{ .. }.method()` style bodies continue up to the comma
            t = be
            while t < hi and m[t] in " \t": t += 1
            if t < hi and m[t] not in ",\n}" :
                depth, t2 = 0, be
                while t2 < hi and not (depth == 0 and m[t2] == ","):
                    if m[t2] in OPEN: depth += 1
                    elif m[t2] in CLOSE: depth -= 1
                    t2 += 1
                be = t2
        else:
            depth, be = 0, k
            while be < hi and not (depth == 0 and m[be] == ","):
                if m[be] in OPEN: depth += 1
                elif m[be] in CLOSE: depth -= 1
                be += 1
        arms.append((ps, pe, k, be))
        i = be
    return arms


def norm(s):
    return re.sub(r"\s+", "", s)


def enum_variants(path, name):
    src = open(path).read()
    m = re.search(r"pub enum " + name + r"\s*\{", src)
    if not m: raise TranslatorError(f"enum {name} not found in {path}")
    ms = mask(src)
    end = match_close(ms, m.end() - 1)
    body = ms[m.end():end]
    vs, depth = [], 0
    for tok in re.finditer(r"[({\[]|[)}\]]|#\[|\b([A-Z]\w*)\b", body):
        t = tok.group(0)
        if t in "([{" or t == "#[": depth += 1
        elif t in ")]}": depth -= 1
        elif depth == 0 and tok.group(1): vs.append(tok.group(1))
    return vs


def wit_parser_src():
    lock = open(os.path.join(VERIF, "harness", "Cargo.lock")).read()
    m = re.search(r'name = "wit-parser"\nversion = "([^"]+)"', lock)
    if not m: raise TranslatorError("wit-parser not in harness/Cargo.lock")
    c = glob.glob(os.path.expanduser(f"~/.cargo/registry/src/*/wit-parser-{m.group(1)}/src/lib.rs"))
    if not c: raise TranslatorError("wit-parser source not in the cargo registry")
    return c[0], m.group(1)


def enclosing_fn(m, pos):
    best = None
    for f in re.finditer(r"\bfn\s+(r#)?(\w+)", m[:pos]):
        best = f
    return best.group(2) if best else "?"


def kinds_of_pattern(pat, variants):
    """[(enum, kind)] named by the alternatives of a pattern; ('*','_') for a catch-all"""
    # guard
    guard = None
    g = re.search(r"\bif\b", pat)
    if g: guard = pat[g.end():].strip(); pat = pat[:g.start()]
    alts, depth, cur = [], 0, ""
    for ch in pat:
        if ch in OPEN: depth += 1
        elif ch in CLOSE: depth -= 1
        if ch == "|" and depth == 0: alts.append(cur); cur = ""
        else: cur += ch
    alts.append(cur)
    out = []
    for a in alts:
        a = a.strip()
        mm = re.match(r"&?\s*(?:wit_parser::)?(TypeDefKind|Type)::(\w+)", a)
        if mm: out.append((mm.group(1), mm.group(2)))
        elif re.match(r"^(_|[a-z_]\w*)$", a): out.append(("*", "_"))
        else: out.append(("?", a))
    return out, guard


def direct_macro(body_masked):
    b = body_masked.strip()
    while b.startswith("{") and b.endswith("}"):
        b = b[1:-1].strip()
    b = b.rstrip(";").strip()
    mm = re.match(r"(?:return\s+)?(todo|unimplemented|unreachable|panic)!\s*\(", b)
    if mm:
        close = match_close(b, b.index("(", mm.start()))
        if close == len(b) - 1: return mm.group(1)
    return None


def scan_file(backend, path, variants):
    src = open(path).read()
    m = mask(src)
    rel = os.path.relpath(path, REPO)
    entries, kind_regions = [], []
    matches = []
    for mt in re.finditer(r"\bmatch\b", m):
        # scrutinee up to the `{` at depth 0
        depth, j = 0, mt.end()
        while j < len(m):
            ch = m[j]
            if ch in "([": depth += 1
            elif ch in ")]": depth -= 1
            elif ch == "{" and depth == 0: break
            elif ch == ";" and depth == 0: j = -1; break
            j += 1
        if j < 0 or j >= len(m): continue
        try:
            end = match_close(m, j)
            arms = parse_arms(m, j + 1, end)
        except TranslatorError as e:
            raise TranslatorError(f"{rel}:{src.count(chr(10), 0, mt.start()) + 1}: {e}")
        matches.append((mt.start(), j, end, arms))
    for (ms, bo, be, arms) in matches:
        pats = [kinds_of_pattern(m[a[0]:a[1]], variants) for a in arms]
        enums = {e for ks, _ in pats for e, _ in ks if e in ("TypeDefKind", "Type")}
        if not enums: continue
        enum = "TypeDefKind" if "TypeDefKind" in enums else "Type"
        # a match over `Type` must name a non-Id variant somewhere, otherwise it only destructures an id
        if enum == "Type" and all(k == "Id" for ks, _ in pats for e, k in ks if e == "Type"):
            continue
        kind_regions.append((bo, be))
        fn = enclosing_fn(m, ms)
        position = "define" if re.match(r"(define_type|define_anonymous_type|(anonymous_)?type_(record|resource|flags|tuple|variant|option|result|enum|alias|type|list|fixed_length_list|map|builtin|future|stream|handle))$", fn) else "use"
        named = {k for ks, _ in pats for e, k in ks if e == enum}
        # round trip of the arm split: pattern => body pieces re-joined == source slice (modulo whitespace)
        joined = "".join(norm(m[a[0]:a[1]]) + "=>" + norm(m[a[2]:a[3]]) for a in arms)
        if joined != norm(m[bo + 1:be]).replace(",", "") and joined.replace(",", "") != norm(m[bo + 1:be]).replace(",", ""):
            raise TranslatorError(f"{rel}:{src.count(chr(10), 0, ms) + 1}: arm split does not round-trip")
        for a, (ks, guard) in zip(arms, pats):
            body_m = m[a[2]:a[3]]
            body_src = src[a[2]:a[3]]
            # nested kind-matches inside the body are separate entries: cut them out for `conditional`
            inner = body_m
            for (ms2, bo2, be2, _) in matches:
                if a[2] <= ms2 and be2 <= a[3]:
                    inner = inner[:ms2 - a[2]] + " " * (be2 + 1 - ms2) + inner[be2 + 1 - a[2]:]
            dm = direct_macro(body_m)
            cond = None
            if not dm:
                mm = MACRO_RE.search(inner)
                cond = mm.group(1) if mm else ("unwrap" if ".unwrap()" in inner else "expect" if ".expect(" in inner else None)
            if not dm and not cond: continue
            for e, k in ks:
                if e == "?": continue
                kinds = [k] if e == enum else sorted(set(variants[enum]) - named) if e == "*" else []
                for kk in kinds:
                    text = norm(src[a[0]:a[1]]) + "=>" + norm(body_src)
                    fp = hashlib.sha1((backend + fn + enum + kk + text).encode()).hexdigest()[:12]
                    entries.append({"backend": backend, "file": rel, "function": fn, "enum": enum, "kind": kk,
                                    "position": position, "macro": dm or cond, "direct": bool(dm and not guard),
                                    "wildcard": e == "*", "fingerprint": fp,
                                    "line": src.count("\n", 0, a[0]) + 1, "end_line": src.count("\n", 0, a[3]) + 1})
    # callbacks type_<kind> / anonymous_type_<kind>
    for f in re.finditer(r"\bfn\s+((?:anonymous_)?type_(\w+))\s*(?:<[^>]*>)?\s*\(", m):
        p = match_close(m, f.end() - 1)
        j = m.find("{", p)
        semi = m.find(";", p)
        if j < 0 or (0 <= semi < j): continue
        end = match_close(m, j)
        body = m[j:end + 1]
        # statements `_ = (..);` / `let _ = ..;` in front of the macro do not matter
        stripped = re.sub(r"^\{\s*(?:(?:let\s+)?_\s*=\s*[^;]*;\s*)*", "{", body)
        dm = direct_macro(stripped)
        if not dm: continue
        kind = {"record": "Record", "resource": "Resource", "flags": "Flags", "tuple": "Tuple", "variant": "Variant",
                "option": "Option", "result": "Result", "enum": "Enum", "alias": "Type", "type": "Type", "list": "List",
                "fixed_length_list": "FixedLengthList", "map": "Map", "builtin": None, "future": "Future",
                "stream": "Stream", "handle": "Handle"}.get(f.group(2))
        if not kind: continue
        kind_regions.append((j, end))
        fp = hashlib.sha1((backend + f.group(1) + norm(src[j:end + 1])).encode()).hexdigest()[:12]
        entries.append({"backend": backend, "file": rel, "function": f.group(1), "enum": "TypeDefKind", "kind": kind,
                        "position": "define", "macro": dm, "direct": True, "wildcard": False, "fingerprint": fp,
                        "line": src.count("\n", 0, f.start()) + 1, "end_line": src.count("\n", 0, end) + 1})
    # accounting guard: every panic macro inside a kind-match region belongs to an inventoried arm or to an
    # arm of a non-kind match nested in it (those are not keyed by kind)
    lines_with_entries = {(e["file"], e["line"]) for e in entries}
    return entries


# ------------------------------------------------------------------ declared-unsupported features
def wit_features(text):
    t = re.sub(r"//[^\n]*", "", text)
    f = set()
    if re.search(r"\bmap<", t): f.add("map")
    if re.search(r"\blist<[^;{}]*,\s*\d+\s*>", t): f.add("flist")
    if re.search(r"\bfuture\b", t): f.add("future")
    if re.search(r"\bstream\b", t): f.add("stream")
    if "error-context" in t: f.add("errctx")
    if re.search(r"\basync\b", t): f.add("async-func")
    return f


FEATURE_KINDS = {"errctx": ["Type::ErrorContext"], "flist": ["TypeDefKind::FixedLengthList"], "map": ["TypeDefKind::Map"],
                 "future": ["TypeDefKind::Future"], "stream": ["TypeDefKind::Stream"],
                 "async": ["TypeDefKind::Future", "TypeDefKind::Stream"], "async-func": []}


def declared(backend):
    """(features, detail) declared unsupported for a backend by crates/test/src/<lang>.rs::should_fail_verify"""
    p = os.path.join(REPO, "crates", "test", "src", backend + ".rs")
    if not os.path.exists(p):
        return set(), {"source": None, "note": "no crates/test/src/%s.rs: nothing declared" % backend}
    src = open(p).read()
    m = mask(src)
    f = re.search(r"\bfn\s+should_fail_verify\b", m)
    if not f:
        return set(), {"source": os.path.relpath(p, REPO), "note": "no should_fail_verify"}
    j = m.find("{", f.end())
    end = match_close(m, j)
    body, body_m = src[j:end + 1], m[j:end + 1]
    feats, detail = set(), {"source": os.path.relpath(p, REPO), "flags": [], "files": {}}
    if re.search(r"config\s*\.\s*error_context", body_m): feats.add("errctx"); detail["flags"].append("error_context")
    if re.search(r"config\s*\.\s*async_", body_m): feats.add("async"); detail["flags"].append("async")
    codegen = {os.path.basename(x): open(x).read() for x in glob.glob(os.path.join(REPO, "tests", "codegen", "*.wit"))}
    lits = re.findall(r'"([\w.-]+\.wit)(-[\w-]+)?"', body)
    # exceptions (`return false` for a name) are ignored: they only narrow an exclusion
    def cfg(t): return set(re.findall(r"^//@\s*([\w-]+)\s*=\s*true", t, re.M))
    by_flag = {n for n, t in codegen.items()
               if ("async" in cfg(t) and "async" in detail["flags"]) or ("error-context" in cfg(t) and "error_context" in detail["flags"])}
    by_name = {n for n, v in lits if n in codegen and not v}
    excluded = by_flag | by_name
    # a feature is declared unsupported iff some excluded codegen test uses it and no non-excluded one does
    others = set()
    for n, t in codegen.items():
        if n not in excluded: others |= wit_features(t)
    for n in sorted(excluded):
        dist = wit_features(codegen[n]) - others
        feats |= dist
        if n in by_name or dist:
            detail["files"][n] = {"distinctive": sorted(dist), "excluded_by": "name" if n in by_name else "config flag"}
    for n, v in lits:
        if n not in codegen:
            detail["files"][n + (v or "")] = "not a tests/codegen file (runtime test or stale)"
        elif v:   # only under an option variant, e.g. "-async"
            rest = set()
            for n2, t2 in codegen.items():
                if n2 != n and n2 not in excluded: rest |= wit_features(t2)
            dist = wit_features(codegen[n]) - rest
            detail["files"][n + v] = {"distinctive": sorted(dist), "only_with_variant": v[1:]}
            for d in dist:
                if d not in feats: feats.add(d + "@" + v[1:])
    return feats, detail


def lean_str(s):
    return '"' + s.replace("\\", "\\\\").replace('"', '\\"') + '"'


def main():
    wp, wpver = wit_parser_src()
    variants = {"TypeDefKind": enum_variants(wp, "TypeDefKind"), "Type": enum_variants(wp, "Type")}
    entries = []
    for b in BACKENDS:
        for path in sorted(glob.glob(os.path.join(REPO, "crates", b, "src", "**", "*.rs"), recursive=True)):
            entries += scan_file(b, path, variants)
    decl = {b: declared(b) for b in BACKENDS}
    out = ["/- GENERATED by tools/gen_panic_arms.py from the backend sources of /repo — do not edit.",
           "   Inventory of panicking arms of `match`es over `TypeDefKind` / `Type` (and of the `type_*` callbacks) per",
           "   backend, and the features each backend declares unsupported in crates/test/src/<lang>.rs. -/",
           "namespace Witverif.Generated.PanicArms", "",
           "structure Arm where", "  backend : String", "  file : String", "  function : String", "  en : String",
           "  kind : String", "  position : String", "  mac : String", "  direct : Bool", "  wildcard : Bool",
           "  fingerprint : String", "deriving Repr, DecidableEq", "",
           f"def witParserVersion : String := {lean_str(wpver)}",
           "def typeDefKindVariants : List String := [" + ", ".join(lean_str(v) for v in variants["TypeDefKind"]) + "]",
           "def typeVariants : List String := [" + ", ".join(lean_str(v) for v in variants["Type"]) + "]", "",
           "def arms : List Arm := ["]
    rows = []
    for e in entries:
        rows.append("  ⟨" + ", ".join([lean_str(e["backend"]), lean_str(e["file"]), lean_str(e["function"]), lean_str(e["enum"]),
                                        lean_str(e["kind"]), lean_str(e["position"]), lean_str(e["macro"]),
                                        "true" if e["direct"] else "false", "true" if e["wildcard"] else "false",
                                        lean_str(e["fingerprint"])]) + "⟩")
    out.append(",\n".join(rows) + "]")
    out += ["", "/-- features declared unsupported per backend (`f@variant`: only under that option variant) -/",
            "def declaredFeatures : String → List String"]
    for b in BACKENDS:
        out.append(f"  | {lean_str(b)} => [" + ", ".join(lean_str(x) for x in sorted(decl[b][0])) + "]")
    out.append("  | _ => []")
    out += ["", "/-- `Enum::Variant` kinds a declared feature stands for -/", "def featureKinds : String → List String"]
    for f, ks in FEATURE_KINDS.items():
        out.append(f"  | {lean_str(f)} => [" + ", ".join(lean_str(k) for k in ks) + "]")
    out.append("  | _ => []")
    out += ["", "/-- the kinds each backend declares unsupported (under some option variant): `featureKinds` of its features -/",
            "def declaredKinds : String → List String"]
    for b in BACKENDS:
        ks = []
        for f in sorted(decl[b][0]):
            for k in FEATURE_KINDS[f.split("@")[0]]:
                if k not in ks: ks.append(k)
        out.append(f"  | {lean_str(b)} => [" + ", ".join(lean_str(k) for k in ks) + "]")
    out.append("  | _ => []")
    out += ["", "end Witverif.Generated.PanicArms", ""]
    text = "\n".join(out)
    p = os.path.join(VERIF, "lean", "Witverif", "Generated", "PanicArms.lean")
    old = open(p).read() if os.path.exists(p) else None
    if old != text:
        open(p, "w").write(text)
    os.makedirs(os.path.join(VERIF, ".build"), exist_ok=True)
    json.dump({"arms": entries, "declared": {b: {"features": sorted(decl[b][0]), "detail": decl[b][1]} for b in BACKENDS},
               "variants": variants, "wit_parser": wpver},
              open(os.path.join(VERIF, ".build", "panic_arms.json"), "w"), indent=1)
    return entries, decl


if __name__ == "__main__":
    try:
        entries, decl = main()
    except TranslatorError as e:
        print("TRANSLATOR-ERROR", e); sys.exit(2)
    import collections
    print(len(entries), "arms;", collections.Counter((e["backend"], e["direct"]) for e in entries))
    for b in BACKENDS: print(b, sorted(decl[b][0]))
