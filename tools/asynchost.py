"""Scripted component-model host for natively executed ASYNC Rust bindings (C08).

The batch binary (harness/bind-native with an `async=` configuration; runtime = the REAL
crates/guest-rust `async_support` with hook H1, built-ins forwarded by harness/bind-native/async-rt)
sends one `IMPORT|<key>|<bits>` event per
  * canonical built-in                 `$rt#[waitable-set-wait]` …  (every one the runtime calls)
  * async-lowered import call          `<module>#[async-lower]<f>`
  * `task.return` of an async export   `[export]<module>#[task-return]<f>`
  * harness question                   `$bn#budget`, `$bn#plan`
and this module answers them: it keeps the handle table the canonical ABI prescribes (subtasks,
waitable sets, pending events, context slot 0), moves each callee through
starting -> started -> returned as the *schedule* of the scenario says, lifts the parameters with the
Lean spec (`m_c08 aliftargs`) at the moment the callee STARTS, stores the result (`m_c08 aresult`) at
the moment it RETURNS, and records what it observed as the token stream of
lean/Witverif/Async/GlueSpec.lean.  Rule violations by the guest (drop of an unresolved subtask,
cancel of a resolved one, drop of a non-empty set, …) are recorded as host traps.
"""
import os, sys
sys.path.insert(0, os.path.join(os.path.dirname(os.path.abspath(__file__)), "..", "checks"))
import bind_common as bc
from bind_common import P, Crash

EVENT_NONE, EVENT_SUBTASK, EVENT_CANCEL = 0, 1, 6
STARTING, STARTED, RETURNED, STARTED_CANCELLED, RETURNED_CANCELLED = 0, 1, 2, 3, 4
EXIT, YIELD, WAIT = 0, 1, 2


def resolved(s):
    return s >= RETURNED


class TProc(bc.Proc):
    """line server with a per-request timeout: the Lean host may be handed garbage by a broken guest (a freed,
    poisoned parameter record makes every length astronomically large); a request that does not come back is a
    trap of the host, the process is replaced"""

    def __init__(self, cmd, timeout=25):
        self.timeout, self.restarts = timeout, 0
        super().__init__(cmd)

    def rq(self, line):
        import select
        self.send(line)
        try:
            r, _, _ = select.select([self.p.stdout], [], [], self.timeout)
            l = self.p.stdout.readline() if r else ""
        except (OSError, ValueError):
            l = ""
        if l == "":
            try: self.p.kill()
            except Exception: pass
            self.restarts += 1
            self.start()
            return "trap"
        return l.rstrip("\n")


class Sub:
    def __init__(self, h, call):
        self.h, self.call = h, call
        self.state = STARTING
        self.pending = None
        self.resolved_delivered = False
        self.cancel_requested = False
        self.set = 0


class ImportCall:
    """one async-lowered import call: manifest entry, the values Rust code passes, the value the host
    answers, the schedule {s0, events, budget, cancel}, and everything observed"""

    def __init__(self, m, vals, ret, sched):
        self.m, self.vals, self.ret, self.sched = m, vals, ret, dict(sched)
        self.events = list(sched.get("events", []))
        self.tokens = []
        self.sub = None
        self.called = False
        self.argbits, self.resptr = None, None
        self.lifted_args, self.arg_blocks, self.arg_live = None, [], {}
        self.started = self.returned = False
        self.hostblocks = []
        self.result_live = None
        self.notes = []


class AsyncRunner(bc.Runner):
    """bc.Runner + the async host.  One top-level request at a time; `self.sc` is the scenario state."""

    def __init__(self, native_path, host_path, ahost_path):
        super().__init__(native_path, host_path)
        self.ahost = TProc([ahost_path])
        self.reset_host()

    def close(self):
        super().close()
        self.ahost.close()

    # ------------------------------------------------------------------ host state
    def reset_host(self):
        self.next = 1
        self.subs = {}
        self.sets = []
        self.ctx0 = 0
        self.traps = []
        self.builtin_log = []
        self.calls = []          # ImportCall objects of the current scenario, in call order
        self.pending_calls = []  # ImportCalls scripted but not yet called by the guest
        self.exp = None          # export scenario state
        self.budget = 0
        self.errctx = []

    def trap(self, why):
        self.traps.append(why)

    def new_handle(self):
        h = self.next
        self.next += 1
        return h

    # ------------------------------------------------------------------ callee transitions
    def callee_start(self, call):
        """the callee starts: the host lifts the lowered parameters NOW"""
        m = call.m
        bits = ",".join(str(b) for b in call.argbits) or "-"
        val, blocks, dump, live = bc.lift_loop(self.native, self.ahost, f"aliftargs|{P}|{m['func']}|{bits}")
        call.lifted_args, call.arg_blocks, call.arg_live = val, blocks, live
        ok = val is not None and all(lv for (a, n), lv in live.items() if n > 0)
        call.started = True
        call.tokens.append(f"start:{int(ok)}")
        if not ok:
            call.notes.append("dead regions at start: " + ",".join(f"{a}+{n}" for (a, n), lv in live.items() if n > 0 and not lv))

    def callee_return(self, call):
        """the callee returns: the host stores the result NOW"""
        m = call.m
        live = True
        if m["result"] is not None:
            ans = self.ahost.rq(f"aresult|{P}|{m['result']}|{call.ret}")
            if ans is None: raise Crash("m_c08 died")
            im = bc.parse_image(ans)
            area = im["blocks"][0]
            if area["size"] > 0:
                _, lv = bc.read_mem(self.native, [(call.resptr, area["size"])])
                live = lv[0]
            if live:
                _, hostblocks = bc.place_image(self.native, im, root_at=call.resptr)
                call.hostblocks = hostblocks
            call.result_live = live
        call.returned = True
        call.tokens.append(f"return:{int(live)}")

    def advance(self, call, st):
        """legal forward move of the callee to status st (STARTED / RETURNED)"""
        if not call.started:
            self.callee_start(call)
        if st == RETURNED and not call.returned:
            self.callee_return(call)
        call.sub.state = st
        call.sub.pending = st

    # ------------------------------------------------------------------ events from the guest
    def on_import(self, key, bits, out):
        if key.startswith("$rt#"):
            self.builtin_log.append(key[4:])
            r = self.builtin(key[4:], bits, out)
            self.native.send(f"RETURN|{r}")
        elif key == "$bn#budget":
            self.native.send(f"RETURN|{self.budget}")
        elif key == "$bn#plan":
            self.native.send(f"RETURN|{self.plan_step(out)}")
        elif "#[async-lower]" in key:
            self.native.send(f"RETURN|{self.async_import_called(key, bits, out)}")
        elif "#[task-return]" in key:
            self.task_return(key, bits, out)
            self.native.send("RETURN|0")
        elif "#[resource-drop]" in key:
            out.setdefault("handle_drops", []).append((key, bits[0] if bits else None))
            self.native.send("RETURN|0")
        else:
            super().on_import(key, bits, out)

    def async_import_called(self, key, bits, out):
        call = next((c for c in self.pending_calls if c.m["key"] == key), None)
        if call is None:
            out.setdefault("unexpected_imports", []).append(key)
            return RETURNED
        self.pending_calls.remove(call)
        if call.called:
            call.tokens.append("call:0:0")   # second call: the monitor rejects it
            return RETURNED
        call.called = True
        m = call.m
        call.argbits = bits[:-1] if m["result"] is not None else bits
        call.resptr = bits[-1] if m["result"] is not None else None
        s0 = call.sched["s0"]
        if s0 >= STARTED:
            self.callee_start(call)
        if s0 == RETURNED:
            self.callee_return(call)
            call.tokens.append("call:2:0")
            return RETURNED
        h = self.new_handle()
        call.sub = Sub(h, call)
        call.sub.state = s0
        self.subs[h] = call.sub
        call.tokens.append(f"call:{s0}:{h}")
        return s0 | (h << 4)

    def write_payload(self, addr, w, c):
        b = (w & 0xffffffff).to_bytes(4, "little") + (c & 0xffffffff).to_bytes(4, "little")
        ans = self.native.rq(f"HOSTMEM|8,4,{b.hex()},,{addr}")
        if ans is None: raise Crash("HOSTMEM payload")

    def ready_members(self, s):
        return sorted(h for h, sub in self.subs.items() if sub.set == s and sub.pending is not None)

    def take_event(self, h):
        sub = self.subs[h]
        p = sub.pending
        sub.pending = None
        if resolved(p): sub.resolved_delivered = True
        sub.call.tokens.append(f"dlv:{p}")
        return p

    def next_scheduled(self, s):
        """the schedule's next move for a subtask joined to set s; returns True if an event is now pending"""
        if self.ready_members(s): return True
        for h in sorted(self.subs):
            sub = self.subs[h]
            if sub.set == s and not resolved(sub.state) and not sub.cancel_requested and sub.call.events:
                st = sub.call.events.pop(0)
                if st > sub.state:
                    self.advance(sub.call, st)
                    return True
        return False

    def builtin(self, name, bits, out):
        if name == "[context-get-0]":
            return self.ctx0
        if name == "[context-set-0]":
            self.ctx0 = bits[0]
            return 0
        if name == "[waitable-set-new]":
            s = self.new_handle()
            self.sets.append(s)
            return s
        if name == "[waitable-set-drop]":
            s = bits[0]
            if s not in self.sets: self.trap("set-drop-unknown")
            elif any(sub.set == s for sub in self.subs.values()): self.trap("set-drop-nonempty")
            else: self.sets.remove(s)
            return 0
        if name == "[waitable-join]":
            w, s = bits
            if s != 0 and s not in self.sets: self.trap("join-unknown-set")
            elif w not in self.subs: self.trap("join-unknown-waitable")
            else: self.subs[w].set = s
            return 0
        if name in ("[waitable-set-wait]", "[waitable-set-poll]"):
            s, payload = bits
            if s not in self.sets:
                self.trap("poll-unknown-set")
            if name == "[waitable-set-wait]":
                # block_on: the task blocks inside the built-in; the host makes its next scheduled move
                if not self.next_scheduled(s):
                    self.trap("wait-would-block-forever")
                    self.write_payload(payload, 0, 0)
                    return EVENT_CANCEL     # lets block_on unwind instead of spinning
            rm = self.ready_members(s)
            if rm:
                st = self.take_event(rm[0])
                self.write_payload(payload, rm[0], st)
                return EVENT_SUBTASK
            self.write_payload(payload, 0, 0)
            return EVENT_NONE
        if name == "[subtask-cancel]":
            h = bits[0]
            sub = self.subs.get(h)
            if sub is None:
                self.trap("cancel-unknown-handle"); return RETURNED_CANCELLED
            if sub.resolved_delivered:
                self.trap("cancel-resolved-delivered"); return RETURNED_CANCELLED
            if sub.cancel_requested:
                self.trap("cancel-twice"); return RETURNED_CANCELLED
            if sub.set != 0:
                self.trap("cancel-while-in-set"); return RETURNED_CANCELLED
            sub.cancel_requested = True
            call = sub.call
            if resolved(sub.state):
                st = sub.pending if sub.pending is not None else sub.state
                sub.pending = None
            else:
                cx = call.sched.get("cancel", RETURNED_CANCELLED)
                if sub.state == STARTING and cx == STARTED_CANCELLED:
                    st = STARTED_CANCELLED
                elif cx == RETURNED:
                    if not call.started: self.callee_start(call)
                    self.callee_return(call)
                    st = RETURNED
                else:
                    if not call.started: self.callee_start(call)
                    st = RETURNED_CANCELLED
                sub.state = st
            sub.resolved_delivered = True
            call.tokens.append(f"cancel:{st}")
            return st
        if name == "[subtask-drop]":
            h = bits[0]
            sub = self.subs.get(h)
            if sub is None: self.trap("drop-unknown-handle")
            else:
                if not sub.resolved_delivered: self.trap("drop-unresolved")
                sub.call.tokens.append("sdrop")
                del self.subs[h]
            return 0
        if name == "[task-cancel]":
            if self.exp is not None: self.exp["tokens"].append("cancel")
            else: self.trap("task-cancel-outside-export")
            return 0
        if name == "[thread-yield]":
            return 0
        if name in ("[backpressure-inc]", "[backpressure-dec]"):
            return 0
        if name == "[error-context-new-utf8]":
            h = self.new_handle(); self.errctx.append(h); return h
        if name == "[error-context-drop]":
            if bits[0] in self.errctx: self.errctx.remove(bits[0])
            else: self.trap("errctx-drop-unknown")
            return 0
        self.trap("unknown-builtin:" + name)
        return 0

    # ------------------------------------------------------------------ scenario: async import on block_on
    def async_import_call(self, m, vals, ret, sched):
        """DRIVE an async import through the generated `async fn` on the REAL `block_on`."""
        self.reset_host()
        call = ImportCall(m, vals, ret, sched)
        self.calls, self.pending_calls = [call], [call]
        self.budget = sched.get("budget", 0)
        out = {"key": m["key"], "kind": "import", "vals": vals, "ret": ret, "sched": dict(sched)}
        if m["result"] is not None:
            out["model_returned"] = self.rust_observe(m["result"], ret)
        self.native.send(f"DRIVE|{m['key']}|(r{''.join(' ' + v for v in vals)})")
        ans = self.await_final(out)
        f = ans.split("|")
        if f[0] != "ret":
            out["error"] = ans
        else:
            out["returned"] = None if f[1] == "cancelled" else f[1]
            out["call_report"] = bc.parse_report(f[2:])
            call.tokens.append(f"done:{int(f[1] != 'cancelled')}")
        self.finish_import(out, call)
        return out

    def finish_import(self, out, call):
        out["tokens"] = " ".join(call.tokens)
        out["import_events"] = int(call.called)
        out["lifted_args"] = call.lifted_args
        out["arg_blocks"], out["arg_live"] = call.arg_blocks, call.arg_live
        out["hostblocks"] = call.hostblocks
        out["started"], out["returned_by_host"] = call.started, call.returned
        out["host_traps"] = list(self.traps)
        out["leftover"] = {"subs": sorted(self.subs), "sets": list(self.sets)}
        out["builtins"] = list(self.builtin_log)
        if call.notes: out["notes"] = call.notes
        out["monitor"] = self.ahost.rq("monitor|import|" + out["tokens"])

    # ------------------------------------------------------------------ scenario: async export
    def plan_step(self, out):
        e = self.exp
        if e is None or not e["plan"]:
            return 0
        op = e["plan"].pop(0)
        if op == "y":
            return 1
        if op == "f":
            return 0
        # ("call", idx, ImportCall)
        _, idx, call = op
        self.calls.append(call)
        self.pending_calls.append(call)
        r = self.native.rq(f"SCRIPT|$bn#call|(r (i {idx}) (r{''.join(' ' + v for v in call.vals)}))")
        if r is None: raise Crash("SCRIPT $bn#call")
        return 2

    def task_return(self, key, bits, out):
        e = self.exp
        if e is None:
            self.trap("task-return-outside-export"); return
        e["tokens"].append("ret")
        e["drops_at_return"] = [h for _, h in out.get("handle_drops", [])]
        m = e["m"]
        e["task_return_bits"] = bits
        if m["result"] is not None:
            bs = ",".join(str(b) for b in bits) or "-"
            val, blocks, dump, live = bc.lift_loop(self.native, self.ahost, f"alifttr|{P}|{m['result']}|{bs}")
            e["lifted"], e["result_blocks"], e["result_live"] = val, blocks, live
            e["returns_lifted"] = e.get("returns_lifted", 0) + 1

    def async_export_call(self, m, vals, ret, plan=(), cancel_at=None):
        """the host calls an async-lifted export and drives its callback loop.
        plan: steps of the stub's body: "y" (yield) | ("call", adriver idx, ImportCall) ; cancel_at: index of the
        suspension (0 = the first YIELD/WAIT answered) at which the host delivers EVENT_CANCEL (None = never)"""
        self.reset_host()
        out = {"key": m["key"], "kind": "export", "vals": vals, "ret": ret, "plan": [p if isinstance(p, str) else "call" for p in plan],
               "cancel_at": cancel_at}
        self.exp = {"m": m, "plan": list(plan), "tokens": ["call"]}
        host, native = self.host, self.native
        ans = host.rq(f"args|{P}|{m['func']}|(r{''.join(' ' + v for v in vals)})")
        if ans is None: raise Crash("m_host died")
        im = bc.parse_image(ans)
        out["host_indirect"] = im["indirect"]
        out["model_observed"] = self.rust_observe(bc.params_ty(m), bc.vals_term(vals))
        r = native.rq(f"SCRIPT|{m['key']}|{ret if ret is not None else '(r)'}")
        if r is None: raise Crash("SCRIPT")
        flat, hostblocks = bc.place_image(native, im)
        out["hostblocks"] = hostblocks
        out["flat_args"] = flat
        reports = []
        native.send(f"CALL|{m['key']}|{','.join(str(x) for x in flat)}")
        suspensions = 0
        steps = 0
        while True:
            ans = self.await_final(out)
            f = ans.split("|")
            if f[0] != "ret":
                out["error"] = ans
                break
            rep = bc.parse_report(f[2:])
            reports.append(rep)
            if rep["obs"].get(m["key"]) and "user" not in self.exp["tokens"]:
                # the stub records its arguments when the user function is entered
                self.exp["tokens"].insert(1, "user")
            code = int(f[1])
            self.exp["tokens"].append(f"cb:{code & 0xf}")
            steps += 1
            if code & 0xf == EXIT or steps > 64:
                break
            if cancel_at is not None and suspensions >= cancel_at:
                ev = (EVENT_CANCEL, 0, 0)
            elif code & 0xf == YIELD:
                ev = (EVENT_NONE, 0, 0)
            elif code & 0xf == WAIT:
                s = code >> 4
                if s not in self.sets: self.trap("wait-on-unknown-set")
                if self.next_scheduled(s):
                    h = self.ready_members(s)[0]
                    ev = (EVENT_SUBTASK, h, self.take_event(h))
                else:
                    # nothing the schedule can deliver: the host cancels the task rather than deadlock
                    out["forced_cancel"] = True
                    ev = (EVENT_CANCEL, 0, 0)
            else:
                out["error"] = f"unknown callback code {code}"
                break
            suspensions += 1
            self.exp["tokens"].append(f"ev:{ev[0]}")
            native.send(f"CALL|{m['callback']}|{ev[0]},{ev[1]},{ev[2]}")
        e = self.exp
        out["reports"] = reports
        obs = [t for rep in reports for t in rep["obs"].get(m["key"], [])]
        out["observed"] = obs[0] if len(obs) == 1 else None
        out["observed_count"] = len(obs)
        out["tokens"] = " ".join(e["tokens"])
        out["lifted"] = e.get("lifted")
        out["result_blocks"] = e.get("result_blocks", [])
        out["result_live"] = e.get("result_live", {})
        out["drops_at_return"] = e.get("drops_at_return")
        out["task_returns"] = e["tokens"].count("ret")
        out["task_cancels"] = e["tokens"].count("cancel")
        out["host_traps"] = list(self.traps)
        out["leftover"] = {"subs": sorted(self.subs), "sets": list(self.sets), "ctx0": self.ctx0}
        out["builtins"] = list(self.builtin_log)
        out["monitor"] = self.ahost.rq("monitor|export|" + out["tokens"])
        out["subcalls"] = []
        for call in self.calls:
            sub = {"key": call.m["key"], "vals": call.vals, "ret": call.ret, "sched": call.sched, "kind": "import"}
            if not any(t.startswith("done:") for t in call.tokens):
                # the nested call's future is gone with the task: completed iff the stub reported its result
                done = any(n.startswith("sub-result:") for rep in reports for n in rep["notes"])
                if call.called or done: call.tokens.append(f"done:{int(done)}")
            self.finish_import(sub, call)
            sub["returned"] = next((n[len("sub-result:"):] for rep in reports for n in rep["notes"] if n.startswith("sub-result:")), None)
            out["subcalls"].append(sub)
        self.exp = None
        return out


# ---------------------------------------------------------------------------------- ledger summaries

def merge_reports(reports):
    """allocations / frees / errors over a sequence of requests (each report is relative to its own mark)"""
    allocs, frees, errs, notes = {}, [], [], []
    for rep in reports:
        for a in rep["allocs"]:
            allocs[(a["addr"], a["size"], a["align"])] = a["tag"]
        for f in rep["frees"]:
            frees.append(((f["addr"], f["size"], f["align"]), f["tag"]))
        errs += rep["errs"]
        notes += rep["notes"]
    freed = [b for b, _ in frees]
    leaked = sorted(b for b, tag in allocs.items() if tag == "G" and b not in freed)
    freed_h = sorted(b for b, tag in frees if tag == "H")
    return {"galloc": sum(1 for t in allocs.values() if t == "G"), "leaked": leaked, "freed_h": freed_h,
            "errs": errs, "notes": notes, "double": sorted(b for b in set(freed) if freed.count(b) > 1)}
