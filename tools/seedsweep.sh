#!/bin/bash
# tools/seedsweep.sh <seed>... — run every claimed property's quick check with the given seeds on the unchanged
# tree (evidence/replays redirected to /tmp/seedsweep), report the checks that exit non-zero.
cd /verif
IDS=$(python3 -c "import json; print(' '.join(p['property_id'] for p in json.load(open('MANIFEST.json'))['checks']))" 2>/dev/null || ls manifest.d | grep -o 'C[0-9]*' | sort -u | tr '\n' ' ')
for seed in "$@"; do
  for id in $IDS; do
    out=/tmp/seedsweep/$seed/$id; mkdir -p $out
    VERIF_SEED=$seed VERIF_EVIDENCE_DIR=$out/evidence VERIF_REPLAY_DIR=$out/replays nice -n 5 ./check $id quick > $out/out.txt 2>&1
    rc=$?
    echo "seed=$seed $id rc=$rc $(tail -1 $out/out.txt | cut -c1-160)"
  done
done
