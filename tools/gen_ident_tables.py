#!/usr/bin/env python3
"""Translator for C09 / C31 (DESIGN §3.1): regenerates
    lean/Witverif/Generated/RustIdent.lean   from crates/rust/src/{lib,bindgen,interface}.rs
    lean/Witverif/Generated/CppIdent.lean    from crates/c/src/lib.rs (to_c_ident, which crates/cpp imports) and crates/cpp/src/lib.rs

Extracted, from the source TEXT of the working tree:
  * the keyword-escape tables: the literal `match` arms of `to_rust_ident`, `to_upper_camel_case`, `to_c_ident`
    (arm `"k" => "v".into(),` / `.to_string(),`; default arm `s => s.to_<case>(),`).
    Round-trip guard: the parsed table is printed back in Rust syntax and must equal the function body in the
    source modulo whitespace and `//` comments; otherwise the translator FAILS (exit 2) — never a silent skip.
  * the inventory of generator-introduced local names: identifiers bound by `let` inside the string literals
    (code templates) of the backend, split into counter-suffixed bases (`ptr{tmp}`, `result{tmp}_{i}`, `handle{}`…)
    and fixed names (`ret`, `base`, `e`, …), plus the named-format temporaries pushed as operands (`format!("l{tmp}")`).
Usage: gen_ident_tables.py [--repo /repo] [--check]     (--check: do not write, exit 1 if files would change)
Prints one JSON line with fingerprints and counts."""
import re, sys, os, json, hashlib

V = os.path.dirname(os.path.dirname(os.path.abspath(__file__)))


class TranslatorError(Exception):
    pass


def strip_comments(src):
    """remove // comments outside string literals (good enough for the match bodies we extract)"""
    out, i, n = [], 0, len(src)
    while i < n:
        c = src[i]
        if c == '"':
            j = i + 1
            while j < n and src[j] != '"':
                j += 2 if src[j] == "\\" else 1
            out.append(src[i:j + 1]); i = j + 1; continue
        if src.startswith("//", i):
            while i < n and src[i] != "\n": i += 1
            continue
        out.append(c); i += 1
    return "".join(out)


def fn_body(src, header_re):
    m = re.search(header_re, src)
    if not m:
        raise TranslatorError(f"function header not found: {header_re}")
    i = src.index("{", m.end() - 1)
    depth, j, n = 0, i, len(src)
    while j < n:
        c = src[j]
        if c == '"':
            j += 1
            while src[j] != '"':
                j += 2 if src[j] == "\\" else 1
        elif c == "{": depth += 1
        elif c == "}":
            depth -= 1
            if depth == 0:
                return src[m.start():j + 1]
        j += 1
    raise TranslatorError("unbalanced braces")


ARM = re.compile(r'"((?:[^"\\]|\\.)*)"\s*=>\s*"((?:[^"\\]|\\.)*)"\s*\.\s*(into|to_string)\(\)\s*,')
# default arm: `s => s.to_<case>(),` (table matched on the WIT spelling) or `s => s.into(),` (table matched on the converted name)
DEFAULT = re.compile(r'\b([a-z_]+)\s*=>\s*\1\s*\.\s*(to_[a-z_]+|into|to_string)\(\)\s*,')
# scrutinee: `match name {` or `match name.to_<case>().as_str() {`
SCRUT = re.compile(r'match\s+name\s*(?:\.\s*(to_[a-z_]+)\(\)\s*\.\s*as_str\(\)\s*)?\{')


def extract_table(path, fn_name, sig):
    """returns (arms, conversion, on_converted, fingerprint): `on_converted` = the table is looked up on the
    case-converted name (`match name.to_snake_case().as_str()`), else on the WIT spelling (`match name`)"""
    src = open(path).read()
    body = fn_body(src, r"(pub\s+)?fn\s+" + fn_name + r"\s*\(")
    clean = strip_comments(body)
    arms = [(m.group(1), m.group(2), m.group(3)) for m in ARM.finditer(clean)]
    d = DEFAULT.search(clean)
    sc = SCRUT.search(clean)
    if not d or not sc:
        raise TranslatorError(f"{fn_name}: `match name[.to_<case>().as_str()] {{ … s => s.<conv>(), }}` shape not found")
    for k, v, _ in arms:
        if "\\" in k or "\\" in v:
            raise TranslatorError(f"{fn_name}: escape sequences in arm {k!r} are not supported")
    on_conv = sc.group(1) is not None
    if on_conv:
        conv = sc.group(1)
        if d.group(2) not in ("into", "to_string"):
            raise TranslatorError(f"{fn_name}: scrutinee is converted with {conv} but the default arm converts again with {d.group(2)}")
        scrut = f"name.{conv}().as_str()"
    else:
        conv = d.group(2)
        if not conv.startswith("to_") or conv == "to_string":
            raise TranslatorError(f"{fn_name}: default arm `{d.group(0)}` does not convert the case")
        scrut = "name"
    # round trip: re-print and compare modulo whitespace
    pub = "pub " if re.match(r"pub\s", body) else ""
    printed = f"{pub}fn {fn_name}{sig} {{ match {scrut} {{ " + " ".join(f'"{k}" => "{v}".{c}(),' for k, v, c in arms) \
        + f" {d.group(1)} => {d.group(1)}.{d.group(2)}(), }} }}"
    norm = lambda s: re.sub(r"\s+", "", s)
    if norm(printed) != norm(clean):
        a, b = norm(printed), norm(clean)
        k = next((i for i in range(min(len(a), len(b))) if a[i] != b[i]), min(len(a), len(b)))
        raise TranslatorError(f"{fn_name}: round-trip mismatch near …{b[max(0, k - 40):k + 60]}… (source) vs …{a[max(0, k - 40):k + 60]}… (re-printed)")
    keys = [k for k, _, _ in arms]
    if len(set(keys)) != len(keys):
        raise TranslatorError(f"{fn_name}: duplicate arm")
    fp = hashlib.sha256(norm(clean).encode()).hexdigest()[:16]
    return [(k, v) for k, v, _ in arms], conv, on_conv, fp


def string_literals(src):
    """contents of all string literals ("…", r"…", r#"…"#) of a Rust source text, comments skipped"""
    out, i, n = [], 0, len(src)
    while i < n:
        if src.startswith("//", i):
            while i < n and src[i] != "\n": i += 1
            continue
        if src.startswith("/*", i):
            j = src.find("*/", i + 2); i = n if j < 0 else j + 2; continue
        m = re.match(r'r(#*)"', src[i:])
        if m and (i == 0 or not (src[i - 1].isalnum() or src[i - 1] == "_")):
            h = m.group(1); start = i + len(m.group(0))
            j = src.find('"' + h, start)
            out.append(src[start:j]); i = j + 1 + len(h); continue
        c = src[i]
        if c == '"':
            j = i + 1; buf = []
            while j < n and src[j] != '"':
                if src[j] == "\\":
                    buf.append(src[j:j + 2]); j += 2
                else:
                    buf.append(src[j]); j += 1
            out.append("".join(buf).replace("\\n", "\n").replace('\\"', '"')); i = j + 1; continue
        if c == "'":
            m = re.match(r"'(\\.|[^\\'])'", src[i:])
            i += len(m.group(0)) if m else 1; continue
        i += 1
    return out


LET = re.compile(r"\blet\s+(?:mut\s+)?([A-Za-z_][A-Za-z0-9_]*)((?:\{[a-z_]*\}(?:_\{[a-z_]*\})?)?)")
TMPNAME = re.compile(r"^([A-Za-z_][A-Za-z0-9_]*?)\{(?:tmp)?\}(_\{[a-z_]*\})?$")


def extract_locals(paths):
    bases, fixed = set(), set()
    h = hashlib.sha256()
    for p in paths:
        src = open(p).read()
        lits = string_literals(src)
        for lit in lits:
            h.update(lit.encode()); h.update(b"\0")
            for m in LET.finditer(lit):
                name, suf = m.group(1), m.group(2)
                if suf: bases.add(name)
                elif name not in ("mut", "_"): fixed.add(name)
            m = TMPNAME.match(lit.strip())
            if m and "{" in lit:
                bases.add(m.group(1))
        # `let x = format!("name{tmp}")` / `format!("handle{}", self.tmp())` : counter temporaries named outside templates
        for m in re.finditer(r'format!\(\s*"([A-Za-z_][A-Za-z0-9_]*)\{(?:tmp)?\}(?:_\{[a-z]\})?"\s*(?:,\s*self\.tmp\(\)|\))', src):
            bases.add(m.group(1))
    return sorted(bases), sorted(fixed), h.hexdigest()[:16]


RUST_PRELUDE_NAMES = ["Option", "Some", "None", "Result", "Ok", "Err", "Vec", "String", "Box", "Copy", "Send", "Sized", "Sync",
                      "Unpin", "Drop", "Fn", "FnMut", "FnOnce", "AsMut", "AsRef", "From", "Into", "DoubleEndedIterator",
                      "ExactSizeIterator", "Extend", "IntoIterator", "Iterator", "Clone", "Default", "Eq", "Ord", "PartialEq",
                      "PartialOrd", "ToOwned", "ToString", "TryFrom", "TryInto", "FromIterator", "Future", "IntoFuture"]


def extract_unqualified(paths, names):
    """prelude names that occur in the code templates without a `::` path prefix (so a user type of that
    name, defined in the same module, captures them)"""
    found = set()
    for p in paths:
        for lit in string_literals(open(p).read()):
            for m in re.finditer(r"(?<![:\w])(" + "|".join(names) + r")\b(?!\s*::)", lit):
                found.add(m.group(1))
    return sorted(found)


def extract_generic_params(paths):
    """names of the generic type parameters the code templates declare (`fn f<T: …>`, `impl<T: …>`)"""
    found = set()
    for p in paths:
        for lit in string_literals(open(p).read()):
            for m in re.finditer(r"(?:\bfn\s+[a-z_][a-z0-9_]*|\bimpl)\s*<\s*([A-Z][A-Za-z0-9_]*)\s*[:>,]", lit):
                found.add(m.group(1))
    return sorted(found)


def extract_fn_names(paths):
    """names of the functions the code templates define (`fn <name>(` inside string literals)"""
    found = set()
    for p in paths:
        for lit in string_literals(open(p).read()):
            for m in re.finditer(r"\bfn\s+([a-z_][a-z0-9_]*)\s*[(<]", lit):
                found.add(m.group(1))
    return sorted(found)


# ---------------------------------------------------------------------------------------------------------
# emit_custom_section: the byte -> text escaping of the component-type literal (C09, "exactly that world")
BYTE_CLASSES = {"is_ascii_alphanumeric": "alnum", "is_ascii_punctuation": "punct", "is_ascii_graphic": "graphic",
                "is_ascii_alphabetic": "alpha", "is_ascii_digit": "digit", "is_ascii_whitespace": "whitespace",
                "is_ascii_uppercase": "upper", "is_ascii_lowercase": "lower", "is_ascii_control": "control",
                "is_ascii": "ascii", "is_ascii_hexdigit": "hexdigit"}
BCHAR = r"b'(\\.|[^'\\])'"


def bchar_val(t):
    if t.startswith("\\"):
        return {"\\\\": 92, "\\'": 39, '\\"': 34, "\\n": 10, "\\t": 9, "\\r": 13, "\\0": 0}[t]
    return ord(t)


def rust_str_val(t):
    """value of the inside of a plain Rust string literal (only the escapes used here)"""
    out, i = [], 0
    while i < len(t):
        if t[i] == "\\":
            out.append({"\\": "\\", '"': '"', "n": "\n", "t": "\t", "0": "\0"}[t[i + 1]]); i += 2
        else:
            out.append(t[i]); i += 1
    return "".join(out)


def extract_section_escape(path):
    """parse the `for byte in component_type.iter() { … match byte { arms } }` loop of emit_custom_section into
    (width, arms); arms = list of (pattern, action, declared line_length increment); re-printed and compared with the source"""
    src = open(path).read()
    body = strip_comments(fn_body(src, r"fn\s+emit_custom_section\s*\("))
    m = re.search(r"for\s+byte\s+in\s+component_type\.iter\(\)\s*\{", body)
    if not m:
        raise TranslatorError("emit_custom_section: byte loop not found")
    i = m.end() - 1
    depth, j = 0, i
    while True:
        c = body[j]
        if c == '"':
            j += 1
            while body[j] != '"':
                j += 2 if body[j] == "\\" else 1
        elif c == "'" :
            mm = re.match(r"'(\\.|[^'\\])'", body[j:])
            if mm: j += len(mm.group(0)) - 1
        elif c == "{": depth += 1
        elif c == "}":
            depth -= 1
            if depth == 0: break
        j += 1
    loop = body[i:j + 1]
    norm = lambda t: re.sub(r"\s+", "", t)
    w = re.search(r'if\s+line_length\s*>=\s*(\d+)\s*\{\s*s\.push_str\("((?:[^"\\]|\\.)*)"\);\s*line_length\s*=\s*0;\s*\}', loop)
    if not w or rust_str_val(w.group(2)) != "\\\n":
        raise TranslatorError("emit_custom_section: wrap statement `if line_length >= W { s.push_str(\"\\\\\\n\"); line_length = 0; }` not found")
    width = int(w.group(1))
    mm = re.search(r"match\s+byte\s*\{", loop)
    if not mm:
        raise TranslatorError("emit_custom_section: `match byte` not found")
    arms_txt = loop[mm.end():loop.rindex("}", 0, loop.rindex("}"))]
    arm_re = re.compile(
        r"\s*(?:(?P<byte>" + BCHAR + r")|(?P<range>" + BCHAR + r"\s*\.\.=\s*" + BCHAR + r")|(?P<int>\d+)|(?P<any>_)|b\s+if\s+(?P<guard>[^=]*?))\s*=>\s*\{"
        r"\s*(?:s\.push_str\(\"(?P<lit>(?:[^\"\\]|\\.)*)\"\)|(?P<verb>s\.push\(char::from\(\*byte\)\))|(?P<hex>uwrite!\(s,\s*\"\\\\x\{:02x\}\",\s*byte\)))\s*;"
        r"\s*line_length\s*\+=\s*(?P<inc>\d+)\s*;\s*\}")
    arms, pos, printed = [], 0, []
    while True:
        a = arm_re.match(arms_txt, pos)
        if not a: break
        pos = a.end()
        if a.group("range"):
            r2 = re.match(BCHAR + r"\s*\.\.=\s*" + BCHAR, a.group("range"))
            pat = ("range", bchar_val(r2.group(1)), bchar_val(r2.group(2))); ptxt = f"b'{r2.group(1)}'..=b'{r2.group(2)}'"
        elif a.group("byte"):
            inner = re.match(BCHAR, a.group("byte")).group(1)
            pat = ("byte", bchar_val(inner)); ptxt = f"b'{inner}'"
        elif a.group("int") is not None:
            pat = ("byte", int(a.group("int"))); ptxt = a.group("int")
        elif a.group("any"):
            pat = ("any",); ptxt = "_"
        else:
            cls = []
            for t in a.group("guard").split("||"):
                g = re.fullmatch(r"\s*b\.(is_ascii[a-z_]*)\(\)\s*", t)
                if not g or g.group(1) not in BYTE_CLASSES:
                    raise TranslatorError(f"emit_custom_section: guard `{t.strip()}` not understood")
                cls.append(g.group(1))
            pat = ("classes", [BYTE_CLASSES[c] for c in cls]); ptxt = "b if " + " || ".join(f"b.{c}()" for c in cls)
        if a.group("lit") is not None:
            act = ("lit", rust_str_val(a.group("lit"))); atxt = f's.push_str("{a.group("lit")}");'
        elif a.group("verb"):
            act = ("verbatim",); atxt = "s.push(char::from(*byte));"
        else:
            act = ("hex",); atxt = 'uwrite!(s, "\\\\x{:02x}", byte);'
        inc = int(a.group("inc"))
        arms.append((pat, act, inc))
        printed.append(f"{ptxt} => {{ {atxt} line_length += {inc}; }}")
    if norm(arms_txt[pos:]) != "" or norm("".join(printed)) != norm(arms_txt):
        raise TranslatorError("emit_custom_section: round-trip mismatch of the escape arms near …" + norm(arms_txt[pos:])[:80] + "…")
    explen = {"lit": lambda a: len(a[1]), "verbatim": lambda a: 1, "hex": lambda a: 4}
    for pat, act, inc in arms:
        if explen[act[0]](act) != inc:
            raise TranslatorError(f"emit_custom_section: arm {pat} advances line_length by {inc} but emits {explen[act[0]](act)} characters")
    fp = hashlib.sha256(norm(loop).encode()).hexdigest()[:16]
    return width, arms, fp


def lean_section(width, arms, fp):
    def pat(p):
        if p[0] == "byte": return f".byte {p[1]}"
        if p[0] == "range": return f".range {p[1]} {p[2]}"
        if p[0] == "any": return ".any"
        return ".classes [" + ", ".join("." + c for c in p[1]) + "]"
    def act(a):
        if a[0] == "lit": return f".lit {lean_str(a[1])}.toList"
        return "." + a[0]
    body = ",\n  ".join(f"({pat(p)}, {act(a)})" for p, a, _ in arms)
    return ("import Witverif.Text.ByteLitBase\n"
            f"/-! GENERATED by tools/gen_ident_tables.py — do not edit.  The byte escaping of `emit_custom_section`\n"
            f"(crates/rust/src/lib.rs), fingerprint {fp}; regenerated on every `./check C09` run. -/\n"
            "namespace Witverif.Generated.RustSection\nopen Witverif.Text.ByteLit\n\n"
            f"/-- `if line_length >= {width} {{ s.push_str(\"\\\\\\n\"); line_length = 0; }}` -/\ndef wrapWidth : Nat := {width}\n\n"
            "/-- the arms of `match byte { … }`, in source order -/\n"
            f"def arms : List (Pat × Act) := [\n  {body}]\n\nend Witverif.Generated.RustSection\n")


def lean_str(s):
    return '"' + s.replace("\\", "\\\\").replace('"', '\\"') + '"'


def lean_pairs(name, pairs, doc):
    body = ",\n  ".join(f"({lean_str(k)}.toList, {lean_str(v)}.toList)" for k, v in pairs)
    return f"/-- {doc} -/\ndef {name} : List (List Char × List Char) := [\n  {body}]\n"


def lean_bool(name, b, doc):
    return f"/-- {doc} -/\ndef {name} : Bool := {'true' if b else 'false'}\n"


def lean_list(name, items, doc):
    body = ", ".join(f"{lean_str(k)}.toList" for k in items)
    return f"/-- {doc} -/\ndef {name} : List (List Char) := [\n  {body}]\n"


def generate(repo):
    info = {}
    # ---------------- Rust
    rs = os.path.join(repo, "crates/rust/src")
    rt, rdef, ron, rfp = extract_table(os.path.join(rs, "lib.rs"), "to_rust_ident", "(name: &str) -> String")
    ct, cdef, con, cfp = extract_table(os.path.join(rs, "lib.rs"), "to_upper_camel_case", "(name: &str) -> String")
    if con:
        raise TranslatorError("to_upper_camel_case: lookup on the converted name is not modelled")
    if rdef != "to_snake_case" or cdef != "to_upper_camel_case":
        raise TranslatorError(f"unexpected default conversions {rdef}, {cdef}")
    rbases, rfixed, lfp = extract_locals([os.path.join(rs, f) for f in ("bindgen.rs", "interface.rs")])
    rfns = extract_fn_names([os.path.join(rs, f) for f in ("interface.rs", "lib.rs")])
    rgen = extract_generic_params([os.path.join(rs, f) for f in ("bindgen.rs", "interface.rs", "lib.rs")])
    runq = extract_unqualified([os.path.join(rs, f) for f in ("bindgen.rs", "interface.rs", "lib.rs")], RUST_PRELUDE_NAMES)
    swidth, sarms, sfp = extract_section_escape(os.path.join(rs, "lib.rs"))
    rust = (
        "/-! GENERATED by tools/gen_ident_tables.py — do not edit.  Regenerated from /repo's working tree on every\n"
        f"`./check C09` run.  Source fingerprints: to_rust_ident {rfp}, to_upper_camel_case {cfp}, template literals {lfp}. -/\n"
        "namespace Witverif.Generated.RustIdent\n\n"
        + lean_bool("matchOnSnake", ron, "`true`: the table is looked up on the snake-cased name (`match name.to_snake_case().as_str()`); `false`: on the WIT spelling (`match name`)")
        + "\n" + lean_pairs("escapeTable", rt, "the literal arms of `to_rust_ident` (crates/rust/src/lib.rs); every other name goes through `to_snake_case`")
        + "\n" + lean_pairs("camelTable", ct, "the literal arms of `to_upper_camel_case` (crates/rust/src/lib.rs); every other name goes through heck's `to_upper_camel_case`")
        + "\n" + lean_list("tempBases", rbases, "locals the generator names `<base><counter>` (optionally `_<index>`): bound by `let` in the code templates of bindgen.rs / interface.rs or pushed as operands")
        + "\n" + lean_list("fixedLocals", rfixed, "locals with a fixed name bound by `let` in the code templates of bindgen.rs / interface.rs")
        + "\n" + lean_list("unqualifiedPrelude", runq, "Rust prelude names that the code templates of crates/rust/src use WITHOUT a `::core::…` path: a user type with that name in the same module captures them")
        + "\n" + lean_list("generatedFnNames", rfns, "functions the code templates of interface.rs / lib.rs define by a fixed name (inherent methods of resource wrappers, trait items, helpers)")
        + "\n" + lean_list("genericParams", rgen, "generic type parameters the code templates declare (`fn as_ptr<T: GuestFoo>`, …): inside such an item a user type of that name is shadowed")
        + "\nend Witverif.Generated.RustIdent\n")
    info["rust"] = {"match_on_snake": ron, "escape_arms": len(rt), "camel_arms": len(ct), "temp_bases": rbases, "fixed_locals": len(rfixed), "unqualified_prelude": runq, "generated_fn_names": rfns, "generic_params": rgen,
                    "fingerprints": {"to_rust_ident": rfp, "to_upper_camel_case": cfp, "templates": lfp}}
    # ---------------- C / C++
    cc = os.path.join(repo, "crates/c/src/lib.rs")
    cpp = os.path.join(repo, "crates/cpp/src/lib.rs")
    if not re.search(r"use\s+wit_bindgen_c::(\{[^}]*\bto_c_ident\b[^}]*\}|to_c_ident)\s*;", open(cpp).read()):
        raise TranslatorError("crates/cpp/src/lib.rs no longer imports wit_bindgen_c::to_c_ident")
    tt, tdef, ton, tfp = extract_table(cc, "to_c_ident", "(name: &str) -> String")
    if tdef != "to_snake_case":
        raise TranslatorError(f"unexpected default conversion {tdef}")
    pbases, pfixed, pfp = extract_locals([cpp])
    cppl = (
        "/-! GENERATED by tools/gen_ident_tables.py — do not edit.  Regenerated from /repo's working tree on every\n"
        f"`./check C31` run.  Source fingerprints: to_c_ident {tfp}, crates/cpp template literals {pfp}. -/\n"
        "namespace Witverif.Generated.CppIdent\n\n"
        + lean_bool("matchOnSnake", ton, "`true`: the table is looked up on the snake-cased name; `false`: on the WIT spelling")
        + "\n" + lean_pairs("escapeTable", tt, "the literal arms of `to_c_ident` (crates/c/src/lib.rs, imported by crates/cpp/src/lib.rs); every other name goes through `to_snake_case`")
        + "\n" + lean_list("tempBases", pbases, "locals the C++ generator names `<base><counter>`: bound in the code templates of crates/cpp/src/lib.rs")
        + "\n" + lean_list("fixedLocals", pfixed, "locals with a fixed name declared by `let`-free templates are not inventoried for C++; names bound by `auto`/typed declarations are found by the validation run only")
        + "\nend Witverif.Generated.CppIdent\n")
    info["cpp"] = {"match_on_snake": ton, "escape_arms": len(tt), "temp_bases": pbases, "fingerprints": {"to_c_ident": tfp, "templates": pfp}}
    info["rust"]["section_escape"] = {"width": swidth, "arms": len(sarms), "fingerprint": sfp}
    return {"RustIdent.lean": rust, "RustSection.lean": lean_section(swidth, sarms, sfp), "CppIdent.lean": cppl}, info


def main():
    args = sys.argv[1:]
    repo = args[args.index("--repo") + 1] if "--repo" in args else os.environ.get("VERIF_REPO", "/repo")
    only = args[args.index("--only") + 1] if "--only" in args else None
    try:
        files, info = generate(repo)
    except TranslatorError as e:
        print(json.dumps({"translator_error": str(e)}))
        return 2
    changed = []
    for name, text in files.items():
        if only and not name.lower().startswith(only): continue
        p = os.path.join(V, "lean", "Witverif", "Generated", name)
        old = open(p).read() if os.path.exists(p) else None
        if old != text:
            changed.append(name)
            if "--check" not in args:
                tmp = p + f".tmp{os.getpid()}"      # never expose a half-written file to a concurrent `lake build`
                with open(tmp, "w") as f:
                    f.write(text)
                os.replace(tmp, p)
    info["changed"] = changed
    print(json.dumps(info))
    return 1 if ("--check" in args and changed) else 0


if __name__ == "__main__":
    sys.exit(main())
